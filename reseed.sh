#!/bin/sh
# reseed.sh [tier]: re-runs the owning check(s) against every kept seeded change (/verif/seeded) and every own
# mutant (/verif/mutants) with --mutant (overlay substitution, /repo untouched) and prints one line per patch:
#   <name> <property> exit=<0|1|2> keys=...      exit 1 = reported (wanted), 0 = MISSED, 2 = engine error
cd "$(dirname "$0")" || exit 2
tier="${1:-quick}"
# RESEED_PROPS="C14 C18" restricts the run to the seeds and mutants of these properties, in this order (default: all);
# VERIF_FIRST=1 (set here) makes the driver skip the shards not yet started once a violation is reported
export VERIF_FIRST=1
props_order="${RESEED_PROPS:-C01 C02 C03 C04 C05 C06 C07 C08 C09 C10 C11 C12 C13 C14 C15 C16 C17 C18 C19 C20}"
for pp in $props_order; do
for d in seeded/$pp-*/; do
  n=$(basename "$d")
  [ -f "$d/patch.diff" ] || continue
  props=$(python3 -c "
import json
m=json.load(open('$d/meta.json'))
ps=m.get('detected_by') or [m['property']]
print(' '.join(ps))")
  for p in $props; do
    out=$(./check $p $tier --mutant "$d/patch.diff" 2>&1); rc=$?
    echo "seed $n $p exit=$rc $(echo "$out" | grep '^  key:' | head -2 | tr '\n' ' ' | cut -c1-160)"
    [ $rc = 1 ] && break
  done
done
for m in mutants/$pp*.patch; do
  [ -f "$m" ] || continue
  p=$(basename "$m" | cut -c1-3)
  out=$(./check $p $tier --mutant "$m" 2>&1); rc=$?
  echo "mutant $(basename $m) $p exit=$rc $(echo "$out" | grep '^  key:' | head -1 | cut -c1-120)"
done
done
