#!/bin/sh
# reseed.sh [tier]: re-runs the owning check(s) against every kept seeded change (/verif/seeded) and every own
# mutant (/verif/mutants) with --mutant (overlay substitution, /repo untouched) and prints one line per patch:
#   <name> <property> exit=<0|1|2> keys=...      exit 1 = reported (wanted), 0 = MISSED, 2 = engine error
cd "$(dirname "$0")" || exit 2
tier="${1:-quick}"
for d in seeded/*/; do
  n=$(basename "$d")
  [ -f "$d/patch.diff" ] || continue
  props=$(python3 -c "
import json
m=json.load(open('$d/meta.json'))
ps=m.get('detected_by') or [m['property']]
print(' '.join(ps))")
  for p in $props; do
    out=$(./check $p $tier --mutant "$d/patch.diff" 2>&1); rc=$?
    echo "seed $n $p exit=$rc $(echo "$out" | grep '^  key:' | head -2 | tr '\n' ' ' | cut -c1-160)"
    [ $rc = 1 ] && break
  done
done
for m in mutants/*.patch; do
  p=$(basename "$m" | cut -c1-3)
  out=$(./check $p $tier --mutant "$m" 2>&1); rc=$?
  echo "mutant $(basename $m) $p exit=$rc $(echo "$out" | grep '^  key:' | head -1 | cut -c1-120)"
done
