// Package lin checks call/return histories of a byte-array file against its sequential
// specification with porcupine (linearizability, real-time order respected).
package lin

import (
	"fmt"

	"github.com/anishathalye/porcupine"
)

// Op is one completed file operation.
type Op struct {
	Client int
	Kind   string // "read", "write", "size"
	Off    int
	Data   string // write: data written; read: data returned
	N      int    // read: requested length; size: returned size
	Call   int64
	Return int64
}

func (o Op) String() string {
	switch o.Kind {
	case "read":
		return fmt.Sprintf("c%d read(%d,%d)=%q [%d,%d]", o.Client, o.Off, o.N, o.Data, o.Call, o.Return)
	case "write":
		return fmt.Sprintf("c%d write(%d,%q) [%d,%d]", o.Client, o.Off, o.Data, o.Call, o.Return)
	}
	return fmt.Sprintf("c%d size()=%d [%d,%d]", o.Client, o.N, o.Call, o.Return)
}

// Linearizable reports whether the history can be explained by one sequential order on a plain
// byte-array file with the given initial content.
func Linearizable(initial string, ops []Op) bool {
	model := porcupine.Model{
		Init: func() interface{} { return initial },
		Step: func(state, input, output interface{}) (bool, interface{}) {
			s := state.(string)
			o := input.(Op)
			switch o.Kind {
			case "read":
				end := o.Off + o.N
				if end > len(s) {
					end = len(s)
				}
				want := ""
				if o.Off < len(s) {
					want = s[o.Off:end]
				}
				return want == o.Data, s
			case "write":
				b := []byte(s)
				for len(b) < o.Off+len(o.Data) {
					b = append(b, 0)
				}
				copy(b[o.Off:], o.Data)
				return true, string(b)
			case "size":
				return o.N == len(s), s
			}
			return false, s
		},
		Equal: func(a, b interface{}) bool { return a.(string) == b.(string) },
	}
	var h []porcupine.Operation
	for _, o := range ops {
		h = append(h, porcupine.Operation{ClientId: o.Client, Input: o, Output: nil, Call: o.Call, Return: o.Return})
	}
	return porcupine.CheckOperations(model, h)
}
