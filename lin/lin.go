// Package lin checks call/return histories of a byte-array file against its sequential
// specification with porcupine (linearizability, real-time order respected).
package lin

import (
	"fmt"

	"github.com/anishathalye/porcupine"
)

// Op is one completed file operation.
type Op struct {
	Client int
	Kind   string // "read", "write", "size"; "pread", "pwrite": at the handle's own position, which they advance
	Handle int    // pread/pwrite: which handle's position
	Off    int
	Data   string // write: data written; read: data returned
	N      int    // read: requested length; size: returned size
	Call   int64
	Return int64
}

func clip(d string) string {
	if len(d) <= 64 {
		return d
	}
	k := 0
	for k < len(d) && d[k] == d[0] {
		k++
	}
	return fmt.Sprintf("%c..%c (len %d, first change at %d)", d[0], d[len(d)-1], len(d), k)
}

func (o Op) String() string {
	o.Data = clip(o.Data)
	switch o.Kind {
	case "read":
		return fmt.Sprintf("c%d read(%d,%d)=%q [%d,%d]", o.Client, o.Off, o.N, o.Data, o.Call, o.Return)
	case "write":
		return fmt.Sprintf("c%d write(%d,%q) [%d,%d]", o.Client, o.Off, o.Data, o.Call, o.Return)
	case "pread":
		return fmt.Sprintf("c%d h%d.Read(%d)=%q [%d,%d]", o.Client, o.Handle, o.N, o.Data, o.Call, o.Return)
	case "pwrite":
		return fmt.Sprintf("c%d h%d.Write(%q) [%d,%d]", o.Client, o.Handle, o.Data, o.Call, o.Return)
	}
	return fmt.Sprintf("c%d size()=%d [%d,%d]", o.Client, o.N, o.Call, o.Return)
}

// Linearizable reports whether the history can be explained by one sequential order on a plain
// byte-array file with the given initial content.
type fileState struct {
	s   string
	pos [4]int // positions of up to four handles
}

func Linearizable(initial string, ops []Op) bool {
	model := porcupine.Model{
		Init: func() interface{} { return fileState{s: initial} },
		Step: func(state, input, output interface{}) (bool, interface{}) {
			fs := state.(fileState)
			s := fs.s
			o := input.(Op)
			switch o.Kind {
			case "pread":
				p := fs.pos[o.Handle]
				end := min(p+o.N, len(s))
				want := ""
				if p < len(s) {
					want = s[p:end]
				}
				fs.pos[o.Handle] = p + len(want)
				return want == o.Data, fs
			case "pwrite":
				p := fs.pos[o.Handle]
				b := []byte(s)
				for len(b) < p+len(o.Data) {
					b = append(b, 0)
				}
				copy(b[p:], o.Data)
				fs.s = string(b)
				fs.pos[o.Handle] = p + len(o.Data)
				return true, fs
			}
			switch o.Kind {
			case "read":
				end := o.Off + o.N
				if end > len(s) {
					end = len(s)
				}
				want := ""
				if o.Off < len(s) {
					want = s[o.Off:end]
				}
				return want == o.Data, fs
			case "write":
				b := []byte(s)
				for len(b) < o.Off+len(o.Data) {
					b = append(b, 0)
				}
				copy(b[o.Off:], o.Data)
				fs.s = string(b)
				return true, fs
			case "size":
				return o.N == len(s), fs
			}
			return false, fs
		},
		Equal: func(a, b interface{}) bool { return a.(fileState) == b.(fileState) },
	}
	var h []porcupine.Operation
	for _, o := range ops {
		h = append(h, porcupine.Operation{ClientId: o.Client, Input: o, Output: nil, Call: o.Call, Return: o.Return})
	}
	return porcupine.CheckOperations(model, h)
}
