#!/usr/bin/env python3
"""merge known_findings.json of a branch into the current one (union on (property,key))."""
import json, subprocess, sys
br=sys.argv[1]
a=json.loads(subprocess.check_output(['git','show',br+':known_findings.json']))
m=json.loads(subprocess.check_output(['git','show','HEAD:known_findings.json']))
keys={(f['property'],f['key']) for f in m['findings']}
for f in a['findings']:
    if (f['property'],f['key']) not in keys:
        m['findings'].append(f); print("added", f['property'], f['key'])
json.dump(m, open('/verif/known_findings.json','w'), indent=1)
