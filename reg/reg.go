// Package reg is the registry through which the white-box check bodies (files of package sftp
// overlaid from /verif/harness) are found by the worker binary, and the result format they share.
package reg

import (
	"encoding/json"
	"fmt"
	"os"
	"sort"
	"time"
)

// Violation is one confirmed failure of a property.
type Violation struct {
	Property string   `json:"property"`
	Part     string   `json:"part"`
	Key      string   `json:"key"` // stable identity of what fails: call site / input / history (known-findings are matched on it)
	Msg      string   `json:"msg"`
	Replay   any      `json:"replay,omitempty"` // choice list, input bytes or operation sequence that reproduces it
	Trace    []string `json:"trace,omitempty"`
}

// Result is what one run of one part (one shard) reports.
type Result struct {
	Part        string           `json:"part"`
	Evaluations int64            `json:"evaluations"`
	States      int64            `json:"states"`
	Transitions int64            `json:"transitions"`
	Outcomes    map[string]int64 `json:"outcomes"` // fingerprint of what the oracle looked at -> executions
	Nontrivial  map[string]bool  `json:"nontrivial"`
	Samples     []any            `json:"samples"`
	Violations  []Violation      `json:"violations"`
	Exhaustive  bool             `json:"exhaustive"`
	Bound       string           `json:"bound"` // highest completed bound, in words
	Validated   int64            `json:"validated"`
	Distinct    int64            `json:"distinct"` // distinct non-trivial cases counted directly (added to len(Nontrivial))
	Notes       map[string]any   `json:"notes,omitempty"`
	WallS       float64          `json:"wall_s"`
	EngineError string           `json:"engine_error,omitempty"`
}

func NewResult(part string) *Result {
	return &Result{Part: part, Outcomes: map[string]int64{}, Nontrivial: map[string]bool{}, Exhaustive: true, Notes: map[string]any{}}
}

// Case counts one evaluated case. distinctKey identifies the case for the distinct count ("" = not
// counted as non-trivial).
func (r *Result) Case(distinctKey string) {
	r.Evaluations++
	if distinctKey != "" {
		if len(r.Nontrivial) < 2_000_000 {
			r.Nontrivial[distinctKey] = true
		}
	}
}

func (r *Result) Outcome(fp string) { r.Outcomes[fp]++ }

func (r *Result) Sample(v any) {
	if len(r.Samples) < 4 {
		r.Samples = append(r.Samples, v)
	}
}

// Violate records a violation (deduplicated on key, at most 50 kept).
func (r *Result) Violate(prop, key, msg string, replay any, trace []string) {
	for _, v := range r.Violations {
		if v.Key == key {
			return
		}
	}
	if len(r.Violations) >= 50 {
		return
	}
	r.Violations = append(r.Violations, Violation{Property: prop, Part: r.Part, Key: key, Msg: msg, Replay: replay, Trace: trace})
}

// Ctx is what a part receives.
type Ctx struct {
	Property string
	Part     string
	Tier     string
	Seed     int64
	Shard    int
	NShards  int
	Deadline time.Time
	Args     map[string]string
	Replay   json.RawMessage // non-nil: re-execute this single case and report
}

func (c *Ctx) Quick() bool { return c.Tier != "thorough" }
func (c *Ctx) Arg(k, def string) string {
	if v, ok := c.Args[k]; ok {
		return v
	}
	return def
}
func (c *Ctx) ArgInt(k string, def int) int {
	if v, ok := c.Args[k]; ok {
		var n int
		fmt.Sscan(v, &n)
		return n
	}
	return def
}
func (c *Ctx) Expired() bool { return !c.Deadline.IsZero() && time.Now().After(c.Deadline) }

// Mine reports whether case number i belongs to this shard.
func (c *Ctx) Mine(i int64) bool { return c.NShards <= 1 || int(i%int64(c.NShards)) == c.Shard }

// Job is one unit the driver schedules: a part with arguments, run as Shards processes.
type Job struct {
	Part     string            `json:"part"`
	Build    string            `json:"build"` // "plain", "instr", "instr-w2", "instr-w3"
	Args     map[string]string `json:"args,omitempty"`
	Shards   int               `json:"shards"`
	BudgetS  int               `json:"budget_s"` // internal deadline (exit 0 with exhaustive:false afterwards)
	Procs    int               `json:"procs"`    // GOMAXPROCS per shard (default 1)
	Optional bool              `json:"optional"` // result reported but an unfinished run does not lower the claimed bound
	Label    string            `json:"label"`
}

type PartFunc func(*Ctx) *Result

type Property struct {
	ID          string
	Level       string // evidence level
	Rule        string // how cases are enumerated / what is non-trivial
	Assumptions []string
	Jobs        func(tier string) []Job
}

var (
	parts = map[string]PartFunc{}
	props = map[string]*Property{}
)

func Part(name string, f PartFunc) {
	if _, dup := parts[name]; dup {
		panic("duplicate part " + name)
	}
	parts[name] = f
}
func Prop(p *Property) { props[p.ID] = p }

func LookupPart(name string) PartFunc { return parts[name] }
func LookupProp(id string) *Property  { return props[id] }
func Props() []string {
	var r []string
	for k := range props {
		r = append(r, k)
	}
	sort.Strings(r)
	return r
}

// Announce records the case that is about to be executed (key = identity for known findings,
// desc = human-readable). If the worker process then dies of an unrecoverable runtime error
// (fatal error: out of memory), the driver attributes the crash to the announced case and reports
// it as a violation instead of an engine error. No-op unless the driver asked for it.
func Announce(key, desc string) {
	if announcePath == "" {
		return
	}
	os.WriteFile(announcePath, []byte(key+"\n"+desc), 0o644)
}

var announcePath = os.Getenv("VERIF_ANNOUNCE")
