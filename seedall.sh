#!/bin/sh
# seedall.sh <root, e.g. /tmp/seed2> <offset added to the seed number, e.g. 2>
# runs seedcheck.py on every delivered seed under <root> that has not been processed yet
root="${1:-/tmp/seed}"; off="${2:-0}"
cd /verif
for d in $root/C*/SEED/[12]; do
  [ -f "$d/patch.diff" ] || continue
  id=$(echo "$d" | sed 's#.*/\(C[0-9]*\)/SEED/[12]#\1#'); n=$(( $(basename "$d") + off ))
  [ -f "/verif/seeded/$id-$n/meta.json" ] && continue
  grep -q "^$id-$n " /tmp/seedall.done 2>/dev/null && continue
  echo "=== $id-$n $(date +%H:%M:%S)"
  python3 seedcheck.py "$d" "$id" --name=$n > /tmp/seedcheck-$id-$n.json 2>&1
  python3 -c "
import json,sys
try:
  t=open('/tmp/seedcheck-$id-$n.json').read(); j=json.loads(t[t.index('{'):])
  print('$id-$n', 'valid' if j['valid'] else 'INVALID', 'detected_by', j['detected_by'], {k:(v['exit'],v['wall_s']) for k,v in j['checks'].items()})
except Exception as e: print('$id-$n', 'ERROR', e)
"
  echo "$id-$n done" >> /tmp/seedall.done
done
