#!/bin/sh
# runs seedcheck.py on every delivered seed that has not been processed yet
cd /verif
for d in /tmp/seed/C*/SEED/[12]; do
  [ -f "$d/patch.diff" ] || continue
  id=$(echo "$d" | sed 's#/tmp/seed/\(C[0-9]*\)/SEED/\([12]\)#\1#'); n=$(basename "$d")
  [ -f "/verif/seeded/$id-$n/meta.json" ] && continue
  grep -q "^$id-$n " /tmp/seedall.done 2>/dev/null && continue
  echo "=== $id-$n $(date +%H:%M:%S)"
  python3 seedcheck.py "$d" "$id" > /tmp/seedcheck-$id-$n.json 2>&1
  python3 -c "
import json,sys
try:
  t=open('/tmp/seedcheck-$id-$n.json').read(); j=json.loads(t[t.index('{'):])
  print('$id-$n', 'valid' if j['valid'] else 'INVALID', 'detected_by', j['detected_by'], {k:(v['exit'],v['wall_s']) for k,v in j['checks'].items()})
except Exception as e: print('$id-$n', 'ERROR', e)
"
  echo "$id-$n done" >> /tmp/seedall.done
done
