//go:build verif

package sftp

// C10 "The request server is a faithful adapter in both directions" – shared pieces and the
// inbound tables (DESIGN.md §3 C10). Engine B: the real RequestServer runs free on in-memory pipes
// (bServeRS); requests are raw packets produced by an encoder written here from the draft (not
// the package's marshalling code), sent lock-step (one request, await its response), so the
// verdict is schedule independent. The handlers are recording objects in every combination of
// the optional interfaces, built from embedded mix-in structs.
//
// Oracle (inbound): exactly one call of the matching handler method per request, carrying the
// method name, open flags, attribute flags/values that were sent, and paths equal to an
// independently written lexical clean(start, p) that also satisfy the confinement predicate for
// several roots; symlink target text and the custom real-path argument verbatim.

import (
	"encoding/binary"
	"encoding/hex"
	"errors"
	"fmt"
	"io"
	"os"
	"path"
	"path/filepath"
	"reflect"
	"sort"
	"strings"
	"sync"
	"time"

	"verif/reg"
)

// ---------------------------------------------------------------------------------------------
// independent wire encoder / decoder (draft-ietf-secsh-filexfer-02)

func c10Pkt(typ byte, id uint32, fields ...any) []byte {
	b := []byte{0, 0, 0, 0, typ}
	b = binary.BigEndian.AppendUint32(b, id)
	for _, f := range fields {
		switch v := f.(type) {
		case string:
			b = binary.BigEndian.AppendUint32(b, uint32(len(v)))
			b = append(b, v...)
		case uint32:
			b = binary.BigEndian.AppendUint32(b, v)
		case uint64:
			b = binary.BigEndian.AppendUint64(b, v)
		case []byte:
			b = append(b, v...)
		default:
			panic(fmt.Sprintf("c10Pkt: %T", f))
		}
	}
	binary.BigEndian.PutUint32(b, uint32(len(b)-4))
	return b
}

// c10rd is a bounds-checked cursor over a response body.
type c10rd struct {
	b   []byte
	bad bool
}

func (r *c10rd) u32() uint32 {
	if len(r.b) < 4 {
		r.bad = true
		return 0
	}
	v := binary.BigEndian.Uint32(r.b)
	r.b = r.b[4:]
	return v
}
func (r *c10rd) u64() uint64 {
	if len(r.b) < 8 {
		r.bad = true
		return 0
	}
	v := binary.BigEndian.Uint64(r.b)
	r.b = r.b[8:]
	return v
}
func (r *c10rd) str() string {
	n := r.u32()
	if r.bad || uint64(n) > uint64(len(r.b)) {
		r.bad = true
		return ""
	}
	s := string(r.b[:n])
	r.b = r.b[n:]
	return s
}

// c10WireAttrs is a decoded ATTRS structure.
type c10WireAttrs struct {
	Flags            uint32
	Size             uint64
	UID, GID         uint32
	Perm             uint32
	Atime, Mtime     uint32
	Ext              [][2]string
	hasSize, hasPerm bool
}

func (r *c10rd) attrs() c10WireAttrs {
	var a c10WireAttrs
	a.Flags = r.u32()
	if a.Flags&0x1 != 0 {
		a.Size = r.u64()
	}
	if a.Flags&0x2 != 0 {
		a.UID, a.GID = r.u32(), r.u32()
	}
	if a.Flags&0x4 != 0 {
		a.Perm = r.u32()
	}
	if a.Flags&0x8 != 0 {
		a.Atime, a.Mtime = r.u32(), r.u32()
	}
	if a.Flags&0x80000000 != 0 {
		n := r.u32()
		for i := uint32(0); i < n && !r.bad; i++ {
			a.Ext = append(a.Ext, [2]string{r.str(), r.str()})
		}
	}
	return a
}

type c10Status struct {
	Code uint32
	Msg  string
}

func c10ParseStatus(f frame) (c10Status, bool) {
	if f.typ != sshFxpStatus {
		return c10Status{}, false
	}
	r := &c10rd{b: f.body}
	r.u32()
	st := c10Status{Code: r.u32()}
	st.Msg = r.str()
	return st, !r.bad
}

func c10ParseHandle(f frame) (string, bool) {
	if f.typ != sshFxpHandle {
		return "", false
	}
	r := &c10rd{b: f.body}
	r.u32()
	h := r.str()
	return h, !r.bad
}

type c10NameEntry struct {
	Name, Long string
	Attrs      c10WireAttrs
}

func c10ParseName(f frame) ([]c10NameEntry, bool) {
	if f.typ != sshFxpName {
		return nil, false
	}
	r := &c10rd{b: f.body}
	r.u32()
	n := r.u32()
	var out []c10NameEntry
	for i := uint32(0); i < n && !r.bad; i++ {
		e := c10NameEntry{Name: r.str(), Long: r.str()}
		e.Attrs = r.attrs()
		out = append(out, e)
	}
	return out, !r.bad && len(r.b) == 0
}

// marker attribute values: every field distinct so that a swap or a wrong offset shows.
const (
	c10MSize  = uint64(0x1122334455667788)
	c10MUID   = uint32(0xA1A2A3A4)
	c10MGID   = uint32(0xB1B2B3B4)
	c10MPerm  = uint32(0x000081ED)
	c10MAtime = uint32(0xD1D2D3D4)
	c10MMtime = uint32(0xE1E2E3E4)
	c10MExtT  = "marker@verif"
	c10MExtD  = "d\x00\xffz"
)

// c10AttrBytes encodes the marker attributes selected by flags (without the flags word).
func c10AttrBytes(flags uint32) []byte {
	var b []byte
	if flags&0x1 != 0 {
		b = binary.BigEndian.AppendUint64(b, c10MSize)
	}
	if flags&0x2 != 0 {
		b = binary.BigEndian.AppendUint32(b, c10MUID)
		b = binary.BigEndian.AppendUint32(b, c10MGID)
	}
	if flags&0x4 != 0 {
		b = binary.BigEndian.AppendUint32(b, c10MPerm)
	}
	if flags&0x8 != 0 {
		b = binary.BigEndian.AppendUint32(b, c10MAtime)
		b = binary.BigEndian.AppendUint32(b, c10MMtime)
	}
	if flags&0x80000000 != 0 {
		b = binary.BigEndian.AppendUint32(b, 1)
		b = binary.BigEndian.AppendUint32(b, uint32(len(c10MExtT)))
		b = append(b, c10MExtT...)
		b = binary.BigEndian.AppendUint32(b, uint32(len(c10MExtD)))
		b = append(b, c10MExtD...)
	}
	return b
}

// c10WantStat is what Request.Attributes() must show for the marker attributes.
func c10WantStat(flags uint32) FileStat {
	var fs FileStat
	if flags&0x1 != 0 {
		fs.Size = c10MSize
	}
	if flags&0x2 != 0 {
		fs.UID, fs.GID = c10MUID, c10MGID
	}
	if flags&0x4 != 0 {
		fs.Mode = c10MPerm
	}
	if flags&0x8 != 0 {
		fs.Atime, fs.Mtime = c10MAtime, c10MMtime
	}
	if flags&0x80000000 != 0 {
		fs.Extended = []StatExtended{{ExtType: c10MExtT, ExtData: c10MExtD}}
	}
	return fs
}

func c10WantAttrFlags(flags uint32) FileAttrFlags {
	return FileAttrFlags{Size: flags&0x1 != 0, UidGid: flags&0x2 != 0, Permissions: flags&0x4 != 0, Acmodtime: flags&0x8 != 0}
}

func c10WantPflags(f uint32) FileOpenFlags {
	return FileOpenFlags{Read: f&0x1 != 0, Write: f&0x2 != 0, Append: f&0x4 != 0, Creat: f&0x8 != 0, Trunc: f&0x10 != 0, Excl: f&0x20 != 0}
}

// all 32 subsets of {size, uidgid, permissions, acmodtime, extended}
func c10AttrSubsets() []uint32 {
	var out []uint32
	for m := 0; m < 32; m++ {
		f := uint32(m & 0xf)
		if m&0x10 != 0 {
			f |= 0x80000000
		}
		out = append(out, f)
	}
	return out
}

// ---------------------------------------------------------------------------------------------
// reference path cleaning, written without path.Clean / filepath.Clean

// c10Clean returns the absolute lexically clean form of p relative to the (already clean,
// absolute) directory base: segments split on '/', "" and "." dropped, ".." pops and stops at the
// root. Every other byte (NUL, 0xff, space) is an ordinary name byte.
func c10Clean(base, p string) string {
	if !strings.HasPrefix(p, "/") {
		p = base + "/" + p
	}
	var st []string
	for _, seg := range strings.Split(p, "/") {
		switch seg {
		case "", ".":
		case "..":
			if len(st) > 0 {
				st = st[:len(st)-1]
			}
		default:
			st = append(st, seg)
		}
	}
	return "/" + strings.Join(st, "/")
}

// c10StartDir is what WithStartDirectory(d) must establish as base.
func c10StartDir(d string) string { return c10Clean("/", d) }

var c10Roots = []string{"/srv/jail", "/a", "/home/u"}

// c10Confined is the property's confinement predicate: joined under root the path stays inside.
func c10Confined(fp string) string {
	if !strings.HasPrefix(fp, "/") {
		return "not absolute"
	}
	for _, root := range c10Roots {
		if !strings.HasPrefix(filepath.Join(root, fp)+"/", root+"/") {
			return fmt.Sprintf("filepath.Join(%q, %q) = %q escapes the root", root, fp, filepath.Join(root, fp))
		}
	}
	// lexically clean: no empty, "." or ".." segment
	if fp != "/" {
		for _, seg := range strings.Split(fp[1:], "/") {
			if seg == "" || seg == "." || seg == ".." {
				return fmt.Sprintf("not lexically clean (segment %q)", seg)
			}
		}
	}
	return ""
}

// c10Paths: all strings of length <= 4 over {'/', '.', 'a', 0xff} (341) plus long adversarial ones.
func c10Paths() []string { return c10PathCorpus("base") }

// c10PathCorpus("big") adds all strings of length 5 over the same alphabet and all strings of
// length <= 3 over {'/', '.', 'a', 0xff, NUL, ' ', '\\'} (thorough tier).
func c10PathCorpus(which string) []string {
	alpha := []byte{'/', '.', 'a', 0xff}
	out := []string{""}
	prev := []string{""}
	maxLen := 4
	if which == "big" {
		maxLen = 5
	}
	for l := 1; l <= maxLen; l++ {
		var cur []string
		for _, s := range prev {
			for _, c := range alpha {
				cur = append(cur, s+string([]byte{c}))
			}
		}
		out = append(out, cur...)
		prev = cur
	}
	if which == "big" {
		alpha2 := []byte{'/', '.', 'a', 0xff, 0, ' ', '\\'}
		seen := map[string]bool{}
		for _, s := range out {
			seen[s] = true
		}
		prev = []string{""}
		for l := 1; l <= 3; l++ {
			var cur []string
			for _, s := range prev {
				for _, c := range alpha2 {
					cur = append(cur, s+string([]byte{c}))
				}
			}
			for _, s := range cur {
				if !seen[s] {
					out = append(out, s)
				}
			}
			prev = cur
		}
	}
	out = append(out,
		"../../../../../../etc/passwd",
		"/../../../..",
		"a/../../../b",
		"./././././.",
		"//////a//////b//////",
		"a/./b/../../../../c/.",
		"/a/b/c/../../../../..",
		strings.Repeat("../", 50)+"x",
		strings.Repeat("a/", 40)+strings.Repeat("../", 41),
		"/."+strings.Repeat("/..", 30)+"/.",
		"a\x00/../b",
		"\x00",
		"..\x00/..",
		"../\xff\xfe/..",
		"/home/u/../../..",
		"....//....//",
		".../...",
		"a/b/../../../home/u/../../x",
		"/ /../ ",
		"..a/a../..",
		strings.Repeat("a", 300),
		"/./../",
		"/home/u/./x/../../u/../../srv/jail/../..",
		"\xe2\x80\xa6/..\xe2\x80\xa6/../..",
	)
	return out
}

var c10Starts = []string{"/", "/home/u", "rel/../x/"}

// ---------------------------------------------------------------------------------------------
// recording handlers

type c10Call struct {
	Site     string // handler or object method that was entered
	Method   string
	Filepath string
	Target   string
	Flags    uint32
	Attrs    string
	Pf       FileOpenFlags
	Af       FileAttrFlags
	Fs       *FileStat
	Arg      string // RealPath / Readlink argument
	Off      int64
	Len      int
	Data     string
	Kind     string // which object (Get/Put/Open/List/Stat...) for object methods
}

func (c c10Call) String() string {
	switch c.Site {
	case "RealPath", "Readlink":
		return fmt.Sprintf("%s(%q)", c.Site, c.Arg)
	case "ReadAt", "WriteAt", "ListAt", "Close", "ListerClose":
		return fmt.Sprintf("%s[%s](len=%d off=%d data=%q)", c.Site, c.Kind, c.Len, c.Off, c.Data)
	}
	return fmt.Sprintf("%s(Method=%q Filepath=%q Target=%q Flags=%#x Attrs=%x)", c.Site, c.Method, c.Filepath, c.Target, c.Flags, c.Attrs)
}

// c10Rec is shared by all handler objects of one session: the call log and the programmed
// outbound behaviour.
type c10Rec struct {
	mu    sync.Mutex
	calls []c10Call

	fail     map[string]error // site -> error to return ("Filecmd", "Filelist:Stat", "ReadAt", ...)
	info     os.FileInfo      // what Stat/Lstat listers hold (nil: default)
	entries  []os.FileInfo    // what List listers hold
	data     []byte           // file content for ReadAt
	readN    int              // >=0 with readSet: ReadAt returns (readN, readErr) after copying
	readErr  error
	readSet  bool
	realpath string
	link     string
	vfs      *StatVFS
}

func newC10Rec() *c10Rec {
	return &c10Rec{fail: map[string]error{}, data: []byte("0123456789"), entries: []os.FileInfo{c10DefaultInfo}}
}

func (r *c10Rec) take() []c10Call {
	r.mu.Lock()
	defer r.mu.Unlock()
	c := r.calls
	r.calls = nil
	return c
}

func (r *c10Rec) add(c c10Call) {
	r.mu.Lock()
	r.calls = append(r.calls, c)
	r.mu.Unlock()
}

func (r *c10Rec) failure(site string) error {
	r.mu.Lock()
	defer r.mu.Unlock()
	return r.fail[site]
}

func (r *c10Rec) req(site string, q *Request) {
	c := c10Call{Site: site, Method: q.Method, Filepath: q.Filepath, Target: q.Target, Flags: q.Flags, Attrs: string(q.Attrs),
		Pf: q.Pflags(), Af: q.AttrFlags()}
	if fs := q.Attributes(); fs != nil {
		cp := *fs
		c.Fs = &cp
	}
	r.add(c)
}

// c10Info is a FileInfo with explicit uid/gid (FileInfoUidGid).
type c10Info struct {
	name     string
	size     int64
	mode     os.FileMode
	mtime    int64
	uid, gid uint32
	sys      any // what Sys() returns; the owner stated through Uid()/Gid() is what the client is to see
}

func (i c10Info) Name() string       { return i.name }
func (i c10Info) Size() int64        { return i.size }
func (i c10Info) Mode() os.FileMode  { return i.mode }
func (i c10Info) ModTime() time.Time { return time.Unix(i.mtime, 0) }
func (i c10Info) IsDir() bool        { return i.mode.IsDir() }
func (i c10Info) Sys() any           { return i.sys }
func (i c10Info) Uid() uint32        { return i.uid }
func (i c10Info) Gid() uint32        { return i.gid }

var c10DefaultInfo = c10Info{name: "dflt", size: 7, mode: 0o644, mtime: 1000000000, uid: 1, gid: 2}

// c10File is the object handed out by Fileread/Filewrite/OpenFile.
type c10File struct {
	rec  *c10Rec
	kind string
}

func (f *c10File) ReadAt(b []byte, off int64) (int, error) {
	f.rec.add(c10Call{Site: "ReadAt", Kind: f.kind, Off: off, Len: len(b)})
	if err := f.rec.failure("ReadAt"); err != nil {
		return 0, err
	}
	f.rec.mu.Lock()
	data, set, rn, rerr := f.rec.data, f.rec.readSet, f.rec.readN, f.rec.readErr
	f.rec.mu.Unlock()
	if set {
		n := copy(b, data)
		if rn < n {
			n = rn
		}
		return n, rerr
	}
	if off >= int64(len(data)) {
		return 0, io.EOF
	}
	n := copy(b, data[off:])
	if n < len(b) {
		return n, io.EOF
	}
	return n, nil
}

func (f *c10File) WriteAt(b []byte, off int64) (int, error) {
	f.rec.add(c10Call{Site: "WriteAt", Kind: f.kind, Off: off, Len: len(b), Data: string(b)})
	if err := f.rec.failure("WriteAt"); err != nil {
		return 0, err
	}
	return len(b), nil
}

func (f *c10File) Close() error {
	f.rec.add(c10Call{Site: "Close", Kind: f.kind})
	return f.rec.failure("Close")
}

// c10Lister is the ListerAt handed out by Filelist / Lstat.
type c10Lister struct {
	rec   *c10Rec
	kind  string // List, Stat, Lstat, Readlink
	infos []os.FileInfo
}

func (l *c10Lister) ListAt(out []os.FileInfo, off int64) (int, error) {
	l.rec.add(c10Call{Site: "ListAt", Kind: l.kind, Off: off, Len: len(out)})
	site := "ListAt:Stat"
	if l.kind == "List" {
		site = "ListAt:List"
	}
	if err := l.rec.failure(site); err != nil {
		return 0, err
	}
	if off >= int64(len(l.infos)) {
		return 0, io.EOF
	}
	n := copy(out, l.infos[off:])
	if n < len(out) {
		return n, io.EOF
	}
	return n, nil
}

func (l *c10Lister) Close() error {
	l.rec.add(c10Call{Site: "ListerClose", Kind: l.kind})
	return l.rec.failure("ListerClose")
}

// c10Base implements the four mandatory interfaces.
type c10Base struct{ rec *c10Rec }

func (b c10Base) Fileread(q *Request) (io.ReaderAt, error) {
	b.rec.req("Fileread", q)
	if err := b.rec.failure("Fileread"); err != nil {
		return nil, err
	}
	return &c10File{rec: b.rec, kind: "Get"}, nil
}

func (b c10Base) Filewrite(q *Request) (io.WriterAt, error) {
	b.rec.req("Filewrite", q)
	if err := b.rec.failure("Filewrite"); err != nil {
		return nil, err
	}
	return &c10File{rec: b.rec, kind: "Put"}, nil
}

func (b c10Base) Filecmd(q *Request) error {
	b.rec.req("Filecmd", q)
	return b.rec.failure("Filecmd")
}

func (b c10Base) lister(q *Request) ListerAt {
	b.rec.mu.Lock()
	defer b.rec.mu.Unlock()
	if q.Method == "List" {
		return &c10Lister{rec: b.rec, kind: "List", infos: b.rec.entries}
	}
	var fi os.FileInfo = c10DefaultInfo
	if b.rec.info != nil {
		fi = b.rec.info
	}
	return &c10Lister{rec: b.rec, kind: q.Method, infos: []os.FileInfo{fi}}
}

func (b c10Base) Filelist(q *Request) (ListerAt, error) {
	b.rec.req("Filelist", q)
	if err := b.rec.failure("Filelist:" + q.Method); err != nil {
		return nil, err
	}
	return b.lister(q), nil
}

// optional-interface mix-ins
type c10MixOpenFile struct{ rec *c10Rec }

func (m c10MixOpenFile) OpenFile(q *Request) (WriterAtReaderAt, error) {
	m.rec.req("OpenFile", q)
	if err := m.rec.failure("OpenFile"); err != nil {
		return nil, err
	}
	return &c10File{rec: m.rec, kind: "Open"}, nil
}

type c10MixPosix struct{ rec *c10Rec }

func (m c10MixPosix) PosixRename(q *Request) error {
	m.rec.req("PosixRename", q)
	return m.rec.failure("PosixRename")
}

type c10MixStatVFS struct{ rec *c10Rec }

func (m c10MixStatVFS) StatVFS(q *Request) (*StatVFS, error) {
	m.rec.req("StatVFS", q)
	if err := m.rec.failure("StatVFS"); err != nil {
		return nil, err
	}
	m.rec.mu.Lock()
	defer m.rec.mu.Unlock()
	if m.rec.vfs != nil {
		cp := *m.rec.vfs
		return &cp, nil
	}
	return &StatVFS{Bsize: 4096, Namemax: 255}, nil
}

type c10MixLstat struct{ rec *c10Rec }

func (m c10MixLstat) Lstat(q *Request) (ListerAt, error) {
	m.rec.req("Lstat", q)
	if err := m.rec.failure("Lstat"); err != nil {
		return nil, err
	}
	return c10Base{m.rec}.lister(q), nil
}

type c10MixRealPath struct{ rec *c10Rec }

func (m c10MixRealPath) RealPath(p string) (string, error) {
	m.rec.add(c10Call{Site: "RealPath", Arg: p})
	if err := m.rec.failure("RealPath"); err != nil {
		return "", err
	}
	m.rec.mu.Lock()
	defer m.rec.mu.Unlock()
	return m.rec.realpath, nil
}

type c10MixLegacyRealPath struct{ rec *c10Rec }

func (m c10MixLegacyRealPath) RealPath(p string) string {
	m.rec.add(c10Call{Site: "RealPath", Arg: p})
	m.rec.mu.Lock()
	defer m.rec.mu.Unlock()
	return m.rec.realpath
}

type c10MixReadlink struct{ rec *c10Rec }

func (m c10MixReadlink) Readlink(p string) (string, error) {
	m.rec.add(c10Call{Site: "Readlink", Arg: p})
	if err := m.rec.failure("Readlink"); err != nil {
		return "", err
	}
	m.rec.mu.Lock()
	defer m.rec.mu.Unlock()
	return m.rec.link, nil
}

type c10MixNames struct{}

func (c10MixNames) LookupUserName(uid string) string  { return "U" + uid }
func (c10MixNames) LookupGroupName(gid string) string { return "G" + gid }

// c10Caps names one combination of optional interfaces.
type c10Caps struct {
	OpenFile bool
	Posix    bool
	StatVFS  bool
	Lstat    bool
	RealPath int // 0 none, 1 RealPathFileLister, 2 legacy
	Readlink bool
	Names    bool
}

func (c c10Caps) String() string {
	b := func(v bool, s string) string {
		if v {
			return s
		}
		return "-"
	}
	return b(c.OpenFile, "O") + b(c.Posix, "P") + b(c.StatVFS, "V") + b(c.Lstat, "L") + []string{"-", "R", "r"}[c.RealPath] + b(c.Readlink, "K") + b(c.Names, "N")
}

func c10PutHandler(rec *c10Rec, openFile bool) FileWriter {
	if openFile {
		return struct {
			c10Base
			c10MixOpenFile
		}{c10Base{rec}, c10MixOpenFile{rec}}
	}
	return c10Base{rec}
}

func c10CmdHandler(rec *c10Rec, posix, vfs bool) FileCmder {
	switch {
	case posix && vfs:
		return struct {
			c10Base
			c10MixPosix
			c10MixStatVFS
		}{c10Base{rec}, c10MixPosix{rec}, c10MixStatVFS{rec}}
	case posix:
		return struct {
			c10Base
			c10MixPosix
		}{c10Base{rec}, c10MixPosix{rec}}
	case vfs:
		return struct {
			c10Base
			c10MixStatVFS
		}{c10Base{rec}, c10MixStatVFS{rec}}
	}
	return c10Base{rec}
}

// c10ListHandler builds one of the 24 lister types (Lstat x {none,RealPath,legacy RealPath} x
// Readlink x NameLookup). Each is its own struct type made of embedded mix-ins, so the server's
// type assertions see exactly the stated interfaces.
func c10ListHandler(rec *c10Rec, c c10Caps) FileLister {
	B, L, R, Y, K, N := c10Base{rec}, c10MixLstat{rec}, c10MixRealPath{rec}, c10MixLegacyRealPath{rec}, c10MixReadlink{rec}, c10MixNames{}
	key := fmt.Sprintf("%v%d%v%v", c.Lstat, c.RealPath, c.Readlink, c.Names)
	switch key {
	case "false0falsefalse":
		return B
	case "false0falsetrue":
		return struct {
			c10Base
			c10MixNames
		}{B, N}
	case "false0truefalse":
		return struct {
			c10Base
			c10MixReadlink
		}{B, K}
	case "false0truetrue":
		return struct {
			c10Base
			c10MixReadlink
			c10MixNames
		}{B, K, N}
	case "false1falsefalse":
		return struct {
			c10Base
			c10MixRealPath
		}{B, R}
	case "false1falsetrue":
		return struct {
			c10Base
			c10MixRealPath
			c10MixNames
		}{B, R, N}
	case "false1truefalse":
		return struct {
			c10Base
			c10MixRealPath
			c10MixReadlink
		}{B, R, K}
	case "false1truetrue":
		return struct {
			c10Base
			c10MixRealPath
			c10MixReadlink
			c10MixNames
		}{B, R, K, N}
	case "false2falsefalse":
		return struct {
			c10Base
			c10MixLegacyRealPath
		}{B, Y}
	case "false2falsetrue":
		return struct {
			c10Base
			c10MixLegacyRealPath
			c10MixNames
		}{B, Y, N}
	case "false2truefalse":
		return struct {
			c10Base
			c10MixLegacyRealPath
			c10MixReadlink
		}{B, Y, K}
	case "false2truetrue":
		return struct {
			c10Base
			c10MixLegacyRealPath
			c10MixReadlink
			c10MixNames
		}{B, Y, K, N}
	case "true0falsefalse":
		return struct {
			c10Base
			c10MixLstat
		}{B, L}
	case "true0falsetrue":
		return struct {
			c10Base
			c10MixLstat
			c10MixNames
		}{B, L, N}
	case "true0truefalse":
		return struct {
			c10Base
			c10MixLstat
			c10MixReadlink
		}{B, L, K}
	case "true0truetrue":
		return struct {
			c10Base
			c10MixLstat
			c10MixReadlink
			c10MixNames
		}{B, L, K, N}
	case "true1falsefalse":
		return struct {
			c10Base
			c10MixLstat
			c10MixRealPath
		}{B, L, R}
	case "true1falsetrue":
		return struct {
			c10Base
			c10MixLstat
			c10MixRealPath
			c10MixNames
		}{B, L, R, N}
	case "true1truefalse":
		return struct {
			c10Base
			c10MixLstat
			c10MixRealPath
			c10MixReadlink
		}{B, L, R, K}
	case "true1truetrue":
		return struct {
			c10Base
			c10MixLstat
			c10MixRealPath
			c10MixReadlink
			c10MixNames
		}{B, L, R, K, N}
	case "true2falsefalse":
		return struct {
			c10Base
			c10MixLstat
			c10MixLegacyRealPath
		}{B, L, Y}
	case "true2falsetrue":
		return struct {
			c10Base
			c10MixLstat
			c10MixLegacyRealPath
			c10MixNames
		}{B, L, Y, N}
	case "true2truefalse":
		return struct {
			c10Base
			c10MixLstat
			c10MixLegacyRealPath
			c10MixReadlink
		}{B, L, Y, K}
	case "true2truetrue":
		return struct {
			c10Base
			c10MixLstat
			c10MixLegacyRealPath
			c10MixReadlink
			c10MixNames
		}{B, L, Y, K, N}
	}
	panic("c10ListHandler: " + key)
}

// c10CheckCaps verifies that a built handler set exposes exactly the stated optional interfaces
// (a harness self-check: a wrong mix-in table would silently test the wrong combination).
func c10CheckCaps(h Handlers, c c10Caps) string {
	_, of := h.FilePut.(OpenFileWriter)
	_, po := h.FileCmd.(PosixRenameFileCmder)
	_, vf := h.FileCmd.(StatVFSFileCmder)
	_, ls := h.FileList.(LstatFileLister)
	_, r1 := h.FileList.(RealPathFileLister)
	_, r2 := h.FileList.(legacyRealPathFileLister)
	_, rl := h.FileList.(ReadlinkFileLister)
	_, nm := h.FileList.(NameLookupFileLister)
	rp := 0
	if r1 {
		rp = 1
	}
	if r2 {
		rp = 2
	}
	got := c10Caps{of, po, vf, ls, rp, rl, nm}
	if got != c {
		return fmt.Sprintf("handler set exposes %v, wanted %v", got, c)
	}
	return ""
}

func c10Handlers(rec *c10Rec, c c10Caps) Handlers {
	return Handlers{FileGet: c10Base{rec}, FilePut: c10PutHandler(rec, c.OpenFile), FileCmd: c10CmdHandler(rec, c.Posix, c.StatVFS), FileList: c10ListHandler(rec, c)}
}

// c10AllCaps: all 2 x 4 x 24 = 192 combinations; c10CoverCaps: the 24 lister combinations, each
// paired with a put and a cmd variant so that every variant of every field occurs (the three
// Handlers fields are type-asserted independently by the server).
func c10AllCaps() []c10Caps {
	var out []c10Caps
	for _, of := range []bool{false, true} {
		for _, po := range []bool{false, true} {
			for _, vf := range []bool{false, true} {
				for _, ls := range []bool{false, true} {
					for rp := 0; rp < 3; rp++ {
						for _, rl := range []bool{false, true} {
							for _, nm := range []bool{false, true} {
								out = append(out, c10Caps{of, po, vf, ls, rp, rl, nm})
							}
						}
					}
				}
			}
		}
	}
	return out
}

func c10CoverCaps() []c10Caps {
	var out []c10Caps
	i := 0
	for _, ls := range []bool{false, true} {
		for rp := 0; rp < 3; rp++ {
			for _, rl := range []bool{false, true} {
				for _, nm := range []bool{false, true} {
					out = append(out, c10Caps{i%2 == 1, (i/2)%2 == 1, (i/4)%2 == 1 != (i%2 == 1), ls, rp, rl, nm})
					i++
				}
			}
		}
	}
	return out
}

// ---------------------------------------------------------------------------------------------
// session

type c10Sess struct {
	s     *bSession
	rec   *c10Rec
	caps  c10Caps
	start string // as configured
	base  string // reference clean form
	id    uint32
}

func c10Open(caps c10Caps, start string) (*c10Sess, string) {
	rec := newC10Rec()
	h := c10Handlers(rec, caps)
	if bad := c10CheckCaps(h, caps); bad != "" {
		return nil, bad
	}
	var opts []RequestServerOption
	if start != "" {
		opts = append(opts, WithStartDirectory(start))
	}
	x := &c10Sess{s: bServeRS(h, opts...), rec: rec, caps: caps, start: start, base: "/", id: 100}
	if start != "" {
		x.base = c10StartDir(start)
	}
	f, err := x.s.Exchange(c10Pkt(sshFxpInit, 3)[:9]) // INIT: length, type, version (no id)
	if err != nil || f.typ != sshFxpVersion {
		return nil, fmt.Sprintf("handshake failed: %v %v", f, err)
	}
	return x, ""
}

func (x *c10Sess) close() { x.s.Stop(nil) }

// do sends one request (the id is patched in) and returns the response and the calls it caused.
func (x *c10Sess) do(typ byte, fields ...any) (frame, []c10Call, error) {
	x.id++
	f, err := x.s.Exchange(c10Pkt(typ, x.id, fields...))
	if err != nil {
		return f, nil, err
	}
	if f.id != x.id {
		return f, x.rec.take(), fmt.Errorf("response carries id %d, request had %d", f.id, x.id)
	}
	return f, x.rec.take(), nil
}

// ---------------------------------------------------------------------------------------------
// inbound expectation table

type c10Want struct {
	n         int // handler calls expected (0 or 1)
	site      string
	method    string
	fp        string
	target    string
	flags     uint32
	attrs     []byte
	attrKind  int // 0: none sent, 1: Flags are attribute flags (setstat family), 2: open (Flags are pflags; attribute flags separate), 3: mkdir
	aflags    uint32
	arg       string // RealPath/Readlink argument
	fpVerb    bool   // Filepath is pass-through text (symlink)
	resp      byte   // expected response type (0 = do not care)
	respName  string // expected single name of a NAME response ("\x00skip" = do not check)
	respCode  int64  // expected status code (-1 = do not care)
	checkResp bool
}

type c10Problem struct{ aspect, msg string }

// c10Judge compares the recorded calls of one request with the expectation.
func c10Judge(w c10Want, calls []c10Call, f frame) []c10Problem {
	var out []c10Problem
	bad := func(aspect, format string, a ...any) {
		out = append(out, c10Problem{aspect, fmt.Sprintf(format, a...)})
	}
	var hc []c10Call // handler-level calls (object calls such as ListAt/Close are judged elsewhere)
	for _, c := range calls {
		switch c.Site {
		case "ReadAt", "WriteAt", "ListAt", "Close", "ListerClose":
		default:
			hc = append(hc, c)
		}
	}
	if len(hc) != w.n {
		var ss []string
		for _, c := range hc {
			ss = append(ss, c.String())
		}
		bad("calls", "%d handler calls, want %d: %v", len(hc), w.n, ss)
		return out
	}
	if w.n == 1 {
		c := hc[0]
		if c.Site != w.site {
			bad("site", "handler method %s was invoked, want %s (%v)", c.Site, w.site, c)
			return out
		}
		if w.site == "RealPath" || w.site == "Readlink" {
			if c.Arg != w.arg {
				bad("arg", "%s received %q, want %q", w.site, c.Arg, w.arg)
			}
			if w.site == "Readlink" {
				if m := c10Confined(c.Arg); m != "" {
					bad("confinement", "Readlink argument %q: %s", c.Arg, m)
				}
			}
		} else {
			if c.Method != w.method {
				bad("method", "Request.Method = %q, want %q", c.Method, w.method)
			}
			if c.Filepath != w.fp {
				bad("filepath", "Request.Filepath = %q, want %q", c.Filepath, w.fp)
			}
			if !w.fpVerb {
				if m := c10Confined(c.Filepath); m != "" {
					bad("confinement", "Request.Filepath %q: %s", c.Filepath, m)
				}
			}
			if c.Target != w.target {
				bad("target", "Request.Target = %q, want %q", c.Target, w.target)
			}
			if w.target != "" || c.Target != "" {
				if m := c10Confined(c.Target); m != "" {
					bad("confinement", "Request.Target %q: %s", c.Target, m)
				}
			}
			switch w.attrKind {
			case 0:
				if c.Flags != 0 || len(c.Attrs) != 0 {
					bad("flags", "Request.Flags=%#x Attrs=%x on a request without flags/attributes", c.Flags, c.Attrs)
				}
			case 1:
				if c.Flags != w.flags {
					bad("flags", "Request.Flags = %#x, want attribute flags %#x", c.Flags, w.flags)
				}
				if c.Attrs != string(w.attrs) {
					bad("attrs", "Request.Attrs = %x, want %x", c.Attrs, w.attrs)
				}
				if c.Af != c10WantAttrFlags(w.aflags) {
					bad("attrflags", "AttrFlags() = %+v, want %+v (flags %#x)", c.Af, c10WantAttrFlags(w.aflags), w.aflags)
				}
				ws := c10WantStat(w.aflags)
				if c.Fs == nil || !reflect.DeepEqual(*c.Fs, ws) {
					bad("attributes", "Attributes() = %+v, want %+v (flags %#x)", c.Fs, ws, w.aflags)
				}
			case 2:
				if c.Flags != w.flags {
					bad("flags", "Request.Flags = %#x, want pflags %#x", c.Flags, w.flags)
				}
				if c.Pf != c10WantPflags(w.flags) {
					bad("pflags", "Pflags() = %+v, want %+v", c.Pf, c10WantPflags(w.flags))
				}
				if c.Attrs != string(w.attrs) {
					bad("attrs", "Request.Attrs = %x, want the attribute bytes sent %x", c.Attrs, w.attrs)
				}
				ws := c10WantStat(w.aflags)
				if c.Af != c10WantAttrFlags(w.aflags) || c.Fs == nil || !reflect.DeepEqual(*c.Fs, ws) {
					bad("open-attrflags", "OPEN sent attribute flags %#x with values %+v; the handler sees AttrFlags() = %+v, Attributes() = %+v (Request.Flags holds the pflags %#x, the attribute flags word is dropped)",
						w.aflags, ws, c.Af, c.Fs, w.flags)
				}
			case 3:
				ws := c10WantStat(w.aflags)
				if c.Flags != w.aflags || c.Af != c10WantAttrFlags(w.aflags) || c.Fs == nil || !reflect.DeepEqual(*c.Fs, ws) {
					bad("mkdir-attrs", "MKDIR sent attribute flags %#x with values %+v; the handler sees Flags=%#x Attrs=%x AttrFlags() = %+v (the attributes of MKDIR are dropped)",
						w.aflags, ws, c.Flags, c.Attrs, c.Af)
				}
			}
		}
	}
	if w.resp != 0 && f.typ != w.resp {
		bad("response", "response is %v, want type %v", f, fxp(w.resp))
	}
	if w.respCode >= 0 {
		st, ok := c10ParseStatus(f)
		if !ok || int64(st.Code) != w.respCode {
			bad("response", "response is %v, want STATUS %v", f, fx(uint32(w.respCode)))
		}
	}
	if w.checkResp {
		ns, ok := c10ParseName(f)
		if !ok || len(ns) != 1 || ns[0].Name != w.respName {
			bad("response", "response is %v %+v, want one name %q", f, ns, w.respName)
		}
	}
	return out
}

// c10Req is one inbound request of the table.
type c10Req struct {
	Name   string // request kind
	P, Q   string
	Pflags uint32
	Aflags uint32
}

func (r c10Req) replay(x *c10Sess) map[string]any {
	return map[string]any{"req": r.Name, "path_hex": hex.EncodeToString([]byte(r.P)), "path2_hex": hex.EncodeToString([]byte(r.Q)), "path": r.P, "path2": r.Q,
		"pflags": r.Pflags, "attr_flags": r.Aflags, "start": x.start, "caps": x.caps.String()}
}

var c10PathKinds = []string{"STAT", "LSTAT", "READLINK", "REALPATH", "OPENDIR", "REMOVE", "MKDIR", "RMDIR", "SETSTAT", "STATVFS",
	"RENAME", "RENAME-REV", "POSIX-RENAME", "HARDLINK", "SYMLINK", "SYMLINK-REV"}

// c10RunReq performs the request and returns expectation, calls and response.
func (x *c10Sess) run(r c10Req) (c10Want, []c10Call, frame, error) {
	w := c10Want{n: 1, respCode: -1}
	cp, cq := c10Clean(x.base, r.P), c10Clean(x.base, r.Q)
	var f frame
	var calls []c10Call
	var err error
	switch r.Name {
	case "STAT":
		w.site, w.method, w.fp, w.resp = "Filelist", "Stat", cp, sshFxpAttrs
		f, calls, err = x.do(sshFxpStat, r.P)
	case "LSTAT":
		if x.caps.Lstat {
			w.site, w.method = "Lstat", "Lstat"
		} else {
			w.site, w.method = "Filelist", "Stat"
		}
		w.fp, w.resp = cp, sshFxpAttrs
		f, calls, err = x.do(sshFxpLstat, r.P)
	case "READLINK":
		if x.caps.Readlink {
			w.site, w.arg = "Readlink", cp
		} else {
			w.site, w.method, w.fp = "Filelist", "Readlink", cp
		}
		w.resp = sshFxpName
		f, calls, err = x.do(sshFxpReadlink, r.P)
	case "REALPATH":
		w.resp = sshFxpName
		if x.caps.RealPath != 0 {
			w.site, w.arg = "RealPath", r.P // verbatim
		} else {
			w.n, w.checkResp, w.respName = 0, true, cp
		}
		f, calls, err = x.do(sshFxpRealpath, r.P)
	case "OPENDIR":
		w.site, w.method, w.fp, w.resp = "Filelist", "List", cp, sshFxpHandle
		f, calls, err = x.do(sshFxpOpendir, r.P)
		if h, ok := c10ParseHandle(f); ok && err == nil {
			if _, _, e := x.do(sshFxpClose, h); e != nil {
				err = e
			}
		}
	case "REMOVE":
		w.site, w.method, w.fp, w.respCode = "Filecmd", "Remove", cp, sshFxOk
		f, calls, err = x.do(sshFxpRemove, r.P)
	case "MKDIR":
		w.site, w.method, w.fp, w.respCode = "Filecmd", "Mkdir", cp, sshFxOk
		if r.Aflags != 0 {
			w.attrKind, w.aflags = 3, r.Aflags
		}
		f, calls, err = x.do(sshFxpMkdir, r.P, r.Aflags, c10AttrBytes(r.Aflags))
	case "RMDIR":
		w.site, w.method, w.fp, w.respCode = "Filecmd", "Rmdir", cp, sshFxOk
		f, calls, err = x.do(sshFxpRmdir, r.P)
	case "SETSTAT":
		w.site, w.method, w.fp, w.respCode = "Filecmd", "Setstat", cp, sshFxOk
		w.attrKind, w.flags, w.aflags, w.attrs = 1, r.Aflags, r.Aflags, c10AttrBytes(r.Aflags)
		f, calls, err = x.do(sshFxpSetstat, r.P, r.Aflags, w.attrs)
	case "STATVFS":
		if x.caps.StatVFS {
			w.site, w.method, w.fp, w.resp = "StatVFS", "StatVFS", cp, sshFxpExtendedReply
		} else {
			w.n, w.respCode = 0, sshFxOPUnsupported
		}
		f, calls, err = x.do(sshFxpExtended, "statvfs@openssh.com", r.P)
	case "RENAME", "RENAME-REV":
		a, b, ca, cb := r.P, r.Q, cp, cq
		if r.Name == "RENAME-REV" {
			a, b, ca, cb = r.Q, r.P, cq, cp
		}
		w.site, w.method, w.fp, w.target, w.respCode = "Filecmd", "Rename", ca, cb, sshFxOk
		f, calls, err = x.do(sshFxpRename, a, b)
	case "POSIX-RENAME":
		if x.caps.Posix {
			w.site, w.method = "PosixRename", "PosixRename"
		} else {
			w.site, w.method = "Filecmd", "Rename"
		}
		w.fp, w.target, w.respCode = cp, cq, sshFxOk
		f, calls, err = x.do(sshFxpExtended, "posix-rename@openssh.com", r.P, r.Q)
	case "HARDLINK":
		w.site, w.method, w.fp, w.target, w.respCode = "Filecmd", "Link", cp, cq, sshFxOk
		f, calls, err = x.do(sshFxpExtended, "hardlink@openssh.com", r.P, r.Q)
	case "SYMLINK", "SYMLINK-REV":
		// wire order (OpenSSH): target text first, then the link path
		t, l, cl := r.P, r.Q, cq
		if r.Name == "SYMLINK-REV" {
			t, l, cl = r.Q, r.P, cp
		}
		w.site, w.method, w.fp, w.fpVerb, w.target, w.respCode = "Filecmd", "Symlink", t, true, cl, sshFxOk
		f, calls, err = x.do(sshFxpSymlink, t, l)
	case "OPEN":
		fl := r.Pflags
		w.fp, w.attrKind, w.flags, w.aflags, w.attrs, w.resp = cp, 2, fl, r.Aflags, c10AttrBytes(r.Aflags), sshFxpHandle
		switch {
		case fl&(0x2|0x4|0x8|0x10) != 0:
			if fl&0x1 != 0 && x.caps.OpenFile {
				w.site, w.method = "OpenFile", "Open"
			} else {
				w.site, w.method = "Filewrite", "Put"
			}
		case fl&0x1 != 0:
			w.site, w.method = "Fileread", "Get"
		default:
			w.n, w.resp, w.respCode = 0, sshFxpStatus, sshFxFailure
		}
		f, calls, err = x.do(sshFxpOpen, r.P, fl, r.Aflags, w.attrs)
		if h, ok := c10ParseHandle(f); ok && err == nil {
			if _, _, e := x.do(sshFxpClose, h); e != nil {
				err = e
			}
		}
	default:
		panic("c10 run: " + r.Name)
	}
	return w, calls, f, err
}

// c10Key makes the violation key: request kind and failing aspect (stable, not input specific).
func c10Key(r c10Req, aspect string) string {
	switch aspect {
	case "open-attrflags":
		return "c10-in-open-attrflags"
	case "mkdir-attrs":
		return "c10-in-mkdir-attrs"
	}
	n := strings.TrimSuffix(r.Name, "-REV")
	return "c10-in:" + n + ":" + aspect
}

// c10RefSelfTest validates the reference clean() against the standard library on the whole
// corpus (the reference is independent code; this guards the harness, not the package).
func c10RefSelfTest(corpus string) string {
	for _, st := range c10Starts {
		base := c10StartDir(st)
		if want := path.Clean("/" + st); base != want {
			return fmt.Sprintf("reference start dir %q -> %q, path.Clean gives %q", st, base, want)
		}
		for _, p := range c10PathCorpus(corpus) {
			want := p
			if !strings.HasPrefix(p, "/") {
				want = base + "/" + p
			}
			want = path.Clean(want)
			if got := c10Clean(base, p); got != want {
				return fmt.Sprintf("reference clean(%q,%q) = %q, path.Clean gives %q", base, p, got, want)
			}
		}
	}
	return ""
}

func init() {
	// C10/inbound-paths: every path x start directory x request kind, under a set of
	// optional-interface combinations; flags cycle so that every kind sees every attr subset.
	reg.Part("C10/inbound-paths", func(c *reg.Ctx) *reg.Result {
		res := reg.NewResult(c.Part)
		if bad := c10RefSelfTest(c.Arg("corpus", "base")); bad != "" {
			res.EngineError = bad
			return res
		}
		caps := c10CoverCaps()
		if c.Arg("caps", "cover") == "all" {
			caps = c10AllCaps()
		}
		paths := c10PathCorpus(c.Arg("corpus", "base"))
		subsets := c10AttrSubsets()
		var unit int64
		for ci, cp := range caps {
			for _, st := range c10Starts {
				unit++
				if !c.Mine(unit) {
					continue
				}
				if c.Expired() {
					res.Exhaustive = false
					res.Bound = fmt.Sprintf("stopped by the deadline at unit %d", unit)
					return res
				}
				x, bad := c10Open(cp, st)
				if bad != "" {
					res.EngineError = bad
					return res
				}
				for pi, p := range paths {
					q := paths[(pi*7+ci+3)%len(paths)]
					for ki, kind := range c10PathKinds {
						r := c10Req{Name: kind, P: p, Q: q}
						if kind == "SETSTAT" {
							r.Aflags = subsets[(pi+ci)%len(subsets)]
						}
						_ = ki
						w, calls, f, err := x.run(r)
						res.Evaluations++
						res.Distinct++
						if err != nil {
							res.Violate("C10", c10Key(r, "exchange"), fmt.Sprintf("%s %q start=%q caps=%v: %v", kind, p, st, cp, err), r.replay(x), nil)
							x.close()
							x, bad = c10Open(cp, st)
							if bad != "" {
								res.EngineError = bad
								return res
							}
							continue
						}
						site := "none"
						if w.n == 1 {
							site = w.site + "/" + w.method
						}
						res.Outcome(kind + "->" + site)
						for _, pr := range c10Judge(w, calls, f) {
							res.Violate("C10", c10Key(r, pr.aspect), fmt.Sprintf("%s path=%q path2=%q start=%q (base %q) caps=%v: %s", kind, p, q, st, x.base, cp, pr.msg), r.replay(x), nil)
						}
					}
				}
				res.Sample(map[string]any{"caps": cp.String(), "start": st, "paths": len(paths), "kinds": len(c10PathKinds)})
				x.close()
			}
		}
		res.Bound = fmt.Sprintf("%d interface combinations x %d start directories x %d paths x %d request kinds", len(caps), len(c10Starts), len(paths), len(c10PathKinds))
		res.Notes["reference_clean_selftest"] = "reference clean() agrees with path.Clean on the whole corpus"
		return res
	})

	// C10/inbound-open: OPEN x all 64 pflags x all 32 attribute subsets x paths x start dirs,
	// with and without OpenFileWriter; MKDIR and SETSTAT x all attribute subsets ride along.
	reg.Part("C10/inbound-open", func(c *reg.Ctx) *reg.Result {
		res := reg.NewResult(c.Part)
		paths := c10PathCorpus(c.Arg("corpus", "base"))
		subsets := c10AttrSubsets()
		var unit int64
		for _, of := range []bool{false, true} {
			cp := c10Caps{OpenFile: of}
			for _, st := range c10Starts {
				var x *c10Sess
				for _, p := range paths {
					unit++
					if !c.Mine(unit) {
						continue
					}
					if c.Expired() {
						res.Exhaustive = false
						res.Bound = fmt.Sprintf("stopped by the deadline at unit %d", unit)
						if x != nil {
							x.close()
						}
						return res
					}
					if x == nil {
						var bad string
						if x, bad = c10Open(cp, st); bad != "" {
							res.EngineError = bad
							return res
						}
					}
					var reqs []c10Req
					for pf := uint32(0); pf < 64; pf++ {
						for _, af := range subsets {
							reqs = append(reqs, c10Req{Name: "OPEN", P: p, Pflags: pf, Aflags: af})
						}
					}
					for _, af := range subsets {
						reqs = append(reqs, c10Req{Name: "SETSTAT", P: p, Aflags: af}, c10Req{Name: "MKDIR", P: p, Aflags: af})
					}
					for _, r := range reqs {
						w, calls, f, err := x.run(r)
						res.Evaluations++
						res.Distinct++
						if err != nil {
							res.Violate("C10", c10Key(r, "exchange"), fmt.Sprintf("%s %q pflags=%#x aflags=%#x start=%q: %v", r.Name, p, r.Pflags, r.Aflags, st, err), r.replay(x), nil)
							x.close()
							var bad string
							if x, bad = c10Open(cp, st); bad != "" {
								res.EngineError = bad
								return res
							}
							continue
						}
						site := "none"
						if w.n == 1 {
							site = w.site + "/" + w.method
						}
						res.Outcome(r.Name + "->" + site)
						for _, pr := range c10Judge(w, calls, f) {
							res.Violate("C10", c10Key(r, pr.aspect), fmt.Sprintf("%s path=%q pflags=%#x attrflags=%#x start=%q caps=%v: %s", r.Name, p, r.Pflags, r.Aflags, st, cp, pr.msg), r.replay(x), nil)
						}
					}
				}
				if x != nil {
					x.close()
				}
			}
		}
		res.Sample(map[string]any{"paths": len(paths), "pflags": 64, "attr_subsets": len(subsets), "starts": c10Starts})
		res.Bound = fmt.Sprintf("{plain FileWriter, OpenFileWriter} x %d start directories x %d paths x (64 pflags x 32 attribute subsets OPEN + 32 SETSTAT + 32 MKDIR)", len(c10Starts), len(paths))
		return res
	})
}

var _ = errors.New
var _ = sort.Strings
