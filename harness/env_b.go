//go:build verif

package sftp

// Free-running (Engine B) environment: thread-safe in-memory pipes, server/client pairs, raw
// sessions and tree snapshots. Nothing here is a scheduling point; use it from parts that run in
// the "plain" build.

import (
	"errors"
	"fmt"
	"io"
	"os"
	"path/filepath"
	"sort"
	"strings"
	"sync"
	"syscall"
)

// bpipe is an unbounded thread-safe byte pipe.
type bpipe struct {
	mu      sync.Mutex
	cond    *sync.Cond
	buf     []byte
	wclosed bool
	rclosed bool
	Total   []byte // everything ever written
}

func newBPipe() *bpipe {
	p := &bpipe{}
	p.cond = sync.NewCond(&p.mu)
	return p
}

func (p *bpipe) Read(b []byte) (int, error) {
	p.mu.Lock()
	defer p.mu.Unlock()
	for len(p.buf) == 0 && !p.wclosed && !p.rclosed {
		p.cond.Wait()
	}
	if p.rclosed {
		return 0, io.ErrClosedPipe
	}
	if len(p.buf) == 0 {
		return 0, io.EOF
	}
	n := copy(b, p.buf)
	p.buf = p.buf[n:]
	return n, nil
}

func (p *bpipe) Write(b []byte) (int, error) {
	p.mu.Lock()
	defer p.mu.Unlock()
	if p.wclosed || p.rclosed {
		return 0, io.ErrClosedPipe
	}
	p.buf = append(p.buf, b...)
	p.Total = append(p.Total, b...)
	p.cond.Broadcast()
	return len(b), nil
}

func (p *bpipe) Close() error { return p.CloseWrite() }
func (p *bpipe) CloseWrite() error {
	p.mu.Lock()
	p.wclosed = true
	p.cond.Broadcast()
	p.mu.Unlock()
	return nil
}
func (p *bpipe) CloseRead() error {
	p.mu.Lock()
	p.rclosed = true
	p.cond.Broadcast()
	p.mu.Unlock()
	return nil
}
func (p *bpipe) Written() []byte {
	p.mu.Lock()
	defer p.mu.Unlock()
	return append([]byte(nil), p.Total...)
}

// bduplex is a server-side connection over two bpipes; Close closes both directions.
type bduplex struct {
	in, out *bpipe
}

func (d *bduplex) Read(b []byte) (int, error)  { return d.in.Read(b) }
func (d *bduplex) Write(b []byte) (int, error) { return d.out.Write(b) }
func (d *bduplex) Close() error                { d.in.CloseRead(); return d.out.CloseWrite() }

// bSession is a running server with its pipes.
type bSession struct {
	c2s, s2c *bpipe
	conn     *bduplex
	done     chan struct{}
	ServeErr error
	Srv      *Server
	RS       *RequestServer
}

// bServeOS starts the os-backed server on fresh pipes.
func bServeOS(opts ...ServerOption) *bSession {
	s := &bSession{c2s: newBPipe(), s2c: newBPipe(), done: make(chan struct{})}
	s.conn = &bduplex{in: s.c2s, out: s.s2c}
	sv, err := NewServer(s.conn, opts...)
	if err != nil {
		panic(err)
	}
	s.Srv = sv
	go func() {
		s.ServeErr = sv.Serve()
		s.s2c.CloseWrite() // the owner closes the connection once Serve has returned
		close(s.done)
	}()
	return s
}

// bServeRS starts the handler-based server on fresh pipes.
func bServeRS(h Handlers, opts ...RequestServerOption) *bSession {
	s := &bSession{c2s: newBPipe(), s2c: newBPipe(), done: make(chan struct{})}
	s.conn = &bduplex{in: s.c2s, out: s.s2c}
	rs := NewRequestServer(s.conn, h, opts...)
	s.RS = rs
	go func() {
		s.ServeErr = rs.Serve()
		s.s2c.CloseWrite()
		close(s.done)
	}()
	return s
}

// Client connects a real Client to the session.
func (s *bSession) Client(opts ...ClientOption) (*Client, error) {
	return NewClientPipe(s.s2c, s.c2s, opts...)
}

// Stop closes the client (if any) and the client->server direction and waits for Serve to return.
func (s *bSession) Stop(c *Client) {
	if c != nil {
		c.Close()
	} else {
		s.c2s.CloseWrite()
	}
	<-s.done
}

// Raw writes request bytes and returns all response frames after the server has consumed the
// input and returned from Serve (lock-step callers use Exchange instead).
func (s *bSession) Raw(stream []byte) ([]frame, []byte) {
	s.c2s.Write(stream)
	s.c2s.CloseWrite()
	<-s.done
	return splitFrames(s.s2c.Written())
}

// Exchange sends one request packet and waits for one response frame.
func (s *bSession) Exchange(p []byte) (frame, error) {
	if _, err := s.c2s.Write(p); err != nil {
		return frame{}, err
	}
	return readFrame(s.s2c)
}

// snapshotTree returns a canonical description of a directory tree: one line per entry with
// path, type, permission+special bits, size, content (regular files), link target, mtime (ns when
// withMtime), owner.
func snapshotTree(root string, withMtime bool) string {
	var lines []string
	filepath.Walk(root, func(p string, fi os.FileInfo, err error) error {
		if err != nil {
			lines = append(lines, fmt.Sprintf("%s ERR %v", p, err))
			return nil
		}
		rel, _ := filepath.Rel(root, p)
		l := fmt.Sprintf("%s %v", rel, fi.Mode())
		switch {
		case fi.Mode().IsRegular():
			b, _ := os.ReadFile(p)
			l += fmt.Sprintf(" size=%d %q", fi.Size(), b)
		case fi.Mode()&os.ModeSymlink != 0:
			t, _ := os.Readlink(p)
			l += " -> " + strings.ReplaceAll(t, root, "$ROOT")
		}
		if st, ok := fi.Sys().(*syscall.Stat_t); ok {
			l += fmt.Sprintf(" uid=%d gid=%d nlink=%d", st.Uid, st.Gid, st.Nlink)
		}
		if withMtime && rel != "." {
			l += fmt.Sprintf(" mtime=%d", fi.ModTime().UnixNano())
		}
		lines = append(lines, l)
		return nil
	})
	sort.Strings(lines)
	return strings.Join(lines, "\n")
}

// errClass maps an error to the outcome categories the properties speak about.
func errClass(err error) string {
	switch {
	case err == nil:
		return "ok"
	case os.IsNotExist(err) || errors.Is(err, os.ErrNotExist):
		return "not-exist"
	case os.IsPermission(err) || errors.Is(err, os.ErrPermission):
		return "permission"
	case errors.Is(err, io.EOF):
		return "eof"
	default:
		return "other"
	}
}
