//go:build verif

package sftp

// C17: file attributes and modes survive every conversion.
//
// Engine B, free running, four parts:
//   C17/modes    toFileMode / fromFileMode / toChmodPerm / isRegular / the ls permission string on all
//                2^16 wire mode words and all 7 x 512 x 8 os.FileMode values, against a table-driven
//                reference conversion written here
//   C17/codec    fileStatFromInfo -> marshalFileStat -> unmarshalFileStat -> fileInfoFromStat (and the
//                ATTRS packet path) is the identity on size, mode, mtime, owner
//   C17/served   for every file kind creatable as root x permission/special-bit words x owners x mtimes:
//                Client.Lstat/Stat/ReadDir, File.Stat through both servers equal package os; the long
//                name of every READDIR entry parsed back agrees with the structured attributes
//   C17/setstat  SETSTAT/FSETSTAT with all 16 flag subsets x values change exactly what the
//                corresponding os calls, applied in the same order to a twin, change

import (
	"encoding/binary"
	"fmt"
	"io"
	"os"
	"os/user"
	"path/filepath"
	"sort"
	"strconv"
	"strings"
	"syscall"
	"time"
	"unsafe"

	sshfx "github.com/pkg/sftp/internal/encoding/ssh/filexfer"
	"verif/reg"
)

// ---- reference conversion -------------------------------------------------------------------

type c17Kind struct {
	name string
	wire uint32      // S_IFMT value on the wire (POSIX)
	os   os.FileMode // type bits of package os
	ch   byte        // ls type character
}

var c17Kinds = []c17Kind{
	{"regular", 0o100000, 0, '-'},
	{"dir", 0o040000, os.ModeDir, 'd'},
	{"symlink", 0o120000, os.ModeSymlink, 'l'},
	{"fifo", 0o010000, os.ModeNamedPipe, 'p'},
	{"socket", 0o140000, os.ModeSocket, 's'},
	{"chardev", 0o020000, os.ModeDevice | os.ModeCharDevice, 'c'},
	{"blockdev", 0o060000, os.ModeDevice, 'b'},
}

func c17KindOfWire(w uint32) *c17Kind {
	for i := range c17Kinds {
		if w&0o170000 == c17Kinds[i].wire {
			return &c17Kinds[i]
		}
	}
	return nil
}

func c17KindOfOS(m os.FileMode) *c17Kind {
	for i := range c17Kinds {
		if m&os.ModeType == c17Kinds[i].os {
			return &c17Kinds[i]
		}
	}
	return nil
}

// c17RefToOS: wire word -> os.FileMode for representable words.
func c17RefToOS(w uint32) (os.FileMode, bool) {
	k := c17KindOfWire(w)
	if k == nil {
		return 0, false
	}
	m := k.os | os.FileMode(w&0o777)
	if w&0o4000 != 0 {
		m |= os.ModeSetuid
	}
	if w&0o2000 != 0 {
		m |= os.ModeSetgid
	}
	if w&0o1000 != 0 {
		m |= os.ModeSticky
	}
	return m, true
}

func c17RefToWire(m os.FileMode) uint32 {
	k := c17KindOfOS(m)
	w := k.wire | uint32(m&0o777)
	if m&os.ModeSetuid != 0 {
		w |= 0o4000
	}
	if m&os.ModeSetgid != 0 {
		w |= 0o2000
	}
	if m&os.ModeSticky != 0 {
		w |= 0o1000
	}
	return w
}

// c17RefLs: the `ls -l` mode string of a wire word.
func c17RefLs(w uint32) string {
	b := []byte("?---------")
	if k := c17KindOfWire(w); k != nil {
		b[0] = k.ch
	}
	for i, c := range "rwxrwxrwx" {
		if w&(1<<uint(8-i)) != 0 {
			b[1+i] = byte(c)
		}
	}
	sp := func(pos int, bit uint32, lower, upper byte) {
		if w&bit != 0 {
			if b[pos] == 'x' {
				b[pos] = lower
			} else {
				b[pos] = upper
			}
		}
	}
	sp(3, 0o4000, 's', 'S')
	sp(6, 0o2000, 's', 'S')
	sp(9, 0o1000, 't', 'T')
	return string(b)
}

func c17AllOSModes(f func(m os.FileMode)) {
	for _, k := range c17Kinds {
		for sp := 0; sp < 8; sp++ {
			var s os.FileMode
			if sp&4 != 0 {
				s |= os.ModeSetuid
			}
			if sp&2 != 0 {
				s |= os.ModeSetgid
			}
			if sp&1 != 0 {
				s |= os.ModeSticky
			}
			for p := os.FileMode(0); p < 512; p++ {
				f(k.os | s | p)
			}
		}
	}
}

func c17Modes(c *reg.Ctx) *reg.Result {
	res := reg.NewResult(c.Part)
	bad := func(key, msg string, replay any) { res.Violate("C17", key, msg, replay, nil) }
	for w := uint32(0); w < 1<<16; w++ {
		res.Case(fmt.Sprintf("wire %06o", w))
		if w%9973 == 0 {
			res.Sample(fmt.Sprintf("wire mode word %06o", w))
		}
		if got, want := isRegular(w), w&0o170000 == 0o100000; got != want {
			bad("c17-isRegular", fmt.Sprintf("isRegular(%#o) = %v, want %v", w, got, want), w)
		}
		want, ok := c17RefToOS(w)
		got := toFileMode(w)
		if !ok {
			res.Outcome("unrepresentable type nibble")
			continue
		}
		k := c17KindOfWire(w)
		res.Outcome("wire->os " + k.name)
		if got != want {
			bad("c17-toFileMode:"+k.name, fmt.Sprintf("toFileMode(%#o) = %v (%#o), want %v (%#o)", w, got, uint32(got), want, uint32(want)), w)
		}
		if back := fromFileMode(got); back != w {
			bad("c17-roundtrip-wire:"+k.name, fmt.Sprintf("fromFileMode(toFileMode(%#o)) = %#o: the wire word does not survive", w, back), w)
		}
		if s := sshfx.FileMode(w).String(); s != c17RefLs(w) {
			bad("c17-ls-string:"+k.name, fmt.Sprintf("permission string of wire mode %#o is %q, want %q", w, s, c17RefLs(w)), w)
		}
	}
	c17AllOSModes(func(m os.FileMode) {
		k := c17KindOfOS(m)
		res.Case(fmt.Sprintf("os %v", m))
		if uint32(m)%4099 == 0 {
			res.Sample(fmt.Sprintf("os.FileMode %v (%#x)", m, uint32(m)))
		}
		res.Outcome("os->wire " + k.name)
		want := c17RefToWire(m)
		got := fromFileMode(m)
		if got != want {
			bad("c17-fromFileMode:"+k.name, fmt.Sprintf("fromFileMode(%v) = %#o, want %#o", m, got, want), uint32(m))
		}
		if back := toFileMode(got); back != m {
			bad("c17-roundtrip-os:"+k.name, fmt.Sprintf("toFileMode(fromFileMode(%v)) = %v: the mode does not survive", m, back), uint32(m))
		}
		for raw := os.FileMode(0); raw < 8; raw++ { // historically supported raw POSIX bits inside an os.FileMode
			in := m | raw<<9
			if got, want := toChmodPerm(in), (want&0o7777)|uint32(raw<<9); got != want {
				bad("c17-toChmodPerm", fmt.Sprintf("toChmodPerm(%v|%#o) = %#o, want %#o", m, uint32(raw<<9), got, want), uint32(in))
			}
		}
	})
	res.Bound = "all 65536 wire mode words (28672 representable) and all 28672 os.FileMode values of one type, nine permission and three special bits; toChmodPerm additionally with the 8 raw POSIX special-bit patterns"
	return res
}

// ---- codec identity -------------------------------------------------------------------------

type c17Info struct {
	name  string
	size  int64
	mode  os.FileMode
	mtime int64
	uid   uint32
	gid   uint32
}

func (i *c17Info) Name() string       { return i.name }
func (i *c17Info) Size() int64        { return i.size }
func (i *c17Info) Mode() os.FileMode  { return i.mode }
func (i *c17Info) ModTime() time.Time { return time.Unix(i.mtime, 0) }
func (i *c17Info) IsDir() bool        { return i.mode.IsDir() }

// c17InfoSys reports the owner through Sys() like package os does; c17InfoUG through Uid()/Gid().
type c17InfoSys struct{ c17Info }

func (i *c17InfoSys) Sys() any {
	return &syscall.Stat_t{Uid: i.uid, Gid: i.gid, Nlink: 3, Mode: syscall.S_IFDIR | 0o700, Size: 654321}
}

type c17InfoUG struct{ c17Info }

func (i *c17InfoUG) Sys() any    { return nil }
func (i *c17InfoUG) Uid() uint32 { return i.uid }
func (i *c17InfoUG) Gid() uint32 { return i.gid }

// c17InfoBoth wraps a real file's system data (another owner) and states the owner to present.
type c17InfoBoth struct{ c17Info }

func (i *c17InfoBoth) Sys() any {
	// (a view over a real file: the system data also has that file's own mode, size and times; what the FileInfo's methods say is what is presented)
	return &syscall.Stat_t{Uid: i.uid + 1000, Gid: i.gid + 2000, Nlink: 2, Mode: syscall.S_IFREG | 0o777, Size: 123456, Mtim: syscall.Timespec{Sec: 42}, Atim: syscall.Timespec{Sec: 43}}
}
func (i *c17InfoBoth) Uid() uint32 { return i.uid }
func (i *c17InfoBoth) Gid() uint32 { return i.gid }

// c17InfoUGExt states its owner through Uid()/Gid() and also carries extended attribute data.
type c17InfoUGExt struct{ c17Info }

func (i *c17InfoUGExt) Sys() any    { return nil }
func (i *c17InfoUGExt) Uid() uint32 { return i.uid }
func (i *c17InfoUGExt) Gid() uint32 { return i.gid }
func (i *c17InfoUGExt) Extended() []StatExtended {
	return []StatExtended{{ExtType: "note@verif", ExtData: "x"}}
}

func c17CmpInfo(got os.FileInfo, size int64, mode os.FileMode, mtime int64, uid, gid uint32) string {
	var d []string
	if got.Size() != size {
		d = append(d, fmt.Sprintf("size %d want %d", got.Size(), size))
	}
	if got.Mode() != mode {
		d = append(d, fmt.Sprintf("mode %v want %v", got.Mode(), mode))
	}
	if got.IsDir() != mode.IsDir() {
		d = append(d, fmt.Sprintf("IsDir %v want %v", got.IsDir(), mode.IsDir()))
	}
	if got.ModTime().Unix() != mtime {
		d = append(d, fmt.Sprintf("mtime %d want %d", got.ModTime().Unix(), mtime))
	}
	if fs, ok := got.Sys().(*FileStat); !ok {
		d = append(d, fmt.Sprintf("Sys() is %T, want *FileStat", got.Sys()))
	} else if fs.UID != uid || fs.GID != gid {
		d = append(d, fmt.Sprintf("owner %d:%d want %d:%d", fs.UID, fs.GID, uid, gid))
	}
	return strings.Join(d, ", ")
}

func c17Codec(c *reg.Ctx) *reg.Result {
	res := reg.NewResult(c.Part)
	sizes := []int64{0, 1, 5, 1<<31 - 1, 1 << 32, 1<<63 - 1}
	mtimes := []int64{0, 1, 1_000_000_000, 1<<31 - 1, 1 << 31, 1<<32 - 1}
	owners := [][2]uint32{{0, 0}, {1, 2}, {65534, 65533}, {1<<32 - 1, 1<<32 - 2}}
	var i int64
	both, withExt := false, false
	one := func(m os.FileMode, size, mtime int64, own [2]uint32, viaSys bool) {
		i++
		if !c.Mine(i) {
			return
		}
		base := c17Info{name: "n", size: size, mode: m, mtime: mtime, uid: own[0], gid: own[1]}
		var fi os.FileInfo = &c17InfoUG{base}
		if viaSys {
			fi = &c17InfoSys{base}
		}
		if both {
			fi = &c17InfoBoth{base}
		}
		if withExt {
			fi = &c17InfoUGExt{base}
		}
		desc := fmt.Sprintf("mode=%v size=%d mtime=%d owner=%d:%d viaSys=%v uidgid+sys=%v uidgid+extended=%v", m, size, mtime, own[0], own[1], viaSys, both, withExt)
		res.Case(desc)
		if i%5003 == 0 {
			res.Sample(desc)
		}
		// 1. FileStat path
		flags, fs := fileStatFromInfo(fi)
		wantFlags := uint32(sshFileXferAttrSize | sshFileXferAttrPermissions | sshFileXferAttrACmodTime | sshFileXferAttrUIDGID)
		if withExt {
			wantFlags |= sshFileXferAttrExtended
		}
		if flags != wantFlags {
			res.Violate("C17", "c17-codec-flags", fmt.Sprintf("fileStatFromInfo(%s) sets flags %#x, want %#x", desc, flags, wantFlags), desc, nil)
		}
		b := marshalFileStat(nil, flags, fs)
		fs2, rest, err := unmarshalFileStat(flags, b)
		if err != nil || len(rest) != 0 {
			res.Violate("C17", "c17-codec-decode", fmt.Sprintf("unmarshalFileStat of marshalled %s: err=%v rest=%d", desc, err, len(rest)), desc, nil)
			return
		}
		if d := c17CmpInfo(fileInfoFromStat(fs2, "n"), size, m, mtime, own[0], own[1]); d != "" {
			res.Violate("C17", "c17-codec-identity", fmt.Sprintf("fileStatFromInfo->marshal->unmarshal->fileInfoFromStat of %s: %s", desc, d), desc, nil)
		}
		// the long name a listing would carry for the same entry names the same owner
		if lf := strings.Fields(runLs(nil, fi)); len(lf) < 9 || lf[2] != fmt.Sprint(fs.UID) || lf[3] != fmt.Sprint(fs.GID) {
			res.Violate("C17", "c17-codec-longname-owner", fmt.Sprintf("runLs of %s gives %q but the attributes carry owner %d:%d", desc, strings.Join(lf, " "), fs.UID, fs.GID), desc, nil)
		}
		// 2. the ATTRS response packet as a server sends it
		pb, err := (&sshFxpStatResponse{ID: 7, info: fi}).MarshalBinary()
		if err != nil || len(pb) < 9 || pb[4] != sshFxpAttrs {
			res.Violate("C17", "c17-codec-attrs-packet", fmt.Sprintf("ATTRS packet of %s: err=%v", desc, err), desc, nil)
			return
		}
		fs3, rest, err := unmarshalAttrs(pb[9:])
		if err != nil || len(rest) != 0 {
			res.Violate("C17", "c17-codec-attrs-packet", fmt.Sprintf("unmarshalAttrs of ATTRS packet of %s: err=%v rest=%d", desc, err, len(rest)), desc, nil)
			return
		}
		if d := c17CmpInfo(fileInfoFromStat(fs3, "n"), size, m, mtime, own[0], own[1]); d != "" {
			res.Violate("C17", "c17-codec-attrs-identity", fmt.Sprintf("ATTRS packet round trip of %s: %s", desc, d), desc, nil)
		}
		res.Outcome(c17KindOfOS(m).name)
	}
	// every mode with rotating values; boundary modes with the full value product
	n := 0
	c17AllOSModes(func(m os.FileMode) {
		n++
		one(m, sizes[n%len(sizes)], mtimes[(n/7)%len(mtimes)], owners[(n/3)%len(owners)], n%2 == 0)
	})
	for _, k := range c17Kinds {
		for _, p := range []os.FileMode{0, 0o644, 0o777, os.ModeSetuid | 0o755, os.ModeSetgid | os.ModeSticky | 0o070, os.ModeSetuid | os.ModeSetgid | os.ModeSticky | 0o777} {
			for _, s := range sizes {
				for _, t := range mtimes {
					for _, o := range owners {
						one(k.os|p, s, t, o, true)
						one(k.os|p, s, t, o, false)
						if o[0] < 1<<31 {
							both = true
							one(k.os|p, s, t, o, false)
							both = false
						}
						withExt = true
						one(k.os|p, s, t, o, false)
						withExt = false
					}
				}
			}
		}
	}
	res.Bound = fmt.Sprintf("all 28672 os.FileMode values with rotating (size, mtime, owner) plus 7 kinds x 6 boundary permission words x %d sizes x %d mtimes x %d owners x 4 owner sources (Sys() only, Uid()/Gid() only, both with different owners, Uid()/Gid() next to extended attribute data)", len(sizes), len(mtimes), len(owners))
	return res
}

// ---- shared helpers for the served parts ------------------------------------------------------

func c17Pkt(typ byte, fields ...any) []byte {
	b := []byte{0, 0, 0, 0, typ}
	for _, f := range fields {
		switch v := f.(type) {
		case uint32:
			b = binary.BigEndian.AppendUint32(b, v)
		case uint64:
			b = binary.BigEndian.AppendUint64(b, v)
		case string:
			b = binary.BigEndian.AppendUint32(b, uint32(len(v)))
			b = append(b, v...)
		case []byte:
			b = append(b, v...)
		default:
			panic(fmt.Sprintf("c17Pkt: %T", f))
		}
	}
	binary.BigEndian.PutUint32(b, uint32(len(b)-4))
	return b
}

// c17Lutimes sets atime/mtime (seconds) without following symlinks.
func c17Lutimes(p string, atime, mtime int64) {
	ts := []syscall.Timespec{{Sec: atime}, {Sec: mtime}}
	bp, err := syscall.BytePtrFromString(p)
	if err != nil {
		panic(err)
	}
	dirfd := -100 // AT_FDCWD
	if _, _, e := syscall.Syscall6(syscall.SYS_UTIMENSAT, uintptr(dirfd), uintptr(unsafe.Pointer(bp)), uintptr(unsafe.Pointer(&ts[0])), 0x100 /* AT_SYMLINK_NOFOLLOW */, 0, 0); e != 0 {
		panic(fmt.Sprintf("c17: utimensat %s: %v", p, e))
	}
}

// c17Handler serves package os views of a scratch directory through the RequestServer.
type c17Handler struct{ root string }

func (h *c17Handler) p(r string) string { return filepath.Join(h.root, r) }

type c17Lister []os.FileInfo

func (l c17Lister) ListAt(out []os.FileInfo, off int64) (int, error) {
	if off >= int64(len(l)) {
		return 0, io.EOF
	}
	n := copy(out, l[off:])
	if n < len(out) {
		return n, io.EOF
	}
	return n, nil
}

func (h *c17Handler) Fileread(r *Request) (io.ReaderAt, error) { return os.Open(h.p(r.Filepath)) }
func (h *c17Handler) Filewrite(r *Request) (io.WriterAt, error) {
	return os.OpenFile(h.p(r.Filepath), os.O_WRONLY, 0)
}
func (h *c17Handler) OpenFile(r *Request) (WriterAtReaderAt, error) {
	return os.OpenFile(h.p(r.Filepath), os.O_RDWR, 0)
}
func (h *c17Handler) Filelist(r *Request) (ListerAt, error) {
	switch r.Method {
	case "List":
		ents, err := os.ReadDir(h.p(r.Filepath))
		if err != nil {
			return nil, err
		}
		var l c17Lister
		for _, e := range ents {
			fi, err := e.Info()
			if err != nil {
				return nil, err
			}
			l = append(l, fi)
		}
		return l, nil
	case "Stat":
		fi, err := os.Stat(h.p(r.Filepath))
		if err != nil {
			return nil, err
		}
		return c17Lister{fi}, nil
	}
	return nil, ErrSSHFxOpUnsupported
}
func (h *c17Handler) Lstat(r *Request) (ListerAt, error) {
	fi, err := os.Lstat(h.p(r.Filepath))
	if err != nil {
		return nil, err
	}
	return c17Lister{fi}, nil
}

// Filecmd applies Setstat the way a handler is documented to: by AttrFlags()/Attributes().
func (h *c17Handler) Filecmd(r *Request) error {
	if r.Method != "Setstat" {
		return ErrSSHFxOpUnsupported
	}
	p := h.p(r.Filepath)
	fl, at := r.AttrFlags(), r.Attributes()
	if fl.Size {
		if err := os.Truncate(p, int64(at.Size)); err != nil {
			return err
		}
	}
	if fl.Permissions {
		if err := os.Chmod(p, at.FileMode()); err != nil {
			return err
		}
	}
	if fl.UidGid {
		if err := os.Chown(p, int(at.UID), int(at.GID)); err != nil {
			return err
		}
	}
	if fl.Acmodtime {
		if err := os.Chtimes(p, at.AccessTime(), at.ModTime()); err != nil {
			return err
		}
	}
	return nil
}

func (h *c17Handler) handlers() Handlers { return Handlers{h, h, h, h} }

func c17Serve(server, root string) *bSession {
	if server == "rs" {
		return bServeRS((&c17Handler{root}).handlers())
	}
	return bServeOS(WithServerWorkingDirectory(root))
}

// ---- served attributes ---------------------------------------------------------------------

type c17Node struct {
	kind  *c17Kind
	name  string
	perm  uint32 // requested 0..07777
	owner [2]int
	mtime int64
}

var c17Mtimes = []int64{1_000_000_000, 1, 1<<31 - 1, 1 << 31, 1<<32 - 1, 1_234_567_890}

// (5:5 and 65534:65534: one number that is a user and a group with different names - games/tty, nobody/nogroup)
var c17Owners = [][2]int{{0, 0}, {1, 2}, {65534, 65533}, {0, 7}, {5, 5}, {65534, 65534}}

func c17PermWords(all bool) []uint32 {
	if all {
		w := make([]uint32, 4096)
		for i := range w {
			w[i] = uint32(i)
		}
		return w
	}
	set := map[uint32]bool{}
	for _, w := range []uint32{0, 0o777, 0o7777, 0o7000, 0o644, 0o755, 0o600, 0o4755, 0o2755, 0o1777, 0o4644, 0o2644, 0o1644, 0o6711, 0o111, 0o444, 0o222, 0o4100, 0o2010, 0o1001} {
		set[w] = true
	}
	for b := uint(0); b < 12; b++ {
		set[1<<b] = true
		set[0o7777&^(1<<b)] = true
	}
	var out []uint32
	for w := range set {
		out = append(out, w)
	}
	sort.Slice(out, func(i, j int) bool { return out[i] < out[j] })
	return out
}

func c17Create(dir string, n *c17Node) error {
	p := filepath.Join(dir, n.name)
	var err error
	switch n.kind.name {
	case "regular":
		err = os.WriteFile(p, []byte(strings.Repeat("x", int(n.perm%11))), 0o600)
	case "dir":
		err = os.Mkdir(p, 0o700)
	case "symlink":
		err = os.Symlink([]string{"target-file", "target-dir", "nowhere"}[n.perm%3], p)
	case "fifo":
		err = syscall.Mknod(p, syscall.S_IFIFO|0o600, 0)
	case "socket":
		err = syscall.Mknod(p, syscall.S_IFSOCK|0o600, 0)
	case "chardev":
		err = syscall.Mknod(p, syscall.S_IFCHR|0o600, 1<<8|3)
	case "blockdev":
		err = syscall.Mknod(p, syscall.S_IFBLK|0o600, 7<<8|0)
	}
	if err != nil {
		return err
	}
	if err = os.Lchown(p, n.owner[0], n.owner[1]); err != nil { // before chmod: chown clears set-id bits
		return err
	}
	if n.kind.name != "symlink" {
		if err = syscall.Chmod(p, n.perm); err != nil {
			return err
		}
	}
	c17Lutimes(p, 77, n.mtime)
	return nil
}

func c17Uid(fi os.FileInfo) (uint32, uint32, uint64) {
	st := fi.Sys().(*syscall.Stat_t)
	return st.Uid, st.Gid, uint64(st.Nlink)
}

// c17Against compares what came through the protocol with what package os reports.
func c17Against(got, want os.FileInfo) string {
	u, g, _ := c17Uid(want)
	return c17CmpInfo(got, want.Size(), want.Mode(), want.ModTime().Unix(), u, g)
}

type c17Entry struct {
	name, long string
	attrs      *FileStat
	flags      uint32
}

// c17RawList reads a directory with raw OPENDIR/READDIR packets and returns name, long name and attributes.
func c17RawList(server, root, dir string) ([]c17Entry, error) {
	s := c17Serve(server, root)
	defer s.Stop(nil)
	if f, err := s.Exchange(c17Pkt(sshFxpInit, uint32(3))); err != nil || f.typ != sshFxpVersion {
		return nil, fmt.Errorf("INIT: %v %v", f, err)
	}
	f, err := s.Exchange(c17Pkt(sshFxpOpendir, uint32(1), dir))
	if err != nil || f.typ != sshFxpHandle {
		return nil, fmt.Errorf("OPENDIR %s: %v %v", dir, f, err)
	}
	h := string(f.body[8:])
	var out []c17Entry
	for id := uint32(2); ; id++ {
		f, err := s.Exchange(c17Pkt(sshFxpReaddir, id, h))
		if err != nil {
			return nil, err
		}
		if code, ok := f.statusCode(); ok {
			if code == sshFxEOF {
				return out, nil
			}
			return nil, fmt.Errorf("READDIR: %v", f)
		}
		if f.typ != sshFxpName {
			return nil, fmt.Errorf("READDIR: %v", f)
		}
		b := f.body[4:]
		n, b, e := unmarshalUint32Safe(b)
		if e != nil {
			return nil, e
		}
		for i := uint32(0); i < n; i++ {
			var ent c17Entry
			if ent.name, b, e = unmarshalStringSafe(b); e != nil {
				return nil, e
			}
			if ent.long, b, e = unmarshalStringSafe(b); e != nil {
				return nil, e
			}
			if ent.flags, _, e = unmarshalUint32Safe(b); e != nil {
				return nil, e
			}
			if ent.attrs, b, e = unmarshalAttrs(b); e != nil {
				return nil, e
			}
			out = append(out, ent)
		}
	}
}

func c17LookupUser(id uint32) string {
	if u, err := user.LookupId(strconv.FormatUint(uint64(id), 10)); err == nil {
		return u.Username
	}
	return ""
}
func c17LookupGroup(id uint32) string {
	if g, err := user.LookupGroupId(strconv.FormatUint(uint64(id), 10)); err == nil {
		return g.Name
	}
	return ""
}

// c17LongName parses the long name back and compares it with the entry's structured attributes
// (and nlink with package os, which is the only place it exists).
func c17LongName(e c17Entry, nlink uint64) string {
	f := strings.Fields(e.long)
	if len(f) != 9 {
		return fmt.Sprintf("long name %q has %d fields, want 9", e.long, len(f))
	}
	var d []string
	if want := c17RefLs(e.attrs.Mode); f[0] != want {
		d = append(d, fmt.Sprintf("mode string %q but attrs mode %#o is %q", f[0], e.attrs.Mode, want))
	}
	if f[1] != strconv.FormatUint(nlink, 10) {
		d = append(d, fmt.Sprintf("link count %s but the file has %d", f[1], nlink))
	}
	if f[2] != strconv.FormatUint(uint64(e.attrs.UID), 10) && f[2] != c17LookupUser(e.attrs.UID) {
		d = append(d, fmt.Sprintf("owner %q but attrs uid %d", f[2], e.attrs.UID))
	}
	if f[3] != strconv.FormatUint(uint64(e.attrs.GID), 10) && f[3] != c17LookupGroup(e.attrs.GID) {
		d = append(d, fmt.Sprintf("group %q but attrs gid %d", f[3], e.attrs.GID))
	}
	if f[4] != strconv.FormatUint(e.attrs.Size, 10) {
		d = append(d, fmt.Sprintf("size %s but attrs size %d", f[4], e.attrs.Size))
	}
	mt := time.Unix(int64(e.attrs.Mtime), 0)
	if f[5] != mt.Format("Jan") || f[6] != mt.Format("2") {
		d = append(d, fmt.Sprintf("date %s %s but attrs mtime %d is %s", f[5], f[6], e.attrs.Mtime, mt.Format("Jan 2")))
	}
	if f[7] != mt.Format("2006") && f[7] != mt.Format("15:04") { // which of the two depends on time.Now (not owned)
		d = append(d, fmt.Sprintf("year/time %s but attrs mtime %d is %s / %s", f[7], e.attrs.Mtime, mt.Format("2006"), mt.Format("15:04")))
	}
	if f[8] != e.name {
		d = append(d, fmt.Sprintf("name %q but entry name %q", f[8], e.name))
	}
	return strings.Join(d, "; ")
}

func c17Served(c *reg.Ctx) *reg.Result {
	res := reg.NewResult(c.Part)
	old := syscall.Umask(0o022)
	defer syscall.Umask(old)
	root := scratchDir()
	defer os.RemoveAll(root)
	dir := filepath.Join(root, "k")
	os.Mkdir(dir, 0o755)
	os.WriteFile(filepath.Join(dir, "target-file"), []byte("0123456789"), 0o644)
	os.Mkdir(filepath.Join(dir, "target-dir"), 0o751)
	c17Lutimes(filepath.Join(dir, "target-file"), 5, 1_111_111_111)
	c17Lutimes(filepath.Join(dir, "target-dir"), 5, 1_222_222_222)

	words := c17PermWords(c.Arg("perms", "boundary") == "all")
	var nodes []*c17Node
	skipped := map[string]string{}
	var i int64
	allOwners := c.Arg("owners", "rotate") == "all"
	for _, k := range c17Kinds {
		ws := words
		if k.name == "symlink" {
			ws = []uint32{0, 1, 2, 3, 4, 5, 6, 7, 8, 9, 10, 11} // symlinks have no settable permissions: vary target, owner, mtime
		}
		for _, w := range ws {
			for oi := range c17Owners {
				i++
				if !allOwners && oi != int(w)%len(c17Owners) {
					continue
				}
				if !c.Mine(i) {
					continue
				}
				k := k
				n := &c17Node{kind: &k, name: fmt.Sprintf("%s-%04o-%d", k.name, w, oi), perm: w, owner: c17Owners[oi], mtime: c17Mtimes[int(i/3)%len(c17Mtimes)]}
				if skipped[k.name] != "" {
					continue
				}
				if err := c17Create(dir, n); err != nil {
					skipped[k.name] = err.Error()
					continue
				}
				nodes = append(nodes, n)
			}
		}
	}
	res.Notes["kinds_not_creatable"] = skipped
	want := map[string]os.FileInfo{}
	for _, n := range nodes {
		fi, err := os.Lstat(filepath.Join(dir, n.name))
		if err != nil {
			panic(err)
		}
		want[n.name] = fi
	}
	for _, server := range []string{"os", "rs"} {
		if c.Expired() {
			res.Exhaustive = false
			break
		}
		s := c17Serve(server, root)
		cl, err := s.Client()
		if err != nil {
			panic(err)
		}
		viol := func(key string, n *c17Node, msg string) {
			res.Violate("C17", fmt.Sprintf("c17-served-%s:%s:%s", key, server, n.kind.name), fmt.Sprintf("%s server, %s (perm %04o owner %d:%d mtime %d): %s", server, n.name, n.perm, n.owner[0], n.owner[1], n.mtime, msg),
				map[string]any{"server": server, "kind": n.kind.name, "perm": n.perm, "owner": n.owner, "mtime": n.mtime}, nil)
		}
		listed := map[string]os.FileInfo{}
		if ents, err := cl.ReadDir("k"); err != nil {
			res.Violate("C17", "c17-served-readdir:"+server, fmt.Sprintf("%s server: ReadDir failed: %v", server, err), nil, nil)
		} else {
			for _, e := range ents {
				listed[e.Name()] = e
			}
		}
		for _, n := range nodes {
			res.Case(server + " " + n.name)
			res.Sample(fmt.Sprintf("%s server: %s perm=%04o owner=%d:%d mtime=%d -> os.Lstat mode %v", server, n.name, n.perm, n.owner[0], n.owner[1], n.mtime, want[n.name].Mode()))
			res.Outcome(server + " " + n.kind.name)
			p := "k/" + n.name
			if got, err := cl.Lstat(p); err != nil {
				viol("lstat", n, fmt.Sprintf("Client.Lstat failed: %v", err))
			} else if d := c17Against(got, want[n.name]); d != "" {
				viol("lstat", n, "Client.Lstat differs from os.Lstat: "+d)
			}
			ost, oerr := os.Stat(filepath.Join(dir, n.name))
			got, err := cl.Stat(p)
			switch {
			case oerr != nil && err == nil:
				viol("stat", n, fmt.Sprintf("Client.Stat succeeds but os.Stat fails with %v", oerr))
			case oerr != nil:
				if errClass(err) != errClass(oerr) {
					viol("stat", n, fmt.Sprintf("Client.Stat error %v, os.Stat error %v", err, oerr))
				}
			case err != nil:
				viol("stat", n, fmt.Sprintf("Client.Stat failed: %v", err))
			default:
				if d := c17Against(got, ost); d != "" {
					viol("stat", n, "Client.Stat differs from os.Stat: "+d)
				}
			}
			if e, ok := listed[n.name]; !ok {
				viol("readdir", n, "missing from Client.ReadDir")
			} else if d := c17Against(e, want[n.name]); d != "" {
				viol("readdir", n, "Client.ReadDir entry differs from os.Lstat: "+d)
			}
			if n.kind.name == "regular" || n.kind.name == "dir" {
				f, err := cl.Open(p)
				if err != nil {
					viol("fstat", n, fmt.Sprintf("Open failed: %v", err))
					continue
				}
				if got, err := f.Stat(); err != nil {
					viol("fstat", n, fmt.Sprintf("File.Stat failed: %v", err))
				} else if d := c17Against(got, want[n.name]); d != "" {
					viol("fstat", n, "File.Stat differs from os.Lstat: "+d)
				}
				f.Close()
			}
		}
		s.Stop(cl)
		// long names
		dirArg := "k"
		ents, err := c17RawList(server, root, dirArg)
		if err != nil {
			res.Violate("C17", "c17-longname-list:"+server, fmt.Sprintf("%s server: raw listing failed: %v", server, err), nil, nil)
			continue
		}
		byName := map[string]c17Entry{}
		for _, e := range ents {
			byName[e.name] = e
		}
		for _, n := range nodes {
			e, ok := byName[n.name]
			if !ok {
				viol("longname", n, "missing from raw READDIR")
				continue
			}
			_, _, nlink := c17Uid(want[n.name])
			if d := c17LongName(e, nlink); d != "" {
				viol("longname", n, fmt.Sprintf("long name %q disagrees with the entry's attributes: %s", e.long, d))
			}
			wf := uint32(sshFileXferAttrSize | sshFileXferAttrPermissions | sshFileXferAttrACmodTime | sshFileXferAttrUIDGID)
			if e.flags != wf {
				viol("readdir-flags", n, fmt.Sprintf("READDIR attrs carry flags %#x, want %#x", e.flags, wf))
			}
		}
	}
	res.Bound = fmt.Sprintf("%d permission/special-bit words x 6 kinds (+12 symlinks), owners %v (all per word: %v), mtimes %v rotating, through both servers", len(words), c17Owners, allOwners, c17Mtimes)
	return res
}

// ---- SETSTAT / FSETSTAT ---------------------------------------------------------------------

type c17Vals struct {
	flags        uint32
	size         uint64
	perm         uint32
	uid, gid     uint32
	atime, mtime uint32
}

func (v c17Vals) String() string {
	var s []string
	if v.flags&sshFileXferAttrSize != 0 {
		s = append(s, fmt.Sprintf("size=%d", v.size))
	}
	if v.flags&sshFileXferAttrUIDGID != 0 {
		s = append(s, fmt.Sprintf("owner=%d:%d", v.uid, v.gid))
	}
	if v.flags&sshFileXferAttrPermissions != 0 {
		s = append(s, fmt.Sprintf("perm=%#o", v.perm))
	}
	if v.flags&sshFileXferAttrACmodTime != 0 {
		s = append(s, fmt.Sprintf("atime=%d,mtime=%d", v.atime, v.mtime))
	}
	return fmt.Sprintf("flags=%#x{%s}", v.flags, strings.Join(s, " "))
}

func (v c17Vals) bytes() []byte {
	var b []byte
	if v.flags&sshFileXferAttrSize != 0 {
		b = binary.BigEndian.AppendUint64(b, v.size)
	}
	if v.flags&sshFileXferAttrUIDGID != 0 {
		b = binary.BigEndian.AppendUint32(b, v.uid)
		b = binary.BigEndian.AppendUint32(b, v.gid)
	}
	if v.flags&sshFileXferAttrPermissions != 0 {
		b = binary.BigEndian.AppendUint32(b, v.perm)
	}
	if v.flags&sshFileXferAttrACmodTime != 0 {
		b = binary.BigEndian.AppendUint32(b, v.atime)
		b = binary.BigEndian.AppendUint32(b, v.mtime)
	}
	return b
}

// c17AllVals: all 16 flag subsets x the value product of the flagged attributes.
func c17AllVals() []c17Vals {
	sizes := []uint64{0, 3, 5, 9}
	perms := []uint32{0o600, 0o7777, 0o4755, 0, 0o100644, 0o2070}
	owners := [][2]uint32{{0, 0}, {1, 2}, {65534, 65533}}
	times := [][2]uint32{{111, 222}, {1<<31 + 5, 1<<32 - 1}, {333, 1_000_000_000}}
	var out []c17Vals
	for m := uint32(0); m < 16; m++ {
		vs := []c17Vals{{flags: m}} // the low four flag bits are exactly size, uidgid, permissions, acmodtime
		expand := func(bit uint32, n int, set func(v *c17Vals, i int)) {
			if m&bit == 0 {
				return
			}
			var nv []c17Vals
			for _, v := range vs {
				for i := 0; i < n; i++ {
					w := v
					set(&w, i)
					nv = append(nv, w)
				}
			}
			vs = nv
		}
		expand(sshFileXferAttrSize, len(sizes), func(v *c17Vals, i int) { v.size = sizes[i] })
		expand(sshFileXferAttrUIDGID, len(owners), func(v *c17Vals, i int) { v.uid, v.gid = owners[i][0], owners[i][1] })
		expand(sshFileXferAttrPermissions, len(perms), func(v *c17Vals, i int) { v.perm = perms[i] })
		expand(sshFileXferAttrACmodTime, len(times), func(v *c17Vals, i int) { v.atime, v.mtime = times[i][0], times[i][1] })
		out = append(out, vs...)
	}
	return out
}

const (
	c17InitMtime = 987_654_321
	c17InitAtime = 876_543_210
)

// c17MkTarget creates served object A or twin B of a target kind inside dir; returns the path requests use.
func c17MkTarget(dir, name, target string) string {
	p := filepath.Join(dir, name)
	var err error
	switch target {
	case "dir":
		err = os.Mkdir(p, 0o755)
	default:
		err = os.WriteFile(p, []byte("hello"), 0o644)
	}
	if err != nil {
		panic(err)
	}
	c17Lutimes(p, c17InitAtime, c17InitMtime)
	if target == "symlink" {
		if err := os.Symlink(name, filepath.Join(dir, "L"+name)); err != nil {
			panic(err)
		}
		return "L" + name
	}
	return name
}

// c17Twin applies the corresponding os calls in the server's documented order, stopping at the first error.
func c17Twin(path string, v c17Vals, viaFile *os.File) error {
	if v.flags&sshFileXferAttrSize != 0 {
		var err error
		if viaFile != nil {
			err = viaFile.Truncate(int64(v.size))
		} else {
			err = os.Truncate(path, int64(v.size))
		}
		if err != nil {
			return err
		}
	}
	if v.flags&sshFileXferAttrPermissions != 0 {
		var err error
		if viaFile != nil {
			err = syscall.Fchmod(int(viaFile.Fd()), v.perm&0o7777)
		} else {
			err = syscall.Chmod(path, v.perm&0o7777)
		}
		if err != nil {
			return err
		}
	}
	if v.flags&sshFileXferAttrUIDGID != 0 {
		var err error
		if viaFile != nil {
			err = viaFile.Chown(int(v.uid), int(v.gid))
		} else {
			err = os.Chown(path, int(v.uid), int(v.gid))
		}
		if err != nil {
			return err
		}
	}
	if v.flags&sshFileXferAttrACmodTime != 0 {
		if err := os.Chtimes(path, time.Unix(int64(v.atime), 0), time.Unix(int64(v.mtime), 0)); err != nil {
			return err
		}
	}
	return nil
}

// c17State describes an object for the twin comparison. Times that were not set explicitly are
// compared as kept/moved (the kernel moves them to "now", which is not owned).
func c17State(path string, v c17Vals, timesSet bool) string {
	fi, err := os.Stat(path)
	if err != nil {
		return "stat error: " + errClass(err)
	}
	st := fi.Sys().(*syscall.Stat_t)
	s := fmt.Sprintf("mode=%v size=%d owner=%d:%d", fi.Mode(), fi.Size(), st.Uid, st.Gid)
	if fi.Mode().IsRegular() {
		b, _ := os.ReadFile(path)
		s += fmt.Sprintf(" content=%q", b)
	}
	cls := func(sec, nsec, init int64) string {
		if timesSet {
			return fmt.Sprintf("%d.%09d", sec, nsec)
		}
		if sec == init && nsec == 0 {
			return "kept"
		}
		return "moved"
	}
	s += " mtime=" + cls(int64(st.Mtim.Sec), int64(st.Mtim.Nsec), c17InitMtime)
	if timesSet { // atime is only compared when the request sets it (reads above move it)
		s += " atime=" + cls(int64(st.Atim.Sec), int64(st.Atim.Nsec), c17InitAtime)
	}
	return s
}

func c17Setstat(c *reg.Ctx) *reg.Result {
	res := reg.NewResult(c.Part)
	old := syscall.Umask(0o022)
	defer syscall.Umask(old)
	root := scratchDir()
	defer os.RemoveAll(root)
	type variant struct {
		server, req, target string
		pflags              uint32
	}
	variants := []variant{
		{"os", "SETSTAT", "file", 0}, {"os", "SETSTAT", "dir", 0}, {"os", "SETSTAT", "symlink", 0},
		{"os", "FSETSTAT", "file", sshFxfRead | sshFxfWrite}, {"os", "FSETSTAT", "file", sshFxfRead},
		{"rs", "SETSTAT", "file", 0}, {"rs", "SETSTAT", "dir", 0}, {"rs", "SETSTAT", "symlink", 0},
		{"rs", "FSETSTAT", "file", sshFxfRead | sshFxfWrite},
	}
	vals := c17AllVals()
	sess := map[string]*bSession{}
	for _, sv := range []string{"os", "rs"} {
		s := c17Serve(sv, root)
		if f, err := s.Exchange(c17Pkt(sshFxpInit, uint32(3))); err != nil || f.typ != sshFxpVersion {
			panic(fmt.Sprintf("c17: INIT: %v %v", f, err))
		}
		sess[sv] = s
	}
	defer func() {
		for _, s := range sess {
			s.Stop(nil)
		}
	}()
	var i int64
	id := uint32(1)
	total := 0
outer:
	for _, vr := range variants {
		for _, v := range vals {
			i++
			total++
			if !c.Mine(i) {
				continue
			}
			if c.Expired() {
				res.Exhaustive = false
				break outer
			}
			desc := fmt.Sprintf("%s server %s %s (pflags %#x) %v", vr.server, vr.req, vr.target, vr.pflags, v)
			res.Case(desc)
			res.Sample(desc)
			dir := filepath.Join(root, fmt.Sprintf("c%d", i))
			os.Mkdir(dir, 0o755)
			reqPathA := c17MkTarget(dir, "A", vr.target)
			reqPathB := c17MkTarget(dir, "B", vr.target)
			wire := fmt.Sprintf("c%d/%s", i, reqPathA)
			s := sess[vr.server]
			var got frame
			var err error
			var twinErr error
			if vr.req == "SETSTAT" {
				id++
				got, err = s.Exchange(c17Pkt(sshFxpSetstat, id, wire, v.flags, v.bytes()))
				twinErr = c17Twin(filepath.Join(dir, reqPathB), v, nil)
			} else {
				id++
				hf, herr := s.Exchange(c17Pkt(sshFxpOpen, id, wire, vr.pflags, uint32(0)))
				if herr != nil || hf.typ != sshFxpHandle {
					panic(fmt.Sprintf("c17: OPEN %s: %v %v", wire, hf, herr))
				}
				h := string(hf.body[8:])
				id++
				got, err = s.Exchange(c17Pkt(sshFxpFsetstat, id, h, v.flags, v.bytes()))
				id++
				if cf, cerr := s.Exchange(c17Pkt(sshFxpClose, id, h)); cerr != nil || cf.typ != sshFxpStatus {
					panic(fmt.Sprintf("c17: CLOSE: %v %v", cf, cerr))
				}
				if vr.server == "os" { // the os-backed server works through the open file; a handler only has the path
					fl := os.O_RDONLY
					if vr.pflags&sshFxfWrite != 0 {
						fl = os.O_RDWR
					}
					tf, terr := os.OpenFile(filepath.Join(dir, reqPathB), fl, 0)
					if terr != nil {
						panic(terr)
					}
					twinErr = c17Twin(filepath.Join(dir, reqPathB), v, tf)
					tf.Close()
				} else {
					twinErr = c17Twin(filepath.Join(dir, reqPathB), v, nil)
				}
			}
			key := fmt.Sprintf("%s:%s:%s", vr.server, vr.req, vr.target)
			replay := map[string]any{"server": vr.server, "request": vr.req, "target": vr.target, "pflags": vr.pflags, "flags": v.flags, "values": v.String(), "attr_bytes_hex": fmt.Sprintf("%x", v.bytes())}
			if err != nil {
				res.Violate("C17", "c17-setstat-noreply:"+key, fmt.Sprintf("%s: no reply: %v", desc, err), replay, nil)
				break outer
			}
			code, isStatus := got.statusCode()
			if !isStatus {
				res.Violate("C17", "c17-setstat-reply:"+key, fmt.Sprintf("%s: answered %v", desc, got), replay, nil)
				continue
			}
			if (code == sshFxOk) != (twinErr == nil) {
				res.Violate("C17", "c17-setstat-status:"+key, fmt.Sprintf("%s: answered %s but the same os calls on the twin give %v", desc, fx(code), twinErr), replay, nil)
			}
			timesSet := v.flags&sshFileXferAttrACmodTime != 0 && twinErr == nil
			a := c17State(filepath.Join(dir, "A"), v, timesSet)
			b := c17State(filepath.Join(dir, "B"), v, timesSet)
			if a != b {
				res.Violate("C17", fmt.Sprintf("c17-setstat-effect:%s:flags=%#x", key, v.flags), fmt.Sprintf("%s: served object is now {%s} but the twin, after the corresponding os calls, is {%s}", desc, a, b), replay, nil)
			}
			out := fmt.Sprintf("%s flags=%#x %s", key, v.flags, fx(code))
			res.Outcome(out)
			os.RemoveAll(dir)
		}
	}
	res.Bound = fmt.Sprintf("%d variants (server x request x target) x %d (flag subset, value) combinations = %d cases", len(variants), len(vals), len(variants)*len(vals))
	return res
}

// c17OSNames: the os-backed server's id lookup (what its listings show as owner and group) for every ordered pair
// (uid, gid) over all numbers the account databases know plus unknown ones, in one process (so that whatever the
// package remembers between lookups is part of what is explored); reference: package os/user asked directly.
func c17OSNames(c *reg.Ctx) *reg.Result {
	res := reg.NewResult(c.Part)
	seen := map[uint32]bool{}
	var ids []uint32
	for _, f := range []string{"/etc/passwd", "/etc/group"} {
		b, _ := os.ReadFile(f)
		for _, l := range strings.Split(string(b), "\n") {
			if p := strings.Split(l, ":"); len(p) > 2 {
				if n, err := strconv.ParseUint(p[2], 10, 32); err == nil && !seen[uint32(n)] {
					seen[uint32(n)] = true
					ids = append(ids, uint32(n))
				}
			}
		}
	}
	for _, n := range []uint32{4242, 1<<32 - 1} { // no account
		if !seen[n] {
			ids = append(ids, n)
		}
	}
	sort.Slice(ids, func(i, j int) bool { return ids[i] < ids[j] })
	differ := 0
	for _, n := range ids {
		if u, g := c17LookupUser(n), c17LookupGroup(n); u != "" && g != "" && u != g {
			differ++
		}
	}
	name := func(n uint32, look func(uint32) string) string {
		if s := look(n); s != "" {
			return s
		}
		return fmt.Sprint(n)
	}
	for round := 0; round < 2; round++ { // uid-major, then gid-major
		for _, a := range ids {
			for _, b := range ids {
				uid, gid := a, b
				if round == 1 {
					uid, gid = b, a
				}
				desc := fmt.Sprintf("owner %d:%d", uid, gid)
				res.Case(desc)
				fi := &c17InfoUG{c17Info{name: "n", size: 1, mode: 0o644, mtime: 1_000_000_000, uid: uid, gid: gid}}
				lf := strings.Fields(runLs(osIDLookup{}, fi))
				wu, wg := name(uid, c17LookupUser), name(gid, c17LookupGroup)
				if len(lf) < 9 || lf[2] != wu || lf[3] != wg {
					res.Violate("C17", "c17-os-names", fmt.Sprintf("long name of an entry with %s as the os-backed server renders it: %q; package os/user resolves the owner to %q and the group to %q", desc, strings.Join(lf, " "), wu, wg), desc, nil)
				}
				res.Outcome(wu + ":" + wg)
			}
		}
	}
	res.States = res.Evaluations
	res.Bound = fmt.Sprintf("all ordered pairs over %d numeric ids (every uid and gid of the account databases, %d of them naming a user and a group differently, and 2 without an account), uid-major then gid-major, in one process", len(ids), differ)
	return res
}

func init() {
	reg.Part("C17/osnames", c17OSNames)
	reg.Part("C17/modes", c17Modes)
	reg.Part("C17/codec", c17Codec)
	reg.Part("C17/served", c17Served)
	reg.Part("C17/setstat", c17Setstat)
	reg.Prop(&reg.Property{
		ID:    "C17",
		Level: "model_checking",
		Rule: "modes: every 16-bit wire mode word and every os.FileMode of one type + 9 permission + 3 special bits, against a table-driven reference (distinct = each word); codec: every such mode with (size, mtime, owner) boundary values through fileStatFromInfo/marshal/unmarshal/fileInfoFromStat and the ATTRS packet; " +
			"served: every file kind creatable as root (regular, dir, symlink, fifo, socket, char device, block device) x permission/special-bit words x rotating owners and mtimes, created on tmpfs and read back through Client.Lstat/Stat/ReadDir/File.Stat and raw READDIR long names from both servers, compared with package os; " +
			"setstat: SETSTAT/FSETSTAT x all 16 attribute-flag subsets x value product x target kinds on both servers, compared with the same os calls applied to a twin (distinct = each (variant, flags, values))",
		Assumptions: []string{
			"linux, root (mknod, chown), tmpfs scratch; umask pinned to 022",
			"mtimes are compared to the second and chosen within 0..2^32-1 (what the protocol can carry); times a request does not set are compared as kept/moved because the kernel moves them to 'now'",
			"the year-or-time field of a long name depends on time.Now (not owned): either rendering of the entry's mtime is accepted; owner/group may be numeric or the name package os/user resolves",
			"the RequestServer is driven with a small handler that serves os.Lstat/os.Stat infos and applies Setstat via Request.AttrFlags()/Attributes(); that handler is part of the trusted base",
		},
		Jobs: func(tier string) []reg.Job {
			// every tier uses all 4096 permission words; thorough additionally crosses each word with all owners.
			// (Shard goroutines with Procs 2 are kept below 16 per tier: the driver's slot semaphore is acquired one slot at a time.)
			perms, owners := "all", "rotate"
			shards, procs := 16, 1
			if tier == "thorough" {
				owners = "all"
			}
			return []reg.Job{
				{Part: "C17/modes", Build: "plain", Shards: 1, BudgetS: 60, Procs: 1, Label: "mode conversions (2^16 wire words, 28672 os modes)"},
				{Part: "C17/codec", Build: "plain", Shards: 4, BudgetS: 60, Procs: 1, Label: "FileStat/ATTRS codec identity"},
				{Part: "C17/osnames", Build: "plain", Shards: 1, BudgetS: 60, Procs: 1, Label: "owner and group names of the os-backed server, all (uid, gid) pairs of the account databases"},
				{Part: "C17/served", Build: "plain", Args: map[string]string{"perms": perms, "owners": owners}, Shards: shards, BudgetS: 80, Procs: procs, Label: "served attributes and long names (" + perms + " permission words, owners " + owners + ")"},
				{Part: "C17/setstat", Build: "plain", Shards: 4, BudgetS: 80, Procs: 2, Label: "SETSTAT/FSETSTAT vs twin"},
			}
		},
	})
}
