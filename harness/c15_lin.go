//go:build verif

package sftp

// C15: concurrent single-packet operations are linearizable.
// The instrumented client AND the real RequestServer (or the os-backed Server) run in one
// scheduled system; every complete execution yields a call/return history stamped with scheduler
// step numbers that porcupine checks against the sequential byte-array model.

import (
	"context"
	"fmt"
	"io"
	"os"
	"path/filepath"
	"strings"

	"verif/explore"
	"verif/lin"
	"verif/reg"
	"verif/vsched"
)

type c15Op struct {
	kind   string // read write size pread pwrite
	off    int
	data   string
	handle int // index of the File used
}

type c15Spec struct {
	finalRead bool // the history ends with a read of the whole file after every caller has returned
	pkt       int  // client packet size and server maximum payload (0: 2 bytes / default): reads and writes of that size are single-packet operations
	partial   int  // the store's first reads deliver half and a transient error (those reads may fail; the rest must still be linearizable)
	server    string
	alloc     bool
	handles   int
	callers   [][]c15Op
}

const c15Init = "wxyz"

// c15InitFor: the initial content (one packet of 'w' when the packet size is large)
func c15InitFor(s c15Spec) string {
	if s.pkt > 0 {
		return strings.Repeat("w", s.pkt)
	}
	return c15Init
}

func c15Scenario(s c15Spec) explore.Scenario {
	return func() (func(), func(*vsched.Exec) explore.Verdict) {
		var hist []lin.Op
		var bad []string
		var h *vhandler
		var root string
		var closeErr error
		body := func() {
			c2s, s2c := NewVPipe("c2s"), NewVPipe("s2c")
			conn := &vduplex{in: c2s, out: s2c}
			var serve func() error
			switch s.server {
			case "rs":
				h = newVHandler(false) // atomic backing-store operations (the property's precondition)
				f := h.file("/f", true)
				f.data = []byte(c15InitFor(s))
				f.PartialReads = s.partial
				var opts []RequestServerOption
				if s.alloc {
					opts = append(opts, WithRSAllocator())
				}
				if s.pkt > 0 {
					opts = append(opts, WithRSMaxTxPacket(uint32(s.pkt)))
				}
				rs := NewRequestServer(conn, h.handlers(), opts...)
				serve = rs.Serve
			case "os":
				root = scratchDir()
				os.WriteFile(filepath.Join(root, "f"), []byte(c15InitFor(s)), 0o644)
				var opts []ServerOption
				if s.alloc {
					opts = append(opts, WithAllocator())
				}
				opts = append(opts, WithServerWorkingDirectory(root))
				if s.pkt > 0 {
					opts = append(opts, WithMaxTxPacket(uint32(s.pkt)))
				}
				sv, err := NewServer(conn, opts...)
				if err != nil {
					panic(err)
				}
				serve = sv.Serve
			}
			vsched.GoNamed("serve", "harness", func() {
				serve()
				s2c.CloseWrite()
			})
			cpkt := 2
			if s.pkt > 0 {
				cpkt = s.pkt
			}
			c, err := NewClientPipe(s2c, c2s, MaxPacketUnchecked(cpkt), MaxConcurrentRequestsPerFile(2))
			if err != nil {
				bad = append(bad, "NewClientPipe: "+err.Error())
				c2s.CloseWrite()
				return
			}
			// the handles are opened through the client API, so that whatever Client.open sets up in a
			// File is part of the system under test
			files := make([]*File, s.handles)
			for i := range files {
				name := "/f"
				if s.server == "os" {
					name = "f"
				}
				flags := os.O_RDWR
				if s.partial > 0 && i == 0 && s.handles > 1 {
					flags = os.O_RDONLY // served through the request server's read-only path
				}
				f, err := c.OpenFile(name, flags)
				if err != nil {
					bad = append(bad, "OpenFile: "+err.Error())
					c.Close()
					return
				}
				files[i] = f
			}
			results := make([][]lin.Op, len(s.callers))
			var g vgroup
			lsCtx, lsCancel := context.WithCancel(context.Background())
			defer lsCancel()
			for _, ops := range s.callers {
				for _, o := range ops {
					if o.kind == "lsabandon" {
						g.Go("canceller", func() {
							vsched.Env("lin.cancel", &lsCtx, false, nil) // at a point the explorer chooses
							lsCancel()
						})
					}
				}
			}
			for ci := range s.callers {
				ci := ci
				g.Go(fmt.Sprintf("caller%d", ci), func() {
					for _, o := range s.callers[ci] {
						f := files[o.handle]
						if o.kind == "lsabandon" {
							// the connection is used for a directory listing which its caller abandons at some point (or not at
							// all); not an operation on the file, hence not part of the history
							dir := "/"
							if s.server == "os" {
								dir = "."
							}
							c.ReadDirContext(lsCtx, dir)
							continue
						}
						// call and return are operations on one shared object: their order (the real-time order the
						// history is judged with) is then part of the happens-before relation, which makes the state
						// cache sound for this harness
						vsched.Env("lin.call", &hist, false, nil)
						op := lin.Op{Client: ci, Kind: o.kind, Off: o.off, Handle: o.handle, Call: int64(2*vsched.StepNo() + 1)}
						switch o.kind {
						case "pread": // at the File's own position, shared by the goroutines that share the File
							b := make([]byte, 2)
							n, err := f.Read(b)
							if err != nil && !(err == io.EOF && n == 2) {
								bad = append(bad, fmt.Sprintf("Read(2): n=%d %v", n, err))
							}
							op.N, op.Data = 2, string(b[:n])
						case "pwrite":
							n, err := f.Write([]byte(o.data))
							if err != nil || n != len(o.data) {
								bad = append(bad, fmt.Sprintf("Write(%q): n=%d %v", o.data, n, err))
							}
							op.Data = o.data
						case "read":
							b := make([]byte, max(2, s.pkt))
							n, err := f.ReadAt(b, int64(o.off))
							if err != nil && s.partial > 0 {
								continue // the store failed this read: it returns an error and is not part of the history
							}
							if err != nil {
								bad = append(bad, fmt.Sprintf("ReadAt(%d): %v", o.off, err))
							}
							op.N, op.Data = len(b), string(b[:n])
						case "write":
							n, err := f.WriteAt([]byte(o.data), int64(o.off))
							if err != nil || n != len(o.data) {
								bad = append(bad, fmt.Sprintf("WriteAt(%d): n=%d %v", o.off, n, err))
							}
							op.Data = o.data
						case "size":
							fi, err := f.Stat()
							if err != nil {
								bad = append(bad, "Stat: "+err.Error())
							} else {
								op.N = int(fi.Size())
							}
						}
						vsched.Env("lin.return", &hist, false, nil)
						op.Return = int64(2 * vsched.StepNo())
						if op.Return < op.Call {
							op.Return = op.Call
						}
						results[ci] = append(results[ci], op)
					}
				})
			}
			g.Wait()
			for _, r := range results {
				hist = append(hist, r...)
			}
			// when all callers have returned the whole file is read once more: the final content must be the one the
			// chosen linearisation leaves behind (writes have no result of their own that could betray a lost update)
			if s.finalRead {
				b := make([]byte, 8)
				op := lin.Op{Client: len(s.callers), Kind: "read", Off: 0, N: len(b), Call: int64(2*vsched.StepNo() + 1)}
				n, err := files[len(files)-1].ReadAt(b, 0)
				if err != nil && err != io.EOF {
					bad = append(bad, "final ReadAt: "+err.Error())
				}
				op.Data = string(b[:n])
				op.Return = int64(2*vsched.StepNo() + 2)
				hist = append(hist, op)
			}
			closeErr = c.Close()
		}
		judge := func(e *vsched.Exec) explore.Verdict {
			if root != "" {
				defer os.RemoveAll(root)
			}
			var hs []string
			for _, o := range hist {
				hs = append(hs, o.String())
			}
			// the outcome fingerprint ignores timestamps: results only
			var rs []string
			for _, o := range hist {
				d := o.Data
				if len(d) > 64 { // large packets: first byte, last byte and the position of the first change
					k := 0
					for k < len(d) && d[k] == d[0] {
						k++
					}
					d = fmt.Sprintf("%c..%c(len %d, first change at %d)", d[0], d[len(d)-1], len(d), k)
				}
				rs = append(rs, fmt.Sprintf("c%d:%s(%d)=%s/%d", o.Client, o.Kind, o.Off, d, o.N))
			}
			v := explore.Verdict{Outcome: strings.Join(rs, " "), Sample: map[string]any{"history": hs}}
			if e.Deadlock {
				return v
			}
			if len(bad) > 0 {
				v.Bad, v.Key = "operation failed: "+strings.Join(bad, "; "), "c15-op-failed"
				return v
			}
			if closeErr != nil {
				v.Bad, v.Key = "Close: "+closeErr.Error(), "c15-close"
				return v
			}
			if !lin.Linearizable(c15InitFor(s), hist) {
				v.Bad = "history is not linearizable w.r.t. a plain byte-array file (initial " + c15Clip(c15InitFor(s)) + "):\n  " + c15Clip(strings.Join(hs, "\n  "))
				v.Key = "c15-not-linearizable:" + s.server
			}
			return v
		}
		return body, judge
	}
}

func c15Clip(s string) string {
	if len(s) > 1500 {
		return s[:700] + " ... " + s[len(s)-700:]
	}
	return s
}

func c15Specs(set, server string, alloc bool) []c15Spec {
	r := func(off, h int) c15Op { return c15Op{kind: "read", off: off, handle: h} }
	w := func(off int, d string, h int) c15Op { return c15Op{kind: "write", off: off, data: d, handle: h} }
	sz := func(h int) c15Op { return c15Op{kind: "size", handle: h} }
	mk := func(handles int, callers ...[]c15Op) c15Spec {
		return c15Spec{server: server, alloc: alloc, handles: handles, callers: callers}
	}
	switch set {
	case "2x2":
		return []c15Spec{
			mk(1, []c15Op{w(0, "ab", 0), r(1, 0)}, []c15Op{w(1, "cd", 0), r(0, 0)}),
			mk(2, []c15Op{w(0, "ab", 0), r(0, 1)}, []c15Op{r(1, 1), w(1, "cd", 0)}),
		}
	case "3x1":
		return []c15Spec{
			mk(1, []c15Op{w(0, "ab", 0)}, []c15Op{w(1, "cd", 0)}, []c15Op{r(0, 0)}),
			mk(2, []c15Op{w(1, "cd", 0)}, []c15Op{r(1, 1)}, []c15Op{sz(0)}),
		}
	case "partial": // a read-only handle (fileget) and a read-write one (fileputget); the first store read is partial
		a := mk(2, []c15Op{r(0, 0), r(1, 0)}, []c15Op{w(0, "ab", 1), w(1, "cd", 1)})
		a.partial = 1
		b := mk(1, []c15Op{r(0, 0)}, []c15Op{w(0, "ab", 0)}, []c15Op{w(1, "cd", 0)})
		b.partial = 1
		return []c15Spec{a, b}
	case "bigpkt": // a packet size above the 32 KiB default on both sides: a 40000-byte read or write is still one packet, hence atomic
		a := mk(2, []c15Op{r(0, 0)}, []c15Op{w(0, strings.Repeat("B", 40000), 1)})
		a.pkt = 40000
		return []c15Spec{a}
	case "pos": // operations at the File's own position, issued by goroutines that share the File
		pr := func(h int) c15Op { return c15Op{kind: "pread", handle: h} }
		pw := func(d string, h int) c15Op { return c15Op{kind: "pwrite", data: d, handle: h} }
		b := mk(1, []c15Op{pw("ab", 0)}, []c15Op{pw("cd", 0)})
		b.finalRead = true // two Writes at the shared position: only the final content shows whether both landed
		return []c15Spec{
			mk(1, []c15Op{pr(0)}, []c15Op{pr(0)}),
			b,
			mk(2, []c15Op{pr(0), r(2, 1)}, []c15Op{pw("ab", 0), pr(1)}),
		}
	case "abandon": // the connection has carried a directory listing that its caller abandoned (context cancelled at any point)
		a := mk(1, []c15Op{{kind: "lsabandon"}, w(0, "ab", 0), r(0, 0)}, []c15Op{r(0, 0)})
		return []c15Spec{a}
	case "2x1":
		return []c15Spec{
			mk(1, []c15Op{w(0, "ab", 0)}, []c15Op{r(0, 0)}),
			mk(2, []c15Op{w(1, "cd", 0)}, []c15Op{w(0, "ab", 1)}),
		}
	}
	panic("unknown set " + set)
}

func init() {
	reg.Part("C15/lin", func(c *reg.Ctx) *reg.Result {
		total := reg.NewResult(c.Part)
		specs := c15Specs(c.Arg("set", "2x2"), c.Arg("server", "rs"), c.Arg("alloc", "0") == "1")
		minDone := 1 << 30
		for i, s := range specs {
			if c.Expired() {
				total.Exhaustive = false
				break
			}
			r := explore.Run(explore.Config{Prop: "C15", Strategy: "db", Bound: c.ArgInt("bound", 2), Ctx: c, Label: c.Part}, c15Scenario(s))
			total.Evaluations += r.Evaluations
			total.States += r.States
			total.Transitions += r.Transitions
			total.Distinct += r.Distinct
			for k, v := range r.Outcomes {
				total.Outcomes[fmt.Sprintf("s%d:%s", i, k)] += v
			}
			for _, sm := range r.Samples {
				total.Sample(sm)
			}
			for _, v := range r.Violations {
				total.Violate(v.Property, v.Key, v.Msg, map[string]any{"spec": fmt.Sprint(s), "schedule": v.Replay}, v.Trace)
			}
			if !r.Exhaustive {
				total.Exhaustive = false
			}
			if r.EngineError != "" {
				total.EngineError = r.EngineError
				break
			}
			if d, ok := r.Notes["db_completed"].(int); ok && d < minDone {
				minDone = d
			}
		}
		if minDone == 1<<30 {
			minDone = -1
		}
		total.Notes["db_completed"] = minDone
		total.Notes["db_target"] = c.ArgInt("bound", 2)
		return total
	})
	reg.Prop(&reg.Property{
		ID:    "C15",
		Level: "model_checking",
		Rule: "the instrumented client and the real server in one scheduled system, 2-3 caller goroutines x 1-2 single-packet operations (ReadAt/WriteAt of 2 bytes inside a 4-byte file, Stat, and Read/Write of 2 bytes at the position of a File shared by the callers) on one or two handles of the same file: " +
			"all schedules with at most d deviations; every complete execution's call/return history (timestamps = scheduler step numbers) is checked by porcupine against the sequential byte-array model; distinct = distinct schedules",
		Assumptions: []string{"backing store ReadAt/WriteAt atomic (one scheduling point each; for the os-backed server the kernel's pread/pwrite)", "W and deviation bounds as reported", "handles are opened through Client.OpenFile before the callers start"},
		Jobs: func(tier string) []reg.Job {
			j := func(label, build, server, set string, bound, budget int, alloc bool) reg.Job {
				a := map[string]string{"server": server, "set": set, "bound": fmt.Sprint(bound)}
				if alloc {
					a["alloc"] = "1"
				}
				return reg.Job{Part: "C15/lin", Build: build, Args: a, Shards: 16, BudgetS: budget, Label: label}
			}
			if tier == "thorough" {
				return withPolicies(tier, []reg.Job{
					j("rs W=2 2x2 db3", "instr-w2", "rs", "2x2", 3, 900, false),
					j("rs W=2 3x1 db3 alloc", "instr-w2", "rs", "3x1", 3, 900, true),
					j("rs W=8 2x2 db2", "instr", "rs", "2x2", 2, 600, false),
					j("os W=2 2x2 db3 alloc", "instr-w2", "os", "2x2", 3, 900, true),
					j("rs W=2 store read fails part-way db3", "instr-w2", "rs", "partial", 3, 600, false),
					j("rs W=2 Read/Write at the shared File position db3", "instr-w2", "rs", "pos", 3, 600, false),
					j("os W=2 Read/Write at the shared File position db3", "instr-w2", "os", "pos", 3, 600, false),
					j("rs W=2 one-packet read || one-packet write of 40000 bytes db3", "instr-w2", "rs", "bigpkt", 3, 600, false),
					j("os W=2 one-packet read || one-packet write of 40000 bytes db2", "instr-w2", "os", "bigpkt", 2, 600, false),
					j("rs W=2 after an abandoned directory listing: write, read || read db3", "instr-w2", "rs", "abandon", 3, 600, false),
					j("os W=2 after an abandoned directory listing: write, read || read db2", "instr-w2", "os", "abandon", 2, 600, false),
				}, func(j reg.Job) bool { return j.Args["server"] != "os" && j.Args["set"] != "abandon" })
			}
			return withPolicies(tier, []reg.Job{
				j("rs W=2 2x2 db2", "instr-w2", "rs", "2x2", 2, 100, false),
				j("rs W=2 3x1 db2 alloc", "instr-w2", "rs", "3x1", 2, 100, true),
				j("os W=2 2x1 db2 alloc", "instr-w2", "os", "2x1", 2, 60, true),
				j("rs W=2 store read fails part-way db2", "instr-w2", "rs", "partial", 2, 100, false),
				j("rs W=2 Read/Write at the shared File position db2", "instr-w2", "rs", "pos", 2, 100, false),
				j("rs W=2 one-packet read || one-packet write of 40000 bytes db2", "instr-w2", "rs", "bigpkt", 2, 100, false),
				j("rs W=2 after an abandoned directory listing: write, read || read db2", "instr-w2", "rs", "abandon", 2, 100, false),
			}, func(j reg.Job) bool { return j.Args["server"] != "os" && j.Args["set"] != "abandon" })
		},
	})
}
