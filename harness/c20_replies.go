//go:build verif

package sftp

// C20: No server reply can crash the client.
//
// The instrumented Client runs over scheduler pipes against a scripted peer thread that answers
// every request honestly from a small in-memory model, except for ONE reply of the operation's
// conversation, which is mutated (cut, length/count fields replaced, other reply type, wrong id,
// tiny bodies). One deterministic schedule per case: a call that never returns is a deadlock, a
// panic in any goroutine is caught by the scheduler, goroutines left behind are its thread table.

import (
	"bytes"
	"encoding/binary"
	"encoding/hex"
	"encoding/json"
	"errors"
	"fmt"
	"io"
	"os"
	"path"
	"runtime"
	"sort"
	"strings"
	"time"

	"verif/explore"
	"verif/reg"
	"verif/vsched"
)

// ---------------------------------------------------------------------------------------------
// the peer: an honest in-memory SFTP server model with one programmable lie

type c20Handle struct {
	path   string
	dir    bool
	listed bool
}

type c20Mut struct {
	Kind string `json:"kind"` // cut | short | pad | grow | framelen | field | subst | typebyte | wrongid | body | word | cuterr
	Arg  int    `json:"arg"`  // cut offset / field index / substituted type
	Val  uint32 `json:"val"`  // replacement value
	Body string `json:"body,omitempty"`
}

func (m *c20Mut) String() string {
	if m == nil {
		return "honest"
	}
	switch m.Kind {
	case "cut":
		return fmt.Sprintf("cut at byte %d then EOF", m.Arg)
	case "cuterr":
		return fmt.Sprintf("cut at byte %d then a transport error (connection reset)", m.Arg)
	case "short":
		return fmt.Sprintf("reply truncated to %d bytes, frame length adjusted", m.Arg)
	case "pad":
		return fmt.Sprintf("%d extra bytes inside the frame", m.Arg)
	case "grow":
		return fmt.Sprintf("field %d and its payload grown by %d bytes (well-formed, but more than was asked for)", m.Arg, m.Val)
	case "framelen":
		return fmt.Sprintf("frame length <- %d then EOF", m.Val)
	case "field":
		return fmt.Sprintf("field %d <- %d", m.Arg, m.Val)
	case "word":
		return fmt.Sprintf("word %d (attribute flags / permission word) <- %#x", m.Arg, m.Val)
	case "subst":
		return fmt.Sprintf("reply replaced by a valid reply of type %d", m.Arg)
	case "typebyte":
		return fmt.Sprintf("type byte <- %d", m.Arg)
	case "wrongid":
		return "wrong id"
	case "body":
		return "frame with body " + m.Body
	}
	return m.Kind
}

var errC20Reset = errors.New("connection reset by peer")

type c20Peer struct {
	in, out *VPipe // in: client->peer, out: peer->client
	files   map[string][]byte
	dirs    map[string]bool
	links   map[string]string
	handles map[string]*c20Handle
	nh      int

	armed  bool
	count  int // replies since armed
	target int
	mut    *c20Mut
	honest []c07Pkt // honest replies since armed
	sent   int      // bytes written to the client since armed
	dead   bool
	done   bool
	lied   bool
}

func newC20Peer() *c20Peer {
	return &c20Peer{
		in: NewVPipe("c2s"), out: NewVPipe("s2c"),
		files:   map[string][]byte{"/f": []byte("0123456789"), "/d/a": []byte("aa"), "/d/sub/b": []byte("b")},
		dirs:    map[string]bool{"/": true, "/d": true, "/d/sub": true, "/e": true},
		links:   map[string]string{"/l": "/f"},
		handles: map[string]*c20Handle{},
	}
}

func c20Clean(p string) string {
	p = path.Clean(p)
	if !path.IsAbs(p) {
		p = "/" + p
	}
	return path.Clean(p)
}

func (p *c20Peer) status(id, code uint32, msg string) c07Pkt {
	return c07New(sshFxpStatus, "STATUS", id).u32(code).str("msg", msg).str("lang", "").done()
}

// kind returns 'f','d','l' or 0.
func (p *c20Peer) kind(pth string, follow bool) (byte, string) {
	for i := 0; i < 4; i++ {
		if t, ok := p.links[pth]; ok {
			if !follow {
				return 'l', pth
			}
			pth = t
			continue
		}
		break
	}
	if _, ok := p.files[pth]; ok {
		return 'f', pth
	}
	if p.dirs[pth] {
		return 'd', pth
	}
	return 0, pth
}

func (p *c20Peer) putAttrs(b *c07B, k byte, pth string) {
	var size uint64
	perm := uint32(0o100644)
	switch k {
	case 'd':
		perm = 0o040755
	case 'l':
		perm = 0o120777
	default:
		size = uint64(len(p.files[pth]))
	}
	b.word("attrflags", c07AttrSize|c07AttrUIDs|c07AttrPerm|c07AttrTimes|c07AttrExt)
	b.word("size-hi", uint32(size>>32)).word("size-lo", uint32(size)).u32(1000).u32(1000).word("perm", perm).u32(1000000000).u32(1000000000)
	b.length("extcount", 1).str("exttype", "x@y").str("extdata", "z")
}

func (p *c20Peer) children(d string) []string {
	var out []string
	add := func(c string) {
		if c != d && path.Dir(c) == d {
			out = append(out, c)
		}
	}
	for f := range p.files {
		add(f)
	}
	for f := range p.dirs {
		add(f)
	}
	for f := range p.links {
		add(f)
	}
	sort.Strings(out)
	return out
}

func (p *c20Peer) exists(pth string) bool {
	k, _ := p.kind(pth, false)
	return k != 0
}

// answer computes the honest reply to one request frame.
func (p *c20Peer) answer(f frame) c07Pkt {
	r := &c07Rd{b: f.body}
	if f.typ == sshFxpInit {
		return c07New(sshFxpVersion, "VERSION", 3).str("extname", "fsync@openssh.com").str("extdata", "1").done()
	}
	id := r.u32()
	ok := func() c07Pkt { return p.status(id, sshFxOk, "") }
	noent := func() c07Pkt { return p.status(id, sshFxNoSuchFile, "no such file") }
	fail := func(m string) c07Pkt { return p.status(id, sshFxFailure, m) }
	switch f.typ {
	case sshFxpStat, sshFxpLstat:
		pth := c20Clean(r.str())
		k, real := p.kind(pth, f.typ == sshFxpStat)
		if k == 0 {
			return noent()
		}
		b := c07New(sshFxpAttrs, "ATTRS", id)
		p.putAttrs(b, k, real)
		return b.done()
	case sshFxpFstat:
		h := p.handles[r.str()]
		if h == nil {
			return fail("bad handle")
		}
		k, real := p.kind(h.path, true)
		if k == 0 {
			return noent()
		}
		b := c07New(sshFxpAttrs, "ATTRS", id)
		p.putAttrs(b, k, real)
		return b.done()
	case sshFxpOpen:
		pth := c20Clean(r.str())
		pf := r.u32()
		k, real := p.kind(pth, true)
		switch {
		case k == 'd':
			return fail("is a directory")
		case k == 0 && pf&sshFxfCreat == 0:
			return noent()
		case k == 0:
			if !p.dirs[path.Dir(real)] {
				return noent()
			}
			p.files[real] = nil
		case pf&sshFxfTrunc != 0:
			p.files[real] = nil
		}
		p.nh++
		h := fmt.Sprintf("h%d", p.nh)
		p.handles[h] = &c20Handle{path: real}
		return c07New(sshFxpHandle, "HANDLE", id).str("handle", h).done()
	case sshFxpOpendir:
		pth := c20Clean(r.str())
		k, real := p.kind(pth, true)
		if k == 0 {
			return noent()
		}
		if k != 'd' {
			return fail("not a directory")
		}
		p.nh++
		h := fmt.Sprintf("h%d", p.nh)
		p.handles[h] = &c20Handle{path: real, dir: true}
		return c07New(sshFxpHandle, "HANDLE", id).str("handle", h).done()
	case sshFxpReaddir:
		h := p.handles[r.str()]
		if h == nil || !h.dir {
			return fail("bad handle")
		}
		if h.listed {
			return p.status(id, sshFxEOF, "EOF")
		}
		h.listed = true
		cs := p.children(h.path)
		b := c07New(sshFxpName, "NAME", id).length("count", uint32(len(cs)+1))
		b.str("name", ".").str("longname", "drwxr-xr-x . ")
		p.putAttrs(b, 'd', h.path)
		for _, c := range cs {
			k, _ := p.kind(c, false)
			b.str("name", path.Base(c)).str("longname", "-rw-r--r-- 1 u g "+path.Base(c))
			p.putAttrs(b, k, c)
		}
		return b.done()
	case sshFxpClose:
		hs := r.str()
		if p.handles[hs] == nil {
			return fail("bad handle")
		}
		delete(p.handles, hs)
		return ok()
	case sshFxpRead:
		h := p.handles[r.str()]
		if len(r.b) < 12 {
			return p.status(id, sshFxBadMessage, "short read request")
		}
		off := binary.BigEndian.Uint64(r.b)
		n := binary.BigEndian.Uint32(r.b[8:])
		if h == nil || h.dir {
			return fail("bad handle")
		}
		d := p.files[h.path]
		if off >= uint64(len(d)) {
			return p.status(id, sshFxEOF, "EOF")
		}
		d = d[off:]
		if uint64(n) < uint64(len(d)) {
			d = d[:n]
		}
		return c07New(sshFxpData, "DATA", id).str("data", string(d)).done()
	case sshFxpWrite:
		h := p.handles[r.str()]
		if len(r.b) < 12 {
			return p.status(id, sshFxBadMessage, "short write request")
		}
		off := binary.BigEndian.Uint64(r.b)
		r.b = r.b[8:]
		data := r.str()
		if h == nil || h.dir || r.bad || off > 1<<16 {
			return fail("bad handle")
		}
		d := p.files[h.path]
		for uint64(len(d)) < off+uint64(len(data)) {
			d = append(d, 0)
		}
		copy(d[off:], data)
		p.files[h.path] = d
		return ok()
	case sshFxpSetstat, sshFxpFsetstat:
		s := r.str()
		var pth string
		if f.typ == sshFxpFsetstat {
			h := p.handles[s]
			if h == nil {
				return fail("bad handle")
			}
			pth = h.path
		} else {
			pth = c20Clean(s)
		}
		k, real := p.kind(pth, true)
		if k == 0 {
			return noent()
		}
		fl := r.u32()
		if fl&c07AttrSize != 0 && k == 'f' && len(r.b) >= 8 {
			sz := binary.BigEndian.Uint64(r.b)
			d := p.files[real]
			if sz < uint64(len(d)) {
				d = d[:sz]
			}
			for uint64(len(d)) < sz && sz < 1<<16 {
				d = append(d, 0)
			}
			p.files[real] = d
		}
		return ok()
	case sshFxpRemove:
		pth := c20Clean(r.str())
		k, _ := p.kind(pth, false)
		switch k {
		case 0:
			return noent()
		case 'd':
			return fail("is a directory")
		}
		delete(p.files, pth)
		delete(p.links, pth)
		return ok()
	case sshFxpRmdir:
		pth := c20Clean(r.str())
		k, _ := p.kind(pth, false)
		switch {
		case k == 0:
			return noent()
		case k != 'd':
			return fail("not a directory")
		case len(p.children(pth)) > 0:
			return fail("directory not empty")
		}
		delete(p.dirs, pth)
		return ok()
	case sshFxpMkdir:
		pth := c20Clean(r.str())
		if p.exists(pth) {
			return fail("file exists")
		}
		if !p.dirs[path.Dir(pth)] {
			return noent()
		}
		p.dirs[pth] = true
		return ok()
	case sshFxpRename:
		return p.rename(id, c20Clean(r.str()), c20Clean(r.str()), false)
	case sshFxpReadlink:
		pth := c20Clean(r.str())
		t, isl := p.links[pth]
		if !isl {
			if !p.exists(pth) {
				return noent()
			}
			return fail("not a symlink")
		}
		b := c07New(sshFxpName, "NAME", id).length("count", 1).str("name", t).str("longname", t).u32(0)
		return b.done()
	case sshFxpRealpath:
		pth := c20Clean(r.str())
		return c07New(sshFxpName, "NAME", id).length("count", 1).str("name", pth).str("longname", pth).u32(0).done()
	case sshFxpSymlink:
		target, link := r.str(), c20Clean(r.str())
		if p.exists(link) {
			return fail("file exists")
		}
		p.links[link] = c20Clean(target)
		return ok()
	case sshFxpExtended:
		switch r.str() {
		case "statvfs@openssh.com":
			b := c07New(sshFxpExtendedReply, "EXTENDED_REPLY", id)
			for i := uint64(1); i <= 11; i++ {
				b.u64(i * 1000)
			}
			return b.done()
		case "posix-rename@openssh.com":
			return p.rename(id, c20Clean(r.str()), c20Clean(r.str()), true)
		case "hardlink@openssh.com":
			o, n := c20Clean(r.str()), c20Clean(r.str())
			d, isf := p.files[o]
			if !isf {
				return noent()
			}
			if p.exists(n) {
				return fail("file exists")
			}
			p.files[n] = d
			return ok()
		case "fsync@openssh.com":
			if p.handles[r.str()] == nil {
				return fail("bad handle")
			}
			return ok()
		}
		return p.status(id, sshFxOPUnsupported, "unsupported")
	}
	return p.status(id, sshFxOPUnsupported, "unsupported")
}

func (p *c20Peer) rename(id uint32, o, n string, replace bool) c07Pkt {
	if !p.exists(o) {
		return p.status(id, sshFxNoSuchFile, "no such file")
	}
	if p.exists(n) && !replace {
		return p.status(id, sshFxFailure, "file exists")
	}
	if d, ok := p.files[o]; ok {
		delete(p.files, o)
		p.files[n] = d
	} else if t, ok := p.links[o]; ok {
		delete(p.links, o)
		p.links[n] = t
	} else {
		delete(p.dirs, o)
		p.dirs[n] = true
	}
	return p.status(id, sshFxOk, "")
}

// c20Subst builds a valid reply of another type carrying id.
func c20Subst(typ int, id uint32) []byte {
	switch typ {
	case 1001:
		return c07New(sshFxpStatus, "STATUS", id).u32(sshFxOk).str("msg", "").str("lang", "").done().b
	case 1002:
		return c07New(sshFxpStatus, "STATUS", id).u32(sshFxFailure).str("msg", "substituted failure").str("lang", "en").done().b
	case 1003:
		return c07New(sshFxpStatus, "STATUS", id).u32(sshFxEOF).str("msg", "EOF").str("lang", "").done().b
	case sshFxpHandle:
		return c07New(sshFxpHandle, "HANDLE", id).str("handle", "sub").done().b
	case sshFxpData:
		return c07New(sshFxpData, "DATA", id).str("data", "zz").done().b
	case sshFxpName:
		return c07New(sshFxpName, "NAME", id).length("count", 1).str("name", "sub").str("longname", "sub").u32(0).done().b
	case sshFxpAttrs:
		return c07New(sshFxpAttrs, "ATTRS", id).u32(c07AttrSize | c07AttrPerm).u64(3).u32(0o100644).done().b
	case sshFxpExtendedReply:
		b := c07New(sshFxpExtendedReply, "EXTENDED_REPLY", id)
		for i := 0; i < 11; i++ {
			b.u64(7)
		}
		return b.done().b
	case sshFxpVersion:
		return c07New(sshFxpVersion, "VERSION", 3).done().b
	}
	return c07New(byte(typ), "UNKNOWN", id).u32(0).done().b
}

var c20SubstTypes = []int{1001, 1002, 1003, sshFxpHandle, sshFxpData, sshFxpName, sshFxpAttrs, sshFxpExtendedReply, sshFxpVersion, 77}
var c20TypeBytes = []int{sshFxpStatus, sshFxpHandle, sshFxpData, sshFxpName, sshFxpAttrs, sshFxpExtendedReply, sshFxpVersion, 77, 0, 255}

// lie applies the mutation to the honest reply; eof says the stream ends after these bytes.
func (m *c20Mut) lie(rep c07Pkt) (out []byte, eof bool) {
	b := append([]byte(nil), rep.b...)
	switch m.Kind {
	case "cut", "cuterr":
		if m.Arg < len(b) {
			b = b[:m.Arg]
		}
		return b, true
	case "short":
		if m.Arg < len(b) && m.Arg >= 4 {
			b = b[:m.Arg]
			binary.BigEndian.PutUint32(b, uint32(len(b)-4))
		}
		return b, false
	case "pad":
		for i := 0; i < m.Arg; i++ {
			b = append(b, byte(0xa0+i))
		}
		binary.BigEndian.PutUint32(b, uint32(len(b)-4))
		return b, false
	case "grow":
		if m.Arg < len(rep.flds) {
			f := rep.flds[m.Arg]
			for i := uint32(0); i < m.Val; i++ {
				b = append(b, byte(0xb0+i))
			}
			binary.BigEndian.PutUint32(b[f.off:], f.val+m.Val)
			binary.BigEndian.PutUint32(b, uint32(len(b)-4))
		}
		return b, false
	case "framelen":
		binary.BigEndian.PutUint32(b, m.Val)
		return b, true
	case "field":
		if m.Arg < len(rep.flds) {
			binary.BigEndian.PutUint32(b[rep.flds[m.Arg].off:], m.Val)
		}
		return b, false
	case "word":
		if m.Arg < len(rep.words) {
			binary.BigEndian.PutUint32(b[rep.words[m.Arg].off:], m.Val)
		}
		return b, false
	case "subst":
		id := uint32(0)
		if len(b) >= 9 {
			id = binary.BigEndian.Uint32(b[5:])
		}
		return c20Subst(m.Arg, id), false
	case "typebyte":
		b[4] = byte(m.Arg)
		return b, false
	case "wrongid":
		if len(b) >= 9 {
			binary.BigEndian.PutUint32(b[5:], binary.BigEndian.Uint32(b[5:])+m.Val)
		}
		return b, false
	case "body":
		body, _ := hex.DecodeString(m.Body)
		return append(binary.BigEndian.AppendUint32(nil, uint32(len(body))), body...), false
	}
	return b, false
}

func (p *c20Peer) run() {
	for {
		f, err := readFrame(p.in)
		if err != nil {
			break
		}
		rep := p.answer(f)
		out, eof := rep.b, false
		if p.armed {
			p.count++
			p.honest = append(p.honest, rep)
			if p.count == p.target && p.mut != nil {
				out, eof = p.mut.lie(rep)
				p.lied = true
			}
		}
		if p.dead {
			continue
		}
		if len(out) > 0 {
			p.out.Write(out)
			if p.armed {
				p.sent += len(out)
			}
		}
		if eof {
			if p.mut != nil && p.mut.Kind == "cuterr" {
				p.out.EndErr = errC20Reset
			}
			p.out.CloseWrite()
			p.dead = true
		}
	}
	// a peer that sees EOF on its read side closes its write side (what sshd does)
	if !p.dead {
		p.out.CloseWrite()
	}
	vsched.Env("peer-done", p, false, nil)
	p.done = true
}

// ---------------------------------------------------------------------------------------------
// client operations

type c20Op struct {
	name  string
	opts  []ClientOption
	setup func(c *Client) any
	call  func(c *Client, st any) string
}

func c20Err(err error) string {
	switch {
	case err == nil:
		return "nil"
	case errors.Is(err, io.EOF):
		return "EOF"
	case errors.Is(err, ErrSSHFxConnectionLost):
		return "conn-lost"
	case errors.Is(err, os.ErrNotExist):
		return "not-exist"
	}
	var se *StatusError
	if errors.As(err, &se) {
		return "status"
	}
	return "other"
}

type c20Opaque struct{ r io.Reader }

func (o c20Opaque) Read(b []byte) (int, error) { return o.r.Read(b) }

func c20Ops() []c20Op {
	P, K := MaxPacketUnchecked(4), MaxConcurrentRequestsPerFile(2)
	base := []ClientOption{P, K}
	seqR := []ClientOption{P, K, UseConcurrentReads(false)}
	conW := []ClientOption{P, K, UseConcurrentWrites(true)}
	fst := []ClientOption{P, K, UseFstat(true)}
	e := func(err error) string { return "err=" + c20Err(err) }
	ne := func(n any, err error) string { return fmt.Sprintf("n=%v err=%s", n, c20Err(err)) }
	fi := func(i os.FileInfo, err error) string {
		if err == nil && i == nil {
			return "NOVALUE (os.FileInfo)(nil), nil"
		}
		if err != nil {
			return e(err)
		}
		// what a caller does with the value: every accessor
		return fmt.Sprintf("size=%d mode=%v dir=%v name=%s mtime=%d sys=%T", i.Size(), i.Mode(), i.IsDir(), i.Name(), i.ModTime().Unix(), i.Sys())
	}
	open := func(flags int) func(c *Client) any {
		return func(c *Client) any {
			f, err := c.OpenFile("/f", flags)
			if err != nil {
				panic("c20 setup: " + err.Error())
			}
			return f
		}
	}
	rd, rw := open(os.O_RDONLY), open(os.O_RDWR)
	data10 := []byte("ABCDEFGHIJ")
	var ops []c20Op
	add := func(name string, opts []ClientOption, setup func(*Client) any, call func(*Client, any) string) {
		ops = append(ops, c20Op{name, opts, setup, call})
	}
	cl := func(name string, call func(c *Client) string) {
		add(name, base, nil, func(c *Client, _ any) string { return call(c) })
	}
	fl := func(name string, opts []ClientOption, setup func(*Client) any, call func(f *File) string) {
		add(name, opts, setup, func(_ *Client, st any) string { return call(st.(*File)) })
	}
	cl("Stat", func(c *Client) string { return fi(c.Stat("/f")) })
	// a client configured for very large packets: what a reply may make it allocate is still bounded by what has arrived
	add("Stat (client with a 32 MiB packet size)", []ClientOption{MaxPacketUnchecked(32 << 20)}, nil, func(c *Client, _ any) string { return fi(c.Stat("/f")) })
	cl("Lstat", func(c *Client) string { return fi(c.Lstat("/l")) })
	cl("ReadLink", func(c *Client) string { return ne(c.ReadLink("/l")) })
	cl("RealPath", func(c *Client) string { return ne(c.RealPath("/d/../f")) })
	cl("Getwd", func(c *Client) string { return ne(c.Getwd()) })
	cl("Mkdir", func(c *Client) string { return e(c.Mkdir("/n")) })
	cl("Remove(file)", func(c *Client) string { return e(c.Remove("/f")) })
	cl("Remove(empty dir)", func(c *Client) string { return e(c.Remove("/e")) })
	cl("Remove(non-empty dir)", func(c *Client) string { return e(c.Remove("/d")) })
	cl("Remove(missing)", func(c *Client) string { return e(c.Remove("/missing")) })
	cl("RemoveDirectory", func(c *Client) string { return e(c.RemoveDirectory("/e")) })
	cl("Rename", func(c *Client) string { return e(c.Rename("/f", "/g")) })
	cl("PosixRename", func(c *Client) string { return e(c.PosixRename("/f", "/g")) })
	cl("Link", func(c *Client) string { return e(c.Link("/f", "/h")) })
	cl("Symlink", func(c *Client) string { return e(c.Symlink("/f", "/s")) })
	cl("Chmod", func(c *Client) string { return e(c.Chmod("/f", 0o600)) })
	cl("Chtimes", func(c *Client) string { return e(c.Chtimes("/f", time.Unix(5, 0), time.Unix(6, 0))) })
	cl("Chown", func(c *Client) string { return e(c.Chown("/f", 1, 2)) })
	cl("Truncate", func(c *Client) string { return e(c.Truncate("/f", 3)) })
	fe := func(f *File, err error) string {
		if err == nil && f == nil {
			return "NOVALUE (*File)(nil), nil"
		}
		if f != nil {
			return "name=" + f.Name() + " " + e(err)
		}
		return e(err)
	}
	cl("Open", func(c *Client) string { return fe(c.Open("/f")) })
	cl("Create", func(c *Client) string { return fe(c.Create("/new")) })
	cl("OpenFile", func(c *Client) string { return fe(c.OpenFile("/f", os.O_RDWR|os.O_APPEND)) })
	cl("ReadDir", func(c *Client) string {
		l, err := c.ReadDir("/d")
		var sb strings.Builder
		for _, i := range l {
			sb.WriteString(" " + fi(i, nil))
		}
		return ne(len(l), err) + sb.String()
	})
	cl("StatVFS", func(c *Client) string {
		s, err := c.StatVFS("/")
		if s == nil && err == nil {
			return "NOVALUE (*StatVFS)(nil), nil"
		}
		if s == nil {
			return e(err)
		}
		return ne(s.Bsize, err)
	})
	cl("MkdirAll", func(c *Client) string { return e(c.MkdirAll("/p/q")) })
	cl("RemoveAll", func(c *Client) string { return e(c.RemoveAll("/d")) })
	cl("Glob", func(c *Client) string { m, err := c.Glob("/d/*"); return ne(len(m), err) })
	cl("Walk", func(c *Client) string {
		w := c.Walk("/d")
		n, errs := 0, 0
		for i := 0; i < 100 && w.Step(); i++ {
			if w.Err() != nil {
				errs++
				continue
			}
			if st := w.Stat(); st != nil {
				_ = fi(st, nil)
			}
			n++
		}
		return fmt.Sprintf("visited=%d errs=%d", n, errs)
	})
	read := func(n int) func(f *File) string {
		return func(f *File) string { b := make([]byte, n); return ne(f.Read(b)) }
	}
	readAt := func(n int, off int64) func(f *File) string {
		return func(f *File) string { b := make([]byte, n); return ne(f.ReadAt(b, off)) }
	}
	fl("File.Read(single chunk)", base, rd, read(3))
	fl("File.Read(3 chunks, concurrent)", base, rd, read(10))
	fl("File.Read(3 chunks, sequential)", seqR, rd, read(10))
	fl("File.ReadAt(single chunk)", base, rd, readAt(3, 2))
	fl("File.ReadAt(3 chunks, concurrent)", base, rd, readAt(10, 0))
	fl("File.ReadAt(past EOF, concurrent)", base, rd, readAt(14, 0))
	fl("File.ReadAt(3 chunks, sequential)", seqR, rd, readAt(10, 0))
	fl("File.Write(single chunk)", base, rw, func(f *File) string { return ne(f.Write(data10[:3])) })
	fl("File.Write(3 chunks, sequential)", base, rw, func(f *File) string { return ne(f.Write(data10)) })
	fl("File.Write(3 chunks, concurrent)", conW, rw, func(f *File) string { return ne(f.Write(data10)) })
	fl("File.WriteAt(single chunk)", base, rw, func(f *File) string { return ne(f.WriteAt(data10[:3], 1)) })
	fl("File.WriteAt(3 chunks, sequential)", base, rw, func(f *File) string { return ne(f.WriteAt(data10, 0)) })
	fl("File.WriteAt(3 chunks, concurrent)", conW, rw, func(f *File) string { return ne(f.WriteAt(data10, 0)) })
	fl("File.ReadFrom(sequential)", base, rw, func(f *File) string { return ne(f.ReadFrom(c20Opaque{bytes.NewReader(data10)})) })
	fl("File.ReadFrom(concurrent)", conW, rw, func(f *File) string { return ne(f.ReadFrom(bytes.NewReader(data10))) })
	fl("File.ReadFromWithConcurrency", base, rw, func(f *File) string {
		return ne(f.ReadFromWithConcurrency(c20Opaque{bytes.NewReader(data10)}, 2))
	})
	wt := func(f *File) string {
		var b bytes.Buffer
		n, err := f.WriteTo(&b)
		return fmt.Sprintf("n=%d err=%s got=%q", n, c20Err(err), b.String())
	}
	fl("File.WriteTo(concurrent, Stat)", base, rd, wt)
	fl("File.WriteTo(concurrent, Fstat)", fst, rd, wt)
	fl("File.WriteTo(sequential)", seqR, rd, wt)
	fl("File.Stat", base, rd, func(f *File) string { return fi(f.Stat()) })
	fl("File.Truncate", base, rw, func(f *File) string { return e(f.Truncate(2)) })
	fl("File.Chmod", base, rw, func(f *File) string { return e(f.Chmod(0o600)) })
	fl("File.Chown", base, rw, func(f *File) string { return e(f.Chown(1, 2)) })
	fl("File.Seek(end)", base, rd, func(f *File) string { return ne(f.Seek(-1, io.SeekEnd)) })
	fl("File.Sync", base, rw, func(f *File) string { return e(f.Sync()) })
	fl("File.Close", base, rd, func(f *File) string { return e(f.Close()) })
	return ops
}

// ---------------------------------------------------------------------------------------------
// one scheduled conversation

type c20Run struct {
	peer      *c20Peer
	result    string
	returned  bool
	alloc     uint64
	probeErr  error
	connDown  bool
	closed    bool
	setupFail string
}

func c20Body(op *c20Op, target int, mut *c20Mut, r *c20Run) func() {
	return func() {
		p := newC20Peer()
		p.target, p.mut = target, mut
		r.peer = p
		vsched.GoNamed("peer", "harness", p.run)
		c, err := NewClientPipe(p.out, p.in, op.opts...)
		if err != nil {
			r.setupFail = "handshake: " + err.Error()
			p.in.CloseWrite()
			vsched.Env("await-peer", p, true, func() bool { return p.done })
			return
		}
		var st any
		if op.setup != nil {
			st = op.setup(c)
		}
		p.armed = true
		var m0, m1 runtime.MemStats
		runtime.ReadMemStats(&m0)
		r.result = op.call(c, st)
		runtime.ReadMemStats(&m1)
		r.alloc = m1.TotalAlloc - m0.TotalAlloc
		r.returned = true
		p.armed = false
		_, r.probeErr = c.Stat("/")
		r.connDown = c.clientConn.err != nil || errors.Is(r.probeErr, ErrSSHFxConnectionLost) || errors.Is(r.probeErr, io.ErrClosedPipe)
		c.Close()
		r.closed = true
		vsched.Env("await-peer", p, true, func() bool { return p.done })
	}
}

type c20Case struct {
	Op     string  `json:"op"`
	Reply  int     `json:"reply"` // 1-based index in the operation's conversation (0 = honest run)
	Mut    *c20Mut `json:"mutation"`
	Honest string  `json:"honest_reply,omitempty"`
}

type c20Checker struct {
	res      *reg.Result
	baseline map[string]uint64
	bound    int
}

const c20Slack = 64 << 10

// run executes one conversation and returns (key, msg, outcome, the run).
func (k *c20Checker) run(op *c20Op, cs *c20Case) (key, msg, outcome string, last *c20Run) {
	var first *c20Run
	sc := func() (func(), func(*vsched.Exec) explore.Verdict) {
		r := &c20Run{}
		judge := func(e *vsched.Exec) explore.Verdict {
			if first == nil {
				first = r
			}
			v := explore.Verdict{Outcome: r.result}
			if e.Deadlock {
				return v
			}
			switch {
			case r.setupFail != "":
				v.Bad, v.Key = "harness: "+r.setupFail, "setup"
			case !r.returned || !r.closed:
				v.Bad, v.Key = "harness: body ended early", "setup"
			case cs.Mut != nil && !r.peer.lied && k.bound > 0:
				// under a deviating schedule a speculative request may not have been issued
				v.Outcome = "lie not reached on this schedule"
			case cs.Mut != nil && !r.peer.lied:
				v.Bad, v.Key = fmt.Sprintf("harness: reply %d was never reached", cs.Reply), "setup"
			case strings.HasPrefix(r.result, "NOVALUE"):
				v.Bad = "the call returned neither a value nor an error: " + strings.TrimPrefix(r.result, "NOVALUE ")
				v.Key = "novalue"
			case r.probeErr != nil && !r.connDown:
				v.Bad = fmt.Sprintf("after the call returned (%s) the connection is still up, but a following Stat fails: %v", r.result, r.probeErr)
				v.Key = "unusable"
			case r.alloc > k.baseline[op.name]+64*uint64(r.peer.sent)+c20Slack && cs.Mut != nil:
				v.Bad = fmt.Sprintf("the call allocated %d bytes; the honest conversation allocates %d, the peer sent %d bytes (bound: honest + 64*received + 64 KiB)", r.alloc, k.baseline[op.name], r.peer.sent)
				v.Key = "alloc"
			}
			return v
		}
		return c20Body(op, cs.Reply, cs.Mut, r), judge
	}
	reg.Announce("c20:"+cs.Op, fmt.Sprintf("%s, reply %d of its conversation (%s), %s", cs.Op, cs.Reply, cs.Honest, cs.Mut))
	res := explore.Run(explore.Config{Prop: "C20", Strategy: "db", Bound: k.bound, MaxSteps: 60000}, sc)
	k.res.Evaluations += res.Evaluations
	k.res.States += res.States
	k.res.Transitions += res.Transitions
	if res.EngineError != "" {
		if k.res.EngineError == "" {
			k.res.EngineError = fmt.Sprintf("%s reply %d %s: %s", cs.Op, cs.Reply, cs.Mut, res.EngineError)
		}
		return "", "", "engine-error", first
	}
	outcome = "returned"
	if first != nil {
		switch {
		case first.connDown:
			outcome = "returned, connection failed cleanly"
		case first.probeErr == nil:
			outcome = "returned, client still usable"
		}
	}
	if len(res.Violations) == 0 {
		return "", "", outcome, first
	}
	v := res.Violations[0]
	where := fmt.Sprintf("%s, reply %d of its conversation (%s), %s", cs.Op, cs.Reply, cs.Honest, cs.Mut)
	switch {
	case strings.HasPrefix(v.Key, "panic:"):
		site, fn := vfPanicSite(v.Msg, "unmarshalUint32", "unmarshalUint64", "unmarshalString")
		thread := "a background goroutine"
		if strings.Contains(strings.SplitN(v.Msg, "\n", 2)[0], "thread 0 (main)") {
			thread = "the calling goroutine"
		}
		if i := strings.LastIndex(site, ":"); i > 0 && strings.Count(site, ":") >= 2 {
			site = site[:i] // file:line identifies the site; the kind of runtime error is in the message
		}
		return "c20-panic:" + site, fmt.Sprintf("panic in %s at %s (%s)\nfirst seen with: %s\n%s", thread, site, fn, where, v.Msg), "PANIC", first
	case strings.HasPrefix(v.Key, "deadlock:"):
		return "c20-deadlock:" + c07Short(strings.TrimPrefix(v.Key, "deadlock:")), "the call (or Close) never returns / goroutines are left behind\n" + where + "\n" + v.Msg, "DEADLOCK", first
	case v.Key == "horizon":
		return "c20-livelock:" + op.name, where + "\n" + v.Msg, "LIVELOCK", first
	case v.Key == "setup":
		if k.res.EngineError == "" {
			k.res.EngineError = where + ": " + v.Msg
		}
		return "", "", "engine-error", first
	}
	return "c20-" + v.Key + ":" + op.name, where + "\n" + v.Msg, "BAD:" + v.Key, first
}

var c20Repl = func(n uint32) []uint32 {
	return append([]uint32{0, 1, n - 1, n + 1, 1<<31 - 1, 1<<32 - 1}, wrapValues()...)
}

// c20Bodies lists the tiny frame bodies: all of length <= 2, or the covering subset.
func c20Bodies(all bool) []string {
	out := []string{""}
	for a := 0; a < 256; a++ {
		out = append(out, fmt.Sprintf("%02x", a))
	}
	edge := []int{0, 1, 2, 3, 100, 101, 102, 103, 104, 105, 127, 128, 200, 201, 254, 255}
	if all {
		edge = nil
		for a := 0; a < 256; a++ {
			edge = append(edge, a)
		}
	}
	for _, a := range edge {
		for _, b := range edge {
			out = append(out, fmt.Sprintf("%02x%02x", a, b))
		}
	}
	return out
}

// c20Mutations enumerates the lies for one honest reply.
func c20Mutations(rep c07Pkt, quick, allBodies bool) []*c20Mut {
	var ms []*c20Mut
	n := len(rep.b)
	cut := map[int]bool{}
	if quick {
		for _, o := range []int{0, 1, 3, 4, 5, 6, 8, 9, 10, n - 1} {
			cut[o] = true
		}
		for _, f := range rep.flds {
			for _, o := range []int{-1, 0, 1, 3, 4, 5} {
				cut[f.off+o] = true
			}
			cut[f.off+4+int(f.val)] = true
		}
	}
	for j := 0; j < n; j++ {
		if quick && !cut[j] {
			continue
		}
		ms = append(ms, &c20Mut{Kind: "cut", Arg: j})
		if j <= 9 || j == n-1 || !quick {
			// the same cut with the transport reporting an error instead of a clean end
			ms = append(ms, &c20Mut{Kind: "cuterr", Arg: j})
		}
		if j >= 5 {
			ms = append(ms, &c20Mut{Kind: "short", Arg: j})
		}
	}
	ms = append(ms, &c20Mut{Kind: "pad", Arg: 1}, &c20Mut{Kind: "pad", Arg: 7})
	for i, f := range rep.flds {
		if f.off+4+int(f.val) == n { // the field's payload is the tail of the frame (DATA payload, last string)
			ms = append(ms, &c20Mut{Kind: "grow", Arg: i, Val: 1}, &c20Mut{Kind: "grow", Arg: i, Val: 8})
		}
	}
	fl := uint32(n - 4)
	for _, v := range append(c20Repl(fl), 256<<10+1, 16<<20) {
		if v != fl {
			ms = append(ms, &c20Mut{Kind: "framelen", Val: v})
		}
	}
	for i, f := range rep.flds {
		for _, v := range c20Repl(f.val) {
			if v != f.val {
				ms = append(ms, &c20Mut{Kind: "field", Arg: i, Val: v})
			}
		}
	}
	for i, w := range rep.words {
		var vals []uint32
		switch w.name {
		case "perm":
			// every value of the 4-bit file-type field (7 are defined by POSIX), and the extremes
			for t := uint32(0); t < 16; t++ {
				vals = append(vals, t<<12|0o644)
			}
			vals = append(vals, 0, 1<<32-1, 0o7777, 1<<16|0o100644)
		case "size-hi": // the file size a server claims: 2^32, 2^40, 2^62, 2^63 (negative as int64), 2^64-1
			vals = []uint32{1, 1 << 8, 1 << 30, 1 << 31, 1<<32 - 1}
		case "size-lo":
			vals = []uint32{1 << 26, 1<<31 - 1, 1 << 31, 1<<32 - 1}
		default: // attribute flags: each defined bit cleared, undefined bits set, none, all
			for _, bit := range []uint32{c07AttrSize, c07AttrUIDs, c07AttrPerm, c07AttrTimes, c07AttrExt} {
				vals = append(vals, w.val&^bit)
			}
			vals = append(vals, w.val|0x10, w.val|0x40000000, 0, 1<<32-1)
		}
		for _, v := range vals {
			if v != w.val {
				ms = append(ms, &c20Mut{Kind: "word", Arg: i, Val: v})
			}
		}
	}
	for _, t := range c20SubstTypes {
		if !bytes.Equal(c20Subst(t, binary.BigEndian.Uint32(rep.b[5:])), rep.b) {
			ms = append(ms, &c20Mut{Kind: "subst", Arg: t})
		}
	}
	for _, t := range c20TypeBytes {
		if byte(t) != rep.typ {
			ms = append(ms, &c20Mut{Kind: "typebyte", Arg: t})
		}
	}
	ms = append(ms, &c20Mut{Kind: "wrongid", Val: 1}, &c20Mut{Kind: "wrongid", Val: 1 << 31}, &c20Mut{Kind: "wrongid", Val: 1<<32 - 1})
	for _, b := range c20Bodies(allBodies) {
		ms = append(ms, &c20Mut{Kind: "body", Body: b})
	}
	return ms
}

func c20Describe(p c07Pkt) string {
	var fs []string
	for _, f := range p.flds {
		fs = append(fs, fmt.Sprintf("%s=%d", f.name, f.val))
	}
	return fmt.Sprintf("%s, %d bytes, fields %s", p.name, len(p.b), strings.Join(fs, " "))
}

func init() {
	reg.Part("C20/replies", func(c *reg.Ctx) *reg.Result {
		res := reg.NewResult(c.Part)
		k := &c20Checker{res: res, baseline: map[string]uint64{}}
		ops := c20Ops()
		kinds := map[string]bool{}
		for _, kd := range strings.Split(c.Arg("kinds", ""), "+") {
			if kd != "" {
				kinds[kd] = true
			}
		}
		if c.Replay != nil {
			var cs c20Case
			if err := json.Unmarshal(c.Replay, &cs); err != nil {
				res.EngineError = "bad replay record: " + err.Error()
				return res
			}
			for i := range ops {
				if ops[i].name != cs.Op {
					continue
				}
				_, _, _, hr := k.run(&ops[i], &c20Case{Op: cs.Op})
				if hr != nil {
					k.baseline[cs.Op] = hr.alloc
				}
				key, msg, out, _ := k.run(&ops[i], &cs)
				fmt.Printf("outcome: %s\n", out)
				if key != "" {
					fmt.Printf("VIOLATION reproduced: %s\n%s\n", key, msg)
					res.Violate("C20", key, msg, cs, nil)
				} else {
					fmt.Println("no violation")
				}
			}
			return res
		}
		quick := c.Arg("subset", "") == "quick"
		allBodies := c.Arg("bodies", "") == "all"
		onlyOp := c.Arg("op", "")
		var i int64
		done, slots := 0, 0
	outer:
		for oi := range ops {
			op := &ops[oi]
			if onlyOp != "" && !strings.Contains(op.name, onlyOp) {
				continue
			}
			// honest conversation: number of replies, their bytes, allocation baseline
			k.bound = 0
			key, msg, _, hr := k.run(op, &c20Case{Op: op.name})
			k.bound = c.ArgInt("bound", 0)
			if res.EngineError != "" {
				return res
			}
			if key != "" {
				res.Violate("C20", key+":honest", "honest conversation: "+msg, c20Case{Op: op.name}, nil)
				continue
			}
			k.baseline[op.name] = hr.alloc
			honest := hr.peer.honest
			res.Notes["replies:"+op.name] = len(honest)
			for ri, rep := range honest {
				slots++
				for _, m := range c20Mutations(rep, quick, allBodies) {
					if len(kinds) > 0 && !kinds[m.Kind] {
						continue
					}
					i++
					if !c.Mine(i) {
						continue
					}
					if c.Expired() {
						res.Exhaustive = false
						break outer
					}
					cs := &c20Case{Op: op.name, Reply: ri + 1, Mut: m, Honest: c20Describe(rep)}
					key, msg, out, _ := k.run(op, cs)
					done++
					res.Nontrivial[fmt.Sprintf("%d", i)] = true
					res.Outcome(m.Kind + ": " + out)
					if done%211 == 1 {
						res.Sample(map[string]any{"op": op.name, "reply": ri + 1, "honest_reply": cs.Honest, "mutation": m.String(), "outcome": out})
					}
					if res.EngineError != "" {
						return res
					}
					if key != "" {
						res.Violate("C20", key, msg, cs, nil)
					}
				}
			}
		}
		res.Notes["conversations_in_this_shard"] = done
		res.Notes["operations"] = len(ops)
		res.Notes["reply_slots"] = slots
		if res.Exhaustive {
			res.Bound = fmt.Sprintf("%d operations, %d reply slots, every enumerated mutation of every reply (%s cuts, %s tiny bodies), db(%d)", len(ops), slots,
				map[bool]string{true: "field-boundary", false: "all"}[quick], map[bool]string{true: "all 65793", false: "covering 513"}[allBodies], c.ArgInt("bound", 0))
		} else {
			res.Bound = fmt.Sprintf("budget expired after %d conversations in this shard", done)
		}
		return res
	})

	reg.Prop(&reg.Property{
		ID:    "C20",
		Level: "fault_enumeration",
		Rule: "for each of 54 client operations (Client and File methods, multi-chunk paths in their sequential and concurrent variants, composites MkdirAll/RemoveAll/Glob/Walk; P=4, K=2, 10-byte file) and each reply of its honest conversation: " +
			"cut at byte offsets then EOF; frame length (also 256Ki+1, 16Mi) and every inner length/count field <- {0,1,n-1,n+1,2^31-1,2^32-1}; reply truncated at byte offsets with the frame length adjusted; extra bytes inside the frame; a valid reply of every other type; type byte replaced; wrong id; frames with bodies of length <= 2; " +
			"one reply mutated, follow-ups answered honestly; distinct = distinct (operation, reply, mutation)",
		Assumptions: []string{
			"one deterministic schedule per conversation (db(0)); the thorough tier adds every single-deviation schedule (db(1)) for all mutations except the tiny bodies",
			"a mutation that breaks the framing (cut, frame length) is followed by EOF: a client waiting for bytes a server announced but never sends waits by protocol",
			"the peer closes its write side when it sees EOF on its read side (Client.Close waits for that by design)",
			"allocation bound is differential: TotalAlloc delta of the call <= delta of the honest conversation + 64 * bytes received + 64 KiB",
			"the handshake reply is C19's subject and is not mutated here",
		},
		Jobs: func(tier string) []reg.Job {
			if tier == "thorough" {
				return []reg.Job{
					{Part: "C20/replies", Build: "instr", Args: map[string]string{"bodies": "all"}, Shards: 16, BudgetS: 1200, Label: "all operations, all cuts, all bodies of length <= 2"},
					{Part: "C20/replies", Build: "instr", Args: map[string]string{"bound": "1", "kinds": "short+field+subst+typebyte+wrongid+pad+grow+cut+framelen"}, Shards: 16, BudgetS: 900, Optional: true,
						Label: "all operations, all mutations except tiny bodies, all schedules with one deviation (db1)"},
				}
			}
			return []reg.Job{
				{Part: "C20/replies", Build: "instr", Args: map[string]string{}, Shards: 16, BudgetS: 100, Label: "all operations, all cuts, covering set of tiny bodies"},
			}
		},
	})
}
