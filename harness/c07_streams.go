//go:build verif

package sftp

// C07: No byte stream can crash, wedge or trick a server.
//
// Fault enumeration over three valid base sessions: every cut, every length/count field replaced
// by 8 values, every type byte replaced, 4 garbage suffixes; both servers, allocator off/on. Each
// stream is executed under the cooperative scheduler (one deterministic schedule, db(0)), so a
// Serve that does not return is a deadlock, a panic in any goroutine is caught and goroutines left
// behind are the scheduler's thread table. The other oracles are differential: an independent
// frame classifier written from the draft finds the well-formed prefix(es) of the stream, the same
// server is run on that prefix alone, and responses / served state / released objects are compared.

import (
	"crypto/sha1"
	"encoding/binary"
	"encoding/hex"
	"encoding/json"
	"errors"
	"fmt"
	"io"
	"os"
	"path"
	"path/filepath"
	"runtime"
	"sort"
	"strings"
	"syscall"
	"time"

	"verif/explore"
	"verif/reg"
	"verif/vsched"
)

// ---------------------------------------------------------------------------------------------
// packet builder with field annotations (independent of the package's marshalling code)

type c07Fld struct {
	off  int // offset inside the packet
	val  uint32
	name string
}

type c07Pkt struct {
	b     []byte
	typ   byte
	name  string
	flds  []c07Fld // inner length/count fields (the frame length at offset 0 is implicit)
	words []c07Fld // other 32-bit words whose value selects a decoding path (attribute flags, permission/type word)
}

type c07B struct {
	p c07Pkt
}

func c07New(typ byte, name string, idOrVersion uint32) *c07B {
	b := &c07B{}
	b.p.typ, b.p.name = typ, name
	b.p.b = []byte{0, 0, 0, 0, typ}
	b.u32(idOrVersion)
	return b
}
func (b *c07B) u32(v uint32) *c07B {
	b.p.b = binary.BigEndian.AppendUint32(b.p.b, v)
	return b
}
func (b *c07B) u64(v uint64) *c07B {
	b.p.b = binary.BigEndian.AppendUint64(b.p.b, v)
	return b
}
func (b *c07B) length(field string, v uint32) *c07B {
	b.p.flds = append(b.p.flds, c07Fld{off: len(b.p.b), val: v, name: field})
	return b.u32(v)
}
func (b *c07B) word(field string, v uint32) *c07B {
	b.p.words = append(b.p.words, c07Fld{off: len(b.p.b), val: v, name: field})
	return b.u32(v)
}
func (b *c07B) str(field, s string) *c07B {
	b.length(field, uint32(len(s)))
	b.p.b = append(b.p.b, s...)
	return b
}
func (b *c07B) done() c07Pkt {
	binary.BigEndian.PutUint32(b.p.b, uint32(len(b.p.b)-4))
	return b.p
}

const (
	c07AttrSize  = 0x1
	c07AttrUIDs  = 0x2
	c07AttrPerm  = 0x4
	c07AttrTimes = 0x8
	c07AttrExt   = 0x80000000
)

// c07Sessions returns the three valid base sessions. Paths are relative: the os-backed server
// resolves them in its working directory (the scratch tree), the request server below "/".
func c07Sessions() map[string][]c07Pkt {
	ext := func(id uint32, name string) *c07B { return c07New(200, "EXT:"+name, id).str("extname", name) }
	fileio := []c07Pkt{
		c07New(1, "INIT", 3).done(),
		c07New(3, "OPEN", 1).str("path", "a.txt").u32(sshFxfRead | sshFxfWrite | sshFxfCreat | sshFxfTrunc).u32(0).done(),
		c07New(6, "WRITE", 2).str("handle", "1").u64(0).str("data", "hello world").done(),
		c07New(6, "WRITE", 3).str("handle", "1").u64(11).str("data", "!!").done(),
		c07New(5, "READ", 4).str("handle", "1").u64(0).length("len", 5).done(),
		c07New(8, "FSTAT", 5).str("handle", "1").done(),
		c07New(3, "OPEN", 6).str("path", "seed.txt").u32(sshFxfRead).u32(0).done(),
		c07New(5, "READ", 7).str("handle", "2").u64(2).length("len", 100).done(),
		c07New(5, "READ", 8).str("handle", "2").u64(1000).length("len", 10).done(),
		c07New(10, "FSETSTAT", 9).str("handle", "1").u32(c07AttrSize).u64(5).done(),
		c07New(4, "CLOSE", 10).str("handle", "2").done(),
		c07New(6, "WRITE", 11).str("handle", "2").u64(0).str("data", "zz").done(),
		c07New(3, "OPEN", 12).str("path", "b.txt").u32(sshFxfWrite | sshFxfCreat | sshFxfExcl).u32(c07AttrPerm).u32(0o600).done(),
		c07New(4, "CLOSE", 13).str("handle", "3").done(),
		c07New(4, "CLOSE", 14).str("handle", "1").done(),
		c07New(17, "STAT", 15).str("path", "a.txt").done(),
	}
	dirs := []c07Pkt{
		c07New(1, "INIT", 3).done(),
		c07New(14, "MKDIR", 1).str("path", "d").u32(0).done(),
		c07New(3, "OPEN", 2).str("path", "d/x").u32(sshFxfWrite | sshFxfCreat).u32(0).done(),
		c07New(6, "WRITE", 3).str("handle", "1").u64(0).str("data", "xx").done(),
		c07New(4, "CLOSE", 4).str("handle", "1").done(),
		c07New(11, "OPENDIR", 5).str("path", "d").done(),
		c07New(12, "READDIR", 6).str("handle", "2").done(),
		c07New(12, "READDIR", 7).str("handle", "2").done(),
		c07New(4, "CLOSE", 8).str("handle", "2").done(),
		c07New(17, "STAT", 9).str("path", "d/x").done(),
		c07New(7, "LSTAT", 10).str("path", "d/x").done(),
		c07New(18, "RENAME", 11).str("oldpath", "d/x").str("newpath", "d/y").done(),
		c07New(20, "SYMLINK", 12).str("target", "d/y").str("link", "lnk").done(),
		c07New(19, "READLINK", 13).str("path", "lnk").done(),
		c07New(16, "REALPATH", 14).str("path", "d/../d/./y").done(),
		c07New(9, "SETSTAT", 15).str("path", "d/y").u32(c07AttrPerm|c07AttrExt).u32(0o640).length("extcount", 1).str("exttype", "t@x").str("extdata", "v").done(),
		c07New(13, "REMOVE", 16).str("path", "lnk").done(),
		c07New(13, "REMOVE", 17).str("path", "d/y").done(),
		c07New(15, "RMDIR", 18).str("path", "d").done(),
		c07New(17, "STAT", 19).str("path", "d").done(),
	}
	extended := []c07Pkt{
		c07New(1, "INIT", 3).done(),
		c07New(3, "OPEN", 1).str("path", "e.txt").u32(sshFxfRead | sshFxfWrite | sshFxfCreat).u32(0).done(),
		c07New(6, "WRITE", 2).str("handle", "1").u64(0).str("data", "data").done(),
		ext(3, "statvfs@openssh.com").str("path", ".").done(),
		ext(4, "posix-rename@openssh.com").str("oldpath", "seed.txt").str("newpath", "seed2.txt").done(),
		ext(5, "hardlink@openssh.com").str("oldpath", "seed2.txt").str("newpath", "hl.txt").done(),
		ext(6, "fsync@openssh.com").str("handle", "1").done(),
		ext(7, "unknown@example.com").str("opaque", "xyz").u32(7).done(),
		c07New(17, "STAT", 8).str("path", "hl.txt").done(),
		ext(9, "posix-rename@openssh.com").str("oldpath", "seed2.txt").str("newpath", "seed.txt").done(),
		c07New(4, "CLOSE", 10).str("handle", "1").done(),
		c07New(7, "LSTAT", 11).str("path", "e.txt").done(),
	}
	return map[string][]c07Pkt{"fileio": fileio, "dirs": dirs, "extended": extended}
}

var c07SessionNames = []string{"fileio", "dirs", "extended"}

// ---------------------------------------------------------------------------------------------
// independent frame classifier (draft-ietf-secsh-filexfer-02 + OpenSSH PROTOCOL §3)

type c07Class int

const (
	c07Well c07Class = iota
	c07Ambiguous
	c07Malformed
)

func (c c07Class) String() string { return [...]string{"well-formed", "ambiguous", "malformed"}[c] }

type c07Rd struct {
	b       []byte
	bad     bool
	inAttrs bool
	badAttr bool // the shortage was met inside an ATTRS block
}

func (r *c07Rd) u32() uint32 {
	if r.bad || len(r.b) < 4 {
		r.fail()
		return 0
	}
	v := binary.BigEndian.Uint32(r.b)
	r.b = r.b[4:]
	return v
}
func (r *c07Rd) u64() {
	if r.bad || len(r.b) < 8 {
		r.fail()
		return
	}
	r.b = r.b[8:]
}
func (r *c07Rd) str() string {
	n := r.u32()
	if r.bad || uint64(n) > uint64(len(r.b)) {
		r.fail()
		return ""
	}
	s := string(r.b[:n])
	r.b = r.b[n:]
	return s
}

func (r *c07Rd) fail() {
	if !r.bad {
		r.bad = true
		r.badAttr = r.inAttrs
	}
}

// attrs reads an ATTRS structure; unknown is set when flag bits outside the v3 set are present.
func (r *c07Rd) attrs() (unknown bool) {
	fl := r.u32() // the flags word is a mandatory field
	r.inAttrs = true
	defer func() { r.inAttrs = false }()
	if r.bad {
		return false
	}
	if fl&^uint32(c07AttrSize|c07AttrUIDs|c07AttrPerm|c07AttrTimes|c07AttrExt) != 0 {
		return true
	}
	if fl&c07AttrSize != 0 {
		r.u64()
	}
	if fl&c07AttrUIDs != 0 {
		r.u32()
		r.u32()
	}
	if fl&c07AttrPerm != 0 {
		r.u32()
	}
	if fl&c07AttrTimes != 0 {
		r.u32()
		r.u32()
	}
	if fl&c07AttrExt != 0 {
		n := r.u32()
		for i := uint32(0); i < n && !r.bad; i++ {
			r.str()
			r.str()
		}
	}
	return false
}

// c07ClassifyBody classifies one complete frame body (type byte + payload).
func c07ClassifyBody(body []byte) (c07Class, string) {
	typ := body[0]
	r := &c07Rd{b: body[1:]}
	unknownAttrs := false
	name := strings.TrimPrefix(fxp(typ).String(), "SSH_FXP_")
	switch typ {
	case 1: // INIT: version, then extension pairs
		r.u32()
		for len(r.b) > 0 && !r.bad {
			r.str()
			r.str()
		}
	case 3: // OPEN
		r.u32()
		r.str()
		r.u32()
		unknownAttrs = r.attrs()
	case 4, 7, 8, 11, 12, 13, 15, 16, 17, 19: // id + one string
		r.u32()
		r.str()
	case 5: // READ
		r.u32()
		r.str()
		r.u64()
		r.u32()
	case 6: // WRITE
		r.u32()
		r.str()
		r.u64()
		r.str()
	case 9, 10, 14: // SETSTAT, FSETSTAT, MKDIR: id, string, ATTRS
		r.u32()
		r.str()
		unknownAttrs = r.attrs()
	case 18, 20: // RENAME, SYMLINK
		r.u32()
		r.str()
		r.str()
	case 200: // EXTENDED
		r.u32()
		ext := r.str()
		if r.bad {
			break
		}
		switch ext {
		case "statvfs@openssh.com":
			r.str()
		case "posix-rename@openssh.com", "hardlink@openssh.com":
			r.str()
			r.str()
		default:
			// an extension these servers do not implement: its payload is opaque, the request itself is
			// well formed (it must be answered SSH_FX_OP_UNSUPPORTED)
			return c07Well, "EXTENDED"
		}
		name = "EXTENDED"
	default:
		return c07Ambiguous, fmt.Sprintf("unknown-type:%d", typ)
	}
	switch {
	case r.bad && r.badAttr:
		return c07Malformed, "short-attrs:" + name
	case r.bad:
		return c07Malformed, "short-fields:" + name
	case unknownAttrs:
		return c07Ambiguous, "attr-flags:" + name
	case len(r.b) > 0:
		return c07Ambiguous, "trailing-bytes:" + name
	}
	return c07Well, name
}

type c07Frame struct {
	start, end int
	class      c07Class
	desc       string
}

// c07Classify splits a stream into frames; the last frame returned may be a malformed one
// (incomplete, zero length), after which nothing can be framed.
func c07Classify(s []byte) []c07Frame {
	var fs []c07Frame
	p := 0
	for p < len(s) {
		if len(s)-p < 4 {
			fs = append(fs, c07Frame{p, len(s), c07Malformed, "truncated-frame"})
			break
		}
		l := binary.BigEndian.Uint32(s[p:])
		if l == 0 {
			fs = append(fs, c07Frame{p, len(s), c07Malformed, "zero-length-frame"})
			break
		}
		if uint64(l) > uint64(len(s)-p-4) {
			fs = append(fs, c07Frame{p, len(s), c07Malformed, "truncated-frame"})
			break
		}
		e := p + 4 + int(l)
		cl, d := c07ClassifyBody(s[p+4 : e])
		fs = append(fs, c07Frame{p, e, cl, d})
		if cl == c07Malformed {
			break
		}
		p = e
	}
	return fs
}

// c07Candidates returns the admissible "stream stopped here" prefixes: before every ambiguous
// frame (it may be refused) and before the first malformed frame / at the end (it may be accepted).
// Each candidate is the list of frames the server is entitled to act on.
func c07Candidates(fs []c07Frame) (cands [][]c07Frame, firstBad string) {
	firstBad = "well-formed"
	seenBad := false
	for i, f := range fs {
		if f.class == c07Well {
			continue
		}
		if !seenBad {
			firstBad = f.desc
			if strings.HasPrefix(firstBad, "unknown-type:") {
				firstBad = "unknown-type"
			}
			seenBad = true
		}
		cands = append(cands, fs[:i])
		if f.class == c07Malformed {
			return cands, firstBad
		}
	}
	cands = append(cands, fs)
	return cands, firstBad
}

// ---------------------------------------------------------------------------------------------
// in-memory handler for the request server (fresh object per open, call log, close counters)

type c07Node struct {
	kind   byte // 'f', 'd', 'l'
	data   []byte
	target string
	mode   uint32
}

type c07FS struct {
	nodes   map[string]*c07Node
	Log     []string
	Files   []*c07File
	Listers []*c07Lister
}

type c07File struct {
	fs     *c07FS
	name   string
	n      *c07Node
	Closes int
	TErrs  int
}

type c07Lister struct {
	fs     *c07FS
	name   string
	infos  []os.FileInfo
	Closes int
	handle bool // handed out for an OPENDIR (bound to a handle)
}

type c07Info struct {
	name string
	n    *c07Node
}

func (i c07Info) Name() string { return i.name }
func (i c07Info) Size() int64  { return int64(len(i.n.data)) }
func (i c07Info) Mode() os.FileMode {
	switch i.n.kind {
	case 'd':
		return os.ModeDir | os.FileMode(i.n.mode&0o777)
	case 'l':
		return os.ModeSymlink | 0o777
	}
	return os.FileMode(i.n.mode & 0o777)
}
func (i c07Info) ModTime() time.Time { return c07Epoch }
func (i c07Info) IsDir() bool        { return i.n.kind == 'd' }
func (i c07Info) Sys() any           { return nil }

func newC07FS() *c07FS {
	fs := &c07FS{nodes: map[string]*c07Node{"/": {kind: 'd', mode: 0o755}}}
	fs.nodes["/seed.txt"] = &c07Node{kind: 'f', data: []byte(c07Seed), mode: 0o644}
	return fs
}

const c07Seed = "SEEDSEEDSEED"

func (fs *c07FS) log(f string, a ...any) { fs.Log = append(fs.Log, fmt.Sprintf(f, a...)) }

func (fs *c07FS) parentOK(p string) bool {
	n := fs.nodes[path.Dir(p)]
	return n != nil && n.kind == 'd'
}

func (fs *c07FS) resolve(p string) *c07Node {
	for i := 0; i < 8; i++ {
		n := fs.nodes[p]
		if n == nil || n.kind != 'l' {
			return n
		}
		p = n.target
		if !path.IsAbs(p) {
			p = "/" + p
		}
	}
	return nil
}

func (fs *c07FS) openNode(r *Request, write bool) (*c07Node, error) {
	fl := r.Pflags()
	n := fs.resolve(r.Filepath)
	if n == nil {
		if !write || !fl.Creat {
			return nil, os.ErrNotExist
		}
		if !fs.parentOK(r.Filepath) {
			return nil, os.ErrNotExist
		}
		n = &c07Node{kind: 'f', mode: 0o644}
		fs.nodes[r.Filepath] = n
	} else {
		if n.kind != 'f' {
			return nil, errors.New("not a regular file")
		}
		if write && fl.Creat && fl.Excl {
			return nil, os.ErrExist
		}
		if write && fl.Trunc {
			n.data = nil
		}
	}
	return n, nil
}

func (fs *c07FS) newFile(r *Request, n *c07Node) *c07File {
	f := &c07File{fs: fs, name: r.Filepath, n: n}
	fs.Files = append(fs.Files, f)
	return f
}

func (fs *c07FS) Fileread(r *Request) (io.ReaderAt, error) {
	vsched.Env("c07.fileread", fs, false, nil)
	fs.log("Fileread %q flags=%#x", r.Filepath, r.Flags)
	n, err := fs.openNode(r, false)
	if err != nil {
		return nil, err
	}
	return fs.newFile(r, n), nil
}

func (fs *c07FS) Filewrite(r *Request) (io.WriterAt, error) {
	vsched.Env("c07.filewrite", fs, false, nil)
	fs.log("Filewrite %q flags=%#x attrs=%x", r.Filepath, r.Flags, r.Attrs)
	n, err := fs.openNode(r, true)
	if err != nil {
		return nil, err
	}
	return fs.newFile(r, n), nil
}

func (fs *c07FS) OpenFile(r *Request) (WriterAtReaderAt, error) {
	vsched.Env("c07.openfile", fs, false, nil)
	fs.log("OpenFile %q flags=%#x attrs=%x", r.Filepath, r.Flags, r.Attrs)
	n, err := fs.openNode(r, true)
	if err != nil {
		return nil, err
	}
	return fs.newFile(r, n), nil
}

func (fs *c07FS) Filecmd(r *Request) error {
	vsched.Env("c07.filecmd", fs, false, nil)
	fs.log("Filecmd %s %q %q flags=%#x attrs=%x", r.Method, r.Filepath, r.Target, r.Flags, r.Attrs)
	switch r.Method {
	case "Setstat":
		n := fs.resolve(r.Filepath)
		if n == nil {
			return os.ErrNotExist
		}
		af := r.AttrFlags()
		at := r.Attributes()
		if at == nil {
			return errors.New("attributes do not decode")
		}
		if af.Size && n.kind == 'f' {
			for uint64(len(n.data)) < at.Size && len(n.data) < 1<<16 {
				n.data = append(n.data, 0)
			}
			if uint64(len(n.data)) > at.Size {
				n.data = n.data[:at.Size]
			}
		}
		if af.Permissions {
			n.mode = at.Mode & 0o777
		}
	case "Rename", "PosixRename":
		n := fs.nodes[r.Filepath]
		if n == nil {
			return os.ErrNotExist
		}
		if !fs.parentOK(r.Target) {
			return os.ErrNotExist
		}
		if fs.nodes[r.Target] != nil && r.Method == "Rename" {
			return os.ErrExist
		}
		delete(fs.nodes, r.Filepath)
		fs.nodes[r.Target] = n
	case "Rmdir":
		n := fs.nodes[r.Filepath]
		if n == nil {
			return os.ErrNotExist
		}
		if n.kind != 'd' {
			return errors.New("not a directory")
		}
		for p := range fs.nodes {
			if p != r.Filepath && path.Dir(p) == r.Filepath {
				return errors.New("directory not empty")
			}
		}
		delete(fs.nodes, r.Filepath)
	case "Mkdir":
		if fs.nodes[r.Filepath] != nil {
			return os.ErrExist
		}
		if !fs.parentOK(r.Filepath) {
			return os.ErrNotExist
		}
		fs.nodes[r.Filepath] = &c07Node{kind: 'd', mode: 0o755}
	case "Link":
		n := fs.nodes[r.Filepath]
		if n == nil {
			return os.ErrNotExist
		}
		if fs.nodes[r.Target] != nil {
			return os.ErrExist
		}
		fs.nodes[r.Target] = n
	case "Symlink":
		if fs.nodes[r.Target] != nil {
			return os.ErrExist
		}
		fs.nodes[r.Target] = &c07Node{kind: 'l', target: r.Filepath}
	case "Remove":
		n := fs.nodes[r.Filepath]
		if n == nil {
			return os.ErrNotExist
		}
		if n.kind == 'd' {
			return errors.New("is a directory")
		}
		delete(fs.nodes, r.Filepath)
	default:
		return ErrSSHFxOpUnsupported
	}
	return nil
}

func (fs *c07FS) StatVFS(r *Request) (*StatVFS, error) {
	vsched.Env("c07.statvfs", fs, false, nil)
	fs.log("StatVFS %q", r.Filepath)
	return &StatVFS{Bsize: 4096, Frsize: 4096, Blocks: 1000, Bfree: 500, Bavail: 400, Files: 100, Ffree: 50, Favail: 40, Fsid: 7, Namemax: 255}, nil
}

func (fs *c07FS) Filelist(r *Request) (ListerAt, error) {
	vsched.Env("c07.filelist", fs, false, nil)
	fs.log("Filelist %s %q", r.Method, r.Filepath)
	switch r.Method {
	case "List":
		n := fs.resolve(r.Filepath)
		if n == nil {
			return nil, os.ErrNotExist
		}
		if n.kind != 'd' {
			return nil, errors.New("not a directory")
		}
		var names []string
		for p := range fs.nodes {
			if p != r.Filepath && path.Dir(p) == r.Filepath {
				names = append(names, p)
			}
		}
		sort.Strings(names)
		l := &c07Lister{fs: fs, name: r.Filepath, handle: true}
		for _, p := range names {
			l.infos = append(l.infos, c07Info{path.Base(p), fs.nodes[p]})
		}
		fs.Listers = append(fs.Listers, l)
		return l, nil
	case "Readlink":
		n := fs.nodes[r.Filepath]
		if n == nil {
			return nil, os.ErrNotExist
		}
		if n.kind != 'l' {
			return nil, errors.New("not a symlink")
		}
		l := &c07Lister{fs: fs, name: "readlink:" + r.Filepath, infos: []os.FileInfo{c07Info{n.target, n}}}
		fs.Listers = append(fs.Listers, l)
		return l, nil
	default: // Stat, Lstat
		n := fs.nodes[r.Filepath]
		if r.Method == "Stat" {
			n = fs.resolve(r.Filepath)
		}
		if n == nil {
			return nil, os.ErrNotExist
		}
		l := &c07Lister{fs: fs, name: "stat:" + r.Filepath, infos: []os.FileInfo{c07Info{path.Base(r.Filepath), n}}}
		fs.Listers = append(fs.Listers, l)
		return l, nil
	}
}

func (f *c07File) ReadAt(b []byte, off int64) (int, error) {
	vsched.Env("c07.file.read:"+f.name, f, false, nil)
	f.fs.log("ReadAt %q off=%d len=%d", f.name, off, len(b))
	if off < 0 || off >= int64(len(f.n.data)) {
		return 0, io.EOF
	}
	n := copy(b, f.n.data[off:])
	if n < len(b) {
		return n, io.EOF
	}
	return n, nil
}

func (f *c07File) WriteAt(b []byte, off int64) (int, error) {
	vsched.Env("c07.file.write:"+f.name, f, false, nil)
	f.fs.log("WriteAt %q off=%d %q", f.name, off, b)
	if off < 0 || off > 1<<16 {
		return 0, errors.New("offset out of range")
	}
	for int64(len(f.n.data)) < off+int64(len(b)) {
		f.n.data = append(f.n.data, 0)
	}
	copy(f.n.data[off:], b)
	return len(b), nil
}

func (f *c07File) Close() error {
	vsched.Env("c07.file.close:"+f.name, f, false, nil)
	f.Closes++
	f.fs.log("Close %q", f.name)
	if f.TErrs > 0 {
		return errors.New("transfer abandoned") // what an upload back end reports when it is closed after a transfer error
	}
	return nil
}

func (f *c07File) TransferError(err error) {
	vsched.Env("c07.file.terr:"+f.name, f, false, nil)
	f.TErrs++
	f.fs.log("TransferError %q", f.name)
}

func (l *c07Lister) ListAt(out []os.FileInfo, off int64) (int, error) {
	vsched.Env("c07.lister.listat:"+l.name, l, false, nil)
	l.fs.log("ListAt %q off=%d", l.name, off)
	if off >= int64(len(l.infos)) {
		return 0, io.EOF
	}
	n := copy(out, l.infos[off:])
	if n < len(out) {
		return n, io.EOF
	}
	return n, nil
}

func (l *c07Lister) Close() error {
	vsched.Env("c07.lister.close:"+l.name, l, false, nil)
	l.Closes++
	l.fs.log("CloseLister %q", l.name)
	return nil
}

func (fs *c07FS) dump() string {
	var ps []string
	for p := range fs.nodes {
		ps = append(ps, p)
	}
	sort.Strings(ps)
	var sb strings.Builder
	for _, p := range ps {
		n := fs.nodes[p]
		fmt.Fprintf(&sb, "%s %c %o %q %q\n", p, n.kind, n.mode, n.data, n.target)
	}
	sb.WriteString("-- calls --\n")
	for _, l := range fs.Log {
		sb.WriteString(l)
		sb.WriteByte('\n')
	}
	return sb.String()
}

// ---------------------------------------------------------------------------------------------
// one scheduled run of a server on a byte stream

type c07Cfg struct {
	Server string `json:"server"` // "rs" | "os"
	Alloc  bool   `json:"alloc"`
	MaxTx  uint32 `json:"maxtx,omitempty"`
	RO     bool   `json:"readonly,omitempty"` // os-backed server with ReadOnly()
}

func (c c07Cfg) String() string {
	s := c.Server
	if c.Alloc {
		s += "+alloc"
	}
	if c.RO {
		s += "+readonly"
	}
	if c.MaxTx != 0 {
		s += fmt.Sprintf("+maxtx%d", c.MaxTx)
	}
	return s
}

// c07Live is the state of one execution.
type c07Live struct {
	cfg      c07Cfg
	root     string
	fs       *c07FS
	sv       *Server
	in, out  *VPipe
	served   bool
	serveErr error
	fdBefore int
	lockN    int // lock-step frames that were answered
	finished bool

	// filled by finish
	resp    []string
	partial string
	state   string
	relBad  string
}

func c07CountFDs() int {
	d, err := os.Open("/proc/self/fd")
	if err != nil {
		return -1
	}
	names, _ := d.Readdirnames(-1)
	d.Close()
	return len(names)
}

var c07Epoch = time.Unix(1000000000, 0)

func c07SeedTree(root string) {
	os.RemoveAll(root)
	os.MkdirAll(root, 0o755)
	p := filepath.Join(root, "seed.txt")
	os.WriteFile(p, []byte(c07Seed), 0o644)
	os.Chtimes(p, c07Epoch, c07Epoch)
}

// start creates the server on fresh pipes; must run on a scheduler thread.
func (l *c07Live) start() {
	l.in, l.out = NewVPipe("c2s"), NewVPipe("s2c")
	conn := &vduplex{in: l.in, out: l.out}
	var serve func() error
	switch l.cfg.Server {
	case "rs":
		l.fs = newC07FS()
		var opts []RequestServerOption
		if l.cfg.Alloc {
			opts = append(opts, WithRSAllocator())
		}
		if l.cfg.MaxTx != 0 {
			opts = append(opts, WithRSMaxTxPacket(l.cfg.MaxTx))
		}
		rs := NewRequestServer(conn, Handlers{l.fs, l.fs, l.fs, l.fs}, opts...)
		serve = rs.Serve
	case "os":
		opts := []ServerOption{WithServerWorkingDirectory(l.root)}
		if l.cfg.Alloc {
			opts = append(opts, WithAllocator())
		}
		if l.cfg.MaxTx != 0 {
			opts = append(opts, WithMaxTxPacket(l.cfg.MaxTx))
		}
		if l.cfg.RO {
			opts = append(opts, ReadOnly())
		}
		sv, err := NewServer(conn, opts...)
		if err != nil {
			panic(err)
		}
		l.sv = sv
		serve = sv.Serve
	default:
		panic("c07: unknown server " + l.cfg.Server)
	}
	vsched.GoNamed("serve", "harness", func() {
		l.serveErr = serve()
		// the owner of the connection closes it once Serve has returned (what sshd does)
		l.out.CloseWrite()
		vsched.Env("served", l, false, nil)
		l.served = true
	})
}

// drive is the peer: lock-step over the frames in lock (each answered before the next is sent;
// stops lock-stepping when the server hangs up), then everything else in one write, then hang-up.
func (l *c07Live) drive(stream []byte, lock []c07Frame) {
	l.start()
	pos := 0
	for _, f := range lock {
		l.in.Write(stream[f.start:f.end])
		pos = f.end
		if _, err := readFrame(l.out); err != nil {
			break
		}
		l.lockN++
	}
	if pos < len(stream) {
		l.in.Write(stream[pos:])
	}
	l.in.CloseWrite()
	for {
		if _, err := readFrame(l.out); err != nil {
			break
		}
	}
	vsched.Env("await-served", l, true, func() bool { return l.served })
}

// cleanup releases whatever an aborted execution left open in this process.
func (l *c07Live) cleanup() {
	if l.sv != nil {
		// (no assumption about the key type of the handle table: a refactoring of it must not stop the harness from compiling)
		for k, f := range l.sv.openFiles {
			f.Close()
			delete(l.sv.openFiles, k)
		}
	}
}

func c07MaskAttrs(r *c07Rd, sb *strings.Builder) {
	fl := r.u32()
	fmt.Fprintf(sb, " attrs[%#x", fl)
	if fl&c07AttrSize != 0 {
		if len(r.b) >= 8 {
			fmt.Fprintf(sb, " size=%d", binary.BigEndian.Uint64(r.b))
		}
		r.u64()
	}
	if fl&c07AttrUIDs != 0 {
		fmt.Fprintf(sb, " uid=%d gid=%d", r.u32(), r.u32())
	}
	if fl&c07AttrPerm != 0 {
		fmt.Fprintf(sb, " perm=%o", r.u32())
	}
	if fl&c07AttrTimes != 0 {
		r.u32()
		r.u32()
		sb.WriteString(" times=<masked>")
	}
	if fl&c07AttrExt != 0 {
		n := r.u32()
		for i := uint32(0); i < n && !r.bad; i++ {
			fmt.Fprintf(sb, " ext(%q=%q)", r.str(), r.str())
		}
	}
	sb.WriteString("]")
}

// c07Norm renders one response frame with run-dependent fields masked (times, long names,
// statvfs counters, the scratch root in texts).
func c07Norm(f frame, root string) string {
	raw := func() string { return fmt.Sprintf("%s raw=%x", fxp(f.typ), f.body) }
	clean := func(s string) string {
		if root != "" {
			s = strings.ReplaceAll(s, root, "$ROOT")
		}
		return s
	}
	r := &c07Rd{b: f.body}
	var sb strings.Builder
	switch f.typ {
	case sshFxpStatus:
		fmt.Fprintf(&sb, "STATUS#%d code=%d", r.u32(), r.u32())
		fmt.Fprintf(&sb, " msg=%q lang=%q", clean(r.str()), r.str())
	case sshFxpHandle:
		fmt.Fprintf(&sb, "HANDLE#%d %q", r.u32(), r.str())
	case sshFxpData:
		fmt.Fprintf(&sb, "DATA#%d %q", r.u32(), r.str())
	case sshFxpAttrs:
		fmt.Fprintf(&sb, "ATTRS#%d", r.u32())
		c07MaskAttrs(r, &sb)
	case sshFxpName:
		fmt.Fprintf(&sb, "NAME#%d", r.u32())
		n := r.u32()
		var es []string
		for i := uint32(0); i < n && !r.bad; i++ {
			var eb strings.Builder
			fmt.Fprintf(&eb, "{%q", clean(r.str()))
			r.str() // long name: contains a formatted time
			c07MaskAttrs(r, &eb)
			eb.WriteString("}")
			es = append(es, eb.String())
		}
		sort.Strings(es)
		fmt.Fprintf(&sb, " n=%d %s", n, strings.Join(es, ""))
	case sshFxpExtendedReply:
		id := r.u32()
		return fmt.Sprintf("EXTENDED_REPLY#%d len=%d", id, len(f.body))
	default:
		return raw()
	}
	if r.bad || len(r.b) != 0 {
		return raw()
	}
	return sb.String()
}

// c07Snapshot describes the served tree: path, mode, size, content (hashed when large; a mutated
// request may create a huge sparse file), link target, link count.
func c07Snapshot(root string) string {
	var lines []string
	filepath.Walk(root, func(p string, fi os.FileInfo, err error) error {
		rel, _ := filepath.Rel(root, p)
		if err != nil {
			lines = append(lines, fmt.Sprintf("%s ERR %v", rel, err))
			return nil
		}
		l := fmt.Sprintf("%s %v", rel, fi.Mode())
		switch {
		case fi.Mode().IsRegular():
			l += fmt.Sprintf(" size=%d", fi.Size())
			if fi.Size() <= 1<<16 {
				b, _ := os.ReadFile(p)
				l += fmt.Sprintf(" %q", b)
			} else if f, err := os.Open(p); err == nil {
				b := make([]byte, 4096)
				n, _ := f.ReadAt(b, 0)
				f.Close()
				l += fmt.Sprintf(" first4k-sha1=%x", sha1.Sum(b[:n]))
			}
		case fi.Mode()&os.ModeSymlink != 0:
			t, _ := os.Readlink(p)
			l += " -> " + strings.ReplaceAll(t, root, "$ROOT")
		}
		if st, ok := fi.Sys().(*syscall.Stat_t); ok && !fi.IsDir() {
			l += fmt.Sprintf(" nlink=%d", st.Nlink)
		}
		lines = append(lines, l)
		return nil
	})
	sort.Strings(lines)
	return strings.Join(lines, "\n")
}

// finish computes what the oracles look at, after the execution has ended without deadlock/panic.
func (l *c07Live) finish() {
	fs, rest := splitFrames(l.out.Total)
	for _, f := range fs {
		l.resp = append(l.resp, c07Norm(f, l.root))
	}
	if len(rest) > 0 {
		l.partial = hex.EncodeToString(rest)
	}
	if l.fs != nil {
		l.state = l.fs.dump()
		for _, f := range l.fs.Files {
			if f.Closes != 1 && l.relBad == "" {
				l.relBad = fmt.Sprintf("handler file object %q (opened through a handle) was closed %d times, want exactly 1", f.name, f.Closes)
			}
		}
		for _, ls := range l.fs.Listers {
			if ls.handle && ls.Closes != 1 && l.relBad == "" {
				l.relBad = fmt.Sprintf("handler lister %q (opened through OPENDIR) was closed %d times, want exactly 1", ls.name, ls.Closes)
			}
		}
	} else {
		l.state = c07Snapshot(l.root)
		if left := fdsUnder(l.root); len(left) > 0 {
			l.relBad = fmt.Sprintf("files of the served tree still open after Serve returned: %v", left)
		} else if after := c07CountFDs(); after > l.fdBefore+8 {
			l.relBad = fmt.Sprintf("/proc/self/fd has %d entries after Serve returned, %d before the session: files left open", after, l.fdBefore)
		}
		gcOn()
	}
}

// c07Cap keeps huge states (a mutated WRITE may create a large file) comparable but small.
func c07Cap(s string) string {
	if len(s) <= 1<<15 {
		return s
	}
	return s[:4096] + fmt.Sprintf("\n... (%d bytes, sha1 %x)", len(s), sha1.Sum([]byte(s)))
}

// c07Outcome is the result of one (stream, lock-step set) execution.
type c07Outcome struct {
	badKey, badMsg string // oracle (a)/(d) violation of this run
	resp           []string
	partial        string
	state          string
	serveErr       string
	engineErr      string
	res            *reg.Result
}

var c07Roots = map[string]string{}

func c07Root(cfg c07Cfg) string {
	if cfg.Server != "os" {
		return ""
	}
	if c07Roots[cfg.String()] == "" {
		c07Roots[cfg.String()] = scratchDir()
	}
	return c07Roots[cfg.String()]
}

// c07Exec executes the server on stream under the scheduler (all schedules with at most bound
// deviations; bound 0 = the one default schedule) and returns the observed outcome of the
// default schedule plus any violation of the schedule-independent clauses.
func c07Exec(cfg c07Cfg, stream []byte, lock []c07Frame, bound int, firstBad string) *c07Outcome {
	root := c07Root(cfg)
	var lives []*c07Live
	var first *c07Live
	sc := func() (func(), func(*vsched.Exec) explore.Verdict) {
		l := &c07Live{cfg: cfg, root: root}
		for _, o := range lives {
			o.cleanup()
		}
		if n := len(lives); n > 0 && !lives[n-1].finished && root != "" {
			// the previous execution was aborted: let finalizers close what it left unreachable
			for i := 0; i < 2; i++ {
				runtime.GC()
				runtime.Gosched()
			}
		}
		lives = append(lives, l)
		if root != "" {
			c07SeedTree(root)
			l.fdBefore = c07CountFDs()
			gcOff()
		}
		body := func() { l.drive(stream, lock) }
		judge := func(e *vsched.Exec) explore.Verdict {
			v := explore.Verdict{}
			if e.Deadlock {
				v.Outcome = "DEADLOCK"
				return v
			}
			l.finish()
			l.finished = true
			if first == nil {
				first = l
			}
			v.Outcome = fmt.Sprintf("responses=%d serveErr=%v", len(l.resp), l.serveErr != nil)
			if l.relBad != "" {
				v.Bad, v.Key = l.relBad, "release"
			}
			return v
		}
		return body, judge
	}
	res := explore.Run(explore.Config{Prop: "C07", Strategy: "db", Bound: bound, MaxSteps: 60000}, sc)
	for _, o := range lives {
		o.cleanup()
	}
	out := &c07Outcome{res: res, engineErr: res.EngineError}
	if first != nil {
		out.resp, out.partial, out.state = first.resp, first.partial, c07Cap(first.state)
		for i := range out.resp {
			out.resp[i] = c07Cap(out.resp[i])
		}
		if first.serveErr != nil {
			out.serveErr = first.serveErr.Error()
		}
	}
	if len(res.Violations) > 0 {
		v := res.Violations[0]
		srv := cfg.Server
		switch {
		case strings.HasPrefix(v.Key, "panic:"):
			out.badKey = fmt.Sprintf("c07-panic:%s:%s:%s", srv, c07PanicSite(v.Msg), firstBad)
		case strings.HasPrefix(v.Key, "deadlock:"):
			out.badKey = fmt.Sprintf("c07-deadlock:%s:%s:%s", srv, firstBad, c07Short(strings.TrimPrefix(v.Key, "deadlock:")))
		case v.Key == "horizon":
			out.badKey = fmt.Sprintf("c07-livelock:%s:%s", srv, firstBad)
		case v.Key == "release":
			out.badKey = fmt.Sprintf("c07-release:%s:%s", srv, firstBad)
		default:
			out.badKey = fmt.Sprintf("c07-other:%s:%s", srv, v.Key)
		}
		out.badMsg = v.Msg
	}
	return out
}

func c07Short(s string) string {
	ps := strings.Split(s, ",")
	seen := map[string]bool{}
	var u []string
	for _, p := range ps {
		if !seen[p] {
			seen[p] = true
			u = append(u, p)
		}
	}
	sort.Strings(u)
	if len(u) > 4 {
		u = u[:4]
	}
	return strings.Join(u, ",")
}

// ---------------------------------------------------------------------------------------------
// mapping a panic trace to the source line of the unmodified repository

var vfOrigCache = map[string][]string{}

func vfLines(p string) []string {
	if l, ok := vfOrigCache[p]; ok {
		return l
	}
	b, err := os.ReadFile(p)
	var l []string
	if err == nil {
		l = strings.Split(string(b), "\n")
	}
	vfOrigCache[p] = l
	return l
}

var vfOverlay map[string]string

// vfOrigLine maps a line of the source that was compiled (the trace names the repository's path,
// but with -overlay the line belongs to the instrumented copy) to the line of the same statement
// in the repository's file: the k-th occurrence of the line's text.
func vfOrigLine(file string, line int) int {
	if vfOverlay == nil {
		vfOverlay = map[string]string{}
		if exe, err := os.Executable(); err == nil {
			if b, err := os.ReadFile(filepath.Join(filepath.Dir(exe), "overlay.json")); err == nil {
				var ov struct{ Replace map[string]string }
				if json.Unmarshal(b, &ov) == nil && ov.Replace != nil {
					vfOverlay = ov.Replace
				}
			}
		}
	}
	compiled, ok := vfOverlay[file]
	if !ok {
		return line
	}
	in := vfLines(compiled)
	orig := vfLines(file)
	if line < 1 || line > len(in) || len(orig) == 0 {
		return line
	}
	txt := strings.TrimSpace(in[line-1])
	k := 0
	for i := 0; i < line; i++ {
		if strings.TrimSpace(in[i]) == txt {
			k++
		}
	}
	for i, l := range orig {
		if strings.TrimSpace(l) == txt {
			k--
			if k == 0 {
				return i + 1
			}
		}
	}
	return line
}

// vfPanicSite extracts "file.go:line:category" of the innermost frame of package sftp that is not
// one of the skip functions (decoding helpers shared by many call sites), with the line mapped to
// the repository's source, plus the function name.
func vfPanicSite(msg string, skip ...string) (site, fn string) {
	lines := strings.Split(msg, "\n")
	cat := ""
	if len(lines) > 0 {
		cat = lines[0]
		if i := strings.LastIndex(cat, ": "); i >= 0 {
			cat = cat[i+2:]
		}
		if i := strings.Index(cat, " ["); i >= 0 {
			cat = cat[:i]
		}
	}
	for i, l := range lines {
		if !strings.HasPrefix(l, "github.com/pkg/sftp.") || i+1 >= len(lines) {
			continue
		}
		f := strings.TrimPrefix(l, "github.com/pkg/sftp.")
		if j := strings.LastIndex(f, "("); j > 0 {
			f = f[:j]
		}
		loc := strings.TrimSpace(lines[i+1])
		if j := strings.Index(loc, " "); j > 0 {
			loc = loc[:j]
		}
		base := filepath.Base(loc)
		if strings.HasPrefix(base, "zz_verif_") || strings.HasPrefix(base, "<autogenerated>") {
			continue
		}
		skipIt := false
		for _, s := range skip {
			if f == s {
				skipIt = true
			}
		}
		if skipIt {
			continue
		}
		file, ln := loc, 0
		if j := strings.LastIndex(loc, ":"); j > 0 {
			file = loc[:j]
			fmt.Sscan(loc[j+1:], &ln)
		}
		return fmt.Sprintf("%s:%d:%s", filepath.Base(file), vfOrigLine(file, ln), cat), f
	}
	// no frame of the package itself: name the innermost frame of a dependency
	for i, l := range lines {
		if strings.HasPrefix(l, "github.com/") && !strings.HasPrefix(l, "github.com/pkg/sftp.") && i+1 < len(lines) {
			loc := strings.TrimSpace(lines[i+1])
			if j := strings.Index(loc, " "); j > 0 {
				loc = loc[:j]
			}
			fn := l
			if j := strings.LastIndex(fn, "("); j > 0 {
				fn = fn[:j]
			}
			return fmt.Sprintf("%s/%s:%s", filepath.Base(filepath.Dir(loc)), filepath.Base(loc), cat), fn
		}
	}
	return "?:" + cat, ""
}

func c07PanicSite(msg string) string {
	s, _ := vfPanicSite(msg)
	return s
}

// ---------------------------------------------------------------------------------------------
// mutation enumeration

type c07Mut struct {
	Session string `json:"session"`
	Class   string `json:"class"` // cut | framelen | len | type | garbage | none
	Site    string `json:"site"`
	Stream  string `json:"stream"` // hex
	stream  []byte
	field   string // mutated inner field (for well-formed results)
}

var c07Repl = func(n uint32) []uint32 {
	return append([]uint32{0, 1, n - 1, n + 1, 1<<31 - 1, 1<<32 - 1, 256 << 10, 256<<10 + 1}, wrapValues()...)
}

var c07Garbage = [][]byte{
	{0x00},
	{0xff, 0xff, 0xff, 0xff, 0xff},
	{0, 0, 0, 0},
	{0, 0, 0, 5, 99, 0, 0, 0, 1},
}

var c07QuickTypes = map[int]bool{0: true, 2: true, 21: true, 22: true, 99: true, 100: true, 101: true, 102: true, 103: true, 104: true, 105: true, 106: true, 199: true, 200: true, 201: true, 202: true, 255: true}

func c07Join(pk []c07Pkt) (s []byte, starts []int) {
	for _, p := range pk {
		starts = append(starts, len(s))
		s = append(s, p.b...)
	}
	return s, starts
}

// c07Mutations enumerates the mutated streams of one session. quick selects the covering
// subset: cuts at field boundaries +-1, all length/count substitutions, request types plus
// representative unknown ones; only restricts to one mutation class when only != "".
func c07Mutations(name string, pk []c07Pkt, quick bool, only string) []c07Mut {
	base, starts := c07Join(pk)
	var ms []c07Mut
	add := func(class, site string, s []byte, field string) {
		if only != "" && class != only {
			return
		}
		ms = append(ms, c07Mut{Session: name, Class: class, Site: site, stream: s, field: field})
	}
	add("none", "unmutated", base, "")
	// cuts
	cutAt := map[int]bool{}
	if quick {
		for i, p := range pk {
			st := starts[i]
			for _, o := range []int{-1, 0, 1, 3, 4, 5, 8, 9, 10, len(p.b) - 1} {
				cutAt[st+o] = true
			}
			for _, f := range p.flds {
				for _, o := range []int{-1, 0, 1, 3, 4, 5} {
					cutAt[st+f.off+o] = true
				}
				cutAt[st+f.off+4+int(f.val)] = true
			}
		}
	}
	for p := 0; p < len(base); p++ {
		if quick && !cutAt[p] {
			continue
		}
		add("cut", fmt.Sprintf("byte %d", p), base[:p:p], "")
	}
	// length / count fields
	for i, p := range pk {
		st := starts[i]
		n := uint32(len(p.b) - 4)
		for _, v := range c07Repl(n) {
			if v == n {
				continue
			}
			s := append([]byte(nil), base...)
			binary.BigEndian.PutUint32(s[st:], v)
			add("framelen", fmt.Sprintf("packet %d (%s) frame length %d->%d", i, p.name, n, v), s, "")
		}
		for _, f := range p.flds {
			for _, v := range c07Repl(f.val) {
				if v == f.val {
					continue
				}
				s := append([]byte(nil), base...)
				binary.BigEndian.PutUint32(s[st+f.off:], v)
				add("len", fmt.Sprintf("packet %d (%s) field %s %d->%d", i, p.name, f.name, f.val, v), s, p.name+"."+f.name)
			}
		}
	}
	// type bytes
	for i, p := range pk {
		st := starts[i]
		for t := 0; t < 256; t++ {
			if byte(t) == p.typ {
				continue
			}
			if quick && !(t >= 1 && t <= 20) && !c07QuickTypes[t] {
				continue
			}
			s := append([]byte(nil), base...)
			s[st+4] = byte(t)
			add("type", fmt.Sprintf("packet %d (%s) type %d->%d", i, p.name, p.typ, t), s, "")
		}
	}
	for i, g := range c07Garbage {
		add("garbage", fmt.Sprintf("suffix %d (%x)", i, g), append(append([]byte(nil), base...), g...), "")
	}
	return ms
}

// ---------------------------------------------------------------------------------------------
// the check of one mutated stream

type c07Checker struct {
	cfg   c07Cfg
	burst bool // whole stream in one write: only the schedule-independent clauses are judged
	bound int
	res   *reg.Result
	refs  map[string]*c07Outcome
}

func (k *c07Checker) merge(o *c07Outcome) {
	if o.res == nil {
		return
	}
	k.res.Evaluations += o.res.Evaluations
	k.res.States += o.res.States
	k.res.Transitions += o.res.Transitions
	if o.engineErr != "" && k.res.EngineError == "" {
		k.res.EngineError = o.engineErr
	}
}

func c07IsPrefix(a, b []string) (bool, string) {
	if len(a) > len(b) {
		return false, fmt.Sprintf("%d responses emitted, the well-formed prefix alone yields %d; first extra: %s", len(a), len(b), a[len(b)])
	}
	for i := range a {
		if a[i] != b[i] {
			return false, fmt.Sprintf("response %d differs:\n   mutated stream: %s\n   prefix alone:   %s", i, a[i], b[i])
		}
	}
	return true, ""
}

func c07Diff(a, b string) string {
	la, lb := strings.Split(a, "\n"), strings.Split(b, "\n")
	in := map[string]int{}
	for _, l := range lb {
		in[l]++
	}
	var only []string
	for _, l := range la {
		if in[l] > 0 {
			in[l]--
		} else {
			only = append(only, "   + "+l)
		}
	}
	for _, l := range lb {
		if in[l] > 0 {
			in[l]--
			only = append(only, "   - "+l)
		}
	}
	if len(only) > 12 {
		only = append(only[:12], "   ...")
	}
	return strings.Join(only, "\n")
}

// check runs the mutated stream and its admissible prefixes and applies the oracles.
// It returns "" or (key, message).
func (k *c07Checker) check(m *c07Mut) (key, msg, outcome string) {
	frames := c07Classify(m.stream)
	cands, firstBad := c07Candidates(frames)
	if firstBad == "well-formed" && m.field != "" {
		firstBad = "well-formed:" + m.field
	}
	if k.burst {
		mo := c07Exec(k.cfg, m.stream, nil, k.bound, firstBad)
		k.merge(mo)
		if mo.engineErr != "" {
			return "", "", "engine-error"
		}
		if mo.badKey != "" {
			return mo.badKey, fmt.Sprintf("server %s on the mutated stream written in one burst (%s; first non-well-formed frame: %s):\n%s", k.cfg, m.Site, firstBad, mo.badMsg), "bad:" + strings.SplitN(mo.badKey, ":", 2)[0]
		}
		return "", "", fmt.Sprintf("%s/burst/responses=%s", strings.SplitN(firstBad, ":", 2)[0], c07Bucket(len(mo.resp), len(frames)))
	}
	var mism []string
	allActed := true
	for ci, cand := range cands {
		// candidates are tried from the longest (everything ambiguous accepted) to the shortest
		cand = cands[len(cands)-1-ci]
		end := 0
		if len(cand) > 0 {
			end = cand[len(cand)-1].end
		}
		mo := c07Exec(k.cfg, m.stream, cand, k.bound, firstBad)
		k.merge(mo)
		if mo.engineErr != "" {
			return "", "", "engine-error"
		}
		if mo.badKey != "" {
			return mo.badKey, fmt.Sprintf("server %s on the mutated stream (%s; first non-well-formed frame: %s):\n%s", k.cfg, m.Site, firstBad, mo.badMsg), "bad:" + strings.SplitN(mo.badKey, ":", 2)[0]
		}
		var ro *c07Outcome
		if end == len(m.stream) {
			ro = mo // the candidate is the whole stream: the run is its own reference
		} else {
			rk := fmt.Sprintf("%x|%d", m.stream[:end], len(cand))
			ro = k.refs[rk]
			if ro == nil {
				ro = c07Exec(k.cfg, m.stream[:end], cand, 0, "reference:"+firstBad)
				k.merge(ro)
				if len(k.refs) < 4096 {
					k.refs[rk] = ro
				}
			}
			if ro.engineErr != "" {
				return "", "", "engine-error"
			}
			if ro.badKey != "" {
				return ro.badKey, fmt.Sprintf("server %s on the well-formed prefix (%d frames) of the mutated stream (%s):\n%s", k.cfg, len(cand), m.Site, ro.badMsg), "bad-ref"
			}
		}
		var why []string
		acted := false
		if ok, d := c07IsPrefix(mo.resp, ro.resp); !ok {
			why = append(why, "responses are not a prefix of the responses to the well-formed requests: "+d)
		} else if mo.partial != "" && (len(mo.resp) > len(ro.resp) || len(mo.resp) == len(ro.resp) && ro.partial != mo.partial) {
			why = append(why, "a partial frame ("+mo.partial+") was emitted that is not part of the correct responses")
		}
		if mo.state != ro.state {
			what := "served tree"
			if k.cfg.Server == "rs" {
				what = "handler state / call log"
			}
			acted = true
			why = append(why, what+" differs from the run that stops before the first non-well-formed frame (+ mutated run only, - prefix run only):\n"+c07Diff(mo.state, ro.state))
		}
		if len(why) == 0 {
			return "", "", fmt.Sprintf("%s/accepted-frames=%s/all-responses=%v", strings.SplitN(firstBad, ":", 2)[0], c07Bucket(len(cand), len(frames)), len(mo.resp) == len(ro.resp))
		}
		if !acted {
			allActed = false
		}
		mism = append(mism, fmt.Sprintf("[against the prefix of %d frames] %s", len(cand), strings.Join(why, "\n  and ")))
	}
	// no admissible prefix explains the behaviour
	kind := "resp"
	if allActed {
		kind = "acted"
	}
	key = fmt.Sprintf("c07-%s:%s:%s", kind, k.cfg.Server, firstBad)
	msg = fmt.Sprintf("server %s, %s, first non-well-formed frame: %s\n%s", k.cfg, m.Site, firstBad, strings.Join(mism, "\n"))
	return key, msg, "bad:c07-" + kind
}

func c07Bucket(n, total int) string {
	switch {
	case n == total:
		return "all"
	case n == 0:
		return "none"
	}
	return "some"
}

// ---------------------------------------------------------------------------------------------

func init() {
	reg.Part("C07/streams", func(c *reg.Ctx) *reg.Result {
		res := reg.NewResult(c.Part)
		cfg := c07Cfg{Server: c.Arg("server", "rs"), Alloc: c.Arg("alloc", "0") == "1", MaxTx: uint32(c.ArgInt("maxtx", 0)), RO: c.Arg("ro", "0") == "1"}
		k := &c07Checker{cfg: cfg, bound: c.ArgInt("bound", 0), burst: c.Arg("mode", "") == "burst", res: res, refs: map[string]*c07Outcome{}}
		sessions := c07Sessions()
		// self-check of the classifier and the builder on the unmutated sessions
		for _, n := range c07SessionNames {
			s, _ := c07Join(sessions[n])
			fs := c07Classify(s)
			if len(fs) != len(sessions[n]) {
				res.EngineError = fmt.Sprintf("classifier frames session %s into %d frames, built %d", n, len(fs), len(sessions[n]))
				return res
			}
			for i, f := range fs {
				if f.class != c07Well {
					res.EngineError = fmt.Sprintf("classifier calls packet %d of base session %s %s (%s)", i, n, f.class, f.desc)
					return res
				}
			}
		}
		if c.Replay != nil {
			var m c07Mut
			if err := json.Unmarshal(c.Replay, &m); err != nil {
				res.EngineError = "bad replay record: " + err.Error()
				return res
			}
			m.stream, _ = hex.DecodeString(m.Stream)
			key, msg, out := k.check(&m)
			fmt.Printf("stream: %s\nframes: %+v\noutcome: %s\n", m.Stream, c07Classify(m.stream), out)
			if key != "" {
				fmt.Printf("VIOLATION reproduced: %s\n%s\n", key, msg)
				res.Violate("C07", key, msg, m, nil)
			} else {
				fmt.Println("no violation")
			}
			return res
		}
		only := c.Arg("class", "")
		sess := c07SessionNames
		if s := c.Arg("session", ""); s != "" {
			sess = []string{s}
		}
		quick := c.Arg("subset", "") == "quick"
		var i int64
		done := 0
	outer:
		for _, n := range sess {
			for _, m := range c07Mutations(n, sessions[n], quick, only) {
				i++
				if !c.Mine(i) {
					continue
				}
				if c.Expired() {
					res.Exhaustive = false
					break outer
				}
				m := m
				m.Stream = hex.EncodeToString(m.stream)
				res.Nontrivial[fmt.Sprintf("%s/%d", n, i)] = true
				key, msg, out := k.check(&m)
				done++
				res.Outcome(m.Class + ": " + out)
				if done%97 == 1 {
					res.Sample(map[string]any{"session": n, "mutation": m.Class + " " + m.Site, "outcome": out})
				}
				if res.EngineError != "" {
					return res
				}
				if key != "" {
					res.Violate("C07", key, msg, m, nil)
				}
			}
		}
		res.Notes["streams_checked_in_this_shard"] = done
		res.Notes["schedule"] = fmt.Sprintf("db(%d)", k.bound)
		if res.Exhaustive {
			res.Bound = fmt.Sprintf("all enumerated mutations of %v (%s subset), each under db(%d)", sess, map[bool]string{true: "covering", false: "complete"}[quick], k.bound)
		} else {
			res.Bound = fmt.Sprintf("budget expired after %d streams in this shard", done)
		}
		return res
	})

	reg.Prop(&reg.Property{
		ID:    "C07",
		Level: "fault_enumeration",
		Rule: "three valid base sessions (file I/O 16 packets, directories and names 20, extended requests 12) x {RequestServer over an in-memory handler, os-backed Server over a scratch tree} x allocator {off,on}; " +
			"mutations: cut at byte offsets, every frame length and inner length/count field <- {0,1,n-1,n+1,2^31-1,2^32-1,256Ki,256Ki+1}, type byte <- 0..255, 4 garbage suffixes; " +
			"each stream executed under the cooperative scheduler on the default schedule (well-formed leading frames in lock step, the rest in one write, then hang-up; with the allocator also the whole stream in one burst, judged on the schedule-independent clauses only); " +
			"distinct = distinct mutated stream per configuration",
		Assumptions: []string{
			"one deterministic schedule per stream (db(0)); a subset under db(1) in the thorough tier for the schedule-independent clauses",
			"frames the draft leaves open (unknown type, trailing bytes after the last field, unknown attribute flag bits) are AMBIGUOUS: refusing or accepting them are both admitted",
			"the owner of the connection closes it after Serve has returned; the peer hangs up after its last byte",
			"objects obtained for a STAT/LSTAT/READLINK lookup are not bound to a handle; their release is C11's clause (D9), not counted here",
			"time-valued reply fields, long names and statvfs counters are masked in the response comparison",
		},
		Jobs: func(tier string) []reg.Job {
			var js []reg.Job
			j := func(label, server, alloc string, extra map[string]string, shards, budget int) {
				a := map[string]string{"server": server, "alloc": alloc}
				for k, v := range extra {
					a[k] = v
				}
				js = append(js, reg.Job{Part: "C07/streams", Build: "instr", Args: a, Shards: shards, BudgetS: budget, Label: label})
			}
			for _, s := range []string{"rs", "os"} {
				for _, al := range []string{"0", "1"} {
					budget := 100
					if tier == "thorough" {
						budget = 600
					}
					j(s+" alloc="+al+" db0 all mutations", s, al, nil, 16, budget)
				}
			}
			// the same streams written in one burst (requests race with the OPEN that creates their handle, so
			// only Serve-returns / no panic / no goroutine left / everything released are judged)
			// a read-only os-backed server: the gate in front of the workers sees every mutated packet too
			j("os read-only alloc=0 db0 all mutations", "os", "0", map[string]string{"ro": "1"}, 16, 100)
			j("rs alloc=1 db0 one burst", "rs", "1", map[string]string{"mode": "burst"}, 16, 100)
			j("os alloc=1 db0 one burst", "os", "1", map[string]string{"mode": "burst"}, 16, 100)
			// D8: allocator with a tx packet limit above the page size
			d8 := map[string]string{"maxtx": "1048576", "class": "len", "session": "fileio"}
			j("rs alloc=1 maxtx=1MiB length fields", "rs", "1", d8, 2, 60)
			j("os alloc=1 maxtx=1MiB length fields", "os", "1", d8, 2, 60)
			if tier == "thorough" {
				for _, s := range []string{"rs", "os"} {
					j(s+" alloc=1 db1 covering subset W=2", s, "1", map[string]string{"subset": "quick", "bound": "1"}, 16, 900)
				}
				for i := range js {
					if strings.Contains(js[i].Label, "db1") {
						js[i].Build = "instr-w2"
						js[i].Optional = true
					}
				}
			}
			return js
		},
	})
}
