//go:build verif

package sftp

// C05: operations through Client and Server behave like package os.
//
// Engine B, "plain" build. Breadth-first search over operation histories with canonical-state
// deduplication; the reference model is package os itself. One worker process owns one pair of
// scratch trees: A is served by the real os-backed Server (WithServerWorkingDirectory(A)) through a
// real Client over in-memory pipes, B is driven by package os with the process cwd at B for
// working-directory-relative paths. While the Client/Server side runs, the process cwd is a third,
// empty directory: a server that was given a working directory must not depend on the cwd.
//
// Every transition REBUILDS the source state in both trees from its canonical snapshot, applies one
// operation on both sides and compares outcome category, returned values and the two snapshots.
// Successor states are taken from the reference side (package os) only, so all shards compute the
// same frontier without communicating; the differential itself is sharded with c.Mine(i).

import (
	"encoding/json"
	"fmt"
	"os"
	"os/exec"
	"path"
	"path/filepath"
	"sort"
	"strings"
	"syscall"
	"time"
	"unsafe"

	krfs "github.com/kr/fs"

	"verif/reg"
)

// ---------------------------------------------------------------------------------------------
// canonical states

const (
	c05T0    = 1_000_000_000 // fixture mtimes: c05T0+i
	c05TchA  = 1_100_000_000 // atime set by the Chtimes operation
	c05TchM  = 1_200_000_000 // mtime set by the Chtimes operation
	c05T1    = 1_300_000_000 // "was touched in an earlier step" (canonical replacement of NOW)
	c05TNow  = 1_500_000_000 // anything later than this was written by the clock during the step
	c05Atime = 900_000_000   // fixture atime
)

type c05Entry struct {
	Path     string `json:"path"`
	Kind     string `json:"kind"`                // "f" file, "d" dir, "l" symlink, "s" socket, "c" character device (null), "?" other
	Mode     uint32 `json:"mode"`                // permission bits + setuid/setgid/sticky as os.FileMode bits
	Data     string `json:"data,omitempty"`      // content (files) or link text with the tree root written as $ROOT
	Mtime    int64  `json:"mtime"`               // seconds; -1 = written by the clock during this step (NOW)
	Group    int    `json:"group"`               // hard-link group: index of the first entry sharing the inode, -1 = none
	AtimeSet bool   `json:"atime_set,omitempty"` // atime equals the constant the Chtimes operation sets
}

type c05State []c05Entry

const c05NullDev = 1<<8 | 3 // makedev(1, 3)

// c05Unpriv: the process is not root, so the snapshot has to open up directories it cannot read.
var c05Unpriv = os.Getuid() != 0

const c05ModeMask = os.ModePerm | os.ModeSetuid | os.ModeSetgid | os.ModeSticky

// lines renders a snapshot. forKey: NOW is replaced by c05T1 and the atime flag is dropped, mtimes
// are left out altogether when !withMtime.
func (s c05State) lines(forKey, withMtime bool) []string {
	out := make([]string, 0, len(s))
	for _, e := range s {
		m := "-"
		if withMtime {
			switch {
			case e.Mtime == -1 && forKey:
				m = fmt.Sprint(c05T1)
			case e.Mtime == -1:
				m = "NOW"
			default:
				m = fmt.Sprint(e.Mtime)
			}
		}
		l := fmt.Sprintf("%s %s %v %q mtime=%s links=%d", e.Path, e.Kind, os.FileMode(e.Mode), e.Data, m, e.Group)
		if !forKey && e.AtimeSet {
			l += " atime=chtimes"
		}
		out = append(out, l)
	}
	return out
}

func (s c05State) key(withMtime bool) string { return strings.Join(s.lines(true, withMtime), "\n") }

// normalised returns the state as it will be rebuilt: NOW becomes c05T1 (or every mtime the fixture
// time when mtimes are not part of the state).
func (s c05State) normalised(withMtime bool) c05State {
	out := make(c05State, len(s))
	copy(out, s)
	for i := range out {
		out[i].AtimeSet = false
		if !withMtime {
			out[i].Mtime = c05T0
		} else if out[i].Mtime == -1 {
			out[i].Mtime = c05T1
		}
	}
	return out
}

// c05Snap reads a tree into its canonical form (depth-first, names sorted: parents precede children,
// hard-link leaders precede members).
func c05Snap(root string) c05State {
	var out c05State
	inos := map[uint64]int{}
	var walk func(rel string)
	walk = func(rel string) {
		d, err := os.Open(filepath.Join(root, rel))
		if err != nil {
			out = append(out, c05Entry{Path: path.Join(rel, "?"), Kind: "?", Data: "open: " + errClass(err), Group: -1})
			return
		}
		names, _ := d.Readdirnames(-1)
		d.Close()
		sort.Strings(names)
		for _, n := range names {
			p := path.Join(rel, n)
			full := filepath.Join(root, p)
			fi, err := os.Lstat(full)
			if err != nil {
				out = append(out, c05Entry{Path: p, Kind: "?", Data: "lstat: " + errClass(err), Group: -1})
				continue
			}
			e := c05Entry{Path: p, Group: -1, Mode: uint32(fi.Mode() & c05ModeMask), Mtime: fi.ModTime().Unix()}
			if e.Mtime > c05TNow {
				e.Mtime = -1
			}
			st, _ := fi.Sys().(*syscall.Stat_t)
			if st != nil && int64(st.Atim.Sec) == c05TchA {
				e.AtimeSet = true
			}
			switch {
			case fi.IsDir():
				e.Kind = "d"
			case fi.Mode().IsRegular():
				e.Kind = "f"
				if c05Unpriv && fi.Mode()&0o400 == 0 {
					os.Chmod(full, 0o400)
				}
				b, err := os.ReadFile(full)
				if c05Unpriv && fi.Mode()&0o400 == 0 {
					os.Chmod(full, fi.Mode()&c05ModeMask)
				}
				if err != nil {
					e.Data = "unreadable: " + errClass(err)
				} else {
					e.Data = string(b)
				}
			case fi.Mode()&os.ModeSymlink != 0:
				e.Kind = "l"
				t, _ := os.Readlink(full)
				e.Data = c05Unroot(t, root)
			case fi.Mode()&os.ModeSocket != 0:
				e.Kind = "s"
			case fi.Mode()&os.ModeCharDevice != 0 && st != nil && st.Rdev == c05NullDev:
				e.Kind = "c"
			default:
				e.Kind = "?"
				e.Data = fi.Mode().String()
			}
			if st != nil && !fi.IsDir() && st.Nlink > 1 {
				if g, ok := inos[st.Ino]; ok {
					e.Group = g
				} else {
					inos[st.Ino] = len(out)
					e.Group = len(out)
				}
			}
			out = append(out, e)
			if e.Kind == "d" {
				// chmod changes neither mtime nor atime
				if c05Unpriv && fi.Mode()&0o700 != 0o700 {
					os.Chmod(full, 0o700)
				}
				walk(p)
				if c05Unpriv && fi.Mode()&0o700 != 0o700 {
					os.Chmod(full, fi.Mode()&c05ModeMask)
				}
			}
		}
	}
	walk("")
	return out
}

// c05Unroot writes the tree root as $ROOT (only at the start of an absolute path).
func c05Unroot(s, root string) string {
	if s == root {
		return "$ROOT"
	}
	if strings.HasPrefix(s, root+"/") {
		return "$ROOT" + s[len(root):]
	}
	return s
}

func c05Expand(s, root string) string {
	if s == "$ROOT" {
		return root
	}
	if strings.HasPrefix(s, "$ROOT/") {
		return root + s[len("$ROOT"):]
	}
	return s
}

func c05Lutimes(p string, atime, mtime int64) error {
	ts := [2]syscall.Timespec{{Sec: atime}, {Sec: mtime}}
	pp, err := syscall.BytePtrFromString(p)
	if err != nil {
		return err
	}
	fdcwd := -100
	const atSymlinkNofollow = 0x100
	_, _, e := syscall.Syscall6(syscall.SYS_UTIMENSAT, uintptr(fdcwd), uintptr(unsafe.Pointer(pp)), uintptr(unsafe.Pointer(&ts[0])), atSymlinkNofollow, 0, 0)
	if e != 0 {
		return e
	}
	return nil
}

// c05ForceRemove removes p recursively without following symbolic links, making directories
// accessible first (needed when not running as root).
func c05ForceRemove(p string) error {
	fi, err := os.Lstat(p)
	if err != nil {
		return err
	}
	if fi.IsDir() {
		if fi.Mode()&0o700 != 0o700 {
			os.Chmod(p, 0o700)
		}
		d, err := os.Open(p)
		if err != nil {
			return err
		}
		names, _ := d.Readdirnames(-1)
		d.Close()
		for _, n := range names {
			if err := c05ForceRemove(filepath.Join(p, n)); err != nil {
				return err
			}
		}
	}
	return os.Remove(p)
}

// c05Wipe empties a directory.
func c05Wipe(root string) error {
	d, err := os.Open(root)
	if err != nil {
		return err
	}
	names, _ := d.Readdirnames(-1)
	d.Close()
	for _, n := range names {
		if err := c05ForceRemove(filepath.Join(root, n)); err != nil {
			return err
		}
	}
	return nil
}

// c05Build constructs the state in root (which exists). The root's parent directory belongs to the
// tree pair as well: link text "../a" that a Rename moved to the top level names a sibling of the
// root, so everything beside the root is removed too (both sides start every step with no siblings).
func c05Build(root string, st c05State) error {
	if err := c05Wipe(root); err != nil {
		return fmt.Errorf("wipe: %w", err)
	}
	if d, err := os.Open(filepath.Dir(root)); err == nil {
		names, _ := d.Readdirnames(-1)
		d.Close()
		for _, n := range names {
			if n != filepath.Base(root) {
				if err := c05ForceRemove(filepath.Join(filepath.Dir(root), n)); err != nil {
					return fmt.Errorf("wipe sibling: %w", err)
				}
			}
		}
	}
	for i, e := range st {
		p := filepath.Join(root, e.Path)
		if e.Group >= 0 && e.Group != i {
			if err := os.Link(filepath.Join(root, st[e.Group].Path), p); err != nil {
				return err
			}
			continue
		}
		switch e.Kind {
		case "d":
			if err := os.Mkdir(p, 0o700); err != nil {
				return err
			}
		case "f":
			if err := os.WriteFile(p, []byte(e.Data), 0o600); err != nil {
				return err
			}
		case "l":
			if err := os.Symlink(c05Expand(e.Data, root), p); err != nil {
				return err
			}
		case "s":
			// a unix-domain socket node (nobody listens): S_IFSOCK shares a bit with S_IFDIR in the wire mode word
			if err := syscall.Mknod(p, syscall.S_IFSOCK|0o600, 0); err != nil {
				return err
			}
		case "c":
			// a character device node equal to /dev/null (root only)
			if err := syscall.Mknod(p, syscall.S_IFCHR|0o600, c05NullDev); err != nil {
				return err
			}
		default:
			return fmt.Errorf("cannot build entry kind %q (%s)", e.Kind, e.Path)
		}
	}
	// modes and times after all creation, children before parents (a directory without search
	// permission must be finished last when not running as root)
	for i := len(st) - 1; i >= 0; i-- {
		e := st[i]
		p := filepath.Join(root, e.Path)
		if err := c05Lutimes(p, c05Atime, e.Mtime); err != nil {
			return fmt.Errorf("utimes %s: %w", e.Path, err)
		}
		if e.Kind != "l" {
			if err := os.Chmod(p, os.FileMode(e.Mode)); err != nil {
				return err
			}
		}
	}
	if err := c05Lutimes(root, c05Atime, c05T0); err != nil {
		return err
	}
	return nil
}

// ---------------------------------------------------------------------------------------------
// operations

type c05Op struct {
	Name string `json:"op"`
	P    string `json:"p,omitempty"` // path; absolute ones are written $ROOT/...
	Q    string `json:"q,omitempty"` // second path
	N    int64  `json:"n,omitempty"` // open flags / mode / size
}

func (o c05Op) String() string {
	s := o.Name + "(" + o.P
	if o.Q != "" {
		s += ", " + o.Q
	}
	switch o.Name {
	case "OpenFile":
		s += ", " + c05FlagString(int(o.N))
	case "Chmod":
		s += ", " + os.FileMode(o.N).String()
	case "Truncate":
		s += fmt.Sprintf(", %d", o.N)
	}
	return s + ")"
}

func c05FlagString(f int) string {
	var parts []string
	switch f & (os.O_WRONLY | os.O_RDWR) {
	case os.O_WRONLY:
		parts = append(parts, "O_WRONLY")
	case os.O_RDWR:
		parts = append(parts, "O_RDWR")
	default:
		parts = append(parts, "O_RDONLY")
	}
	for _, x := range []struct {
		f int
		n string
	}{{os.O_CREATE, "O_CREATE"}, {os.O_EXCL, "O_EXCL"}, {os.O_TRUNC, "O_TRUNC"}, {os.O_APPEND, "O_APPEND"}} {
		if f&x.f != 0 {
			parts = append(parts, x.n)
		}
	}
	return strings.Join(parts, "|")
}

// readOnly: the package os call of this operation cannot change the tree.
func (o c05Op) readOnly() bool {
	switch o.Name {
	case "ReadLink", "Stat", "Lstat", "ReadDir", "Glob", "Walk", "RealPath", "StatVFS":
		return true
	case "OpenFile":
		return o.N&int64(os.O_CREATE|os.O_TRUNC) == 0
	}
	return false
}

var c05OpenFlags = []int{
	os.O_RDONLY,
	os.O_WRONLY,
	os.O_RDWR | os.O_CREATE,
	os.O_WRONLY | os.O_CREATE | os.O_EXCL,
	os.O_WRONLY | os.O_TRUNC,
	os.O_WRONLY | os.O_CREATE | os.O_APPEND, // O_APPEND is a documented no-op on the server: only what the open does to the tree is compared
}

func c05Alphabet() []c05Op {
	var ops []c05Op
	names := []string{"a", "b", "c", "a/x", "b/x", "$ROOT/a", "$ROOT/a/x"}
	roots := []string{".", "$ROOT"}
	for _, n := range names {
		ops = append(ops, c05Op{Name: "Mkdir", P: n}, c05Op{Name: "MkdirAll", P: n}, c05Op{Name: "Create", P: n})
		for _, f := range c05OpenFlags {
			ops = append(ops, c05Op{Name: "OpenFile", P: n, N: int64(f)})
		}
		ops = append(ops, c05Op{Name: "Remove", P: n}, c05Op{Name: "RemoveDirectory", P: n}, c05Op{Name: "RemoveAll", P: n},
			c05Op{Name: "ReadLink", P: n}, c05Op{Name: "Stat", P: n}, c05Op{Name: "Lstat", P: n},
			c05Op{Name: "Chmod", P: n, N: 0o500}, c05Op{Name: "Chmod", P: n, N: int64(os.ModeSticky | 0o751)},
			c05Op{Name: "Chtimes", P: n}, c05Op{Name: "Truncate", P: n, N: 0}, c05Op{Name: "Truncate", P: n, N: 3},
			c05Op{Name: "ReadDir", P: n}, c05Op{Name: "Walk", P: n}, c05Op{Name: "RealPath", P: n}, c05Op{Name: "StatVFS", P: n})
	}
	for _, n := range roots {
		for _, o := range []string{"Stat", "Lstat", "ReadDir", "Walk", "RealPath", "StatVFS"} {
			ops = append(ops, c05Op{Name: o, P: n})
		}
	}
	// ".." directly behind a name that may be a symbolic link to a directory elsewhere: the path names an entry of
	// the link target's parent, which a lexical clean-up gets wrong
	for _, n := range []string{"c/../x", "$ROOT/c/../x"} {
		for _, o := range []string{"RemoveAll", "Remove", "ReadDir", "Walk", "Stat", "Lstat", "Mkdir", "MkdirAll"} {
			ops = append(ops, c05Op{Name: o, P: n})
		}
	}
	ops = append(ops, c05Op{Name: "MkdirAll", P: "c/x"}, c05Op{Name: "MkdirAll", P: "$ROOT/c/x"},
		c05Op{Name: "RealPath", P: "a/../b"}, c05Op{Name: "RealPath", P: "./a/"}, c05Op{Name: "RealPath", P: "/"})
	pairs := [][2]string{{"a", "b"}, {"b", "a"}, {"a", "c"}, {"c", "a"}, {"a/x", "b/x"}, {"a/x", "c"}, {"b", "a/x"}, {"a", "a"}, {"a", "a/x"},
		{"$ROOT/a", "$ROOT/c"}, {"a", "$ROOT/c"}}
	for _, pq := range pairs {
		for _, o := range []string{"Rename", "PosixRename", "Link"} {
			ops = append(ops, c05Op{Name: o, P: pq[0], Q: pq[1]})
		}
	}
	// Symlink(P = link text, Q = path of the new link)
	for _, pq := range [][2]string{{"a", "b"}, {"a", "c"}, {"b", "a"}, {"c", "a"}, {"a/x", "c"}, {"../a", "b/x"}, {"$ROOT/a", "c"}, {"a", "$ROOT/c"}, {"$ROOT/a/x", "$ROOT/b"}} {
		ops = append(ops, c05Op{Name: "Symlink", P: pq[0], Q: pq[1]})
	}
	for _, pq := range [][2]string{{"b", "c"}, {"a/x", "c"}, {"b", "a"}, {"$ROOT/b", "$ROOT/c"}} {
		ops = append(ops, c05Op{Name: "HTruncate", P: pq[0], Q: pq[1]}, c05Op{Name: "HChmod", P: pq[0], Q: pq[1]})
	}
	for _, g := range []string{"*", "a/*", "*/x", "?", "[ab]", "*/*", "$ROOT/*", "$ROOT/*/x", "a", "[",
		// patterns without metacharacters that are not in their shortest form, and a directory part written with a trailing separator
		"a/", "./a", "a//x", "$ROOT/a/", "*/", "a/./*"} {
		ops = append(ops, c05Op{Name: "Glob", P: g})
	}
	return ops
}

// c05Out is what one side observed.
type c05Out struct {
	Class string   `json:"class"`
	Vals  []string `json:"vals,omitempty"`
}

func c05Info(fi os.FileInfo) string {
	s := fmt.Sprintf("name=%s mode=%v dir=%v", fi.Name(), fi.Mode(), fi.IsDir())
	if !fi.IsDir() {
		s += fmt.Sprintf(" size=%d", fi.Size()) // directory sizes are a property of the file system
	}
	m := fi.ModTime().Unix()
	if m > c05TNow {
		return s + " mtime=NOW"
	}
	return s + fmt.Sprintf(" mtime=%d", m)
}

func c05Infos(fis []os.FileInfo) []string {
	var v []string
	for _, fi := range fis {
		v = append(v, c05Info(fi))
	}
	sort.Strings(v) // no order is promised
	return v
}

func c05VFS(bsize, frsize, blocks, files, flag, namemax uint64) string {
	// only the fields that do not move while other processes use the file system
	return fmt.Sprintf("bsize=%d frsize=%d blocks=%d files=%d flag=%#x namemax=%d", bsize, frsize, blocks, files, flag, namemax)
}

type c05Walker interface {
	Step() bool
	Path() string
	Stat() os.FileInfo
	Err() error
}

func c05Walk(w c05Walker, root string) []string {
	var v []string
	for n := 0; w.Step(); n++ {
		if n > 500 {
			v = append(v, "walk does not terminate")
			break
		}
		p := c05Unroot(w.Path(), root)
		if err := w.Err(); err != nil {
			v = append(v, p+" ERR "+errClass(err))
			continue
		}
		v = append(v, p+" "+c05Info(w.Stat()))
	}
	sort.Strings(v)
	return v
}

// c05RunSFTP applies op through the Client.
func c05RunSFTP(c *Client, op c05Op, root string) c05Out {
	p, q := c05Expand(op.P, root), c05Expand(op.Q, root)
	var err error
	var vals []string
	switch op.Name {
	case "Mkdir":
		err = c.Mkdir(p)
	case "MkdirAll":
		err = c.MkdirAll(p)
	case "Create", "OpenFile":
		var f *File
		if op.Name == "Create" {
			f, err = c.Create(p)
		} else {
			f, err = c.OpenFile(p, int(op.N))
		}
		if err == nil {
			vals = append(vals, "close="+errClass(f.Close()))
		}
	case "HTruncate", "HChmod":
		// through the handle of a file whose name has been given away meanwhile: open P, rename P to Q, then change the OPEN file
		var f *File
		if f, err = c.OpenFile(p, os.O_RDWR); err == nil {
			vals = append(vals, "rename="+errClass(c.Rename(p, q)))
			if op.Name == "HTruncate" {
				vals = append(vals, "truncate="+errClass(f.Truncate(1)))
			} else {
				vals = append(vals, "chmod="+errClass(f.Chmod(0o600)))
			}
			vals = append(vals, "close="+errClass(f.Close()))
		}
	case "Remove":
		err = c.Remove(p)
	case "RemoveDirectory":
		err = c.RemoveDirectory(p)
	case "RemoveAll":
		err = c.RemoveAll(p)
	case "Rename":
		err = c.Rename(p, q)
	case "PosixRename":
		err = c.PosixRename(p, q)
	case "Link":
		err = c.Link(p, q)
	case "Symlink":
		err = c.Symlink(p, q)
	case "ReadLink":
		var t string
		t, err = c.ReadLink(p)
		if err == nil {
			vals = append(vals, c05Unroot(t, root))
		}
	case "Stat", "Lstat":
		var fi os.FileInfo
		if op.Name == "Stat" {
			fi, err = c.Stat(p)
		} else {
			fi, err = c.Lstat(p)
		}
		if err == nil {
			vals = append(vals, c05Info(fi))
		}
	case "Chmod":
		err = c.Chmod(p, os.FileMode(op.N))
	case "Chtimes":
		err = c.Chtimes(p, time.Unix(c05TchA, 0), time.Unix(c05TchM, 0))
	case "Truncate":
		err = c.Truncate(p, op.N)
	case "ReadDir":
		var fis []os.FileInfo
		fis, err = c.ReadDir(p)
		if err == nil {
			vals = c05Infos(fis)
		}
	case "Glob":
		var m []string
		m, err = c.Glob(p)
		for _, x := range m {
			vals = append(vals, c05Unroot(x, root))
		}
		sort.Strings(vals)
	case "Walk":
		vals = c05Walk(c.Walk(p), root)
	case "RealPath":
		var t string
		t, err = c.RealPath(p)
		if err == nil {
			vals = append(vals, c05Unroot(t, root))
		}
	case "StatVFS":
		var v *StatVFS
		v, err = c.StatVFS(p)
		if err == nil {
			vals = append(vals, c05VFS(v.Bsize, v.Frsize, v.Blocks, v.Files, v.Flag, v.Namemax))
		}
	default:
		panic("c05: unknown operation " + op.Name)
	}
	return c05Out{Class: errClass(err), Vals: vals}
}

// c05RunOS applies the corresponding package os call(s); the process cwd is the tree root. Where the
// package documentation states a difference, the documented behaviour is what is returned.
func c05RunOS(op c05Op, root string) c05Out {
	p, q := c05Expand(op.P, root), c05Expand(op.Q, root)
	var err error
	var vals []string
	switch op.Name {
	case "Mkdir":
		err = os.Mkdir(p, 0o777) // before umask (022, pinned)
	case "MkdirAll":
		err = os.MkdirAll(p, 0o777)
	case "Create", "OpenFile":
		var f *os.File
		if op.Name == "Create" {
			f, err = os.Create(p)
		} else {
			f, err = os.OpenFile(p, int(op.N), 0o666)
		}
		if err == nil {
			vals = append(vals, "close="+errClass(f.Close()))
		}
	case "HTruncate", "HChmod":
		var f *os.File
		if f, err = os.OpenFile(p, os.O_RDWR, 0); err == nil {
			vals = append(vals, "rename="+errClass(os.Rename(p, q)))
			if op.Name == "HTruncate" {
				vals = append(vals, "truncate="+errClass(f.Truncate(1)))
			} else {
				vals = append(vals, "chmod="+errClass(f.Chmod(0o600)))
			}
			vals = append(vals, "close="+errClass(f.Close()))
		}
	case "Remove", "RemoveDirectory":
		// REMOVE and RMDIR both map onto os.Remove in the server (DESIGN.md §5, observations)
		err = os.Remove(p)
	case "RemoveAll":
		// documented difference: "An error will be returned if no file or directory with the
		// specified path exists" (os.RemoveAll returns nil)
		if _, lerr := os.Lstat(p); lerr != nil {
			err = lerr
		} else if rerr := os.RemoveAll(p); rerr != nil {
			// os.RemoveAll reports whichever error its traversal meets first; go1.25.0 even returns
			// its internal errSymlink value (whose Error method panics) instead of the EACCES that
			// made the unlink of a symbolic link fail. When the removal fails, only the fact is
			// compared, not the category (and Error() is never called on it).
			return c05Out{Class: c05AnyFailure}
		}
	case "Rename", "PosixRename":
		err = os.Rename(p, q)
	case "Link":
		err = os.Link(p, q)
	case "Symlink":
		err = os.Symlink(p, q)
	case "ReadLink":
		var t string
		t, err = os.Readlink(p)
		if err == nil {
			vals = append(vals, c05Unroot(t, root))
		}
	case "Stat", "Lstat":
		var fi os.FileInfo
		if op.Name == "Stat" {
			fi, err = os.Stat(p)
		} else {
			fi, err = os.Lstat(p)
		}
		if err == nil {
			vals = append(vals, c05Info(fi))
		}
	case "Chmod":
		err = os.Chmod(p, os.FileMode(op.N))
	case "Chtimes":
		err = os.Chtimes(p, time.Unix(c05TchA, 0), time.Unix(c05TchM, 0))
	case "Truncate":
		err = os.Truncate(p, op.N)
	case "ReadDir":
		var des []os.DirEntry
		des, err = os.ReadDir(p)
		if err == nil {
			var fis []os.FileInfo
			for _, de := range des {
				fi, ierr := de.Info()
				if ierr != nil {
					err = ierr
					break
				}
				fis = append(fis, fi)
			}
			vals = c05Infos(fis)
		}
	case "Glob":
		var m []string
		m, err = filepath.Glob(p)
		for _, x := range m {
			vals = append(vals, c05Unroot(x, root))
		}
		sort.Strings(vals)
	case "Walk":
		// Client.Walk is kr/fs's Walker over the Client; the reference is the same Walker over package os
		vals = c05Walk(krfs.Walk(p), root)
	case "RealPath":
		// documented: canonicalises the name to an absolute path ("..", relative names); it does not
		// resolve symbolic links and never touches the file system => filepath.Abs + Clean
		var t string
		t, err = filepath.Abs(p)
		if err == nil {
			vals = append(vals, c05Unroot(filepath.Clean(t), root))
		}
	case "StatVFS":
		var st syscall.Statfs_t
		err = syscall.Statfs(p, &st)
		if err == nil {
			vals = append(vals, c05VFS(uint64(st.Bsize), uint64(st.Frsize), st.Blocks, st.Files, uint64(st.Flags), uint64(st.Namelen)))
		}
	default:
		panic("c05: unknown operation " + op.Name)
	}
	return c05Out{Class: errClass(err), Vals: vals}
}

// ---------------------------------------------------------------------------------------------
// argument shapes (for violation keys): what the path names in the pre-state

func c05PathShape(root, p string) string {
	p = c05Expand(p, root)
	if !filepath.IsAbs(p) {
		p = filepath.Join(root, p)
	}
	pre := ""
	if dir := filepath.Dir(p); dir != root && len(dir) > len(root) {
		if fi, err := os.Lstat(dir); err == nil && fi.Mode()&os.ModeSymlink != 0 {
			pre = "via-symlink/"
		}
	}
	fi, err := os.Lstat(p)
	if err != nil {
		if errClass(err) == "permission" {
			return pre + "no-access"
		}
		pfi, perr := os.Stat(filepath.Dir(p))
		switch {
		case perr != nil && errClass(perr) == "not-exist":
			return pre + "missing-parent"
		case perr != nil || !pfi.IsDir():
			return pre + "under-nondir"
		}
		return pre + "absent"
	}
	switch {
	case fi.IsDir():
		if p == root {
			return "root"
		}
		des, rerr := os.ReadDir(p)
		if rerr != nil {
			return pre + "unreadable-dir"
		}
		if len(des) > 0 {
			return pre + "nonempty-dir"
		}
		return pre + "dir"
	case fi.Mode()&os.ModeSymlink != 0:
		ti, terr := os.Stat(p)
		switch {
		case terr != nil && errClass(terr) == "permission":
			return pre + "symlink-no-access"
		case terr != nil:
			return pre + "dangling-symlink"
		case ti.IsDir():
			return pre + "symlink-to-dir"
		}
		return pre + "symlink-to-file"
	}
	return pre + "file"
}

func c05Form(p string) string {
	if strings.HasPrefix(p, "$ROOT") || strings.HasPrefix(p, "/") {
		return "abs"
	}
	return "rel"
}

// c05Coarse drops the details that do not separate defects (reached through a symlinked parent,
// directory empty or not); they stay in the message.
func c05Coarse(shape string) string {
	shape = strings.TrimPrefix(shape, "via-symlink/")
	if shape == "nonempty-dir" {
		return "dir"
	}
	return shape
}

// c05Shape describes the arguments of op in the tree at root (which holds the pre-state): the coarse
// shape that goes into the violation key, the path form(s), and the detailed shape for the message.
func c05Shape(root string, op c05Op) (coarse, form, fine string) {
	switch op.Name {
	case "Symlink":
		t := "relative-target"
		if c05Form(op.P) == "abs" {
			t = "absolute-target"
		}
		fine = c05PathShape(root, op.Q)
		return t + "," + c05Coarse(fine), c05Form(op.Q), t + "," + fine
	case "Rename", "PosixRename", "Link":
		f1, f2 := c05PathShape(root, op.P), c05PathShape(root, op.Q)
		return c05Coarse(f1) + "," + c05Coarse(f2), c05Form(op.P) + "," + c05Form(op.Q), f1 + "," + f2
	case "Glob":
		return "pattern(" + op.P + ")", c05Form(op.P), ""
	case "RealPath":
		return "path(" + op.P + ")", c05Form(op.P), ""
	}
	fine = c05PathShape(root, op.P)
	return c05Coarse(fine), c05Form(op.P), fine
}

// ---------------------------------------------------------------------------------------------
// environment: the tree pair, the session

type c05Env struct {
	base, A, B, N string
	sess          *bSession
	cl            *Client
	uses          int
	withMtime     bool
}

func c05NewEnv(base string, withMtime bool) *c05Env {
	// both roots have the same base name and length: Stat(root).Name() is part of what is compared
	e := &c05Env{base: base, A: filepath.Join(base, "A", "root"), B: filepath.Join(base, "B", "root"), N: filepath.Join(base, "N", "root"), withMtime: withMtime}
	for _, d := range []string{e.A, e.B, e.N} {
		if err := os.MkdirAll(d, 0o755); err != nil {
			panic(err)
		}
	}
	syscall.Umask(0o022)
	if err := os.Chdir(e.N); err != nil {
		panic(err)
	}
	return e
}

func (e *c05Env) client() *Client {
	if e.cl != nil && e.uses >= 64 {
		e.close()
	}
	if e.cl == nil {
		e.sess = bServeOS(WithServerWorkingDirectory(e.A))
		cl, err := e.sess.Client()
		if err != nil {
			panic(fmt.Sprintf("c05: cannot start a client: %v", err))
		}
		e.cl = cl
		e.uses = 0
	}
	e.uses++
	return e.cl
}

func (e *c05Env) close() {
	if e.cl != nil {
		e.sess.Stop(e.cl)
		e.cl, e.sess = nil, nil
	}
}

// stepOS rebuilds st in B and applies op with package os; returns the outcome and the successor.
func (e *c05Env) stepOS(st c05State, op c05Op) (c05Out, c05State) {
	if err := c05Build(e.B, st); err != nil {
		panic(fmt.Sprintf("c05: cannot build the reference tree: %v (state %v)", err, st))
	}
	if err := os.Chdir(e.B); err != nil {
		panic(err)
	}
	out := c05RunOS(op, e.B)
	os.Chdir(e.N)
	return out, c05Snap(e.B)
}

const c05AnyFailure = "failed"

type c05Diff struct {
	Kind string // "errclass:X->Y" (package os X, Client Y), "value", "tree"
	Msg  string
}

// step runs one differential transition.
func (e *c05Env) step(st c05State, op c05Op) (diffs []c05Diff, outA, outB c05Out, snapA, snapB c05State) {
	if err := c05Build(e.A, st); err != nil {
		panic(fmt.Sprintf("c05: cannot build the served tree: %v (state %v)", err, st))
	}
	outB, snapB = e.stepOS(st, op)
	cl := e.client()
	outA = c05RunSFTP(cl, op, e.A) // cwd is N: neither tree
	snapA = c05Snap(e.A)
	if outB.Class == c05AnyFailure && outA.Class != "ok" {
		// any failure category matches
	} else if outA.Class != outB.Class {
		diffs = append(diffs, c05Diff{Kind: fmt.Sprintf("errclass:%s:%s->%s", op.Name, outB.Class, outA.Class),
			Msg: fmt.Sprintf("outcome category: package os %q, Client %q", outB.Class, outA.Class)})
	} else if a, b := strings.Join(outA.Vals, "\n"), strings.Join(outB.Vals, "\n"); a != b {
		diffs = append(diffs, c05Diff{Kind: "value:" + op.Name, Msg: fmt.Sprintf("returned values differ:\n package os: %q\n Client:     %q", outB.Vals, outA.Vals)})
	}
	la, lb := snapA.lines(false, true), snapB.lines(false, true)
	if a, b := strings.Join(la, "\n"), strings.Join(lb, "\n"); a != b {
		diffs = append(diffs, c05Diff{Kind: "tree:" + op.Name, Msg: fmt.Sprintf("trees differ after the step:\n package os: %q\n Client:     %q", lb, la)})
	}
	return
}

// ---------------------------------------------------------------------------------------------
// seeds

func c05Seeds() []c05State {
	f := func(p, data string, mode uint32, i int64) c05Entry {
		return c05Entry{Path: p, Kind: "f", Mode: mode, Data: data, Mtime: c05T0 + i, Group: -1}
	}
	d := func(p string, mode uint32, i int64) c05Entry {
		return c05Entry{Path: p, Kind: "d", Mode: mode, Mtime: c05T0 + i, Group: -1}
	}
	l := func(p, target string, i int64) c05Entry {
		return c05Entry{Path: p, Kind: "l", Mode: 0o777, Data: target, Mtime: c05T0 + i, Group: -1}
	}
	return []c05State{
		{}, // the empty tree
		{d("a", 0o755, 1), f("a/x", "xx", 0o644, 2), f("b", "bbbb", 0o644, 3)},                                // non-empty directory, file
		{d("a", 0o755, 1), f("a/x", "xxxxx", 0o600, 2), l("b", "a", 3), f("c", "cc", 0o644, 4)},               // symlink to a directory
		{f("a", "aaaa", 0o644, 1), l("b", "a", 2), l("c", "nope", 3)},                                         // symlink to a sibling file, dangling symlink
		{d("a", 0o755, 1), d("a/x", 0o755, 2), d("b", 0o750, 3), l("b/x", "../a", 4), l("c", "$ROOT/a/x", 5)}, // nested directories, symlinks inside, absolute target
		{d("a", 0o755, 1), {Path: "a/x", Kind: "s", Mode: 0o644, Mtime: c05T0 + 2, Group: -1}, {Path: "b", Kind: "s", Mode: 0o600, Mtime: c05T0 + 3, Group: -1},
			{Path: "c", Kind: "c", Mode: 0o666, Mtime: c05T0 + 4, Group: -1}}, // other file kinds: sockets (inside a directory and at the top), a character device
		// c -> a/x, a directory whose parent is not the link's parent: "c/../x" is a/x (non-empty), whereas the lexically cleaned "x" is another directory
		{d("a", 0o755, 1), d("a/x", 0o755, 2), f("a/x/y", "yy", 0o644, 3), l("c", "a/x", 4), d("x", 0o755, 5), f("x/y", "top", 0o644, 6)},
	}
}

// ---------------------------------------------------------------------------------------------
// the part

type c05Node struct {
	st     c05State
	parent int
	via    string
	depth  int
}

func c05History(nodes []c05Node, i int) []string {
	var h []string
	for i >= 0 && nodes[i].parent >= 0 {
		h = append([]string{nodes[i].via}, h...)
		i = nodes[i].parent
	}
	seed := 0
	if i >= 0 {
		seed = -nodes[i].parent - 1
	}
	return append([]string{fmt.Sprintf("seed#%d", seed)}, h...)
}

type c05Replay struct {
	State   c05State `json:"state"`
	Op      c05Op    `json:"op"`
	History []string `json:"history,omitempty"`
	Uid     int      `json:"uid,omitempty"`
}

// c05Judge runs one transition and records what it finds. Returns the successor (reference side).
func c05Judge(env *c05Env, res *reg.Result, st c05State, op c05Op, history []string, uid int) c05State {
	diffs, outA, outB, _, snapB := env.step(st, op)
	changed := "same"
	if snapB.key(true) != st.key(true) {
		changed = "changed"
	}
	res.Case(op.Name + ":" + c05Form(op.P) + ":" + outB.Class + ":" + changed)
	res.Outcome(op.Name + ":" + outB.Class)
	if len(res.Samples) < 4 {
		res.Sample(map[string]any{"state": st.lines(true, true), "op": op.String(), "os": outB, "sftp": outA})
	}
	if len(diffs) > 0 {
		// classify the arguments in the pre-state (rebuilt in B)
		if err := c05Build(env.B, st); err != nil {
			panic(err)
		}
		coarse, form, fine := c05Shape(env.B, op)
		for _, d := range diffs {
			// what differs (for outcome categories: reference->observed) : what the arguments name in the pre-state : path form
			key := fmt.Sprintf("c05:%s:%s:%s", d.Kind, coarse, form)
			if strings.HasPrefix(d.Kind, "errclass:") && op.Q != "" {
				// two-path operations: the pair of categories names the defect, the shapes stay in the message
				key = fmt.Sprintf("c05:%s:%s", d.Kind, form)
			}
			if c05RelDotDot(op) {
				// a working-directory-relative path with a ".." element: the server joins it to its working directory lexically
				// (known finding F3); such cases get a key of their own so that nothing else hides behind it
				key = "c05:rel-dotdot:" + strings.TrimPrefix(key, "c05:")
			}
			msg := fmt.Sprintf("%s [arguments: %s; uid %d] on pre-state %q (history %v):\n%s", op, fine, uid, st.lines(true, true), history, d.Msg)
			res.Violate("C05", key, msg, c05Replay{State: st, Op: op, History: history, Uid: uid}, history)
		}
	}
	return snapB
}

// c05RelDotDot: a path argument that the server resolves is relative and contains a ".." element.
func c05RelDotDot(op c05Op) bool {
	has := func(p string) bool {
		return p != "" && !strings.HasPrefix(p, "$ROOT") && !strings.HasPrefix(p, "/") && (strings.Contains(p, "/../") || strings.HasPrefix(p, "../") || strings.HasSuffix(p, "/.."))
	}
	if op.Name == "Symlink" {
		return has(op.Q) // P is the link text, stored as given
	}
	return has(op.P) || has(op.Q)
}

func c05Part(c *reg.Ctx) *reg.Result {
	res := reg.NewResult(c.Part)
	if uid := c.ArgInt("uid", 0); uid != 0 && os.Getuid() == 0 {
		return c05AsUser(c, res, uid)
	}
	uid := os.Getuid()
	withMtime := c.Arg("mtime", "1") == "1"
	depth := c.ArgInt("depth", 2)
	var base string
	if uid == 0 {
		base = scratchDir()
	} else {
		// unprivileged child: work below the directory the privileged parent prepared (it is inside the
		// parent's scratch directory, so the parent removes whatever modes the trees end up with)
		cwd, err := os.Getwd()
		if err != nil {
			panic(err)
		}
		base = filepath.Join(cwd, fmt.Sprintf("trees-%d", os.Getpid()))
		if err := os.Mkdir(base, 0o755); err != nil {
			panic(err)
		}
	}
	env := c05NewEnv(base, withMtime)
	defer func() {
		env.close()
		os.Chdir("/")
		c05ForceRemove(base)
	}()
	alphabet := c05Alphabet()
	res.Notes["alphabet"] = len(alphabet)
	res.Notes["depth_target"] = depth
	res.Notes["uid"] = uid

	if c.Replay != nil {
		var r c05Replay
		if err := json.Unmarshal(c.Replay, &r); err != nil {
			res.EngineError = "bad replay record: " + err.Error()
			return res
		}
		c05Judge(env, res, r.State, r.Op, r.History, uid)
		for _, v := range res.Violations {
			fmt.Printf("VIOLATION %s\n%s\n", v.Key, v.Msg)
		}
		return res
	}

	seeds := c05Seeds()
	if uid != 0 {
		seeds = c05SeedsUnprivileged()
	}
	if n := c.ArgInt("seeds", 0); n > 0 && n < len(seeds) {
		seeds = seeds[:n]
	}
	res.Notes["seeds"] = len(seeds)
	seen := map[string]int{}
	var nodes []c05Node
	var frontier []int
	for i, s := range seeds {
		s = s.normalised(withMtime)
		k := s.key(withMtime)
		if _, dup := seen[k]; dup {
			continue
		}
		seen[k] = len(nodes)
		frontier = append(frontier, len(nodes))
		nodes = append(nodes, c05Node{st: s, parent: -i - 1})
	}
	var i int64
	completed := 0
	perLevel := []int{}
levels:
	for d := 0; d < depth; d++ {
		last := d == depth-1
		perLevel = append(perLevel, len(frontier))
		var next []int
		for _, si := range frontier {
			if c.Mine(int64(si)) {
				res.States++
			}
			for _, op := range alphabet {
				i++
				mine := c.Mine(i)
				if !mine && (last || op.readOnly()) {
					continue
				}
				if c.Expired() {
					res.Exhaustive = false
					break levels
				}
				st := nodes[si].st
				var succ c05State
				if mine {
					res.Transitions++
					succ = c05Judge(env, res, st, op, append(c05History(nodes, si), op.String()), uid)
				} else {
					_, succ = env.stepOS(st, op)
				}
				if last {
					continue
				}
				succ = succ.normalised(withMtime)
				k := succ.key(withMtime)
				if _, ok := seen[k]; !ok {
					seen[k] = len(nodes)
					next = append(next, len(nodes))
					nodes = append(nodes, c05Node{st: succ, parent: si, via: op.String(), depth: d + 1})
				}
			}
		}
		completed = d + 1
		frontier = next
	}
	res.Notes["depth_completed"] = completed
	res.Notes["states_per_level"] = perLevel
	res.Bound = fmt.Sprintf("all histories of length <= %d over %d operation instances from %d seed trees (states per level %v)", completed, len(alphabet), len(seeds), perLevel)
	if !res.Exhaustive {
		res.Bound = fmt.Sprintf("deadline: depth %d of %d completed; ", completed, depth) + res.Bound
	}
	return res
}

// ---------------------------------------------------------------------------------------------
// unprivileged pass: the whole search is re-run in a child process with uid/gid 65534 so that mode
// bits are enforced and EACCES outcomes exist (root bypasses them).

func c05SeedsUnprivileged() []c05State {
	f := func(p, data string, mode uint32, i int64) c05Entry {
		return c05Entry{Path: p, Kind: "f", Mode: mode, Data: data, Mtime: c05T0 + i, Group: -1}
	}
	d := func(p string, mode uint32, i int64) c05Entry {
		return c05Entry{Path: p, Kind: "d", Mode: mode, Mtime: c05T0 + i, Group: -1}
	}
	l := func(p, target string, i int64) c05Entry {
		return c05Entry{Path: p, Kind: "l", Mode: 0o777, Data: target, Mtime: c05T0 + i, Group: -1}
	}
	return []c05State{
		{d("a", 0o555, 1), f("a/x", "xx", 0o644, 2), f("b", "bbbb", 0o000, 3)},                  // read-only directory, unreadable file
		{d("a", 0o000, 1), f("a/x", "xx", 0o644, 2), d("b", 0o755, 3), f("b/x", "y", 0o444, 4)}, // inaccessible directory, read-only file
		{d("a", 0o111, 1), f("a/x", "xx", 0o200, 2), l("b", "a", 3), l("c", "a/x", 4)},          // search-only directory reached through symlinks
	}
}

func c05AsUser(c *reg.Ctx, res *reg.Result, uid int) *reg.Result {
	dir := scratchDir()
	os.Chmod(filepath.Dir(dir), 0o755)
	os.Chmod(dir, 0o777)
	exe, err := os.Executable()
	if err != nil {
		res.EngineError = err.Error()
		return res
	}
	bin := filepath.Join(dir, "vworker")
	data, err := os.ReadFile(exe)
	if err == nil {
		err = os.WriteFile(bin, data, 0o755)
	}
	if err != nil {
		res.EngineError = "copying the worker: " + err.Error()
		return res
	}
	os.Chmod(bin, 0o755)
	var kv []string
	for k, v := range c.Args {
		kv = append(kv, k+"="+v)
	}
	sort.Strings(kv)
	budget := 0
	if !c.Deadline.IsZero() {
		budget = int(time.Until(c.Deadline).Seconds())
		if budget < 1 {
			budget = 1
		}
	}
	outf := filepath.Join(dir, "res.json")
	args := []string{"run", "--prop", c.Property, "--part", c.Part, "--tier", c.Tier, "--shard", fmt.Sprint(c.Shard), "--nshards", fmt.Sprint(c.NShards),
		"--budget", fmt.Sprint(budget), "--args", strings.Join(kv, ","), "--out", outf}
	if c.Replay != nil {
		rf := filepath.Join(dir, "replay.json")
		os.WriteFile(rf, c.Replay, 0o644)
		args = append(args, "--replay", rf)
	}
	cmd := exec.Command(bin, args...)
	cmd.Dir = dir
	cmd.Env = append(os.Environ(), "TMPDIR="+dir)
	cmd.SysProcAttr = &syscall.SysProcAttr{Credential: &syscall.Credential{Uid: uint32(uid), Gid: uint32(uid)}}
	out, err := cmd.CombinedOutput()
	if c.Replay != nil {
		os.Stdout.Write(out)
		if err != nil {
			res.Violate("C05", "c05:replay", "the replayed case fails as uid "+fmt.Sprint(uid), nil, nil)
		}
		return res
	}
	b, rerr := os.ReadFile(outf)
	var r reg.Result
	if rerr == nil {
		rerr = json.Unmarshal(b, &r)
	}
	if rerr != nil || err != nil {
		tail := string(out)
		if len(tail) > 3000 {
			tail = tail[len(tail)-3000:]
		}
		res.EngineError = fmt.Sprintf("unprivileged child: %v %v\n%s", err, rerr, tail)
		return res
	}
	if r.Outcomes == nil {
		r.Outcomes = map[string]int64{}
	}
	if r.Nontrivial == nil {
		r.Nontrivial = map[string]bool{}
	}
	if r.Notes == nil {
		r.Notes = map[string]any{}
	}
	return &r
}

func init() {
	reg.Part("C05/bfs", c05Part)
	reg.Prop(&reg.Property{
		ID:    "C05",
		Level: "model_checking",
		Rule: "breadth-first over all operation histories up to the stated depth from every seed tree; a state is a canonical tree snapshot (path, kind, mode, content, link text, " +
			"hard-link group, mtime second) and is expanded once; every (state, operation instance) pair is one transition, executed on a real Client+os-backed Server and on package os, " +
			"both on trees rebuilt from the snapshot; distinct = distinct (operation, path form, reference outcome category, tree changed?) combinations",
		Assumptions: []string{
			"linux, tmpfs scratch trees, umask 022; Client and Server are functions of the served tree only (this is what makes merging states reached by different histories sound)",
			"successor states are those package os produces; states only the Client/Server side would produce are reported as violations, not explored further",
			"documented differences encoded in the reference: RemoveAll on a missing path is an error; RealPath = filepath.Abs+Clean (no symlink resolution); StatVFS compared on bsize, frsize, blocks, files, flag, namemax; " +
				"O_APPEND opens are compared on what the open does to the tree only; RemoveDirectory corresponds to os.Remove; Walk corresponds to kr/fs.Walk over package os; Glob to filepath.Glob; ReadDir/Glob/Walk results are compared as sets",
			"directories that are readable but not searchable are not in the universe (no seed, no Chmod mode produces one): SFTP READDIR returns attributes with every name, package os lists names without them; " +
				"nor are writable directories that cannot be read (os.RemoveAll must open the parent directory and fails where a plain recursive removal succeeds)",
			"RemoveAll: when package os fails inside its traversal only the fact of failure is compared, not the category (os.RemoveAll reports whichever error its traversal meets first; go1.25.0 returns its internal errSymlink value rather than the EACCES that made unlinking a symbolic link fail)",
			"mtimes written by the clock during a step are compared as NOW; atime is compared only as 'equals the value Chtimes set'; directory sizes are not compared",
		},
		Jobs: func(tier string) []reg.Job {
			job := func(label, depth string, uid bool, shards, budget int, optional bool) reg.Job {
				a := map[string]string{"depth": depth}
				if uid {
					a["uid"] = "65534"
				}
				return reg.Job{Part: "C05/bfs", Build: "plain", Args: a, Shards: shards, BudgetS: budget, Procs: 1, Label: label, Optional: optional}
			}
			if tier == "thorough" {
				return []reg.Job{
					job("bfs depth 4 as root", "4", false, 16, 300, false),
					job("bfs depth 4 as uid 65534", "4", true, 16, 300, false),
					job("bfs depth 5 as root (optional, deadline 400 s)", "5", false, 16, 400, true),
				}
			}
			return []reg.Job{
				job("bfs depth 3 as root", "3", false, 16, 70, false),
				job("bfs depth 2 as uid 65534", "2", true, 8, 60, false),
			}
		},
	})
}
