//go:build verif

package sftp

// C03 (each call gets its own reply) and C04 (connection loss) on concurrent single-packet calls.

import (
	"context"
	"fmt"
	"io"
	"net"
	"os"
	"strings"

	"verif/explore"
	"verif/reg"
	"verif/vsched"
)

// cop is one client operation of a caller thread.
type cop struct {
	kind string // Stat Lstat ReadLink RealPath Mkdir ReadAt WriteAt
	path string
	off  int
	data string
}

func (o cop) String() string {
	switch o.kind {
	case "ReadAt":
		return fmt.Sprintf("ReadAt(%d,2)", o.off)
	case "ReadAt6":
		return fmt.Sprintf("ReadAt(%d,6)", o.off)
	case "WriteAt":
		return fmt.Sprintf("WriteAt(%d,%q)", o.off, o.data)
	}
	return o.kind + "(" + o.path + ")"
}

const callsFile = "abcdefgh"

// callsCtx is the context of ReadDirCtx operations (one scenario at a time per process).
var callsCtx = context.Background()

// expected result of op against the peer's reference model (reads and writes use disjoint regions).
func (o cop) expected() string {
	switch o.kind {
	case "Stat":
		return fmt.Sprintf("size=%d", 1000+pathTag(o.path))
	case "Lstat":
		return fmt.Sprintf("size=%d", 2000+pathTag(o.path))
	case "ReadLink":
		return "link:" + o.path
	case "RealPath":
		return "/real" + o.path
	case "Mkdir":
		if strings.HasPrefix(o.path, "/deny") {
			return "err:permission"
		}
		return "ok"
	case "ReadDirCtx":
		return "*" // a listing or a context error: both are proper results
	case "ReadDir":
		return fmt.Sprintf("entries=%c", o.path[len(o.path)-1])
	case "ReadAt":
		return fmt.Sprintf("n=2 %q", callsFile[o.off:o.off+2])
	case "ReadAt6":
		return fmt.Sprintf("n=6 %q", callsFile[o.off:o.off+6])
	case "WriteAt":
		return fmt.Sprintf("n=%d", len(o.data))
	case "Chmod":
		return "ok"
	}
	return "?"
}

func (o cop) do(c *Client, f *File) (string, error) {
	switch o.kind {
	case "Stat":
		fi, err := c.Stat(o.path)
		if err != nil {
			return "", err
		}
		return fmt.Sprintf("size=%d", fi.Size()), nil
	case "Lstat":
		fi, err := c.Lstat(o.path)
		if err != nil {
			return "", err
		}
		return fmt.Sprintf("size=%d", fi.Size()), nil
	case "ReadLink":
		return c.ReadLink(o.path)
	case "RealPath":
		return c.RealPath(o.path)
	case "Mkdir":
		err := c.Mkdir(o.path)
		if err == nil {
			return "ok", nil
		}
		if errClass(err) == "permission" {
			return "err:permission", nil
		}
		return "", err
	case "ReadAt":
		b := make([]byte, 2)
		n, err := f.ReadAt(b, int64(o.off))
		if err != nil && !(err == io.EOF && n == 2) {
			return "", err
		}
		return fmt.Sprintf("n=%d %q", n, b[:n]), nil
	case "ReadDir": // a listing that spans several batches (the peer sends one entry per READDIR for /dir<k>)
		es, err := c.ReadDir(o.path)
		if err != nil {
			return "", err
		}
		return fmt.Sprintf("entries=%d", len(es)), nil
	case "ReadDirCtx": // a listing under a context that another thread cancels at some point
		es, err := c.ReadDirContext(callsCtx, o.path)
		if err != nil {
			return "ctx-or-error", nil
		}
		return fmt.Sprintf("entries=%d", len(es)), nil
	case "ReadAt6": // three chunks: the concurrent multi-packet path shares ids and channels with the other callers
		b := make([]byte, 6)
		n, err := f.ReadAt(b, int64(o.off))
		if err != nil {
			return "", err
		}
		return fmt.Sprintf("n=%d %q", n, b[:n]), nil
	case "WriteAt":
		n, err := f.WriteAt([]byte(o.data), int64(o.off))
		if err != nil {
			return "", err
		}
		return fmt.Sprintf("n=%d", n), nil
	case "Chmod": // a SETSTAT whose packet size is chosen through the length of the path
		if err := c.Chmod(o.path, 0o640); err != nil {
			return "", err
		}
		return "ok", nil
	}
	panic("unknown op " + o.kind)
}

// reqKey identifies the request an op puts on the wire.
func (o cop) matches(r preq) bool {
	switch o.kind {
	case "Stat":
		return r.typ == sshFxpStat && r.path == o.path
	case "Lstat":
		return r.typ == sshFxpLstat && r.path == o.path
	case "ReadLink":
		return r.typ == sshFxpReadlink && r.path == o.path
	case "RealPath":
		return r.typ == sshFxpRealpath && r.path == o.path
	case "Mkdir":
		return r.typ == sshFxpMkdir && r.path == o.path
	case "ReadDirCtx", "ReadDir":
		return r.typ == sshFxpOpendir && r.path == o.path
	case "ReadAt":
		return r.typ == sshFxpRead && int(r.off) == o.off
	case "ReadAt6":
		return r.typ == sshFxpRead && int(r.off) == o.off+4
	case "WriteAt":
		return r.typ == sshFxpWrite && int(r.off) == o.off
	case "Chmod":
		return r.typ == sshFxpSetstat && r.path == o.path
	}
	return false
}

type callsSpec struct {
	ctxCancel bool // a harness thread cancels callsCtx at a point the explorer chooses
	status    bool // the client has a remote-status function (NewClient over ssh); the status arrives only after every caller has returned
	callers   [][]cop
	permute   bool
	cut       int // -1 none
	cutErr    bool
	cutTmo    bool // the stream fails with a timeout-class error (wraps os.ErrDeadlineExceeded) that persists
	sink      bool // the client->server half keeps accepting (and dropping) bytes after the package closed it
	fw        int
	fwEOF     bool   // the failing writes report io.EOF (what a closed ssh channel does)
	after     bool   // one more Stat after all callers returned
	sync1     bool   // rendezvous c2s pipe
	handsh    bool   // the cut may fall into the handshake
	startID   uint32 // != 0: value of the client's request-id counter when the callers start (ids wrap around at 2^32)
	maxPacket int    // client packet size (default 2)
}

func (s callsSpec) String() string {
	var cs []string
	for _, c := range s.callers {
		var os []string
		for _, o := range c {
			os = append(os, o.String())
		}
		cs = append(cs, strings.Join(os, ";"))
	}
	x := ""
	if s.cutTmo {
		x += " timeout-error"
	}
	if s.sink {
		x += " writer-accepts-after-close"
	}
	if s.status {
		x += " remote-status-function"
	}
	return fmt.Sprintf("callers[%s] cut=%d cuterr=%v fw=%d fwEOF=%v%s", strings.Join(cs, " | "), s.cut, s.cutErr, s.fw, s.fwEOF, x)
}

type callRes struct {
	val string
	err error
}

func callsScenario(s callsSpec, prop string) explore.Scenario {
	return func() (func(), func(*vsched.Exec) explore.Verdict) {
		results := make([][]callRes, len(s.callers))
		var env *cliEnv
		var afterRes callRes
		var closeErr, waitErr error
		var replyEnds map[uint32]int // request id -> end offset of its reply in the s2c stream
		body := func() {
			env = newCliEnv(func(e *cliEnv) {
				e.peer.Permute = s.permute
				f := &pfile{data: []byte(callsFile)}
				e.peer.files["/f"] = f
				e.peer.handles["h1"] = f
				e.peer.hpath["h1"] = "/f"
				if s.cut >= 0 {
					e.s2c.CutAfter = s.cut
					if s.cutErr {
						e.s2c.CutErr = io.ErrUnexpectedEOF
					}
					if s.cutTmo {
						e.s2c.CutErr = &net.OpError{Op: "read", Net: "pipe", Err: os.ErrDeadlineExceeded}
					}
				}
				e.c2s.FailWrite = s.fw
				e.c2s.SinkClosed = s.sink
				if s.fwEOF {
					e.c2s.FailErr = io.EOF
				}
				if s.status {
					e.status = &cliStatus{err: fmt.Errorf("remote command exited with status 1")}
				}
				replyEnds = map[uint32]int{}
				e.peer.Hook = func(p *vpeer, r preq) []byte {
					b := p.answer(r)
					replyEnds[r.id] = len(p.out.Total) + len(b)
					return b
				}
			}, MaxPacketUnchecked(max(2, s.maxPacket)), MaxConcurrentRequestsPerFile(2))
			if env.err != nil {
				return
			}
			c := env.c
			if s.startID != 0 {
				c.nextid = s.startID // white box: a long-lived client close to the wrap-around of its 32-bit id counter
			}
			f := &File{c: c, path: "/f", handle: "h1"}
			var g vgroup
			if s.ctxCancel {
				var cancel context.CancelFunc
				callsCtx, cancel = context.WithCancel(context.Background())
				g.Go("canceller", func() {
					vsched.Env("ctx.cancel", &callsCtx, false, nil)
					cancel()
				})
			}
			for i := range s.callers {
				i := i
				results[i] = make([]callRes, len(s.callers[i]))
				g.Go(fmt.Sprintf("caller%d", i), func() {
					for j, o := range s.callers[i] {
						v, err := o.do(c, f)
						results[i][j] = callRes{v, err}
					}
				})
			}
			g.Wait()
			if s.after {
				v, err := cop{kind: "Stat", path: "/after"}.do(c, f)
				afterRes = callRes{v, err}
			}
			if env.status != nil {
				// the remote command's exit status is the last thing to arrive: nothing before this point may have waited for it
				vsched.Env("remote.status-arrives", env.status, false, nil)
				env.status.arrived = true
			}
			closeErr = c.Close()
			waitErr = c.Wait()
		}
		judge := func(e *vsched.Exec) explore.Verdict {
			v := explore.Verdict{}
			if e.Deadlock {
				v.Outcome = "DEADLOCK"
				return v
			}
			faulty := s.cut >= 0 || s.fw > 0
			if env.err != nil {
				v.Outcome = "newclient:" + env.err.Error()
				if !faulty {
					v.Bad, v.Key = "NewClientPipe failed: "+env.err.Error(), "calls-newclient"
				} else if !env.c2s.wclosed {
					v.Bad, v.Key = "NewClientPipe failed ("+env.err.Error()+") but did not close the writer", "calls-newclient-writer-open"
				}
				return v
			}
			var out []string
			fail := func(k, f string, a ...any) explore.Verdict {
				v.Bad = s.String() + ": " + fmt.Sprintf(f, a...) + "\n  results: " + strings.Join(out, " ") + "\n  wire: " + env.peer.wireString()
				v.Key = "calls-" + k
				return v
			}
			for i := range s.callers {
				for j, o := range s.callers[i] {
					r := results[i][j]
					if r.err != nil {
						out = append(out, fmt.Sprintf("%s=>ERR(%s)", o, errClassOrText(r.err)))
					} else {
						out = append(out, fmt.Sprintf("%s=>%s", o, r.val))
					}
				}
			}
			if s.after {
				out = append(out, fmt.Sprintf("after=>%v/%v", afterRes.val, afterRes.err != nil))
			}
			v.Outcome = strings.Join(out, " ") + " wire=[" + env.peer.wireString() + "]"
			v.Sample = map[string]any{"spec": s.String(), "results": out}
			if len(env.peer.Bad) > 0 {
				return fail("peer", "peer observed protocol violation: %v", env.peer.Bad)
			}
			if closeErr != nil {
				return fail("close", "Client.Close returned %v", closeErr)
			}
			check := func(o cop, r callRes) *explore.Verdict {
				if o.kind == "ReadDirCtx" {
					return nil // a listing, a context error or a connection error: all proper results of a call whose context is cancelled at some point
				}
				if o.kind == "ReadDir" {
					// a conversation of several requests: nil means the whole listing; an error needs a fault, and a
					// cut that came after the reply to the CLOSE of its handle is no excuse
					if r.err == nil {
						if r.val != o.expected() {
							x := fail("no-error:ReadDir", "%s returned %q with nil error, the directory has %s", o, r.val, o.expected())
							return &x
						}
						return nil
					}
					excused := s.fw > 0
					if s.cut >= 0 {
						excused = true
						for _, w := range env.peer.Wire {
							if w.typ == sshFxpClose && strings.HasPrefix(w.handle, "d") {
								if end, ok := replyEnds[w.id]; ok && end <= s.cut {
									excused = false
								}
							}
						}
					}
					if !excused {
						x := fail("lost-reply:ReadDir", "%s returned error %v although all its replies were received completely", o, r.err)
						return &x
					}
					return nil
				}
				complete := true
				if faulty {
					complete = false
					for _, w := range env.peer.Wire {
						if o.matches(w) {
							if end, ok := replyEnds[w.id]; ok && (s.cut < 0 || end <= s.cut) {
								complete = true
							}
						}
					}
				}
				if complete {
					if r.err != nil {
						x := fail("lost-reply:"+o.kind, "%s returned error %v although its reply was received completely", o, r.err)
						return &x
					}
					if r.val != o.expected() && o.expected() != "*" {
						x := fail("wrong-reply:"+o.kind, "%s returned %q, the server's answer to that request is %q (reply of another request?)", o, r.val, o.expected())
						return &x
					}
				} else if r.err == nil {
					x := fail("no-error:"+o.kind, "%s returned %q with nil error although its reply was never completely received", o, r.val)
					return &x
				}
				return nil
			}
			for i := range s.callers {
				for j, o := range s.callers[i] {
					if x := check(o, results[i][j]); x != nil {
						return *x
					}
				}
			}
			if s.after {
				if x := check(cop{kind: "Stat", path: "/after"}, afterRes); x != nil {
					return *x
				}
			}
			if faulty && s.cut >= 0 && waitErr == nil && s.cut < len(env.s2c.Total) {
				return fail("wait", "Client.Wait returned nil after the transport was cut")
			}
			// final content: writes landed where intended
			want := []byte(callsFile)
			if !faulty {
				for _, cs := range s.callers {
					for _, o := range cs {
						if o.kind == "WriteAt" {
							for len(want) < o.off+len(o.data) {
								want = append(want, 0)
							}
							copy(want[o.off:], o.data)
						}
					}
				}
				if got := string(env.peer.files["/f"].data); got != string(want) {
					return fail("content", "served file is %q, want %q", got, want)
				}
			}
			return v
		}
		return body, judge
	}
}

func errClassOrText(err error) string {
	c := errClass(err)
	if c == "other" {
		return err.Error()
	}
	return c
}

func c03Specs(set string) []callsSpec {
	stat := func(p string) cop { return cop{kind: "Stat", path: p} }
	lstat := func(p string) cop { return cop{kind: "Lstat", path: p} }
	rl := func(p string) cop { return cop{kind: "ReadLink", path: p} }
	rp := func(p string) cop { return cop{kind: "RealPath", path: p} }
	mk := func(p string) cop { return cop{kind: "Mkdir", path: p} }
	ra := func(off int) cop { return cop{kind: "ReadAt", off: off} }
	wa := func(off int, d string) cop { return cop{kind: "WriteAt", off: off, data: d} }
	switch set {
	case "2x2":
		return []callsSpec{
			{callers: [][]cop{{stat("/a"), ra(4)}, {lstat("/b"), wa(0, "XY")}}, permute: true, cut: -1},
			{callers: [][]cop{{wa(0, "PQ"), rp("/r")}, {wa(2, "RS"), mk("/deny/x")}}, permute: true, cut: -1},
			{callers: [][]cop{{rl("/l"), stat("/a")}, {stat("/c"), ra(6)}}, permute: true, cut: -1},
		}
	case "2x1":
		return []callsSpec{
			{callers: [][]cop{{stat("/a")}, {stat("/b")}}, permute: true, cut: -1},
			{callers: [][]cop{{wa(0, "PQ")}, {wa(2, "RS")}}, permute: true, cut: -1},
			{callers: [][]cop{{ra(4)}, {rl("/l")}}, permute: true, cut: -1},
		}
	case "3x1":
		return []callsSpec{
			{callers: [][]cop{{rl("/l")}, {wa(0, "PQ")}, {ra(2)}}, permute: true, cut: -1},
			{callers: [][]cop{{stat("/a")}, {lstat("/a")}, {mk("/ok")}}, permute: true, cut: -1},
			{callers: [][]cop{{wa(0, "PQ")}, {wa(2, "RS")}, {wa(4, "TU")}}, permute: true, cut: -1},
		}
	case "ctx":
		rd := func(p string) cop { return cop{kind: "ReadDirCtx", path: p} }
		rm := func(p string) cop { return cop{kind: "Mkdir", path: p} }
		return []callsSpec{
			{ctxCancel: true, callers: [][]cop{{rd("/dir"), lstat("/x"), rm("/deny/q"), stat("/y")}}, permute: true, cut: -1},
			{ctxCancel: true, callers: [][]cop{{rd("/dir"), rl("/l")}, {stat("/z"), rp("/w")}}, permute: true, cut: -1},
		}
	case "mc":
		ra6 := func(off int) cop { return cop{kind: "ReadAt6", off: off} }
		return []callsSpec{
			{callers: [][]cop{{stat("/a")}, {ra6(0)}}, permute: true, cut: -1},
			{callers: [][]cop{{wa(6, "PQ"), rl("/l")}, {ra6(0)}}, permute: true, cut: -1},
		}
	case "wrap": // request ids around the wrap-around of the 32-bit counter
		return []callsSpec{
			{callers: [][]cop{{stat("/a")}, {rl("/l")}, {lstat("/x")}}, permute: true, cut: -1, startID: 1<<32 - 2},
			{callers: [][]cop{{stat("/a"), ra(2)}, {rl("/l"), wa(0, "PQ")}}, permute: true, cut: -1, startID: 1<<32 - 3},
		}
	case "sizes": // every request size around the powers of two where buffers tend to end: WRITE payloads and SETSTAT paths
		var ws, cs []cop
		for _, base := range []int{128, 256, 512, 1024} {
			for n := base - 40; n <= base+8; n++ {
				ws = append(ws, cop{kind: "WriteAt", off: 0, data: string(pattern(n, 'a'))})
				cs = append(cs, cop{kind: "Chmod", path: "/" + string(pattern(n, 'p'))})
			}
		}
		// the writes all start at offset 0: the longest one is written last so that the final content is the sum of all
		return []callsSpec{
			{callers: [][]cop{ws, {stat("/a"), lstat("/x"), rl("/l")}}, permute: true, cut: -1, maxPacket: 2048},
			{callers: [][]cop{cs, {stat("/b"), rl("/m")}}, permute: true, cut: -1, maxPacket: 2048},
		}
	case "3x2":
		return []callsSpec{
			{callers: [][]cop{{rl("/l"), ra(6)}, {wa(0, "PQ"), stat("/s")}, {ra(2), mk("/deny/y")}}, permute: true, cut: -1},
		}
	}
	panic("unknown C03 set " + set)
}

func runCalls(c *reg.Ctx, prop, strategy string, bound int, specs []callsSpec) *reg.Result {
	total := reg.NewResult(c.Part)
	minDone := 1 << 30
	for i, s := range specs {
		if c.Expired() {
			total.Exhaustive = false
			break
		}
		r := explore.Run(explore.Config{Prop: prop, Strategy: strategy, Bound: bound, Ctx: c, Label: c.Part, MaxSteps: 200000}, callsScenario(s, prop))
		total.Evaluations += r.Evaluations
		total.States += r.States
		total.Transitions += r.Transitions
		total.Distinct += r.Distinct
		for k, v := range r.Outcomes {
			total.Outcomes[fmt.Sprintf("s%d:%s", i, k)] += v
		}
		for _, sm := range r.Samples {
			total.Sample(sm)
		}
		for _, v := range r.Violations {
			total.Violate(v.Property, v.Key, v.Msg, map[string]any{"spec": s.String(), "schedule": v.Replay}, v.Trace)
		}
		if !r.Exhaustive {
			total.Exhaustive = false
		}
		if r.EngineError != "" {
			total.EngineError = r.EngineError
			break
		}
		if d, ok := r.Notes["db_completed"].(int); ok && d < minDone {
			minDone = d
		}
		if b, ok := r.Notes["sleep_blocked"].(int64); ok {
			a, _ := total.Notes["sleep_blocked"].(int64)
			total.Notes["sleep_blocked"] = a + b
		}
	}
	total.Notes["scenarios"] = len(specs)
	total.Notes["strategy"] = strategy
	if strategy == "db" {
		if minDone == 1<<30 {
			minDone = -1
		}
		total.Notes["db_completed"] = minDone
		total.Notes["db_target"] = bound
	} else if total.Exhaustive {
		total.Bound = "por: all Mazurkiewicz traces of every scenario"
	} else {
		total.Bound = "por: not completed within the budget"
	}
	return total
}

// sizesJob: the request-size sweep (long executions) under the original default scheduler only.
func sizesJob(bound, budget int) reg.Job {
	return reg.Job{Part: "C03/calls", Build: "instr", Args: map[string]string{"set": "sizes", "strategy": "db", "bound": fmt.Sprint(bound), "cache": "1", "policy": "0"}, Shards: 16, BudgetS: budget,
		Label: fmt.Sprintf("sizes db%d (WRITE payloads and SETSTAT paths of every length around 128, 256, 512, 1024)", bound)}
}

func init() {
	reg.Part("C03/calls", func(c *reg.Ctx) *reg.Result {
		return runCalls(c, "C03", c.Arg("strategy", "db"), c.ArgInt("bound", 2), c03Specs(c.Arg("set", "2x2")))
	})
	reg.Prop(&reg.Property{
		ID:    "C03",
		Level: "model_checking",
		Rule: "2-3 caller goroutines x 1-2 operations sharing one Client and one File against the permuting reference peer (every reply is a function of its request's content): all schedules x reply orders, complete with sleep-set POR (2 callers x 1 op) " +
			"or with at most d deviations (db); oracle: each call returns the answer computed for that very request, ids in flight pairwise distinct, every request one contiguous well-framed packet; distinct = distinct schedules",
		Assumptions: []string{"P=2 so that every ReadAt/WriteAt is one packet", "bounds on callers/ops/deviations as reported per job", "non-atomic id generation without a scheduling point is left to the race pass"},
		Jobs: func(tier string) []reg.Job {
			j := func(set, strat string, bound, budget int, opt bool) reg.Job {
				return reg.Job{Part: "C03/calls", Build: "instr", Args: map[string]string{"set": set, "strategy": strat, "bound": fmt.Sprint(bound)}, Shards: 16, BudgetS: budget, Label: set + " " + strat + fmt.Sprint(bound), Optional: opt}
			}
			if tier == "thorough" {
				return append(withPolicies(tier, []reg.Job{j("2x1", "por", 0, 600, false), j("2x2", "db", 5, 900, false), j("3x1", "db", 5, 900, false), j("3x2", "db", 4, 600, false), j("mc", "db", 4, 900, false), j("ctx", "db", 4, 900, false), j("wrap", "db", 4, 600, false), j("2x2", "por", 0, 900, true)}, func(reg.Job) bool { return true }), sizesJob(2, 420), raceJob(tier), confJob(tier))
			}
			return append(withPolicies(tier, []reg.Job{j("2x1", "por", 0, 100, false), j("2x2", "db", 4, 100, false), j("3x1", "db", 4, 100, false), j("mc", "db", 3, 100, false), j("ctx", "db", 4, 100, false), j("wrap", "db", 3, 100, false)}, func(reg.Job) bool { return true }), sizesJob(1, 100), raceJob(tier), confJob(tier))
		},
	})
}
