//go:build verif

package sftp

// C01 on served files whose size, as stat reports it, says nothing about how much a read delivers
// (procfs: size 0, content non-empty; the os-backed server serves whatever package os can open).
// Every read path x every option combination of the small product, compared with os.ReadFile.

import (
	"bytes"
	"errors"
	"fmt"
	"io"
	"os"

	"verif/reg"
)

// c01ReadAll is io.ReadAll with a bound on the number of calls: a Read that keeps returning (0, nil) never reaches EOF,
// and a free-running case cannot wait for ever. A loop over a file of at most max bytes needs at most max/512+2 calls that
// deliver something plus one that reports the end.
func c01ReadAll(f *File, max int) ([]byte, error) {
	var out []byte
	buf := make([]byte, 512)
	empty := 0
	for calls := 0; calls < max/512+max+8; calls++ {
		n, err := f.Read(buf)
		out = append(out, buf[:n]...)
		if err == io.EOF {
			return out, nil
		}
		if err != nil {
			return out, err
		}
		if n == 0 {
			if empty++; empty > 3 {
				return out, fmt.Errorf("Read keeps returning (0, nil): the end of the file is never reported")
			}
		}
	}
	return out, fmt.Errorf("Read loop did not end")
}

func init() {
	reg.Part("C01/special", func(c *reg.Ctx) *reg.Result {
		res := reg.NewResult(c.Part)
		var files []string
		for _, p := range []string{"/proc/version", "/proc/filesystems", "/proc/sys/kernel/ostype"} {
			if fi, err := os.Stat(p); err == nil && fi.Mode().IsRegular() && fi.Size() == 0 {
				if b, err := os.ReadFile(p); err == nil && len(b) > 0 {
					files = append(files, p)
				}
			}
		}
		res.Notes["files"] = fmt.Sprint(files)
		var i int64
		for _, P := range []int{16, 64, 32768} {
			for o := 0; o < 16; o++ {
				cfg := c01Cfg{P: P, K: 2, CR: o&1 != 0, CW: false, FS: o&2 != 0, Server: "os", Alloc: o&4 != 0}
				seqOnly := o&8 != 0 // K = 1
				if seqOnly {
					cfg.K = 1
				}
				i++
				if !c.Mine(i) {
					continue
				}
				var so []ServerOption
				if cfg.Alloc {
					so = append(so, WithAllocator())
				}
				sess := bServeOS(so...)
				cl, err := sess.Client(MaxPacketUnchecked(cfg.P), MaxConcurrentRequestsPerFile(cfg.K), UseConcurrentReads(cfg.CR), UseFstat(cfg.FS))
				if err != nil {
					res.EngineError = err.Error()
					return res
				}
				for _, p := range files {
					want, err := os.ReadFile(p)
					if err != nil {
						continue
					}
					bad := func(what, format string, a ...any) {
						res.Violate("C01", "c01-special:"+what, fmt.Sprintf("[%v] %s (stat size 0, %d bytes of content): ", cfg, p, len(want))+fmt.Sprintf(format, a...), map[string]any{"cfg": cfg.String(), "file": p}, nil)
					}
					// 1. Read until EOF
					if f, err := cl.Open(p); err != nil {
						bad("open", "Open: %v", err)
					} else {
						got, err := c01ReadAll(f, len(want))
						res.Case(fmt.Sprintf("%v readall %s", cfg, p))
						if err != nil || !bytes.Equal(got, want) {
							bad("read", "Read until EOF delivered %d bytes, err %v; os.ReadFile delivers %d", len(got), err, len(want))
						}
						f.Close()
					}
					// 2. one ReadAt with room to spare
					if f, err := cl.Open(p); err == nil {
						buf := make([]byte, len(want)+100)
						n, err := f.ReadAt(buf, 0)
						res.Case(fmt.Sprintf("%v readat %s", cfg, p))
						if n != len(want) || err != io.EOF || !bytes.Equal(buf[:n], want) {
							bad("readat", "ReadAt(%d bytes, 0) = %d, %v; want %d, EOF and the file's bytes", len(buf), n, err, len(want))
						}
						f.Close()
					}
					// 3. WriteTo
					if f, err := cl.Open(p); err == nil {
						var out bytes.Buffer
						n, err := f.WriteTo(&out)
						res.Case(fmt.Sprintf("%v writeto %s", cfg, p))
						if err != nil || n != int64(len(want)) || !bytes.Equal(out.Bytes(), want) {
							bad("writeto", "WriteTo = %d, %v and wrote %d bytes; want %d, nil", n, err, out.Len(), len(want))
						}
						f.Close()
					}
				}
				sess.Stop(cl)
			}
		}
		// second half: a handler-based server whose store breaks off in the middle of the file. Whatever the error is, a read
		// path must not present the prefix as the whole file: a nil error or io.EOF before the true end is a violation.
		content := c01FilePat(6444)
		for _, P := range []int{512, 1024} {
			for o := 0; o < 8; o++ {
				for ei, ferr := range []error{io.ErrUnexpectedEOF, fmt.Errorf("object store: %w", io.ErrUnexpectedEOF), errors.New("backend gone"), os.ErrPermission} {
					for _, at := range []int64{3072, 3000, 0} {
						i++
						if !c.Mine(i) {
							continue
						}
						cfg := c01Cfg{P: P, K: 2, CR: o&1 != 0, FS: o&2 != 0, Server: "rs", Alloc: o&4 != 0}
						var so []RequestServerOption
						if cfg.Alloc {
							so = append(so, WithRSAllocator())
						}
						h := newBMHandler()
						mf := h.file("/f", true)
						mf.set(content)
						mf.failAt, mf.failErr = at, ferr
						sess := bServeRS(h.handlers(), so...)
						cl, err := sess.Client(MaxPacketUnchecked(cfg.P), MaxConcurrentRequestsPerFile(cfg.K), UseConcurrentReads(cfg.CR), UseFstat(cfg.FS))
						if err != nil {
							res.EngineError = err.Error()
							return res
						}
						bad := func(what, format string, a ...any) {
							res.Violate("C01", "c01-special:"+what, fmt.Sprintf("[%v] store of %d bytes breaks off at %d with %q: ", cfg, len(content), at, ferr)+fmt.Sprintf(format, a...), map[string]any{"cfg": cfg.String(), "at": at, "err": ei}, nil)
						}
						judge := func(what string, n int, got []byte, err error) {
							res.Case(fmt.Sprintf("%v %s at=%d err=%d", cfg, what, at, ei))
							if err == nil || err == io.EOF {
								bad("broke-off:"+what, "%s returned %d bytes with error %v: the prefix is presented as the whole file", what, n, err)
							} else if n > int(at) || !bytes.Equal(got[:n], content[:n]) {
								bad("broke-off-data:"+what, "%s returned %d bytes (error %v) that are not a prefix of what the store delivered", what, n, err)
							}
						}
						if f, err := cl.Open("/f"); err != nil {
							bad("open", "Open: %v", err)
						} else {
							got, err := c01ReadAll(f, len(content))
							judge("Read until EOF", len(got), got, err)
							buf := make([]byte, len(content))
							n, err := f.ReadAt(buf, 0)
							judge("ReadAt", n, buf, err)
							f.Seek(0, io.SeekStart)
							var out bytes.Buffer
							n64, err := f.WriteTo(&out)
							if int(n64) != out.Len() {
								bad("writeto-count", "WriteTo returned %d but wrote %d bytes", n64, out.Len())
							}
							judge("WriteTo", out.Len(), out.Bytes(), err)
							f.Close()
						}
						sess.Stop(cl)
					}
				}
			}
		}
		res.States = res.Evaluations
		res.Bound = fmt.Sprintf("%d files x 3 packet sizes x {concurrent reads, fstat, allocator, K in {1,2}} x 3 read paths; plus a store that breaks off at 3 offsets x 4 error values x 2 packet sizes x 8 option sets x 3 read paths", len(files))
		if len(files) == 0 {
			res.Bound = "no procfs file with stat size 0 is readable here; store-breaks-off half only"
		}
		return res
	})
}
