//go:build verif

package sftp

// C08: Decoding arbitrary bytes is total and bounded (DESIGN.md §3 C08).
//
// Every decoder call runs in a child process of the worker binary under `ulimit -v`, so that a
// count-driven multi-GiB make() is an attributed crash instead of a dead worker (DESIGN.md §2.4).
// The child announces each case in a shared progress page before executing it, checkpoints its
// partial result, and is restarted after a crash just behind the crashing case.

import (
	"bytes"
	"crypto/sha1"
	"encoding/binary"
	"encoding/hex"
	"encoding/json"
	"fmt"
	"os"
	"os/exec"
	"path/filepath"
	"runtime"
	rtdebug "runtime/debug"
	"strings"
	"sync/atomic"
	"syscall"
	"time"

	"verif/reg"
)

const (
	c08childEnv     = "VERIF_C08_CHILD"
	c08ulimitKB     = 2000000 // address-space limit of the child (a Go process needs ~0.8 GB of it to start)
	c08ckptEvery    = 20000   // cases between checkpoints
	c08progressSize = 4096 + 270336
	c08maxStored    = 270336
)

type c08single struct {
	Entry    string `json:"entry"`
	InputHex string `json:"input_hex"`
	Desc     string `json:"desc,omitempty"`
}

type c08spec struct {
	Tier      string
	Shard     int
	NShards   int
	Deadline  int64 // unix nanoseconds, 0 = none
	Start     int64 // resume position: input index << 10 | entry index
	SkipCases []int64
	Broken    []string // entry points with a reported allocation violation: risky inputs are skipped for them
	Progress  string
	Result    string
	Single    *c08single
}

type c08checkpoint struct {
	Pos    int64
	Done   bool
	Res    *reg.Result
	Broken []string
}

// ---- measuring one call ----------------------------------------------------------------------------

var c08m0, c08m1 runtime.MemStats

func c08call(ent *c08entry, in []byte) (outcome, panicMsg string) {
	defer func() {
		if r := recover(); r != nil {
			st := strings.Split(string(rtdebug.Stack()), "\n")
			var keep []string
			for _, l := range st {
				if strings.Contains(l, "/repo/") || strings.Contains(l, "pkg/sftp") {
					keep = append(keep, strings.TrimSpace(l))
				}
				if len(keep) >= 10 {
					break
				}
			}
			outcome, panicMsg = "panic", fmt.Sprintf("%v\n%s", r, strings.Join(keep, "\n"))
		}
	}()
	return ent.run(in), ""
}

func c08measure(ent *c08entry, in []byte) (outcome, panicMsg string, delta uint64) {
	runtime.ReadMemStats(&c08m0)
	outcome, panicMsg = c08call(ent, in)
	runtime.ReadMemStats(&c08m1)
	return outcome, panicMsg, c08m1.TotalAlloc - c08m0.TotalAlloc
}

func c08bound(ent *c08entry, n int) uint64 {
	b := uint64(64*n + 4096)
	if ent.framing {
		// by design one maximal (already bounds-checked) frame or one allocator page per read; the
		// framing entry points are called three times (two reader chunkings, and once with a stream
		// that ends with a transport error instead of EOF); the filexfer ones additionally with four
		// caller-supplied buffers, two of which are too small to hold a frame
		k := ent.frames
		if k == 0 {
			k = 4
		}
		b += uint64(k) * (c08maxFrame + 1024)
	}
	return b
}

// ---- child ---------------------------------------------------------------------------------------------

func init() {
	if p := os.Getenv(c08childEnv); p != "" {
		os.Unsetenv(c08childEnv)
		c08childMain(p)
		os.Exit(0)
	}
}

type c08progress struct{ page []byte }

func (p *c08progress) announce(n int64, e int, in []byte, desc string) {
	pg := p.page
	binary.LittleEndian.PutUint64(pg[0:], uint64(n)+1) // 0 = nothing announced yet
	binary.LittleEndian.PutUint32(pg[8:], uint32(e))
	binary.LittleEndian.PutUint32(pg[12:], uint32(len(in)))
	copy(pg[4096:], in)
	d := copy(pg[2052:4000], desc)
	binary.LittleEndian.PutUint32(pg[2048:], uint32(d))
}

func c08hexIn(in []byte) string {
	if len(in) > c08maxStored {
		return hex.EncodeToString(in[:c08maxStored])
	}
	return hex.EncodeToString(in)
}

func c08childMain(specPath string) {
	var spec c08spec
	b, err := os.ReadFile(specPath)
	if err == nil {
		err = json.Unmarshal(b, &spec)
	}
	if err != nil {
		fmt.Fprintln(os.Stderr, "c08 child: spec:", err)
		os.Exit(3)
	}
	f, err := os.OpenFile(spec.Progress, os.O_RDWR, 0)
	if err != nil {
		fmt.Fprintln(os.Stderr, "c08 child:", err)
		os.Exit(3)
	}
	page, err := syscall.Mmap(int(f.Fd()), 0, c08progressSize, syscall.PROT_READ|syscall.PROT_WRITE, syscall.MAP_SHARED)
	if err != nil {
		fmt.Fprintln(os.Stderr, "c08 child: mmap:", err)
		os.Exit(3)
	}
	prog := &c08progress{page: page}
	rtdebug.SetGCPercent(50)
	entries := c08entries()
	res := reg.NewResult("C08/decode")
	broken := map[string]bool{}
	for _, e := range spec.Broken {
		broken[e] = true
	}
	skip := map[int64]bool{}
	for _, n := range spec.SkipCases {
		skip[n] = true
	}
	thorough := spec.Tier == "thorough"
	maxLen := 5
	if thorough {
		maxLen = 6
	}
	writeCkpt := func(pos int64, done bool) {
		var bl []string
		for k := range broken {
			bl = append(bl, k)
		}
		js, _ := json.Marshal(&c08checkpoint{Pos: pos, Done: done, Res: res, Broken: bl})
		tmp := spec.Result + ".tmp"
		if os.WriteFile(tmp, js, 0o644) == nil {
			os.Rename(tmp, spec.Result)
		}
	}
	runOne := func(n int64, ei int, ent *c08entry, in []byte, desc string) {
		if broken[ent.name] && c08risky(in) {
			res.Outcome("skipped: entry point already reported for allocation, input has a large 32-bit field | " + ent.name)
			return
		}
		prog.announce(n, ei, in, desc)
		res.Evaluations++
		res.Distinct++
		outcome, pmsg, delta := c08measure(ent, in)
		if delta > 8<<20 {
			rtdebug.FreeOSMemory() // do not let a big allocation of this case starve the next ones
		}
		replay := func() any { return &c08single{Entry: ent.name, InputHex: c08hexIn(in), Desc: desc} }
		what := fmt.Sprintf("input (%d bytes) %s", len(in), c08hexShort(in))
		if desc != "" {
			what += " [" + desc + "]"
		}
		if outcome == "panic" {
			res.Outcome(ent.name + " PANIC")
			res.Violate("C08", "c08-panic:"+ent.name, fmt.Sprintf("%s panics on %s: %s", ent.name, what, pmsg), replay(), nil)
			return
		}
		if strings.HasPrefix(outcome, "BAD:") {
			res.Outcome(ent.name + " FRAMING")
			res.Violate("C08", "c08-framing:"+ent.name, fmt.Sprintf("%s on %s: %s", ent.name, what, outcome[5:]), replay(), nil)
			return
		}
		if bound := c08bound(ent, len(in)); delta > bound {
			// rule out a coincidental background allocation: the minimum of three runs counts
			for i := 0; i < 2 && delta > bound && delta < 64<<20; i++ {
				if _, _, d := c08measure(ent, in); d < delta {
					delta = d
				}
			}
			if delta > bound {
				res.Outcome(ent.name + " ALLOC")
				res.Violate("C08", "c08-alloc:"+ent.name, fmt.Sprintf("%s allocates %d bytes (bound %d = 64 x len + 4 KiB%s) on %s; result: %s",
					ent.name, delta, bound, map[bool]string{true: " + one maximal frame per frame-reading call", false: ""}[ent.framing], what, outcome), replay(), nil)
				if delta > 1<<20 {
					broken[ent.name] = true
				}
				return
			}
		}
		res.Outcome(ent.name + " " + outcome)
	}

	if spec.Single != nil {
		in, _ := hex.DecodeString(spec.Single.InputHex)
		page[4001] = 1
		found := false
		for ei := range entries {
			if entries[ei].name == spec.Single.Entry {
				found = true
				runOne(int64(ei), ei, &entries[ei], in, spec.Single.Desc)
			}
		}
		if !found {
			fmt.Fprintln(os.Stderr, "c08 child: unknown entry", spec.Single.Entry)
			os.Exit(3)
		}
		writeCkpt(0, true)
		return
	}

	levelOffs := []int{0, 4, 5, 9}
	seen := map[[20]byte]struct{}{}
	fresh := func(off int, s []byte) bool {
		if len(s) <= 2 || (len(s) <= maxLen && c08inAlphabet(s)) {
			return false // already among the generic strings
		}
		h := sha1.New()
		h.Write([]byte{byte(off)})
		h.Write(s)
		var k [20]byte
		copy(k[:], h.Sum(nil))
		if _, dup := seen[k]; dup {
			return false
		}
		seen[k] = struct{}{}
		return true
	}
	var idx int64 = -1
	var sinceCkpt int64
	var samples int
	page[4001] = 1 // enumeration started (a crash before this point is an engine error, not a finding)
	c08forEachInput(thorough, func(in *c08input) bool {
		idx++
		// which level offsets see this input (must be decided identically in every process)
		var use [10]bool
		switch in.src {
		case 'g':
		case 's':
			use[0] = fresh(0, in.b)
		case 'a':
			use[9] = fresh(9, in.b)
		default: // 'f', 't'
			for _, o := range levelOffs {
				if in.src == 't' && o > 4 {
					break
				}
				if len(in.b) > o {
					use[o] = fresh(o, in.b[o:])
				}
			}
		}
		if spec.NShards > 1 && int(idx%int64(spec.NShards)) != spec.Shard {
			return true
		}
		if (idx+1)<<10 <= spec.Start {
			return true
		}
		if idx&0xff == 0 && spec.Deadline != 0 && time.Now().UnixNano() > spec.Deadline {
			res.Exhaustive = false
			res.Bound = fmt.Sprintf("deadline reached at input %d", idx)
			return false
		}
		for ei := range entries {
			ent := &entries[ei]
			n := idx<<10 | int64(ei)
			if n < spec.Start || skip[n] {
				continue
			}
			var slice []byte
			switch in.src {
			case 'g':
				slice = in.b
			case 'a':
				if !use[9] || (ent.level != 'P' && ent.level != 'A') {
					continue
				}
				slice = in.b
			default:
				o := c08levelOff(ent.level)
				if !use[o] {
					continue
				}
				slice = in.b[o:]
			}
			if samples < 4 && (idx*31+int64(ei)*7)%50021 == 3 {
				samples++
				res.Sample(fmt.Sprintf("%s <- %s %s", ent.name, c08hexShort(slice), in.desc))
			}
			runOne(n, ei, ent, slice, in.desc)
			sinceCkpt++
		}
		if sinceCkpt >= c08ckptEvery {
			sinceCkpt = 0
			writeCkpt((idx+1)<<10, false)
		}
		return true
	})
	res.Notes["inputs"] = idx + 1
	res.Notes["entry_points"] = len(entries)
	writeCkpt((idx+1)<<10, true)
}

func c08hexShort(b []byte) string {
	if len(b) > 96 {
		return hex.EncodeToString(b[:96]) + fmt.Sprintf("...(%d bytes)", len(b))
	}
	return hex.EncodeToString(b)
}

// ---- parent --------------------------------------------------------------------------------------------

func c08mergeInto(dst, src *reg.Result) {
	if src == nil {
		return
	}
	dst.Evaluations += src.Evaluations
	dst.Distinct += src.Distinct
	for k, v := range src.Outcomes {
		dst.Outcomes[k] += v
	}
	for _, s := range src.Samples {
		dst.Sample(s)
	}
	for _, v := range src.Violations {
		dst.Violate(v.Property, v.Key, v.Msg, v.Replay, v.Trace)
	}
	if !src.Exhaustive {
		dst.Exhaustive = false
		dst.Bound = src.Bound
	}
	for k, v := range src.Notes {
		dst.Notes[k] = v
	}
}

type c08tail struct {
	buf bytes.Buffer
}

func (t *c08tail) Write(p []byte) (int, error) {
	if t.buf.Len() < 1<<16 {
		t.buf.Write(p)
	}
	return len(p), nil
}

// c08runChild runs one child process to its end (or death).
func c08runChild(dir, exe string, spec *c08spec) (ck c08checkpoint, werr error, hung bool, out string, pg []byte, engineErr string) {
	os.Remove(spec.Result)
	if err := os.WriteFile(spec.Progress, make([]byte, c08progressSize), 0o644); err != nil {
		return ck, nil, false, "", nil, err.Error()
	}
	js, _ := json.Marshal(spec)
	specPath := filepath.Join(dir, "spec.json")
	os.WriteFile(specPath, js, 0o644)
	cmd := exec.Command("sh", "-c", fmt.Sprintf(`ulimit -v %d || exit 97; exec "$0"`, c08ulimitKB), exe)
	cmd.Env = append(os.Environ(), c08childEnv+"="+specPath)
	var tail c08tail
	cmd.Stdout, cmd.Stderr = &tail, &tail
	if err := cmd.Start(); err != nil {
		return ck, nil, false, "", nil, "starting child: " + err.Error()
	}
	// watchdog: a case that does not end is reported, not waited for
	var hungFlag atomic.Bool
	stopWatch := make(chan struct{})
	go func() {
		var last uint64
		same := 0
		hdr := make([]byte, 4096)
		for {
			select {
			case <-stopWatch:
				return
			case <-time.After(500 * time.Millisecond):
			}
			f, err := os.Open(spec.Progress)
			if err != nil {
				continue
			}
			_, err = f.ReadAt(hdr, 0)
			f.Close()
			if err != nil {
				continue
			}
			n := binary.LittleEndian.Uint64(hdr)
			if n == last && hdr[4001] == 1 && n != 0 {
				same++
			} else {
				same, last = 0, n
			}
			if same >= 120 { // one case announced 60 s ago and nothing since
				hungFlag.Store(true)
				cmd.Process.Kill()
				return
			}
		}
	}()
	werr = cmd.Wait()
	close(stopWatch)
	if b, err := os.ReadFile(spec.Result); err == nil {
		if err := json.Unmarshal(b, &ck); err != nil {
			return ck, werr, false, "", nil, "child result: " + err.Error()
		}
	} else {
		ck.Pos = spec.Start
	}
	pg, _ = os.ReadFile(spec.Progress)
	return ck, werr, hungFlag.Load(), tail.buf.String(), pg, ""
}

func c08parent(c *reg.Ctx) *reg.Result {
	total := reg.NewResult(c.Part)
	dir := scratchDir()
	exe, err := os.Executable()
	if err != nil {
		total.EngineError = err.Error()
		return total
	}
	spec := c08spec{Tier: c.Tier, Shard: c.Shard, NShards: c.NShards, Progress: filepath.Join(dir, "progress"), Result: filepath.Join(dir, "result.json")}
	if !c.Deadline.IsZero() {
		spec.Deadline = c.Deadline.UnixNano()
	}
	if c.Replay != nil {
		var s c08single
		if err := json.Unmarshal(c.Replay, &s); err != nil {
			total.EngineError = "replay record: " + err.Error()
			return total
		}
		spec.Single = &s
	}
	entries := c08entries()
	brokenSet := map[string]bool{}
	crashes, unconfirmed := 0, 0
	for {
		spec.Broken = spec.Broken[:0]
		for k := range brokenSet {
			spec.Broken = append(spec.Broken, k)
		}
		ck, werr, hung, out, pg, eerr := c08runChild(dir, exe, &spec)
		if eerr != "" {
			total.EngineError = eerr
			return total
		}
		c08mergeInto(total, ck.Res)
		for _, k := range ck.Broken {
			brokenSet[k] = true
		}
		if werr == nil && ck.Done {
			break
		}
		// the child died: attribute it to the announced case
		if len(pg) < c08progressSize || pg[4001] != 1 {
			total.EngineError = fmt.Sprintf("C08 child failed before enumerating (%v):\n%s", werr, c08clip(out, 2000))
			return total
		}
		n := int64(binary.LittleEndian.Uint64(pg)) - 1
		ei := int(binary.LittleEndian.Uint32(pg[8:]))
		ilen := int(binary.LittleEndian.Uint32(pg[12:]))
		dlen := int(binary.LittleEndian.Uint32(pg[2048:]))
		if n < 0 || ei >= len(entries) || ilen > c08maxStored || dlen > 1948 || (werr == nil && !ck.Done) {
			total.EngineError = fmt.Sprintf("C08 child ended irregularly (%v):\n%s", werr, c08clip(out, 2000))
			return total
		}
		in := append([]byte{}, pg[4096:4096+ilen]...)
		desc := string(pg[2052 : 2052+dlen])
		ent := &entries[ei]
		single := &c08single{Entry: ent.name, InputHex: hex.EncodeToString(in), Desc: desc}
		if spec.Single == nil && !hung {
			// confirm in a fresh child that runs only this case: a death caused by what earlier
			// cases left behind (heap not yet collected) is not this case's fault
			cdir := filepath.Join(dir, "confirm")
			os.MkdirAll(cdir, 0o755)
			cspec := c08spec{Tier: c.Tier, Progress: filepath.Join(cdir, "progress"), Result: filepath.Join(cdir, "result.json"), Single: single}
			cck, cwerr, chung, cout, _, ceerr := c08runChild(cdir, exe, &cspec)
			if ceerr != "" {
				total.EngineError = ceerr
				return total
			}
			if cwerr == nil && cck.Done && !chung {
				if cck.Res != nil && len(cck.Res.Violations) > 0 {
					for _, v := range cck.Res.Violations {
						total.Violate(v.Property, v.Key, v.Msg, v.Replay, v.Trace)
						if strings.HasPrefix(v.Key, "c08-alloc:") {
							brokenSet[ent.name] = true
						}
					}
					spec.SkipCases = append(spec.SkipCases, n)
				} else {
					unconfirmed++
					if unconfirmed > 40 {
						total.EngineError = fmt.Sprintf("C08: child keeps dying on cases that pass alone (last: %s):\n%s", ent.name, c08clip(out, 1500))
						return total
					}
				}
				spec.Start = ck.Pos
				continue
			}
			out, werr, hung = cout, cwerr, chung
		}
		what := fmt.Sprintf("input (%d bytes) %s", ilen, c08hexShort(in))
		if desc != "" {
			what += " [" + desc + "]"
		}
		crashes++
		switch {
		case hung:
			total.Outcome(ent.name + " HANG")
			total.Violate("C08", "c08-hang:"+ent.name, fmt.Sprintf("%s did not return within 60 s (watchdog) on %s", ent.name, what), single, nil)
		case strings.Contains(out, "out of memory") || strings.Contains(out, "cannot allocate"):
			total.Outcome(ent.name + " ALLOC")
			line := ""
			for _, l := range strings.Split(out, "\n") {
				if strings.Contains(l, "out of memory") || strings.Contains(l, "cannot allocate") {
					line += strings.TrimSpace(l) + "; "
				}
			}
			total.Violate("C08", "c08-alloc:"+ent.name, fmt.Sprintf("%s kills the process under `ulimit -v %d` on %s: %s", ent.name, c08ulimitKB, what, c08clip(line, 400)), single, nil)
			brokenSet[ent.name] = true
		default:
			total.Outcome(ent.name + " CRASH")
			total.Violate("C08", "c08-crash:"+ent.name, fmt.Sprintf("%s crashes the process (%v) on %s:\n%s", ent.name, werr, what, c08clip(out, 1500)), single, nil)
		}
		if spec.Single != nil {
			break
		}
		spec.SkipCases = append(spec.SkipCases, n)
		spec.Start = ck.Pos
		if crashes > 600 {
			total.EngineError = "C08: more than 600 child crashes in one shard"
			return total
		}
	}
	total.Notes["child_crashes_confirmed"] = crashes
	total.Notes["child_deaths_not_reproduced_alone"] = unconfirmed
	total.Notes["child_address_space_limit_kb"] = c08ulimitKB
	if total.Bound == "" {
		total.Bound = "all inputs x applicable entry points"
	}
	return total
}

func c08clip(s string, n int) string {
	if len(s) > n {
		return s[:n] + " …"
	}
	return s
}

func init() {
	reg.Part("C08/decode", c08parent)
	reg.Prop(&reg.Property{
		ID: "C08", Level: "model_checking",
		Rule: "one case = (entry point, input): every decoding entry point of both codecs is given all byte strings of length <= 2, all strings of length <= 5 (quick) / 6 (thorough) over {00,01,04,7f,80,ff}, every truncation of every valid encoding of a corpus drawn from the C06 product (frames and stand-alone attribute / name-entry blobs; sliced at the level the entry point expects), the encodings with garbage appended, every length/count/flags field replaced by {0,1,n-1,n+1,2^31-1,2^32-1}, every type byte 0..255, and frames declared around the 256 KiB limit; derived inputs are de-duplicated per level, so all cases are distinct",
		Assumptions: []string{
			"allocation is the runtime.MemStats.TotalAlloc delta around the call on a single goroutine with GOMAXPROCS=1 (minimum of three runs when the bound is exceeded); bound 64 x len(input) + 4 KiB, plus one maximal frame per frame-reading call for the framing entry points (they are called with two reader chunkings, once with a stream ending in a transport error and once with one ending in a persistent timeout error - the filexfer ReadFrom methods for each of four caller-supplied buffers: none, 4 bytes, exactly the limit, larger than the limit - and allocate the declared, already bounds-checked frame or one allocator page)",
			"every call runs in a child process under `ulimit -v 2000000`; an out-of-memory death is attributed to the case announced just before it and counts as an allocation violation",
			"after an entry point has been reported for a >1 MiB allocation, inputs containing a 32-bit window >= 2^16 are skipped for that entry point (counted under 'skipped' outcomes)",
			"a case that makes no progress for 60 s is reported as a hang (watchdog; never observed)",
			"client-side reply decoding (unmarshalStatus and the unchecked unmarshalUint32/String call sites) belongs to C20, not to this property",
		},
		Jobs: func(tier string) []reg.Job {
			b := 200
			if tier == "thorough" {
				b = 540
			}
			return []reg.Job{{Part: "C08/decode", Build: "plain", Shards: 16, BudgetS: b, Procs: 1, Label: "decoders x inputs (" + tier + ")"}}
		},
	})
}
