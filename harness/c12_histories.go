//go:build verif

package sftp

// C12 (Engine B half): "A remote File keeps os.File's offset and closed-state semantics" – every
// sequence of File method calls up to a depth over a fixed alphabet, executed on the real client
// against both real servers under the 8 concurrency option sets, differential against a real
// *os.File driven by the same sequence. The scheduled (Engine A) half (Close races) is added by
// c12ExtraJobs.

import (
	"bytes"
	"encoding/binary"
	"encoding/json"
	"errors"
	"fmt"
	"io"
	"math"
	"os"
	"path/filepath"
	"strings"
	"time"

	"verif/reg"
)

// Hook for the scheduled half; c12Prop is a package-level variable so that another harness file's
// init may extend Rule / Assumptions.
var c12ExtraJobs func(tier string) []reg.Job

const (
	c12P    = 2
	c12K    = 2
	c12Init = "abcde" // L = 5 > P*K
)

type c12Op struct {
	Kind   string `json:"op"` // read write readat writeat seek readfrom rfwc writeto truncate stat close
	N      int    `json:"n,omitempty"`
	Off    int64  `json:"off,omitempty"`
	Whence int    `json:"whence,omitempty"`
	Src    string `json:"src,omitempty"`
}

func (o c12Op) String() string {
	switch o.Kind {
	case "read":
		return fmt.Sprintf("Read(%d)", o.N)
	case "write":
		return fmt.Sprintf("Write(%d)", o.N)
	case "readat":
		return fmt.Sprintf("ReadAt(%d,@%d)", o.N, o.Off)
	case "writeat":
		return fmt.Sprintf("WriteAt(%d,@%d)", o.N, o.Off)
	case "seek":
		return fmt.Sprintf("Seek(%d,%d)", o.Off, o.Whence)
	case "readfrom":
		return fmt.Sprintf("ReadFrom(%s:%d)", o.Src, o.N)
	case "rfwc":
		return fmt.Sprintf("ReadFromWithConcurrency(opaque:%d,2)", o.N)
	case "writeto":
		return "WriteTo"
	case "truncate":
		return fmt.Sprintf("Truncate(%d)", o.N)
	case "stat":
		return "Stat"
	case "repoint":
		return "<name re-pointed to a 9-byte file>"
	case "close":
		return "Close"
	}
	return o.Kind
}

func c12SeqString(seq []c12Op) string {
	var s []string
	for _, o := range seq {
		s = append(s, o.String())
	}
	return strings.Join(s, "; ")
}

func c12Alphabet() []c12Op {
	L := int64(len(c12Init))
	var a []c12Op
	for _, n := range []int{1, 3, 5} {
		a = append(a, c12Op{Kind: "read", N: n})
	}
	for _, n := range []int{1, 3, 5} {
		a = append(a, c12Op{Kind: "write", N: n})
	}
	a = append(a, c12Op{Kind: "readat", N: 3, Off: 1}, c12Op{Kind: "readat", N: 5, Off: 3})
	// calls that transfer nothing: they move nothing, and on a closed File they still fail
	a = append(a, c12Op{Kind: "write", N: 0}, c12Op{Kind: "writeat", N: 0, Off: 2}, c12Op{Kind: "read", N: 0}, c12Op{Kind: "readat", N: 0, Off: 2})
	a = append(a, c12Op{Kind: "writeat", N: 3, Off: 1}, c12Op{Kind: "writeat", N: 5, Off: 4})
	for _, wh := range []int{0, 1, 2, 3} {
		for _, off := range []int64{-L - 1, -1, 0, 1, L + 1} {
			a = append(a, c12Op{Kind: "seek", Off: off, Whence: wh})
		}
	}
	// a relative Seek whose result is not representable (position > 0 or a non-empty file): rejected without moving, like lseek(2)
	a = append(a, c12Op{Kind: "seek", Off: math.MaxInt64, Whence: 1}, c12Op{Kind: "seek", Off: math.MaxInt64, Whence: 2})
	for _, src := range []string{"opaque", "len"} {
		for _, n := range []int{1, 5} {
			a = append(a, c12Op{Kind: "readfrom", N: n, Src: src})
		}
	}
	a = append(a, c12Op{Kind: "rfwc", N: 5})
	a = append(a, c12Op{Kind: "writeto"})
	a = append(a, c12Op{Kind: "truncate", N: 1}, c12Op{Kind: "truncate", N: 8})
	a = append(a, c12Op{Kind: "stat"})
	a = append(a, c12Op{Kind: "close"})
	// not a File method: the NAME the file was opened under is re-pointed to another file of a different
	// size (replacement written next to it, then renamed over it). An open os.File is unaffected; the
	// end-relative Seek and Stat of an open remote File must be, too. (Applied for the os-backed
	// server only: the request server answers FSTAT by name by design.)
	a = append(a, c12Op{Kind: "repoint"})
	return a
}

// c12Data is the payload written by step s (distinct per step).
func c12Data(step, n int) []byte {
	b := make([]byte, n)
	for i := range b {
		b[i] = byte('A' + step*6 + i)
	}
	return b
}

// c12Obs is what one step shows.
type c12Obs struct {
	N    int64  // byte count / resulting position (seek) / size (stat)
	Data []byte // bytes delivered
	Err  string // nil | EOF | closed | rejected | other
	Pos  int64  // Seek(0, io.SeekCurrent) after the step; -1 once closed
	// ShortAtEOF: the reference Read returned 0 < n < len(buf) with a nil error; the remote File may
	// return the same count with io.EOF (documented difference, not compared).
	ShortAtEOF bool
}

func c12Class(err error) string {
	switch {
	case err == nil:
		return "nil"
	case errors.Is(err, os.ErrClosed):
		return "closed"
	case errors.Is(err, io.EOF):
		return "EOF"
	default:
		return "other"
	}
}

// fileAPI is the part of the API shared by *File and *os.File.
type fileAPI interface {
	io.Reader
	io.Writer
	io.ReaderAt
	io.WriterAt
	io.Seeker
	io.ReaderFrom
	io.WriterTo
	io.Closer
	Truncate(int64) error
	Stat() (os.FileInfo, error)
}

// c12Step applies one operation through the common API and records what it shows.
func c12Step(f fileAPI, op c12Op, step int) c12Obs {
	var o c12Obs
	var err error
	switch op.Kind {
	case "read":
		buf := make([]byte, op.N)
		var n int
		n, err = f.Read(buf)
		o.N, o.Data = int64(n), buf[:max(n, 0)]
	case "write":
		var n int
		n, err = f.Write(c12Data(step, op.N))
		o.N = int64(n)
	case "readat":
		buf := make([]byte, op.N)
		var n int
		n, err = f.ReadAt(buf, op.Off)
		o.N, o.Data = int64(n), buf[:max(n, 0)]
	case "writeat":
		var n int
		n, err = f.WriteAt(c12Data(step, op.N), op.Off)
		o.N = int64(n)
	case "seek":
		if op.Off == math.MaxInt64 {
			// only where the result is not representable (base > 0): from base 0 the seek is legal and leads to offsets
			// beyond what either side is modelled for, so there it is left out (both sides do the same three probes)
			cur, e1 := f.Seek(0, io.SeekCurrent)
			end, e2 := f.Seek(0, io.SeekEnd)
			if e1 != nil || e2 != nil {
				err = e1
				if err == nil {
					err = e2
				}
				break
			}
			if _, e3 := f.Seek(cur, io.SeekStart); e3 != nil {
				err = e3
				break
			}
			if base := map[int]int64{1: cur, 2: end}[op.Whence]; base == 0 {
				o.N = cur
				break
			}
		}
		o.N, err = f.Seek(op.Off, op.Whence)
		if err != nil && c12Class(err) != "closed" {
			o.Err, o.N = "rejected", 0
		}
	case "readfrom":
		src, _ := c01Source(op.Src, c12Data(step, op.N), c12P)
		o.N, err = f.ReadFrom(src)
	case "rfwc":
		// os.File has no such method: the reference is ReadFrom
		src, _ := c01Source("opaque", c12Data(step, op.N), c12P)
		if rf, ok := f.(interface {
			ReadFromWithConcurrency(io.Reader, int) (int64, error)
		}); ok {
			o.N, err = rf.ReadFromWithConcurrency(src, 2)
		} else {
			o.N, err = f.ReadFrom(src)
		}
	case "writeto":
		w := &plainWriter{}
		o.N, err = f.WriteTo(w)
		o.Data = w.b
	case "truncate":
		err = f.Truncate(int64(op.N))
	case "stat":
		var fi os.FileInfo
		fi, err = f.Stat()
		if err == nil {
			o.N = fi.Size()
		}
	case "close":
		err = f.Close()
	case "repoint":
		if c12RepointPath != "" {
			tmp := c12RepointPath + ".new"
			if err = os.WriteFile(tmp, []byte("REPLACED!"), 0o644); err == nil {
				err = os.Rename(tmp, c12RepointPath)
			}
		}
	}
	if o.Err == "" {
		o.Err = c12Class(err)
	}
	if p, perr := f.Seek(0, io.SeekCurrent); perr == nil {
		o.Pos = p
	} else if errors.Is(perr, os.ErrClosed) {
		o.Pos = -1
	} else {
		o.Pos = -2
	}
	return o
}

// c12Reference drives a real *os.File on a scratch file with the sequence.
// c12RepointPath is the path a "repoint" step replaces ("" = the step is a no-op).
var c12RepointPath string

func c12HasRepoint(seq []c12Op) bool {
	for _, o := range seq {
		if o.Kind == "repoint" {
			return true
		}
	}
	return false
}

func c12Reference(path string, seq []c12Op) (obs []c12Obs, final []byte, err error) {
	c12RepointPath = path
	defer func() { c12RepointPath = "" }()
	if err := os.WriteFile(path, []byte(c12Init), 0o644); err != nil {
		return nil, nil, err
	}
	rf, err := os.OpenFile(path, os.O_RDWR, 0)
	if err != nil {
		return nil, nil, err
	}
	defer rf.Close()
	closed := false
	pos := int64(0)
	for s, op := range seq {
		var o c12Obs
		switch {
		case closed:
			// the statement itself is the oracle after Close
			o = c12Obs{Err: "closed", Pos: -1}
		case op.Kind == "seek" && (op.Whence < 0 || op.Whence > 2):
			// os.File passes whence 3/4 to lseek (SEEK_DATA/SEEK_HOLE on linux); the property's rule
			// is used instead: an unknown whence is rejected and does not move the offset.
			o = c12Obs{Err: "rejected", Pos: pos}
		default:
			o = c12Step(rf, op, s)
			if op.Kind == "read" && o.Err == "nil" && o.N > 0 && o.N < int64(op.N) {
				o.ShortAtEOF = true
			}
			if op.Kind == "close" {
				closed = true
			}
		}
		if o.Pos == -2 {
			return nil, nil, fmt.Errorf("reference os.File: Seek(0,1) failed after %v", op)
		}
		if o.Err == "other" {
			return nil, nil, fmt.Errorf("reference os.File: unexpected error class in step %d %v", s, op)
		}
		pos = o.Pos
		obs = append(obs, o)
	}
	final, err = os.ReadFile(path)
	return obs, final, err
}

type c12Bad struct {
	check string // pos | count | data | err | closed | content | wire-close-count | wire-after-close | final-close
	op    string
	msg   string
}

// handleOf extracts the handle a request frame carries (independent of the package's decoder;
// type numbers from draft-ietf-secsh-filexfer-02).
func c12HandleOf(f frame) (string, bool) {
	str := func(b []byte) (string, []byte, bool) {
		if len(b) < 4 {
			return "", nil, false
		}
		l := binary.BigEndian.Uint32(b)
		if uint64(l) > uint64(len(b)-4) {
			return "", nil, false
		}
		return string(b[4 : 4+l]), b[4+l:], true
	}
	if len(f.body) < 4 {
		return "", false
	}
	rest := f.body[4:]
	switch f.typ {
	case 4, 5, 6, 8, 10, 12: // CLOSE READ WRITE FSTAT FSETSTAT READDIR
		h, _, ok := str(rest)
		return h, ok
	case 200:
		name, rest, ok := str(rest)
		if ok && name == "fsync@openssh.com" {
			h, _, ok := str(rest)
			return h, ok
		}
	}
	return "", false
}

// c12Wire checks the tapped client->server bytes of one sequence.
func c12Wire(stream []byte, handle string) *c12Bad {
	frames, rest := splitFrames(stream)
	if len(rest) != 0 {
		return &c12Bad{"wire-framing", "", fmt.Sprintf("client->server stream has %d undecodable trailing bytes", len(rest))}
	}
	closes, closeAt := 0, -1
	for i, f := range frames {
		h, ok := c12HandleOf(f)
		if !ok || h != handle {
			continue
		}
		if f.typ == 4 {
			closes++
			if closeAt < 0 {
				closeAt = i
			}
			continue
		}
		if closeAt >= 0 {
			return &c12Bad{"wire-after-close", "", fmt.Sprintf("packet #%d (type %d, id %d) carries handle %q after its CLOSE (packet #%d)", i, f.typ, f.id, handle, closeAt)}
		}
	}
	if closes != 1 {
		return &c12Bad{"wire-close-count", "", fmt.Sprintf("%d CLOSE packets for handle %q on the wire, want exactly 1", closes, handle)}
	}
	return nil
}

// c12Run executes the sequence on a remote File and compares every step with the reference.
//
// A step that differs from the reference only in the resulting offset is reported and the File is
// then repositioned to the reference offset (one harness Seek), so that the rest of the sequence
// stays checked instead of being masked by the first difference; every other difference ends the
// run of the sequence.
func c12Run(e *c01Env, seq []c12Op, ref []c12Obs, refFinal []byte, out func(string)) (steps int64, bads []*c12Bad) {
	steps, posBads, bad := c12Run1(e, seq, ref, refFinal, out)
	if bad != nil {
		posBads = append(posBads, bad)
	}
	return steps, posBads
}

func c12Run1(e *c01Env, seq []c12Op, ref []c12Obs, refFinal []byte, out func(string)) (steps int64, posBads []*c12Bad, bad *c12Bad) {
	if e.cfg.Server == "os" {
		c12RepointPath = e.path
		defer func() { c12RepointPath = "" }()
	}
	if err := e.setContent([]byte(c12Init)); err != nil {
		return 0, nil, &c12Bad{"harness", "", err.Error()}
	}
	f, err := e.open()
	if err != nil {
		return 0, nil, &c12Bad{"harness", "", "open: " + err.Error()}
	}
	handle := f.handle
	closed := false
	var fp []string
	fail := func(check string, s int, format string, a ...any) *c12Bad {
		f.Close()
		return &c12Bad{check, seq[s].Kind, fmt.Sprintf("step %d %v: ", s, seq[s]) + fmt.Sprintf(format, a...)}
	}
	for s, op := range seq {
		if op.Kind == "repoint" && (closed || ref[s].Err == "closed") {
			steps++ // not a File method: nothing to observe after Close
			continue
		}
		o := c12Step(f, op, s)
		w := ref[s]
		steps++
		fp = append(fp, op.Kind+":"+o.Err)
		if closed || w.Err == "closed" {
			if o.Err != "closed" {
				return steps, posBads, fail("closed", s, "returned n=%d err-class=%s after Close, want os.ErrClosed", o.N, o.Err)
			}
			if o.N != 0 || len(o.Data) != 0 {
				return steps, posBads, fail("closed", s, "transferred %d bytes after Close", o.N)
			}
			continue
		}
		switch {
		case op.Kind == "read" && w.ShortAtEOF:
			if o.Err != "nil" && o.Err != "EOF" {
				return steps, posBads, fail("err", s, "err-class=%s, reference (os.File) %s", o.Err, w.Err)
			}
		case o.Err != w.Err:
			return steps, posBads, fail("err", s, "err-class=%s n=%d, reference (os.File) err-class=%s n=%d", o.Err, o.N, w.Err, w.N)
		}
		if o.N != w.N {
			return steps, posBads, fail("count", s, "returned %d, reference (os.File) returned %d", o.N, w.N)
		}
		if !bytes.Equal(o.Data, w.Data) {
			return steps, posBads, fail("data", s, "delivered %q, reference (os.File) delivered %q", o.Data, w.Data)
		}
		if o.Pos != w.Pos {
			dir := "behind"
			if o.Pos > w.Pos {
				dir = "ahead"
			}
			b := &c12Bad{"pos", op.Kind + ":" + dir, fmt.Sprintf("step %d %v: Seek(0, io.SeekCurrent) afterwards = %d, reference (os.File) = %d", s, op, o.Pos, w.Pos)}
			switch {
			case w.Pos == -1:
				b = &c12Bad{"closed", "seek", fmt.Sprintf("step %d %v: Close returned but Seek(0, io.SeekCurrent) still succeeds (= %d), want os.ErrClosed", s, op, o.Pos)}
			case o.Pos == -1:
				b = &c12Bad{"closed", op.Kind, fmt.Sprintf("step %d %v: the File reports os.ErrClosed although Close was not called", s, op)}
			case o.Pos == -2:
				b.msg = fmt.Sprintf("step %d %v: Seek(0, io.SeekCurrent) fails afterwards (the offset has become invalid), reference (os.File) = %d", s, op, w.Pos)
			}
			if w.Pos == -1 || o.Pos == -1 {
				f.Close()
				return steps, posBads, b
			}
			posBads = append(posBads, b)
			if _, err := f.Seek(w.Pos, io.SeekStart); err != nil {
				f.Close()
				return steps, posBads, nil
			}
		}
		if op.Kind == "close" {
			closed = true
		}
	}
	out(strings.Join(fp, " "))
	last := len(seq) - 1
	if got := e.content(); !bytes.Equal(got, refFinal) {
		return steps, posBads, fail("content", last, "after the sequence the served file holds %q, the reference file %q", got, refFinal)
	}
	if !closed {
		if err := f.Close(); err != nil {
			return steps, posBads, &c12Bad{"final-close", "close", fmt.Sprintf("Close after the sequence returned %v", err)}
		}
	}
	// after Close every method returns os.ErrClosed and nothing goes to the wire
	mark := len(e.sess.c2s.Written())
	sweep := []struct {
		name string
		call func() (int64, error)
	}{
		{"Read", func() (int64, error) { n, err := f.Read(make([]byte, 3)); return int64(n), err }},
		{"Write", func() (int64, error) { n, err := f.Write([]byte("xyz")); return int64(n), err }},
		{"ReadAt", func() (int64, error) { n, err := f.ReadAt(make([]byte, 3), 0); return int64(n), err }},
		{"WriteAt", func() (int64, error) { n, err := f.WriteAt([]byte("xyz"), 0); return int64(n), err }},
		{"Seek", func() (int64, error) { return f.Seek(0, io.SeekStart) }},
		{"SeekEnd", func() (int64, error) { return f.Seek(0, io.SeekEnd) }},
		{"ReadFrom", func() (int64, error) { return f.ReadFrom(bytes.NewReader([]byte("xyz"))) }},
		{"ReadFromWithConcurrency", func() (int64, error) { return f.ReadFromWithConcurrency(bytes.NewReader([]byte("xyz")), 2) }},
		{"WriteTo", func() (int64, error) { return f.WriteTo(&plainWriter{}) }},
		{"Truncate", func() (int64, error) { return 0, f.Truncate(0) }},
		{"Stat", func() (int64, error) { _, err := f.Stat(); return 0, err }},
		{"Chmod", func() (int64, error) { return 0, f.Chmod(0o600) }},
		{"Chown", func() (int64, error) { return 0, f.Chown(0, 0) }},
		{"Sync", func() (int64, error) { return 0, f.Sync() }},
		{"SetExtendedData", func() (int64, error) { return 0, f.SetExtendedData("", nil) }},
		{"Close", func() (int64, error) { return 0, f.Close() }},
	}
	for _, m := range sweep {
		n, err := m.call()
		steps++
		if !errors.Is(err, os.ErrClosed) || n != 0 {
			return steps, posBads, &c12Bad{"closed", strings.ToLower(m.name), fmt.Sprintf("after the sequence and Close: %s returned n=%d err=%v, want os.ErrClosed", m.name, n, err)}
		}
	}
	stream := e.sess.c2s.Written()
	if len(stream) != mark {
		return steps, posBads, &c12Bad{"wire-after-close", "", fmt.Sprintf("%d bytes were written to the wire by method calls after Close", len(stream)-mark)}
	}
	if b := c12Wire(stream, handle); b != nil {
		return steps, posBads, b
	}
	if got := e.content(); !bytes.Equal(got, refFinal) {
		return steps, posBads, &c12Bad{"content", "after-close", fmt.Sprintf("calls after Close changed the served file to %q (reference %q)", got, refFinal)}
	}
	return steps, posBads, nil
}

type c12Replay struct {
	Cfg c01Cfg  `json:"cfg"`
	Seq []c12Op `json:"seq"`
}

func c12Configs() []c01Cfg {
	var cfgs []c01Cfg
	for _, server := range []string{"rs", "os"} {
		for o := 0; o < 8; o++ {
			cfgs = append(cfgs, c01Cfg{P: c12P, K: c12K, CR: o&1 != 0, CW: o&2 != 0, FS: o&4 != 0, Server: server})
		}
	}
	return cfgs
}

func c12Part(c *reg.Ctx) *reg.Result {
	res := reg.NewResult(c.Part)
	tick, stop := bWatchdog("C12/histories", 120*time.Second)
	defer stop()
	refPath := filepath.Join(scratchDir(), "ref")
	report := func(cfg c01Cfg, seq []c12Op, bad *c12Bad) {
		key := "c12-hist:" + bad.check
		if bad.op != "" {
			key += ":" + bad.op
		}
		if bad.check == "pos" {
			// which code path moved the offset
			kind, _, _ := strings.Cut(bad.op, ":")
			switch {
			case (kind == "read" || kind == "writeto") && cfg.CR, (kind == "write" || kind == "readfrom") && cfg.CW, kind == "rfwc":
				key += ":conc"
			case kind == "read" || kind == "writeto" || kind == "write" || kind == "readfrom":
				key += ":seq"
			}
		}
		res.Violate("C12", key, fmt.Sprintf("[%v] sequence {%s} on a file holding %q: %s", cfg, c12SeqString(seq), c12Init, bad.msg), c12Replay{cfg, seq}, nil)
	}
	if c.Replay != nil {
		var r c12Replay
		if err := json.Unmarshal(c.Replay, &r); err != nil {
			res.EngineError = "bad replay record: " + err.Error()
			return res
		}
		ref, final, err := c12Reference(refPath, r.Seq)
		if err != nil {
			res.EngineError = err.Error()
			return res
		}
		e, err := c01Start(r.Cfg)
		if err != nil {
			res.EngineError = err.Error()
			return res
		}
		defer e.stop()
		n, bads := c12Run(e, r.Seq, ref, final, res.Outcome)
		res.Evaluations += n
		for _, bad := range bads {
			fmt.Fprintf(os.Stderr, "replay: [%v] {%s}: %s\n", r.Cfg, c12SeqString(r.Seq), bad.msg)
			report(r.Cfg, r.Seq, bad)
		}
		return res
	}
	depth := c.ArgInt("depth", 3)
	alpha := c12Alphabet()
	cfgs := c12Configs()
	envs := make([]*c01Env, len(cfgs))
	defer func() {
		for _, e := range envs {
			if e != nil {
				e.stop()
			}
		}
	}()
	for i, cfg := range cfgs {
		e, err := c01Start(cfg)
		if err != nil {
			res.EngineError = fmt.Sprintf("cannot start %v: %v", cfg, err)
			return res
		}
		envs[i] = e
	}
	total := int64(1)
	for d := 0; d < depth; d++ {
		total *= int64(len(alpha))
	}
	seq := make([]c12Op, depth)
	var done int64
	expired := false
	for i := int64(0); i < total && !expired; i++ {
		if !c.Mine(i) {
			continue
		}
		if done%64 == 0 && c.Expired() {
			expired = true
			break
		}
		// sequence number i in base |alphabet|, most significant digit = first call
		x := i
		for d := depth - 1; d >= 0; d-- {
			seq[d] = alpha[x%int64(len(alpha))]
			x /= int64(len(alpha))
		}
		ref, final, err := c12Reference(refPath, seq)
		if err != nil {
			res.EngineError = err.Error()
			return res
		}
		moved := false
		for _, o := range ref {
			if o.Pos != 0 {
				moved = true
			}
		}
		if moved {
			res.Distinct++
		}
		if done%4999 == 17 {
			res.Sample(map[string]any{"sequence": c12SeqString(seq)})
		}
		for ci, e := range envs {
			if cfgs[ci].Server != "os" && c12HasRepoint(seq) {
				continue // see the alphabet: by-name FSTAT is the request server's design
			}
			tick(fmt.Sprintf("%v {%s}", cfgs[ci], c12SeqString(seq)))
			n, bads := c12Run(e, seq, ref, final, res.Outcome)
			res.Evaluations += n
			for _, bad := range bads {
				if bad.check == "harness" {
					res.EngineError = fmt.Sprintf("[%v] {%s}: %s", cfgs[ci], c12SeqString(seq), bad.msg)
					return res
				}
				report(cfgs[ci], append([]c12Op(nil), seq...), bad)
			}
		}
		done++
		res.States++
		res.Transitions += int64(depth * len(envs))
	}
	res.Notes["alphabet"] = len(alpha)
	res.Notes["sequences_total_all_shards"] = total
	res.Notes["configurations"] = len(cfgs)
	if expired {
		res.Exhaustive = false
		res.Bound = fmt.Sprintf("deadline reached at depth %d: this shard completed %d of its ~%d sequences (x %d configurations); lower depths are covered by the other jobs", depth, done, total/int64(max(c.NShards, 1)), len(cfgs))
	} else {
		res.Bound = fmt.Sprintf("all %d^%d = %d sequences of depth %d (every prefix checked step by step) x %d configurations", len(alpha), depth, total, depth, len(cfgs))
	}
	return res
}

func init() {
	reg.Part("C12/histories", c12Part)
	reg.Prop(c12Prop)
}

var c12Prop = &reg.Property{
	ID:    "C12",
	Level: "model_checking",
	Rule: "all sequences of File method calls of the stated depth over a 43-symbol alphabet {Read 1|3|5, Write 1|3|5, ReadAt(3,@1)|(5,@3), WriteAt(3,@1)|(5,@4), Seek(off in {-6,-1,0,1,6}, whence in {0,1,2,3}), Seek(MaxInt64, current|end), ReadFrom(opaque|Len source of 1|5 bytes), ReadFromWithConcurrency(opaque 5 bytes, 2) [reference: os.File.ReadFrom], WriteTo, Truncate 1|8, Stat, Close, plus the environment step 'the name is re-pointed to another file' (os-backed server only)} " +
		"on a 5-byte file with MaxPacket=2, MaxConcurrentRequestsPerFile=2, x UseConcurrentReads x UseConcurrentWrites x UseFstat x {RequestServer over a byte-slice handler with OpenFile, os-backed Server}; the same sequence drives a real *os.File; after every step count, data, error class and Seek(0,io.SeekCurrent) are compared; " +
		"after the sequence: file content, every method returns os.ErrClosed after Close, exactly one CLOSE for the handle in the tapped client->server bytes and nothing carrying the handle after it; states = sequences, transitions = steps x configurations, distinct non-trivial = sequences in which the offset leaves 0",
	Assumptions: []string{
		"single caller (no call overlaps another); Close racing with other methods is the subject of the scheduled jobs of this property",
		"reference = *os.File on tmpfs; for whence outside {0,1,2} the reference is the rule 'rejected, offset unchanged' (os.File hands 3/4 to lseek as SEEK_DATA/SEEK_HOLE)",
		"not compared: at end of file File.Read may return (n>0, io.EOF) where os.File.Read returns (n, nil)",
		"error values are compared by class (nil / io.EOF / os.ErrClosed / rejected Seek)",
	},
	Jobs: func(tier string) []reg.Job {
		jobs := []reg.Job{
			{Part: "C12/histories", Build: "plain", Args: map[string]string{"depth": "3"}, Shards: 16, BudgetS: 80, Procs: 1, Label: "histories depth 3"},
		}
		if tier == "thorough" {
			jobs[0].BudgetS = 300
			jobs = append(jobs, reg.Job{Part: "C12/histories", Build: "plain", Args: map[string]string{"depth": "4"}, Shards: 16, BudgetS: 900, Procs: 1, Label: "histories depth 4"})
		}
		if c12ExtraJobs != nil {
			jobs = append(jobs, c12ExtraJobs(tier)...)
		}
		return jobs
	},
}
