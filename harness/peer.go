//go:build verif

package sftp

// The permuting reference peer (DESIGN.md §2.5): a scripted SFTP server for scheduled client
// harnesses, made of two harness threads. Its request decoder and response encoder are written
// from the draft, independently of the package's codec.

import (
	"encoding/binary"
	"fmt"
	"sort"
	"strings"

	"verif/vsched"
)

// preq is a request as decoded by the peer's own decoder.
type preq struct {
	typ    byte
	id     uint32
	path   string // path / oldpath / handle-less first string
	path2  string
	handle string
	off    uint64
	n      uint32
	data   []byte
	flags  uint32
	raw    []byte
	ext    string
}

func (r preq) String() string {
	switch r.typ {
	case sshFxpRead:
		return fmt.Sprintf("READ#%d(%s,%d,%d)", r.id, r.handle, r.off, r.n)
	case sshFxpWrite:
		return fmt.Sprintf("WRITE#%d(%s,%d,%q)", r.id, r.handle, r.off, r.data)
	case sshFxpClose, sshFxpFstat, sshFxpReaddir, sshFxpFsetstat:
		return fmt.Sprintf("%s#%d(%s)", strings.TrimPrefix(fxp(r.typ).String(), "SSH_FXP_"), r.id, r.handle)
	}
	return fmt.Sprintf("%s#%d(%s)", strings.TrimPrefix(fxp(r.typ).String(), "SSH_FXP_"), r.id, r.path)
}

type pdec struct {
	b   []byte
	bad bool
}

func (d *pdec) u32() uint32 {
	if len(d.b) < 4 {
		d.bad = true
		return 0
	}
	v := binary.BigEndian.Uint32(d.b)
	d.b = d.b[4:]
	return v
}
func (d *pdec) u64() uint64 {
	if len(d.b) < 8 {
		d.bad = true
		return 0
	}
	v := binary.BigEndian.Uint64(d.b)
	d.b = d.b[8:]
	return v
}
func (d *pdec) str() string {
	n := d.u32()
	if d.bad || uint64(n) > uint64(len(d.b)) {
		d.bad = true
		return ""
	}
	s := string(d.b[:n])
	d.b = d.b[n:]
	return s
}

// decodeRequest decodes one frame body (type byte + rest) per the SFTP v3 draft.
func decodeRequest(body []byte) (preq, bool) {
	if len(body) < 1 {
		return preq{}, false
	}
	r := preq{typ: body[0], raw: body}
	d := &pdec{b: body[1:]}
	if r.typ == sshFxpInit {
		r.id = 0
		r.n = d.u32()
		return r, !d.bad
	}
	r.id = d.u32()
	switch r.typ {
	case sshFxpOpen:
		r.path = d.str()
		r.flags = d.u32()
		d.u32() // attr flags (attribute block follows; not needed)
	case sshFxpClose, sshFxpFstat, sshFxpReaddir:
		r.handle = d.str()
	case sshFxpRead:
		r.handle = d.str()
		r.off = d.u64()
		r.n = d.u32()
	case sshFxpWrite:
		r.handle = d.str()
		r.off = d.u64()
		n := d.u32()
		if d.bad || uint64(n) != uint64(len(d.b)) {
			return r, false
		}
		r.data = append([]byte(nil), d.b...)
		r.n = n
	case sshFxpLstat, sshFxpStat, sshFxpOpendir, sshFxpRemove, sshFxpRmdir, sshFxpRealpath, sshFxpReadlink:
		r.path = d.str()
	case sshFxpMkdir, sshFxpSetstat:
		r.path = d.str()
		r.flags = d.u32()
	case sshFxpFsetstat:
		r.handle = d.str()
		r.flags = d.u32()
		if r.flags&sshFileXferAttrSize != 0 {
			r.off = d.u64()
		}
	case sshFxpRename:
		r.path = d.str()
		r.path2 = d.str()
	case sshFxpSymlink:
		r.path = d.str()
		r.path2 = d.str()
	case sshFxpExtended:
		r.ext = d.str()
	default:
		return r, false
	}
	return r, !d.bad
}

// ---- reference encoder for responses ----

func be32(b []byte, v uint32) []byte { return append(b, byte(v>>24), byte(v>>16), byte(v>>8), byte(v)) }
func be64(b []byte, v uint64) []byte { return be32(be32(b, uint32(v>>32)), uint32(v)) }
func bstr(b []byte, s string) []byte { return append(be32(b, uint32(len(s))), s...) }
func framed(typ byte, body []byte) []byte {
	b := be32(nil, uint32(1+len(body)))
	b = append(b, typ)
	return append(b, body...)
}
func respStatus(id, code uint32, msg string) []byte {
	return framed(sshFxpStatus, bstr(bstr(be32(be32(nil, id), code), msg), ""))
}
func respData(id uint32, d []byte) []byte {
	return framed(sshFxpData, append(be32(be32(nil, id), uint32(len(d))), d...))
}
func respHandle(id uint32, h string) []byte { return framed(sshFxpHandle, bstr(be32(nil, id), h)) }
func respAttrsSize(id uint32, size uint64, mode uint32) []byte {
	b := be32(nil, id)
	b = be32(b, sshFileXferAttrSize|sshFileXferAttrPermissions)
	b = be64(b, size)
	b = be32(b, mode)
	return framed(sshFxpAttrs, b)
}
func respName1(id uint32, name string) []byte {
	b := be32(be32(nil, id), 1)
	b = bstr(bstr(b, name), name)
	b = be32(b, 0)
	return framed(sshFxpName, b)
}
func respVersion(v uint32) []byte { return framed(sshFxpVersion, be32(nil, v)) }

// ---- the peer ----

func (p *vpeer) fileMode() uint32 {
	if p.FileMode != 0 {
		return p.FileMode
	}
	return 0o100644
}

type pfile struct {
	data []byte
}

type vpeer struct {
	in, out    *VPipe            // in: client->server, out: server->client
	Permute    bool              // reply order chosen by the explorer
	files      map[string]*pfile // by path
	handles    map[string]*pfile
	hpath      map[string]string
	dirs       map[string]int // directory handle -> READDIR calls answered
	dirBatches map[string]int // directory handle -> number of one-entry batches (directories named ...<digit>)
	nextH      int
	pending    []preq
	eof        bool
	Bad        []string // protocol violations observed by the peer (framing, duplicate ids, ...)
	Wire       []preq   // every request in wire order
	outst      map[uint32]bool

	FailOff   map[uint64]string // READ/WRITE at these offsets are answered with failure (value = message)
	FileMode  uint32            // mode word reported for served files (0 = a regular file, 0100644)
	ShortAt   map[uint64]int    // READ at this offset returns only that many bytes
	NoReply   map[uint32]bool
	Hook      func(p *vpeer, r preq) []byte // overrides the reply when it returns non-nil
	Replies   int
	StopAfter int  // stop answering (and hang up) after that many replies; 0 = never
	HoldEOF   bool // do not close the reply stream on client EOF (used to model a peer that lingers)
}

func newVPeer(in, out *VPipe) *vpeer {
	return &vpeer{in: in, out: out, files: map[string]*pfile{}, handles: map[string]*pfile{}, hpath: map[string]string{}, outst: map[uint32]bool{}, dirs: map[string]int{},
		FailOff: map[uint64]string{}, ShortAt: map[uint64]int{}, NoReply: map[uint32]bool{}}
}

func (p *vpeer) bad(f string, a ...any) { p.Bad = append(p.Bad, fmt.Sprintf(f, a...)) }

func (p *vpeer) start() {
	vsched.GoNamed("peer-reader", "harness", p.reader)
	vsched.GoNamed("peer-responder", "harness", p.responder)
}

func (p *vpeer) reader() {
	defer func() {
		vsched.Env("peer.eof", p, false, nil)
		p.eof = true
	}()
	for {
		f, err := readFrame(p.in)
		if err != nil {
			// a stream that ends inside a packet is a framing violation unless a write failure was injected
			if err.Error() != "EOF" && !strings.Contains(err.Error(), "closed pipe") && p.in.FailWrite == 0 {
				p.bad("framing: %v", err)
			}
			return
		}
		body := append([]byte{f.typ}, f.body...)
		r, ok := decodeRequest(body)
		if !ok {
			p.bad("request does not decode as one well-formed packet: type %d, %d bytes: %x", f.typ, len(body), body)
			return
		}
		if r.typ == sshFxpInit {
			p.out.Write(respVersion(3))
			continue
		}
		vsched.Env("peer.enqueue", p, false, nil)
		if p.outst[r.id] {
			p.bad("request id %d is used by two requests in flight", r.id)
		}
		p.outst[r.id] = true
		p.Wire = append(p.Wire, r)
		p.pending = append(p.pending, r)
	}
}

func (p *vpeer) responder() {
	for {
		vsched.Env("peer.wait", p, false, func() bool { return len(p.pending) > 0 || p.eof })
		if len(p.pending) == 0 {
			if !p.HoldEOF {
				p.out.CloseWrite()
			}
			return
		}
		i := 0
		if p.Permute {
			i = vsched.Choose("peer.pick", p, len(p.pending))
		}
		r := p.pending[i]
		p.pending = append(p.pending[:i:i], p.pending[i+1:]...)
		delete(p.outst, r.id)
		if p.NoReply[r.id] {
			continue
		}
		var reply []byte
		if p.Hook != nil {
			reply = p.Hook(p, r)
		}
		if reply == nil {
			reply = p.answer(r)
		}
		p.out.Write(reply)
		p.Replies++
		if p.StopAfter > 0 && p.Replies >= p.StopAfter {
			p.out.CloseWrite()
			return
		}
	}
}

// answer applies the request to the reference model and encodes the reply. Every reply is a
// function of the request's content, so a reply delivered to the wrong caller is recognisable.
func (p *vpeer) answer(r preq) []byte {
	switch r.typ {
	case sshFxpOpen:
		f := p.files[r.path]
		if f == nil {
			if r.flags&sshFxfCreat == 0 {
				return respStatus(r.id, sshFxNoSuchFile, "no such file "+r.path)
			}
			f = &pfile{}
			p.files[r.path] = f
		}
		if r.flags&sshFxfTrunc != 0 {
			f.data = nil
		}
		p.nextH++
		h := fmt.Sprintf("h%d", p.nextH)
		p.handles[h] = f
		p.hpath[h] = r.path
		return respHandle(r.id, h)
	case sshFxpClose:
		if _, ok := p.dirs[r.handle]; ok {
			delete(p.dirs, r.handle)
			return respStatus(r.id, sshFxOk, "")
		}
		if p.handles[r.handle] == nil {
			return respStatus(r.id, sshFxFailure, "bad handle "+r.handle)
		}
		delete(p.handles, r.handle)
		return respStatus(r.id, sshFxOk, "")
	case sshFxpRead:
		f := p.handles[r.handle]
		if f == nil {
			return respStatus(r.id, sshFxFailure, "bad handle "+r.handle)
		}
		if m, ok := p.FailOff[r.off]; ok {
			return respStatus(r.id, sshFxFailure, m)
		}
		if r.off >= uint64(len(f.data)) {
			return respStatus(r.id, sshFxEOF, "EOF")
		}
		d := f.data[r.off:]
		if uint64(len(d)) > uint64(r.n) {
			d = d[:r.n]
		}
		if s, ok := p.ShortAt[r.off]; ok && s < len(d) {
			d = d[:s]
		}
		return respData(r.id, d)
	case sshFxpWrite:
		f := p.handles[r.handle]
		if f == nil {
			return respStatus(r.id, sshFxFailure, "bad handle "+r.handle)
		}
		if m, ok := p.FailOff[r.off]; ok {
			return respStatus(r.id, sshFxFailure, m)
		}
		for uint64(len(f.data)) < r.off+uint64(len(r.data)) {
			f.data = append(f.data, 0)
		}
		copy(f.data[r.off:], r.data)
		return respStatus(r.id, sshFxOk, "")
	case sshFxpFstat:
		f := p.handles[r.handle]
		if f == nil {
			return respStatus(r.id, sshFxFailure, "bad handle "+r.handle)
		}
		return respAttrsSize(r.id, uint64(len(f.data)), p.fileMode())
	case sshFxpStat, sshFxpLstat:
		if f := p.files[r.path]; f != nil {
			return respAttrsSize(r.id, uint64(len(f.data)), p.fileMode())
		}
		if strings.HasPrefix(r.path, "/missing") {
			return respStatus(r.id, sshFxNoSuchFile, "no such file "+r.path)
		}
		// synthetic: size derived from the path so that replies to distinct requests differ
		tag := uint64(1000)
		if r.typ == sshFxpLstat {
			tag = 2000
		}
		return respAttrsSize(r.id, tag+pathTag(r.path), 0o100644)
	case sshFxpFsetstat:
		f := p.handles[r.handle]
		if f == nil {
			return respStatus(r.id, sshFxFailure, "bad handle "+r.handle)
		}
		if r.flags&sshFileXferAttrSize != 0 {
			for uint64(len(f.data)) < r.off {
				f.data = append(f.data, 0)
			}
			f.data = f.data[:r.off]
		}
		return respStatus(r.id, sshFxOk, "")
	case sshFxpOpendir:
		p.nextH++
		h := fmt.Sprintf("d%d", p.nextH)
		p.dirs[h] = 0
		// a directory whose name ends in a digit k is listed in k batches of one entry each
		if n := len(r.path); n > 0 && r.path[n-1] >= '1' && r.path[n-1] <= '9' {
			if p.dirBatches == nil {
				p.dirBatches = map[string]int{}
			}
			p.dirBatches[h] = int(r.path[n-1] - '0')
		}
		return respHandle(r.id, h)
	case sshFxpReaddir:
		n, ok := p.dirs[r.handle]
		if !ok {
			return respStatus(r.id, sshFxFailure, "bad handle "+r.handle)
		}
		p.dirs[r.handle] = n + 1
		if k, ok := p.dirBatches[r.handle]; ok {
			if n < k {
				return respName1(r.id, fmt.Sprintf("entry%d-of-%s", n, r.handle))
			}
			return respStatus(r.id, sshFxEOF, "EOF")
		}
		if n == 0 {
			return respName1(r.id, "entry-of-"+r.handle)
		}
		return respStatus(r.id, sshFxEOF, "EOF")
	case sshFxpReadlink:
		return respName1(r.id, "link:"+r.path)
	case sshFxpRealpath:
		return respName1(r.id, "/real"+r.path)
	case sshFxpMkdir, sshFxpRmdir, sshFxpRemove, sshFxpSetstat, sshFxpRename, sshFxpSymlink:
		if strings.HasPrefix(r.path, "/deny") {
			return respStatus(r.id, sshFxPermissionDenied, "denied "+r.path)
		}
		return respStatus(r.id, sshFxOk, "")
	}
	return respStatus(r.id, sshFxOPUnsupported, "unsupported")
}

func pathTag(p string) uint64 {
	var t uint64
	for _, c := range []byte(p) {
		t = t*31 + uint64(c)
	}
	return t % 997
}

func (p *vpeer) wireString() string {
	var s []string
	for _, r := range p.Wire {
		s = append(s, r.String())
	}
	return strings.Join(s, " ")
}

func (p *vpeer) fileString() string {
	var ks []string
	for k := range p.files {
		ks = append(ks, k)
	}
	sort.Strings(ks)
	var s []string
	for _, k := range ks {
		s = append(s, fmt.Sprintf("%s=%q", k, p.files[k].data))
	}
	return strings.Join(s, ",")
}

// vgroup joins harness threads through the scheduler.
type vgroup struct{ n int }

func (g *vgroup) Go(name string, f func()) {
	g.n++
	vsched.GoNamed(name, "harness", func() {
		f()
		vsched.Env("join.done", g, false, nil)
		g.n--
	})
}
func (g *vgroup) Wait() { vsched.Env("join.wait", g, false, func() bool { return g.n == 0 }) }

// cliEnv is a real Client connected to the peer through scheduler pipes.
type cliEnv struct {
	c2s, s2c *VPipe
	peer     *vpeer
	c        *Client
	err      error
	status   *cliStatus // non-nil: the client has a remote-status function
}

// cliWait, when set by a setup function, makes the client one that was built with a remote-status function (what
// NewClient over ssh does with Session.Wait): Client.Wait reports what it returns once the connection has ended.
type cliStatus struct {
	arrived bool
	err     error
}

func (w *cliStatus) wait() error {
	vsched.Env("remote.status", w, true, func() bool { return w.arrived })
	return w.err
}

func newCliEnv(setup func(e *cliEnv), opts ...ClientOption) *cliEnv {
	e := &cliEnv{c2s: NewVPipe("c2s"), s2c: NewVPipe("s2c")}
	e.peer = newVPeer(e.c2s, e.s2c)
	if setup != nil {
		setup(e)
	}
	lastCliEnv = e
	e.peer.start()
	if e.status != nil {
		e.c, e.err = newClientPipe(e.s2c, nil, e.c2s, e.status.wait, opts...)
		return e
	}
	e.c, e.err = NewClientPipe(e.s2c, e.c2s, opts...)
	return e
}
