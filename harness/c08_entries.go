//go:build verif

package sftp

// C08: decoding entry points of both codecs, and the framing oracle.

import (
	"bytes"
	"encoding"
	"encoding/binary"
	"errors"
	"fmt"
	"io"
	"net"
	"os"

	sshfx "github.com/pkg/sftp/internal/encoding/ssh/filexfer"
	"github.com/pkg/sftp/internal/encoding/ssh/filexfer/openssh"
)

// Input levels: what part of a frame an entry point expects.
//
//	'S' byte stream starting with the uint32 length     (offset 0 of a frame)
//	'T' type byte + rest                                 (offset 4)
//	'B' body after the type byte (id + fields)           (offset 5)
//	'P' packet body after the request id                 (offset 9)
//	'A' attribute / name-entry / extension blobs         (offset 9 of frames, and stand-alone blobs)
type c08entry struct {
	name    string
	level   byte
	framing bool // may allocate one maximal frame (or one allocator page) by design
	frames  int  // framing: how many frame-reading calls one evaluation makes (default 3)
	run     func(in []byte) string
}

const (
	c08value = "value"
	c08error = "error"
)

func c08res(err error) string {
	if err != nil {
		return c08error
	}
	return c08value
}

// c08reader delivers the input in chunks and counts what was consumed.
type c08reader struct {
	b     []byte
	off   int
	chunk int
	end   error // what the reader reports once the input is exhausted (nil = io.EOF)
	polls int   // reads made after the input was exhausted
}

// c08readerEnd is picked up by every reader created while it is set: the stream then ends with a
// transport error (reset, closed pipe) instead of a clean EOF.
var c08readerEnd error

func c08newReader(b []byte, chunk int) *c08reader {
	return &c08reader{b: b, chunk: chunk, end: c08readerEnd}
}

func (r *c08reader) Read(p []byte) (int, error) {
	if r.off >= len(r.b) {
		if r.polls++; r.polls > 64 {
			// a decoder that keeps reading a stream that has failed never returns: reported as a panic
			panic("the reader has reported the end of the stream 64 times and is still being read (endless retry)")
		}
		if r.end != nil {
			return 0, r.end
		}
		return 0, io.EOF
	}
	n := len(p)
	if r.chunk > 0 && n > r.chunk {
		n = r.chunk
	}
	n = copy(p[:n], r.b[r.off:])
	r.off += n
	return n, nil
}

var errC08Reset = errors.New("transport reset")
var errC08Timeout error = &net.OpError{Op: "read", Net: "pipe", Err: os.ErrDeadlineExceeded}

const c08maxFrame = 256 * 1024

// c08frameRules is the part of the statement about framing that holds for every framing entry
// point: too-long frames refused after exactly the 4 length bytes, zero-length frames refused, a
// frame longer than the available bytes is an error.  ok = the entry point returned no error.
func c08frameRules(in []byte, consumed int, ok bool) string {
	if len(in) < 4 {
		if ok {
			return "BAD: a stream of fewer than 4 bytes was accepted as a packet"
		}
		return ""
	}
	l := binary.BigEndian.Uint32(in)
	switch {
	case l > c08maxFrame:
		if ok {
			return fmt.Sprintf("BAD: frame with declared length %d (> 256 KiB) accepted", l)
		}
		if consumed != 4 {
			return fmt.Sprintf("BAD: frame with declared length %d (> 256 KiB) refused only after %d bytes were read (want exactly 4)", l, consumed)
		}
	case l == 0:
		if ok {
			return "BAD: zero-length frame accepted"
		}
	case int64(len(in)-4) < int64(l):
		if ok {
			return fmt.Sprintf("BAD: declared length %d but only %d bytes available: delivered short instead of an error", l, len(in)-4)
		}
	}
	return ""
}

func c08recv(in []byte, chunk int, alloc *allocator) string {
	r := c08newReader(in, chunk)
	typ, payload, err := recvPacket(r, alloc, 0)
	if bad := c08frameRules(in, r.off, err == nil); bad != "" {
		return bad
	}
	if len(in) >= 4 {
		l := binary.BigEndian.Uint32(in)
		if l >= 1 && l <= c08maxFrame && int64(len(in)-4) >= int64(l) {
			// a complete, legal frame: must be delivered whole
			if err != nil {
				return "BAD: complete legal frame refused: " + err.Error()
			}
			if byte(typ) != in[4] || !bytes.Equal(payload, in[5:4+l]) || r.off != int(4+l) {
				return fmt.Sprintf("BAD: complete frame of length %d delivered as type %d with %d payload bytes after reading %d bytes", l, typ, len(payload), r.off)
			}
		}
	}
	return c08res(err)
}

// c08fxBufs are the backing slices a caller may hand to the filexfer ReadFrom methods: none, a tiny
// one, one of exactly the frame limit and a pooled one larger than the limit (allocated once, so the
// allocation measurement is not disturbed). The framing rules hold whatever the caller passes.
var c08fxBufs = [][]byte{nil, make([]byte, 0, 4), make([]byte, 0, c08maxFrame), make([]byte, 16, 2*c08maxFrame+64)}

func c08fxRaw(in []byte, chunk int) string {
	first := ""
	for i, b := range c08fxBufs {
		v := c08fxRaw1(in, chunk, b)
		if len(v) > 4 && v[:4] == "BAD:" {
			return fmt.Sprintf("%s (caller's buffer: len %d cap %d)", v, len(b), cap(b))
		}
		if i == 0 {
			first = v
		} else if v != first {
			return fmt.Sprintf("BAD: outcome depends on the caller's buffer: %s with none, %s with len %d cap %d", first, v, len(b), cap(b))
		}
	}
	return first
}

func c08fxReq(in []byte, chunk int) string {
	first := ""
	for i, b := range c08fxBufs {
		v := c08fxReq1(in, chunk, b)
		if len(v) > 4 && v[:4] == "BAD:" {
			return fmt.Sprintf("%s (caller's buffer: len %d cap %d)", v, len(b), cap(b))
		}
		if i == 0 {
			first = v
		} else if v != first {
			return fmt.Sprintf("BAD: outcome depends on the caller's buffer: %s with none, %s with len %d cap %d", first, v, len(b), cap(b))
		}
	}
	return first
}

func c08fxRaw1(in []byte, chunk int, buf []byte) string {
	r := c08newReader(in, chunk)
	var p sshfx.RawPacket
	err := p.ReadFrom(r, buf, c08maxFrame)
	if bad := c08frameRules(in, r.off, err == nil); bad != "" {
		return bad
	}
	if len(in) >= 4 {
		l := binary.BigEndian.Uint32(in)
		complete := l >= 1 && l <= c08maxFrame && int64(len(in)-4) >= int64(l)
		if err == nil {
			if !complete || l < 5 || byte(p.PacketType) != in[4] || p.RequestID != binary.BigEndian.Uint32(in[5:]) || !bytes.Equal(p.Data.Bytes(), in[9:4+l]) || r.off != int(4+l) {
				return fmt.Sprintf("BAD: frame of declared length %d (%d available) delivered as type %d id %d with %d body bytes after reading %d bytes", l, len(in)-4, p.PacketType, p.RequestID, p.Data.Len(), r.off)
			}
		} else if complete && l >= 5 {
			return "BAD: complete legal frame refused: " + err.Error()
		}
	}
	return c08res(err)
}

func c08fxReq1(in []byte, chunk int, buf []byte) string {
	r := c08newReader(in, chunk)
	var p sshfx.RequestPacket
	err := p.ReadFrom(r, buf, c08maxFrame)
	if bad := c08frameRules(in, r.off, err == nil); bad != "" {
		return bad
	}
	return c08res(err)
}

// both deliveries must obey the rules; the verdict string is that of the first
func c08twice(f func(chunk int) string) string {
	a := f(0)
	if b := f(3); len(b) > 4 && b[:4] == "BAD:" {
		return b + " (reader delivering 3 bytes per Read)"
	}
	// the same bytes followed by a transport error instead of EOF (a panic here is caught by the runner)
	c08readerEnd = errC08Reset
	b := f(0)
	c08readerEnd = nil
	if len(b) > 4 && b[:4] == "BAD:" {
		return b + " (stream ending with a transport error)"
	}
	// ... and with a timeout-class error that every later read repeats (an expired read deadline)
	c08readerEnd = errC08Timeout
	b = f(0)
	c08readerEnd = nil
	if len(b) > 4 && b[:4] == "BAD:" {
		return b + " (stream ending with a timeout error)"
	}
	return a
}

func c08postDecode(p requestPacket) {
	// what the servers do next with the attribute bytes of a decoded request
	switch q := p.(type) {
	case *sshFxpOpenPacket:
		q.unmarshalFileStat(q.Flags)
	case *sshFxpSetstatPacket:
		q.unmarshalFileStat(q.Flags)
	case *sshFxpFsetstatPacket:
		q.unmarshalFileStat(q.Flags)
	}
}

var c08flagSubsets = func() []uint32 {
	var r []uint32
	for sub := 0; sub < 32; sub++ {
		f := uint32(sub & 0xf)
		if sub&16 != 0 {
			f |= 0x80000000
		}
		r = append(r, f)
	}
	return r
}()

var c08alloc = newAllocator()

func c08entries() []c08entry {
	c06registerExtensions()
	var es []c08entry
	add := func(name string, level byte, run func(in []byte) string) {
		es = append(es, c08entry{name: name, level: level, run: run})
	}
	// ---------------- wire codec (packet.go, packet-typing.go, request-attrs.go) ----------------
	es = append(es, c08entry{name: "wire.recvPacket", level: 'S', framing: true, run: func(in []byte) string {
		return c08twice(func(chunk int) string { return c08recv(in, chunk, nil) })
	}})
	es = append(es, c08entry{name: "wire.recvPacket(allocator)", level: 'S', framing: true, run: func(in []byte) string {
		// one allocator per process, pages released after every packet, as Server.Serve does
		return c08twice(func(chunk int) string {
			r := c08recv(in, chunk, c08alloc)
			c08alloc.ReleasePages(0)
			return r
		})
	}})
	es = append(es, c08entry{name: "wire.recvPacket+makePacket", level: 'S', framing: true, run: func(in []byte) string {
		typ, payload, err := recvPacket(&c08reader{b: in}, nil, 0)
		if err != nil {
			return c08error
		}
		p, err := makePacket(rxPacket{pktType: typ, pktBytes: payload})
		if err != nil {
			return c08error
		}
		c08postDecode(p)
		return c08value
	}})
	add("wire.makePacket", 'T', func(in []byte) string {
		if len(in) == 0 {
			return c08error
		}
		p, err := makePacket(rxPacket{pktType: fxp(in[0]), pktBytes: in[1:]})
		if err != nil {
			return c08error
		}
		c08postDecode(p)
		return c08value
	})
	ub := func(name string, mk func() encoding.BinaryUnmarshaler) {
		add("wire."+name+".UnmarshalBinary", 'B', func(in []byte) string {
			p := mk()
			if err := p.UnmarshalBinary(in); err != nil {
				return c08error
			}
			if rp, ok := p.(requestPacket); ok {
				c08postDecode(rp)
			}
			return c08value
		})
	}
	ub("sshFxInitPacket", func() encoding.BinaryUnmarshaler { return &sshFxInitPacket{} })
	ub("sshFxpReaddirPacket", func() encoding.BinaryUnmarshaler { return &sshFxpReaddirPacket{} })
	ub("sshFxpOpendirPacket", func() encoding.BinaryUnmarshaler { return &sshFxpOpendirPacket{} })
	ub("sshFxpLstatPacket", func() encoding.BinaryUnmarshaler { return &sshFxpLstatPacket{} })
	ub("sshFxpStatPacket", func() encoding.BinaryUnmarshaler { return &sshFxpStatPacket{} })
	ub("sshFxpFstatPacket", func() encoding.BinaryUnmarshaler { return &sshFxpFstatPacket{} })
	ub("sshFxpClosePacket", func() encoding.BinaryUnmarshaler { return &sshFxpClosePacket{} })
	ub("sshFxpRemovePacket", func() encoding.BinaryUnmarshaler { return &sshFxpRemovePacket{} })
	ub("sshFxpRmdirPacket", func() encoding.BinaryUnmarshaler { return &sshFxpRmdirPacket{} })
	ub("sshFxpSymlinkPacket", func() encoding.BinaryUnmarshaler { return &sshFxpSymlinkPacket{} })
	ub("sshFxpReadlinkPacket", func() encoding.BinaryUnmarshaler { return &sshFxpReadlinkPacket{} })
	ub("sshFxpRealpathPacket", func() encoding.BinaryUnmarshaler { return &sshFxpRealpathPacket{} })
	ub("sshFxpOpenPacket", func() encoding.BinaryUnmarshaler { return &sshFxpOpenPacket{} })
	ub("sshFxpReadPacket", func() encoding.BinaryUnmarshaler { return &sshFxpReadPacket{} })
	ub("sshFxpRenamePacket", func() encoding.BinaryUnmarshaler { return &sshFxpRenamePacket{} })
	ub("sshFxpWritePacket", func() encoding.BinaryUnmarshaler { return &sshFxpWritePacket{} })
	ub("sshFxpMkdirPacket", func() encoding.BinaryUnmarshaler { return &sshFxpMkdirPacket{} })
	ub("sshFxpSetstatPacket", func() encoding.BinaryUnmarshaler { return &sshFxpSetstatPacket{} })
	ub("sshFxpFsetstatPacket", func() encoding.BinaryUnmarshaler { return &sshFxpFsetstatPacket{} })
	ub("sshFxpDataPacket", func() encoding.BinaryUnmarshaler { return &sshFxpDataPacket{} })
	ub("sshFxpExtendedPacket", func() encoding.BinaryUnmarshaler { return &sshFxpExtendedPacket{} })
	ub("sshFxpExtendedPacketStatVFS", func() encoding.BinaryUnmarshaler { return &sshFxpExtendedPacketStatVFS{} })
	ub("sshFxpExtendedPacketPosixRename", func() encoding.BinaryUnmarshaler { return &sshFxpExtendedPacketPosixRename{} })
	ub("sshFxpExtendedPacketHardlink", func() encoding.BinaryUnmarshaler { return &sshFxpExtendedPacketHardlink{} })

	add("wire.unmarshalAttrs", 'A', func(in []byte) string {
		_, _, err := unmarshalAttrs(in)
		return c08res(err)
	})
	for _, fl := range c08flagSubsets {
		fl := fl
		add(fmt.Sprintf("wire.unmarshalFileStat[%#x]", fl), 'A', func(in []byte) string {
			_, _, err := unmarshalFileStat(fl, in)
			return c08res(err)
		})
	}
	add("wire.unmarshalExtensionPair", 'A', func(in []byte) string {
		_, _, err := unmarshalExtensionPair(in)
		return c08res(err)
	})
	add("wire.Request.Attributes+AttrFlags", 'A', func(in []byte) string {
		// the first four bytes are taken as the request's flags word (any value), the rest as its attribute bytes
		r := &Request{}
		if len(in) >= 4 {
			r.Flags, r.Attrs = binary.BigEndian.Uint32(in), in[4:]
		} else {
			r.Flags, r.Attrs = 0x8000000f, in
		}
		_ = r.AttrFlags()
		_ = r.Pflags()
		if r.Attributes() == nil {
			return c08error
		}
		return c08value
	})
	add("wire.unmarshalUint32Safe", 'A', func(in []byte) string { _, _, err := unmarshalUint32Safe(in); return c08res(err) })
	add("wire.unmarshalUint64Safe", 'A', func(in []byte) string { _, _, err := unmarshalUint64Safe(in); return c08res(err) })
	add("wire.unmarshalStringSafe", 'A', func(in []byte) string { _, _, err := unmarshalStringSafe(in); return c08res(err) })

	// ---------------- filexfer codec ----------------
	es = append(es, c08entry{name: "fx.RawPacket.ReadFrom", level: 'S', framing: true, frames: 8, run: func(in []byte) string {
		return c08twice(func(chunk int) string { return c08fxRaw(in, chunk) })
	}})
	es = append(es, c08entry{name: "fx.RequestPacket.ReadFrom", level: 'S', framing: true, frames: 8, run: func(in []byte) string {
		return c08twice(func(chunk int) string { return c08fxReq(in, chunk) })
	}})
	add("fx.RawPacket.UnmarshalBinary", 'T', func(in []byte) string { var p sshfx.RawPacket; return c08res(p.UnmarshalBinary(in)) })
	add("fx.RequestPacket.UnmarshalBinary", 'T', func(in []byte) string { var p sshfx.RequestPacket; return c08res(p.UnmarshalBinary(in)) })
	add("fx.InitPacket.UnmarshalBinary", 'B', func(in []byte) string { var p sshfx.InitPacket; return c08res(p.UnmarshalBinary(in)) })
	add("fx.VersionPacket.UnmarshalBinary", 'B', func(in []byte) string { var p sshfx.VersionPacket; return c08res(p.UnmarshalBinary(in)) })
	body := func(name string, mk func() sshfx.Packet) {
		add("fx."+name+".UnmarshalPacketBody", 'P', func(in []byte) string {
			return c08res(mk().UnmarshalPacketBody(sshfx.NewBuffer(in)))
		})
	}
	body("OpenPacket", func() sshfx.Packet { return new(sshfx.OpenPacket) })
	body("ClosePacket", func() sshfx.Packet { return new(sshfx.ClosePacket) })
	body("ReadPacket", func() sshfx.Packet { return new(sshfx.ReadPacket) })
	body("WritePacket", func() sshfx.Packet { return new(sshfx.WritePacket) })
	body("LStatPacket", func() sshfx.Packet { return new(sshfx.LStatPacket) })
	body("FStatPacket", func() sshfx.Packet { return new(sshfx.FStatPacket) })
	body("SetstatPacket", func() sshfx.Packet { return new(sshfx.SetstatPacket) })
	body("FSetstatPacket", func() sshfx.Packet { return new(sshfx.FSetstatPacket) })
	body("OpenDirPacket", func() sshfx.Packet { return new(sshfx.OpenDirPacket) })
	body("ReadDirPacket", func() sshfx.Packet { return new(sshfx.ReadDirPacket) })
	body("RemovePacket", func() sshfx.Packet { return new(sshfx.RemovePacket) })
	body("MkdirPacket", func() sshfx.Packet { return new(sshfx.MkdirPacket) })
	body("RmdirPacket", func() sshfx.Packet { return new(sshfx.RmdirPacket) })
	body("RealPathPacket", func() sshfx.Packet { return new(sshfx.RealPathPacket) })
	body("StatPacket", func() sshfx.Packet { return new(sshfx.StatPacket) })
	body("RenamePacket", func() sshfx.Packet { return new(sshfx.RenamePacket) })
	body("ReadLinkPacket", func() sshfx.Packet { return new(sshfx.ReadLinkPacket) })
	body("SymlinkPacket", func() sshfx.Packet { return new(sshfx.SymlinkPacket) })
	body("ExtendedPacket", func() sshfx.Packet { return new(sshfx.ExtendedPacket) })
	body("ExtendedReplyPacket", func() sshfx.Packet { return new(sshfx.ExtendedReplyPacket) })
	body("StatusPacket", func() sshfx.Packet { return new(sshfx.StatusPacket) })
	body("HandlePacket", func() sshfx.Packet { return new(sshfx.HandlePacket) })
	body("DataPacket", func() sshfx.Packet { return new(sshfx.DataPacket) })
	body("NamePacket", func() sshfx.Packet { return new(sshfx.NamePacket) })
	body("AttrsPacket", func() sshfx.Packet { return new(sshfx.AttrsPacket) })
	body("openssh.StatVFSExtendedReplyPacket", func() sshfx.Packet { return new(openssh.StatVFSExtendedReplyPacket) })

	add("fx.Attributes.UnmarshalBinary", 'A', func(in []byte) string { var a sshfx.Attributes; return c08res(a.UnmarshalBinary(in)) })
	for _, fl := range c08flagSubsets {
		fl := fl
		add(fmt.Sprintf("fx.Attributes.XXX_UnmarshalByFlags[%#x]", fl), 'A', func(in []byte) string {
			var a sshfx.Attributes
			return c08res(a.XXX_UnmarshalByFlags(fl, sshfx.NewBuffer(in)))
		})
	}
	add("fx.NameEntry.UnmarshalBinary", 'A', func(in []byte) string { var e sshfx.NameEntry; return c08res(e.UnmarshalBinary(in)) })
	add("fx.ExtendedAttribute.UnmarshalBinary", 'A', func(in []byte) string { var e sshfx.ExtendedAttribute; return c08res(e.UnmarshalBinary(in)) })
	add("fx.ExtensionPair.UnmarshalBinary", 'A', func(in []byte) string { var e sshfx.ExtensionPair; return c08res(e.UnmarshalBinary(in)) })
	add("fx.Buffer.UnmarshalBinary", 'A', func(in []byte) string { var b sshfx.Buffer; return c08res(b.UnmarshalBinary(in)) })
	ext := func(name string, mk func() encoding.BinaryUnmarshaler) {
		add("fx.openssh."+name+".UnmarshalBinary", 'A', func(in []byte) string { return c08res(mk().UnmarshalBinary(in)) })
	}
	ext("StatVFSExtendedPacket", func() encoding.BinaryUnmarshaler { return new(openssh.StatVFSExtendedPacket) })
	ext("FStatVFSExtendedPacket", func() encoding.BinaryUnmarshaler { return new(openssh.FStatVFSExtendedPacket) })
	ext("POSIXRenameExtendedPacket", func() encoding.BinaryUnmarshaler { return new(openssh.POSIXRenameExtendedPacket) })
	ext("HardlinkExtendedPacket", func() encoding.BinaryUnmarshaler { return new(openssh.HardlinkExtendedPacket) })
	ext("FSyncExtendedPacket", func() encoding.BinaryUnmarshaler { return new(openssh.FSyncExtendedPacket) })
	ext("StatVFSExtendedReplyPacket", func() encoding.BinaryUnmarshaler { return new(openssh.StatVFSExtendedReplyPacket) })
	return es
}
