//go:build verif

package sftp

// C16 "A directory listing returns every entry exactly once" (DESIGN.md §3 C16). Engine B: a real
// Client lists a directory through the real RequestServer (handler listers of every
// contract-conforming behaviour, the package's own listerat, the in-memory example handler) and
// through the real os-backed Server (scratch directory), for every directory size across the
// batch boundaries and every batch size. Oracle: the multiset of (name, size, mode, mtime, uid,
// gid) returned by Client.ReadDir equals the directory content without "." and "..", and the
// call terminates (decided without a clock: the lister and the client's writer carry hard
// call/packet budgets; exceeding one is the violation "non-terminating listing").

import (
	"errors"
	"fmt"
	"io"
	"os"
	"path/filepath"
	"sort"
	"strings"
	"syscall"
	"time"

	"verif/reg"
)

type c16Info struct {
	name     string
	size     int64
	mode     os.FileMode
	mtime    int64
	uid, gid uint32
	ext      string // extended attribute data ("" = none): entries that carry one are followed by further entries in a batch
	sysToo   bool   // Sys() is a *syscall.Stat_t naming another owner (a lister serving the local disk under remapped owners): Uid()/Gid() are what the lister reports
}

func (i c16Info) Extended() []StatExtended {
	if i.ext == "" {
		return nil
	}
	return []StatExtended{{ExtType: "note@verif", ExtData: i.ext}, {ExtType: "second@verif", ExtData: ""}}
}
func (i c16Info) Name() string       { return i.name }
func (i c16Info) Size() int64        { return i.size }
func (i c16Info) Mode() os.FileMode  { return i.mode }
func (i c16Info) ModTime() time.Time { return time.Unix(i.mtime, 0) }
func (i c16Info) IsDir() bool        { return i.mode.IsDir() }
func (i c16Info) Sys() any {
	if i.sysToo {
		return &syscall.Stat_t{Uid: 70000 + i.uid, Gid: 80000 + i.gid}
	}
	return nil
}
func (i c16Info) Uid() uint32 { return i.uid }
func (i c16Info) Gid() uint32 { return i.gid }

func (i c16Info) tuple() string {
	return fmt.Sprintf("%q size=%d mode=%v mtime=%d uid=%d gid=%d ext=%q", i.name, i.size, i.mode, i.mtime, i.uid, i.gid, i.ext)
}

// c16Names: entry names with spaces, UTF-8, non-UTF-8 bytes, leading dots (which must NOT be
// dropped: only "." and ".." are), then plain ones. No '/' and no empty name (not legal entries).
var c16NamePool = []string{"a b", "...", ".a", " lead", "trail ", "\xc3\xbc", "\xe6\x97\xa5\xe6\x9c\xac", "\xff\xfe", "x\xffy", "..a", "a.", "-", "~", "\\", "a\tb", "\xe5\x90\x8d\x80", ". ", ".. "}

// c16NameLen > 0 pads every plain name to that length (long names make one batch marshal to far
// more than 32 KiB).
var c16NameLen int

func c16Name(i int) string {
	if i < len(c16NamePool) && c16NameLen == 0 {
		return c16NamePool[i]
	}
	n := fmt.Sprintf("f%04d", i)
	if c16NameLen > len(n) {
		n += strings.Repeat("n", c16NameLen-len(n))
	}
	return n
}

func c16Entry(i int) c16Info {
	e := c16Info{name: c16Name(i), size: int64(1000 + i), mode: 0o644, mtime: 1000000000 + int64(i), uid: uint32(i), gid: uint32(2*i + 1)}
	if i%4 == 2 {
		e.ext = fmt.Sprintf("data of entry %d", i)
	}
	e.sysToo = i%3 == 0
	switch i % 5 {
	case 1:
		e.mode = os.ModeDir | 0o755
	case 3:
		e.mode = os.ModeSymlink | 0o777
	case 4:
		e.mode = 0o600
	}
	return e
}

// c16Dir builds the lister content: n real entries plus "." and ".." placed per dots:
// "none", "first", "last", "split" (one first, one last), "mid" (both in the middle).
func c16Dir(n int, dots string) (all []os.FileInfo, want []string) {
	var real []os.FileInfo
	for i := 0; i < n; i++ {
		e := c16Entry(i)
		real = append(real, e)
		want = append(want, e.tuple())
	}
	dot := c16Info{name: ".", mode: os.ModeDir | 0o755, mtime: 1}
	dotdot := c16Info{name: "..", mode: os.ModeDir | 0o755, mtime: 2}
	switch dots {
	case "none":
		all = real
	case "first":
		all = append([]os.FileInfo{dot, dotdot}, real...)
	case "last":
		all = append(append([]os.FileInfo{}, real...), dot, dotdot)
	case "split":
		all = append(append([]os.FileInfo{dot}, real...), dotdot)
	case "mid":
		h := n / 2
		all = append(append(append([]os.FileInfo{}, real[:h]...), dot, dotdot), real[h:]...)
	}
	sort.Strings(want)
	return all, want
}

var c16Dots = []string{"none", "first", "last", "split", "mid"}

// c16Lister implements the contract-conforming ListAt behaviours.
type c16Lister struct {
	infos    []os.FileInfo
	behave   string
	calls    int
	budget   int
	tripped  bool
	offsets  []int64
	closed   int
	badCalls []string
}

var c16Behaviours = []string{"eof-with-last", "eof-next-call", "one-per-call", "eof-iff-short", "pkg-listerat"}

func (l *c16Lister) ListAt(out []os.FileInfo, off int64) (int, error) {
	l.calls++
	l.offsets = append(l.offsets, off)
	if l.calls > l.budget {
		l.tripped = true
		return 0, errors.New("c16: ListAt call budget exhausted (listing does not terminate)")
	}
	if off < 0 {
		l.badCalls = append(l.badCalls, fmt.Sprintf("ListAt at negative offset %d", off))
		return 0, errors.New("c16: negative offset")
	}
	if len(out) == 0 {
		l.badCalls = append(l.badCalls, "ListAt with an empty buffer")
	}
	if l.behave == "pkg-listerat" {
		return listerat(l.infos).ListAt(out, off)
	}
	if off >= int64(len(l.infos)) {
		return 0, io.EOF
	}
	rest := l.infos[off:]
	switch l.behave {
	case "eof-with-last": // EOF together with the last entries, also when the buffer is exactly filled
		n := copy(out, rest)
		if n == len(rest) {
			return n, io.EOF
		}
		return n, nil
	case "eof-next-call": // never EOF together with entries
		return copy(out, rest), nil
	case "one-per-call": // short batches of one entry
		if len(out) == 0 {
			return 0, nil
		}
		out[0] = rest[0]
		return 1, nil
	case "eof-iff-short": // strings.Reader style: EOF iff the buffer could not be filled
		n := copy(out, rest)
		if n < len(out) {
			return n, io.EOF
		}
		return n, nil
	}
	panic("c16 behaviour " + l.behave)
}

func (l *c16Lister) Close() error { l.closed++; return nil }

type c16Handler struct {
	lister *c16Lister
	opens  int
}

func (h *c16Handler) Filelist(r *Request) (ListerAt, error) {
	if r.Method != "List" {
		return nil, os.ErrNotExist
	}
	h.opens++
	return h.lister, nil
}
func (h *c16Handler) Fileread(*Request) (io.ReaderAt, error)  { return nil, os.ErrPermission }
func (h *c16Handler) Filewrite(*Request) (io.WriterAt, error) { return nil, os.ErrPermission }
func (h *c16Handler) Filecmd(*Request) error                  { return os.ErrPermission }

// c16LimitWriter gives the client a packet budget: a listing loop that never ends runs into it.
type c16LimitWriter struct {
	w       io.WriteCloser
	n       int
	limit   int
	tripped bool
}

func (l *c16LimitWriter) Write(b []byte) (int, error) {
	l.n++
	if l.n > l.limit {
		l.tripped = true
		return 0, errors.New("c16: client packet budget exhausted (listing does not terminate)")
	}
	return l.w.Write(b)
}
func (l *c16LimitWriter) Close() error { return l.w.Close() }

func c16Client(s *bSession, limit int) (*Client, *c16LimitWriter, error) {
	lw := &c16LimitWriter{w: s.c2s, limit: limit}
	c, err := NewClientPipe(s.s2c, lw)
	return c, lw, err
}

func c16Tuples(fis []os.FileInfo) []string {
	var out []string
	for _, fi := range fis {
		t := c16Info{name: fi.Name(), size: fi.Size(), mode: fi.Mode(), mtime: fi.ModTime().Unix()}
		if st, ok := fi.Sys().(*FileStat); ok && st != nil {
			t.uid, t.gid = st.UID, st.GID
			if len(st.Extended) > 0 {
				t.ext = st.Extended[0].ExtData
				if len(st.Extended) != 2 || st.Extended[0].ExtType != "note@verif" || st.Extended[1].ExtType != "second@verif" || st.Extended[1].ExtData != "" {
					t.ext = fmt.Sprintf("MANGLED %v", st.Extended)
				}
			}
		}
		out = append(out, t.tuple())
	}
	sort.Strings(out)
	return out
}

// c16Diff explains the difference of two sorted multisets.
func c16Diff(got, want []string) string {
	cnt := map[string]int{}
	for _, w := range want {
		cnt[w]++
	}
	for _, g := range got {
		cnt[g]--
	}
	var lost, extra []string
	for k, v := range cnt {
		for ; v > 0; v-- {
			lost = append(lost, k)
		}
		for ; v < 0; v++ {
			extra = append(extra, k)
		}
	}
	sort.Strings(lost)
	sort.Strings(extra)
	if len(lost) == 0 && len(extra) == 0 {
		return ""
	}
	trim := func(s []string) []string {
		if len(s) > 4 {
			return append(s[:4:4], fmt.Sprintf("... %d more", len(s)-4))
		}
		return s
	}
	return fmt.Sprintf("%d returned for %d entries; missing %v; duplicated or foreign %v", len(got), len(want), trim(lost), trim(extra))
}

// c16RunRS runs one request-server case. MaxFilelist is a package variable: saved/restored, and
// cases of one process run strictly one after the other.
func c16RunRS(B int64, n int, behave, dots string) (key, msg string, outcome string) {
	saved := MaxFilelist
	MaxFilelist = B
	defer func() { MaxFilelist = saved }()
	all, want := c16Dir(n, dots)
	budget := 10*(len(all)+int(B)+2) + 10
	l := &c16Lister{infos: all, behave: behave, budget: budget}
	h := &c16Handler{lister: l}
	s := bServeRS(Handlers{h, h, h, h})
	c, lw, err := c16Client(s, 2*budget+20)
	if err != nil {
		s.Stop(nil)
		return "c16-rs:handshake", fmt.Sprintf("client handshake: %v", err), ""
	}
	fis, err := c.ReadDir("/d")
	s.Stop(c)
	outcome = fmt.Sprintf("rs %s: %d ListAt calls for %d entries at batch %d", behave, l.calls, len(all), B)
	switch {
	case l.tripped || lw.tripped:
		return "c16-rs:non-terminating", fmt.Sprintf("non-terminating listing: %d ListAt calls (budget %d) at offsets %v..., client sent %d packets; ReadDir returned %d entries, err=%v", l.calls, budget, l.offsets[:min(len(l.offsets), 12)], lw.n, len(fis), err), outcome
	case err != nil:
		return "c16-rs:error", fmt.Sprintf("ReadDir failed: %v (ListAt offsets %v)", err, l.offsets), outcome
	case len(l.badCalls) > 0:
		return "c16-rs:badcall", strings.Join(l.badCalls, "; "), outcome
	}
	if d := c16Diff(c16Tuples(fis), want); d != "" {
		return "c16-rs:content", fmt.Sprintf("%s (ListAt offsets %v)", d, l.offsets), outcome
	}
	for _, fi := range fis {
		if fi.Name() == "." || fi.Name() == ".." {
			return "c16-rs:dots", fmt.Sprintf("ReadDir returned the entry %q", fi.Name()), outcome
		}
	}
	if l.closed != 1 || h.opens != 1 {
		return "c16-rs:lister-lifecycle", fmt.Sprintf("lister obtained %d times, closed %d times", h.opens, l.closed), outcome
	}
	return "", "", outcome
}

// c16MakeTree creates n entries (files of several sizes/modes/owners, directories, symlinks) with
// fixed mtimes in a fresh scratch directory and returns it.
func c16MakeTree(n int) (string, error) {
	dir := filepath.Join(scratchDir(), "d")
	if err := os.Mkdir(dir, 0o755); err != nil {
		return "", err
	}
	for i := 0; i < n; i++ {
		p := filepath.Join(dir, c16Name(i))
		var err error
		switch i % 7 {
		case 2:
			err = os.Mkdir(p, 0o750)
		case 5:
			err = os.Symlink("target-"+fmt.Sprint(i), p)
		default:
			err = os.WriteFile(p, make([]byte, i%11), os.FileMode(0o600+i%64))
			if err == nil {
				err = os.Chmod(p, os.FileMode(0o600+i%64))
			}
		}
		if err != nil {
			return "", err
		}
		if i%7 != 5 {
			if i%3 == 0 {
				if err := os.Chown(p, 1000+i, 2000+i); err != nil {
					return "", err
				}
			}
			mt := time.Unix(1000000000+int64(i)*3600, 0)
			if err := os.Chtimes(p, mt, mt); err != nil {
				return "", err
			}
		}
	}
	return dir, nil
}

// c16WantOS describes the directory with package os alone.
func c16WantOS(dir string) ([]string, error) {
	des, err := os.ReadDir(dir)
	if err != nil {
		return nil, err
	}
	var out []string
	for _, de := range des {
		fi, err := os.Lstat(filepath.Join(dir, de.Name()))
		if err != nil {
			return nil, err
		}
		t := c16Info{name: de.Name(), size: fi.Size(), mode: fi.Mode(), mtime: fi.ModTime().Unix()}
		t.uid, t.gid = c16Owner(fi)
		out = append(out, t.tuple())
	}
	sort.Strings(out)
	return out, nil
}

func c16Owner(fi os.FileInfo) (uint32, uint32) {
	if st, ok := fi.Sys().(*syscall.Stat_t); ok {
		return st.Uid, st.Gid
	}
	return 0, 0
}

func c16RunOS(n int, alloc, viaWorkdir bool) (key, msg, outcome string) {
	dir, err := c16MakeTree(n)
	if err != nil {
		return "c16-os:setup", fmt.Sprintf("scratch tree: %v", err), ""
	}
	defer os.RemoveAll(filepath.Dir(dir))
	want, err := c16WantOS(dir)
	if err != nil || len(want) != n {
		return "c16-os:setup", fmt.Sprintf("reference listing: %d entries, %v", len(want), err), ""
	}
	var opts []ServerOption
	if alloc {
		opts = append(opts, WithAllocator())
	}
	target := dir
	if viaWorkdir {
		opts = append(opts, WithServerWorkingDirectory(filepath.Dir(dir)))
		target = "d"
	}
	s := bServeOS(opts...)
	limit := 10*(n/128+3) + 20
	c, lw, err := c16Client(s, limit)
	if err != nil {
		s.Stop(nil)
		return "c16-os:handshake", fmt.Sprintf("client handshake: %v", err), ""
	}
	fis, err := c.ReadDir(target)
	sent := lw.n
	s.Stop(c)
	outcome = fmt.Sprintf("os: %d packets", sent)
	switch {
	case lw.tripped:
		return "c16-os:non-terminating", fmt.Sprintf("non-terminating listing of %d entries: the client sent more than %d packets; ReadDir returned %d entries, err=%v", n, limit, len(fis), err), outcome
	case err != nil:
		return "c16-os:error", fmt.Sprintf("ReadDir of %d entries failed: %v", n, err), outcome
	}
	if d := c16Diff(c16Tuples(fis), want); d != "" {
		return "c16-os:content", d, outcome
	}
	return "", "", outcome
}

// c16RunInMem lists a directory of the package's example handler (its own listerat).
func c16RunInMem(B int64, n int) (key, msg, outcome string) {
	saved := MaxFilelist
	MaxFilelist = B
	defer func() { MaxFilelist = saved }()
	s := bServeRS(InMemHandler())
	c, lw, err := c16Client(s, 40*(n+int(B)+4))
	if err != nil {
		s.Stop(nil)
		return "c16-mem:handshake", fmt.Sprintf("client handshake: %v", err), ""
	}
	defer s.Stop(c)
	if err := c.Mkdir("/d"); err != nil {
		return "c16-mem:setup", fmt.Sprintf("mkdir: %v", err), ""
	}
	var want []string
	for i := 0; i < n; i++ {
		name := c16Name(i)
		if i%4 == 1 {
			if err := c.Mkdir("/d/" + name); err != nil {
				return "c16-mem:setup", fmt.Sprintf("mkdir %q: %v", name, err), ""
			}
			want = append(want, fmt.Sprintf("%q dir=true", name))
			continue
		}
		f, err := c.Create("/d/" + name)
		if err != nil {
			return "c16-mem:setup", fmt.Sprintf("create %q: %v", name, err), ""
		}
		f.Close()
		want = append(want, fmt.Sprintf("%q dir=false", name))
	}
	sort.Strings(want)
	before := lw.n
	lw.limit = before + 10*(n+int(B)+2) + 10
	fis, err := c.ReadDir("/d")
	outcome = fmt.Sprintf("mem: %d packets for %d entries at batch %d", lw.n-before, n, B)
	if lw.tripped {
		return "c16-mem:non-terminating", fmt.Sprintf("non-terminating listing of %d entries at batch size %d", n, B), outcome
	}
	if err != nil {
		return "c16-mem:error", fmt.Sprintf("ReadDir failed: %v", err), outcome
	}
	var got []string
	for _, fi := range fis {
		got = append(got, fmt.Sprintf("%q dir=%v", fi.Name(), fi.IsDir()))
	}
	sort.Strings(got)
	if d := c16Diff(got, want); d != "" {
		return "c16-mem:content", d, outcome
	}
	return "", "", outcome
}

func c16Batches(tier string) []int64 {
	if tier == "thorough" {
		return []int64{1, 2, 3, 5, 7, 16, 100, 128}
	}
	return []int64{1, 2, 3, 5, 7, 16}
}

func init() {
	reg.Part("C16/rs", func(c *reg.Ctx) *reg.Result {
		res := reg.NewResult(c.Part)
		var i int64
		for _, B := range c16Batches(c.Tier) {
			for n := 0; n <= int(2*B+2); n++ {
				for _, behave := range c16Behaviours {
					for _, dots := range c16Dots {
						i++
						if !c.Mine(i) {
							continue
						}
						if c.Expired() {
							res.Exhaustive = false
							res.Bound = fmt.Sprintf("stopped by the deadline at case %d", i)
							return res
						}
						id := fmt.Sprintf("B=%d n=%d %s dots=%s", B, n, behave, dots)
						res.Case(id)
						key, msg, outcome := c16RunRS(B, n, behave, dots)
						res.Outcome(outcome)
						if key != "" {
							res.Violate("C16", key+":"+behave, id+": "+msg, map[string]any{"server": "request", "batch": B, "entries": n, "behaviour": behave, "dots": dots}, nil)
						}
					}
				}
			}
		}
		// long names: one batch marshals to far more than the 32 KiB default payload
		for _, nl := range []int{150, 240} {
			for _, n := range []int{99, 100, 101, 250} {
				for _, behave := range c16Behaviours {
					i++
					if !c.Mine(i) {
						continue
					}
					id := fmt.Sprintf("B=100 n=%d %s names of %d bytes", n, behave, nl)
					res.Case(id)
					c16NameLen = nl
					key, msg, outcome := c16RunRS(100, n, behave, "none")
					c16NameLen = 0
					res.Outcome(outcome)
					if key != "" {
						res.Violate("C16", key+":longnames:"+behave, id+": "+msg, map[string]any{"server": "request", "batch": 100, "entries": n, "behaviour": behave, "namelen": nl}, nil)
					}
				}
			}
		}
		res.Sample(map[string]any{"batches": c16Batches(c.Tier), "sizes": "0..2B+2", "behaviours": c16Behaviours, "dots": c16Dots})
		res.Bound = fmt.Sprintf("MaxFilelist in %v x every size 0..2B+2 x %d lister behaviours x %d placements of '.'/'..'", c16Batches(c.Tier), len(c16Behaviours), len(c16Dots))
		return res
	})

	reg.Part("C16/os", func(c *reg.Ctx) *reg.Result {
		res := reg.NewResult(c.Part)
		maxN := 258
		if c.Tier == "thorough" {
			maxN = 520
		}
		var i int64
		for n := 0; n <= maxN; n++ {
			for _, alloc := range []bool{false, true} {
				i++
				if !c.Mine(i) {
					continue
				}
				if c.Expired() {
					res.Exhaustive = false
					res.Bound = fmt.Sprintf("stopped by the deadline at case %d", i)
					return res
				}
				id := fmt.Sprintf("os n=%d alloc=%v", n, alloc)
				res.Case(id)
				key, msg, outcome := c16RunOS(n, alloc, n%2 == 1)
				res.Outcome(outcome)
				if key != "" {
					res.Violate("C16", key, id+": "+msg, map[string]any{"server": "os", "entries": n, "allocator": alloc}, nil)
				}
			}
		}
		for _, nl := range []int{120, 250} {
			for _, n := range []int{127, 128, 129, 258, 300, 700, 1023, 1025, 1100} { // the large ones: any batch size a server might choose still has to fit a frame
				for _, alloc := range []bool{false, true} {
					i++
					if !c.Mine(i) {
						continue
					}
					id := fmt.Sprintf("os n=%d alloc=%v names of %d bytes", n, alloc, nl)
					res.Case(id)
					c16NameLen = nl
					key, msg, outcome := c16RunOS(n, alloc, false)
					c16NameLen = 0
					res.Outcome(outcome)
					if key != "" {
						res.Violate("C16", key+":longnames", id+": "+msg, map[string]any{"server": "os", "entries": n, "allocator": alloc, "namelen": nl}, nil)
					}
				}
			}
		}
		res.Sample(map[string]any{"sizes": fmt.Sprintf("0..%d", maxN), "batch": 128, "allocator": []bool{false, true}})
		res.Bound = fmt.Sprintf("os-backed server (Readdir(128)): every directory size 0..%d x allocator off/on", maxN)
		return res
	})

	reg.Part("C16/inmem", func(c *reg.Ctx) *reg.Result {
		res := reg.NewResult(c.Part)
		var i int64
		for _, B := range c16Batches(c.Tier) {
			if B > 16 {
				continue
			}
			for n := 0; n <= int(2*B+2); n++ {
				i++
				if !c.Mine(i) {
					continue
				}
				if c.Expired() {
					res.Exhaustive = false
					return res
				}
				id := fmt.Sprintf("inmem B=%d n=%d", B, n)
				res.Case(id)
				key, msg, outcome := c16RunInMem(B, n)
				res.Outcome(outcome)
				if key != "" {
					res.Violate("C16", key, id+": "+msg, map[string]any{"server": "inmem", "batch": B, "entries": n}, nil)
				}
			}
		}
		res.Bound = "example in-memory handler (package's listerat): batch sizes x every size 0..2B+2"
		return res
	})

	reg.Prop(&reg.Property{
		ID:    "C16",
		Level: "model_checking",
		Rule: "every (batch size, directory size, lister behaviour, placement of '.' and '..') tuple for the request server, every directory size across two batch boundaries for the os-backed server (allocator off/on), " +
			"and the example handler; each case is one Client.ReadDir through the real client and server; distinct = distinct tuples",
		Assumptions: []string{
			"one listing at a time per process (MaxFilelist is a package variable, saved and restored per case)",
			"termination is decided by call/packet budgets of 10x the number of calls a correct listing needs, not by a clock",
			"entry names are legal directory entry names (no '/', not empty); the directory does not change during the listing",
			"os-backed part runs as root on tmpfs (/dev/shm)",
		},
		Jobs: func(tier string) []reg.Job {
			b := 80
			if tier == "thorough" {
				b = 400
			}
			return []reg.Job{
				{Part: "C16/rs", Build: "plain", Shards: 8, BudgetS: b, Procs: 1, Label: "request server x lister behaviours"},
				{Part: "C16/os", Build: "plain", Shards: 6, BudgetS: b, Procs: 1, Label: "os-backed server, every size"},
				{Part: "C16/inmem", Build: "plain", Shards: 2, BudgetS: b, Procs: 1, Label: "example handler (listerat)"},
				// termination under the scheduler (a listing that never ends is a deadlock there, not a hang): two pipelined listings
				// served by a lister that derives a context from its request inside ListAt
				{Part: "C16/sched", Build: "instr-w2", Args: map[string]string{"server": "rs", "progs": "twodirs", "bound": map[bool]string{false: "2", true: "3"}[tier == "thorough"]}, Shards: 8, BudgetS: b,
					Label: "rs W=2 two pipelined listings under the scheduler (the lister uses its request inside ListAt)"},
			}
		},
	})
}
