//go:build verif

package sftp

// Scheduled halves of C12 (Close races with other File methods) and C01 (fault-free transfers
// under every reply order and schedule).

import (
	"errors"
	"fmt"
	"io"
	"os"
	"strings"

	"verif/explore"
	"verif/reg"
	"verif/vsched"
)

type c12Spec struct {
	third   string // WriteAt Stat Truncate Close Read
	conc    bool
	permute bool
}

func c12Scenario(s c12Spec) explore.Scenario {
	return func() (func(), func(*vsched.Exec) explore.Verdict) {
		var env *cliEnv
		var closeErr, thirdErr, readErr, finalErr error
		var readN int
		var readBuf []byte
		var thirdVal string
		var after []error
		body := func() {
			env = newCliEnv(func(e *cliEnv) {
				e.peer.Permute = s.permute
				f := &pfile{data: pattern(8, 'a')}
				e.peer.files["/f"] = f
				e.peer.handles["h1"] = f
				e.peer.hpath["h1"] = "/f"
			}, MaxPacketUnchecked(2), MaxConcurrentRequestsPerFile(2), UseConcurrentReads(s.conc))
			if env.err != nil {
				return
			}
			c := env.c
			f := &File{c: c, path: "/f", handle: "h1"}
			var g vgroup
			g.Go("closer", func() { closeErr = f.Close() })
			g.Go("reader", func() {
				readBuf = make([]byte, 6)
				readN, readErr = f.ReadAt(readBuf, 0)
			})
			g.Go("third", func() {
				switch s.third {
				case "WriteAt":
					var n int
					n, thirdErr = f.WriteAt([]byte("ZZ"), 10)
					thirdVal = fmt.Sprint(n)
				case "Stat":
					fi, err := f.Stat()
					thirdErr = err
					if err == nil {
						thirdVal = fmt.Sprint(fi.Size())
					}
				case "Truncate":
					thirdErr = f.Truncate(16)
				case "Close":
					thirdErr = f.Close()
				case "Read":
					b := make([]byte, 2)
					var n int
					n, thirdErr = f.Read(b)
					thirdVal = fmt.Sprintf("%d %q", n, b[:n])
				}
			})
			g.Wait()
			// after Close every method returns os.ErrClosed
			_, e1 := f.ReadAt(make([]byte, 1), 0)
			_, e2 := f.Write([]byte("x"))
			_, e3 := f.Seek(0, 0)
			_, e4 := f.Stat()
			e5 := f.Close()
			after = []error{e1, e2, e3, e4, e5}
			finalErr = c.Close()
		}
		judge := func(e *vsched.Exec) explore.Verdict {
			v := explore.Verdict{}
			if e.Deadlock {
				v.Outcome = "DEADLOCK"
				return v
			}
			if env.err != nil {
				v.Bad, v.Key = "NewClientPipe: "+env.err.Error(), "c12-newclient"
				return v
			}
			wire := env.peer.wireString()
			v.Outcome = fmt.Sprintf("close=%v read=%d/%v third=%s/%v wire=[%s]", closeErr, readN, readErr, thirdVal, thirdErr, wire)
			v.Sample = map[string]any{"third": s.third, "outcome": v.Outcome}
			fail := func(k, f string, a ...any) explore.Verdict {
				v.Bad = fmt.Sprintf("Close || ReadAt(6 bytes, 3 chunks) || %s: ", s.third) + fmt.Sprintf(f, a...) + "\n  " + v.Outcome
				v.Key = "c12-race-" + k + ":" + s.third
				return v
			}
			if len(env.peer.Bad) > 0 {
				return fail("peer", "peer observed protocol violation: %v", env.peer.Bad)
			}
			if finalErr != nil {
				return fail("client-close", "Client.Close: %v", finalErr)
			}
			// wire order: exactly one CLOSE for h1, nothing carrying h1 (or an empty handle) after it
			closes, closedAt := 0, -1
			for i, r := range env.peer.Wire {
				if r.typ == sshFxpClose {
					closes++
					if closedAt < 0 {
						closedAt = i
					}
					if r.handle != "h1" {
						return fail("close-handle", "CLOSE carries handle %q", r.handle)
					}
					continue
				}
				hasHandle := r.typ == sshFxpRead || r.typ == sshFxpWrite || r.typ == sshFxpFstat || r.typ == sshFxpFsetstat
				if hasHandle && r.handle != "h1" {
					return fail("bad-handle", "request %s carries handle %q", r, r.handle)
				}
				if hasHandle && closedAt >= 0 {
					return fail("use-after-close", "request %s was written to the wire after the CLOSE of its handle", r)
				}
			}
			if closes != 1 {
				return fail("close-count", "%d CLOSE requests on the wire, want exactly 1", closes)
			}
			// Close results: exactly one Close call succeeded
			okCloses := 0
			for _, err := range []error{closeErr} {
				if err == nil {
					okCloses++
				} else if !errors.Is(err, os.ErrClosed) {
					return fail("close-error", "Close returned %v", err)
				}
			}
			if s.third == "Close" {
				if thirdErr == nil {
					okCloses++
				} else if !errors.Is(thirdErr, os.ErrClosed) {
					return fail("close-error", "second Close returned %v", thirdErr)
				}
			}
			if okCloses != 1 {
				return fail("close-results", "%d Close calls returned nil, want exactly 1", okCloses)
			}
			// reader: proper result or ErrClosed
			switch {
			case readErr == nil:
				if readN != 6 || string(readBuf) != string(pattern(6, 'a')) {
					return fail("read-result", "ReadAt returned n=%d %q with nil error", readN, readBuf)
				}
			case errors.Is(readErr, os.ErrClosed):
				if readN != 0 {
					return fail("read-result", "ReadAt returned n=%d with os.ErrClosed", readN)
				}
			default:
				return fail("read-error", "ReadAt returned %v (neither its result nor os.ErrClosed)", readErr)
			}
			if s.third != "Close" && thirdErr != nil && !errors.Is(thirdErr, os.ErrClosed) {
				return fail("third-error", "%s returned %v (neither its result nor os.ErrClosed)", s.third, thirdErr)
			}
			if thirdErr == nil {
				switch s.third {
				case "WriteAt":
					if thirdVal != "2" {
						return fail("third-result", "WriteAt returned %s", thirdVal)
					}
				case "Stat":
					if thirdVal != "8" && thirdVal != "16" && thirdVal != "12" {
						return fail("third-result", "Stat returned size %s", thirdVal)
					}
				case "Read":
					if thirdVal != `2 "ab"` {
						return fail("third-result", "Read returned %s", thirdVal)
					}
				}
			}
			for i, err := range after {
				if !errors.Is(err, os.ErrClosed) {
					return fail("after-close", "method %d called after Close returned %v, want os.ErrClosed", i, err)
				}
			}
			return v
		}
		return body, judge
	}
}

// c12CloseFailScenario: the write that carries the CLOSE request fails once (a transient transport
// error: the connection stays usable). Close reports the failure; the File is closed all the same:
// every method returns os.ErrClosed and nothing carrying the handle reaches the wire any more.
func c12CloseFailScenario(before string, eof bool) explore.Scenario {
	return func() (func(), func(*vsched.Exec) explore.Verdict) {
		var env *cliEnv
		var closeErr, finalErr error
		var after []error
		var statAfter error
		wireAtClose := -1
		body := func() {
			env = newCliEnv(func(e *cliEnv) {
				e.peer.Permute = true
				f := &pfile{data: pattern(8, 'a')}
				e.peer.files["/f"] = f
				e.peer.handles["h1"] = f
				e.peer.hpath["h1"] = "/f"
			}, MaxPacketUnchecked(2), MaxConcurrentRequestsPerFile(2))
			if env.err != nil {
				return
			}
			c := env.c
			f := &File{c: c, path: "/f", handle: "h1"}
			switch before {
			case "ReadAt":
				f.ReadAt(make([]byte, 4), 0)
			case "Write":
				f.Write([]byte("xy"))
			}
			env.c2s.FailOnce = env.c2s.Writes + 1
			if eof {
				env.c2s.FailErr = io.EOF
			}
			closeErr = f.Close()
			wireAtClose = len(env.peer.Wire)
			_, e1 := f.ReadAt(make([]byte, 1), 0)
			_, e2 := f.Write([]byte("x"))
			_, e3 := f.Seek(0, 0)
			_, e4 := f.Stat()
			e5 := f.Close()
			_, e6 := f.Read(make([]byte, 1))
			_, e7 := f.WriteAt([]byte("x"), 0)
			e8 := f.Truncate(1)
			e9 := f.Chmod(0o600)
			after = []error{e1, e2, e3, e4, e5, e6, e7, e8, e9}
			_, statAfter = c.Stat("/f") // the connection itself is still usable
			finalErr = c.Close()
		}
		judge := func(e *vsched.Exec) explore.Verdict {
			v := explore.Verdict{}
			if e.Deadlock {
				v.Outcome = "DEADLOCK"
				return v
			}
			if env.err != nil {
				v.Bad, v.Key = "NewClientPipe: "+env.err.Error(), "c12-newclient"
				return v
			}
			v.Outcome = fmt.Sprintf("close=%v after=%v stat=%v wire=[%s]", closeErr, after, statAfter, env.peer.wireString())
			fail := func(k, f string, a ...any) explore.Verdict {
				v.Bad = fmt.Sprintf("Close whose request cannot be written (after %s): ", before) + fmt.Sprintf(f, a...) + "\n  " + v.Outcome
				v.Key = "c12-closefail-" + k
				return v
			}
			if closeErr == nil {
				return fail("close-nil", "Close returned nil although its request never reached the server")
			}
			names := []string{"ReadAt", "Write", "Seek", "Stat", "Close", "Read", "WriteAt", "Truncate", "Chmod"}
			for i, err := range after {
				if !errors.Is(err, os.ErrClosed) {
					return fail("after:"+names[i], "%s after Close returned %v, want os.ErrClosed", names[i], err)
				}
			}
			for i, r := range env.peer.Wire {
				if i >= wireAtClose && (r.handle == "h1" || r.typ == sshFxpClose) {
					return fail("use-after-close", "request %s reached the wire after Close had returned", r)
				}
			}
			if statAfter != nil || finalErr != nil {
				return fail("connection", "the connection should have survived a single failed write: Stat %v, Client.Close %v", statAfter, finalErr)
			}
			return v
		}
		return body, judge
	}
}

func init() {
	reg.Part("C12/closefail", func(c *reg.Ctx) *reg.Result {
		total := reg.NewResult(c.Part)
		for _, before := range []string{"nothing", "ReadAt", "Write"} {
			for _, eof := range []bool{false, true} {
				r := explore.Run(explore.Config{Prop: "C12", Strategy: "db", Bound: c.ArgInt("bound", 2), Ctx: c, Label: c.Part}, c12CloseFailScenario(before, eof))
				total.Evaluations += r.Evaluations
				total.States += r.States
				total.Transitions += r.Transitions
				total.Distinct += r.Distinct
				for k, v := range r.Outcomes {
					total.Outcomes[fmt.Sprintf("%s/%v:%s", before, eof, k)] += v
				}
				for _, sm := range r.Samples {
					total.Sample(sm)
				}
				for _, v := range r.Violations {
					total.Violate("C12", v.Key, v.Msg, map[string]any{"before": before, "eof": eof, "schedule": v.Replay}, v.Trace)
				}
				if !r.Exhaustive {
					total.Exhaustive = false
				}
				if r.EngineError != "" {
					total.EngineError = r.EngineError
					return total
				}
			}
		}
		total.Notes["db_completed"] = c.ArgInt("bound", 2)
		total.Notes["db_target"] = c.ArgInt("bound", 2)
		return total
	})
	reg.Part("C12/closerace", func(c *reg.Ctx) *reg.Result {
		total := reg.NewResult(c.Part)
		minDone := 1 << 30
		thirds := strings.Split(c.Arg("thirds", "WriteAt+Stat+Truncate+Close+Read"), "+")
		strategy := c.Arg("strategy", "db")
		for i, th := range thirds {
			if c.Expired() {
				total.Exhaustive = false
				break
			}
			r := explore.Run(explore.Config{Prop: "C12", Strategy: strategy, Bound: c.ArgInt("bound", 2), Ctx: c, Label: c.Part},
				c12Scenario(c12Spec{third: th, conc: c.Arg("conc", "1") == "1", permute: true}))
			total.Evaluations += r.Evaluations
			total.States += r.States
			total.Transitions += r.Transitions
			total.Distinct += r.Distinct
			for k, v := range r.Outcomes {
				total.Outcomes[fmt.Sprintf("s%d:%s", i, k)] += v
			}
			for _, sm := range r.Samples {
				total.Sample(sm)
			}
			for _, v := range r.Violations {
				total.Violate("C12", v.Key, v.Msg, map[string]any{"third": th, "schedule": v.Replay}, v.Trace)
			}
			if !r.Exhaustive {
				total.Exhaustive = false
			}
			if r.EngineError != "" {
				total.EngineError = r.EngineError
				break
			}
			if d, ok := r.Notes["db_completed"].(int); ok && d < minDone {
				minDone = d
			}
		}
		if strategy == "db" {
			if minDone == 1<<30 {
				minDone = -1
			}
			total.Notes["db_completed"] = minDone
			total.Notes["db_target"] = c.ArgInt("bound", 2)
		} else if total.Exhaustive {
			total.Bound = "por: all Mazurkiewicz traces of every scenario"
		} else {
			total.Bound = "por: not completed within the budget"
		}
		return total
	})
	c12ExtraJobs = func(tier string) []reg.Job {
		if tier == "thorough" {
			return withPolicies(tier, []reg.Job{
				{Part: "C12/closerace", Build: "instr", Args: map[string]string{"bound": "4"}, Shards: 16, BudgetS: 900, Label: "Close || ReadAt || third, db4"},
				{Part: "C12/closerace", Build: "instr", Args: map[string]string{"bound": "4", "conc": "0"}, Shards: 16, BudgetS: 600, Label: "Close || sequential ReadAt || third, db4"},
				{Part: "C12/closerace", Build: "instr", Args: map[string]string{"strategy": "por", "thirds": "Stat"}, Shards: 16, BudgetS: 600, Label: "Close || ReadAt || Stat, por", Optional: true},
				{Part: "C12/closefail", Build: "instr", Args: map[string]string{"bound": "3"}, Shards: 8, BudgetS: 300, Label: "Close whose request cannot be written (transient failure), db3"},
				{Part: "C12/sharedpos", Build: "instr", Args: map[string]string{"bound": "5"}, Shards: 16, BudgetS: 600, Label: "Write/Read/Seek by goroutines sharing one File, db5"},
			}, func(reg.Job) bool { return true })
		}
		return withPolicies(tier, []reg.Job{{Part: "C12/closerace", Build: "instr", Args: map[string]string{"bound": "4"}, Shards: 16, BudgetS: 100, Label: "Close || ReadAt || third, db4"},
			{Part: "C12/closefail", Build: "instr", Args: map[string]string{"bound": "3"}, Shards: 4, BudgetS: 100, Label: "Close whose request cannot be written (transient failure), db3"},
			{Part: "C12/sharedpos", Build: "instr", Args: map[string]string{"bound": "3"}, Shards: 16, BudgetS: 100, Label: "Write/Read/Seek by goroutines sharing one File, db3"}}, func(reg.Job) bool { return true })
	}
	c12Prop.Rule += "; scheduled half: one File shared by three goroutines (Close || 3-chunk concurrent ReadAt || one of WriteAt, Stat, Truncate, a second Close, Read) against the permuting peer, all schedules with <= d deviations; " +
		"oracle: each call returns its proper result or os.ErrClosed, exactly one CLOSE on the wire and nothing carrying the handle after it"

	// C01-A: fault-free transfers under every reply order
	reg.Part("C01/reorder", func(c *reg.Ctx) *reg.Result {
		var specs []xferSpec
		add := func(api string, conc bool, K, file, req, off int) {
			specs = append(specs, xferSpec{api: api, conc: conc, P: 2, K: K, fileLen: file, reqLen: req, off: off, permute: true, cut: -1, noOffset: true})
		}
		big := c.Arg("big", "0") == "1"
		for _, K := range []int{2, 3} {
			add("ReadAt", true, K, 8, 6, 1)
			add("ReadAt", true, K, 7, 7, 0)
			add("ReadAt", true, K, 3, 8, 0) // reaches two whole chunks past the end: three chunks report an end of file
			add("WriteTo", true, K, 7, 0, 0)
			add("WriteTo", true, K, 6, 0, 1)
			add("WriteAt", true, K, 3, 6, 1)
			add("WriteAt", true, K, 0, 5, 0)
			add("ReadFrom", true, K, 0, 6, 0)
			add("ReadFrom", true, K, 2, 5, 1)
			add("ReadFromC", true, K, 0, 5, 0)
			if big {
				add("ReadAt", true, K, 9, 8, 0)
				add("WriteAt", true, K, 0, 8, 0)
				add("WriteTo", true, K, 9, 0, 0)
			}
		}
		add("Read", true, 2, 7, 5, 1)
		add("Read", true, 3, 3, 8, 0)
		add("Write", true, 2, 0, 5, 2)
		return runMulti(c, "C01", c.Arg("strategy", "db"), c.ArgInt("bound", 2), specs, xferScenario)
	})
	c01ExtraJobs = func(tier string) []reg.Job {
		if tier == "thorough" {
			return append(withPolicies(tier, []reg.Job{
				{Part: "C01/reorder", Build: "instr", Args: map[string]string{"bound": "3", "big": "1"}, Shards: 16, BudgetS: 900, Label: "reply reordering, 3-4 chunks, db3"},
				{Part: "C01/reorder", Build: "instr", Args: map[string]string{"strategy": "por"}, Shards: 16, BudgetS: 900, Label: "reply reordering, 3 chunks, por", Optional: true},
				{Part: "C01/sharedpos", Build: "instr", Args: map[string]string{"bound": "5"}, Shards: 16, BudgetS: 600, Label: "Write/Read/Seek by goroutines sharing one File, db5"},
			}, func(reg.Job) bool { return true }),
				reg.Job{Part: "C01/twofiles", Build: "instr", Args: map[string]string{"bound": "3", "cache": "1"}, Shards: 16, BudgetS: 420, Label: "two transfers at once on two Files of one Client, db3"},
				reg.Job{Part: "C01/twofiles", Build: "instr", Args: map[string]string{"bound": "3", "cache": "1", "policy": "3"}, Shards: 8, BudgetS: 120, Label: "two transfers at once on two Files of one Client, db3 [policy 3, db3]"})
		}
		return append(withPolicies(tier, []reg.Job{{Part: "C01/reorder", Build: "instr", Args: map[string]string{"bound": "2"}, Shards: 16, BudgetS: 100, Label: "reply reordering, 3 chunks, db2"},
			{Part: "C01/sharedpos", Build: "instr", Args: map[string]string{"bound": "3"}, Shards: 16, BudgetS: 100, Label: "Write/Read/Seek by goroutines sharing one File, db3"}}, func(reg.Job) bool { return true }),
			// (default scheduler and the two strict-priority ones only: under round robin these executions are several hundred steps long)
			reg.Job{Part: "C01/twofiles", Build: "instr", Args: map[string]string{"bound": "2", "cache": "1"}, Shards: 16, BudgetS: 100, Label: "two transfers at once on two Files of one Client, db2"},
			reg.Job{Part: "C01/twofiles", Build: "instr", Args: map[string]string{"bound": "2", "cache": "1", "policy": "3"}, Shards: 8, BudgetS: 100, Label: "two transfers at once on two Files of one Client, db2 [policy 3, db2]"})
	}
	c01Prop.Rule += "; scheduled half: ReadAt/Read/WriteTo/WriteAt/Write/ReadFrom/ReadFromWithConcurrency of 3-4 chunks (P=2, K in {2,3}) against the permuting reference peer, every reply order and every schedule with <= d deviations, same byte-slice oracle"
}

// gatedSource is a reader for ReadFrom whose k-th Read blocks until a harness thread opens the gate
// (a slow source: a pipe, a network body).
type gatedSource struct {
	data  []byte
	pos   int
	reads int
	gate  int // the Read call (1-based) that waits for the gate
	open  bool
}

func (g *gatedSource) Read(b []byte) (int, error) {
	g.reads++
	if g.reads == g.gate {
		vsched.Env("source.gate", g, false, func() bool { return g.open })
	}
	if g.pos >= len(g.data) {
		return 0, io.EOF
	}
	n := copy(b, g.data[g.pos:])
	g.pos += n
	return n, nil
}

// c12FeederScenario: an upload whose every write fails while the source is slow, followed by Close.
// Whatever the transfer's goroutines still do afterwards, nothing carrying the handle may reach the
// wire behind the CLOSE.
func c12FeederScenario(gateAt int, api string, slowest bool) explore.Scenario {
	return func() (func(), func(*vsched.Exec) explore.Verdict) {
		var env *cliEnv
		var n int64
		var rfErr, closeErr, finalErr error
		body := func() {
			env = newCliEnv(func(e *cliEnv) {
				e.peer.Permute = true
				f := &pfile{}
				e.peer.files["/f"] = f
				e.peer.handles["h1"] = f
				for off := 0; off < 12; off += 2 {
					e.peer.FailOff[uint64(off)] = fmt.Sprintf("disk full@%d", off)
				}
			}, MaxPacketUnchecked(2), MaxConcurrentRequestsPerFile(2), UseConcurrentWrites(true))
			if env.err != nil {
				return
			}
			f := &File{c: env.c, path: "/f", handle: "h1"}
			src := &gatedSource{data: pattern(8, 'a'), gate: gateAt}
			var g vgroup
			g.Go("gate-opener", func() {
				if slowest {
					// the slowest possible source: it delivers only when nothing else can move
					vsched.AwaitQuiescence("source.open(idle)")
				} else {
					vsched.Env("source.open", src, false, nil)
				}
				src.open = true
			})
			if api == "ReadFrom" {
				n, rfErr = f.ReadFrom(lenSource{src})
			} else {
				n, rfErr = f.ReadFromWithConcurrency(src, 2)
			}
			closeErr = f.Close()
			g.Wait()
			finalErr = env.c.Close()
		}
		judge := func(e *vsched.Exec) explore.Verdict {
			v := explore.Verdict{}
			if e.Deadlock {
				v.Outcome = "DEADLOCK"
				return v
			}
			if env.err != nil {
				v.Bad, v.Key = "NewClientPipe: "+env.err.Error(), "c12-newclient"
				return v
			}
			v.Outcome = fmt.Sprintf("%s n=%d err=%v close=%v wire=[%s]", api, n, rfErr != nil, closeErr, env.peer.wireString())
			v.Sample = map[string]any{"api": api, "gate_at_read": gateAt, "outcome": v.Outcome}
			fail := func(k, f string, a ...any) explore.Verdict {
				v.Bad = fmt.Sprintf("%s from a slow source (Read %d waits), every write refused, then Close: ", api, gateAt) + fmt.Sprintf(f, a...) + "\n  " + v.Outcome
				v.Key = "c12-feeder-" + k + ":" + api
				return v
			}
			if len(env.peer.Bad) > 0 {
				return fail("peer", "peer observed protocol violation: %v", env.peer.Bad)
			}
			if finalErr != nil || closeErr != nil {
				return fail("close", "Close returned %v / %v", closeErr, finalErr)
			}
			if rfErr == nil {
				return fail("nil-error", "returned a nil error although every write was refused")
			}
			closedAt := -1
			for i, r := range env.peer.Wire {
				if r.typ == sshFxpClose {
					if closedAt >= 0 {
						return fail("close-count", "two CLOSE requests on the wire")
					}
					closedAt = i
					continue
				}
				if r.typ == sshFxpWrite && closedAt >= 0 {
					return fail("use-after-close", "request %s was written to the wire after the CLOSE of its handle", r)
				}
				if r.typ == sshFxpWrite && r.handle != "h1" {
					return fail("bad-handle", "request %s carries handle %q", r, r.handle)
				}
			}
			if closedAt < 0 {
				return fail("close-count", "no CLOSE on the wire")
			}
			return v
		}
		return body, judge
	}
}

// lenSource gives a gatedSource a Len method so that ReadFrom takes its concurrent path.
type lenSource struct{ *gatedSource }

func (l lenSource) Len() int { return len(l.data) - l.pos }

func init() {
	reg.Part("C12/feeder", func(c *reg.Ctx) *reg.Result {
		total := reg.NewResult(c.Part)
		minDone := 1 << 30
		i := 0
		for _, api := range []string{"ReadFromC", "ReadFrom"} {
			for _, gate := range []int{2, 3, -2, -3} {
				if c.Expired() {
					total.Exhaustive = false
					break
				}
				slowest := gate < 0
				if slowest {
					gate = -gate
				}
				r := explore.Run(explore.Config{Prop: "C12", Strategy: "db", Bound: c.ArgInt("bound", 2), Ctx: c, Label: c.Part}, c12FeederScenario(gate, api, slowest))
				total.Evaluations += r.Evaluations
				total.States += r.States
				total.Transitions += r.Transitions
				total.Distinct += r.Distinct
				for k, v := range r.Outcomes {
					total.Outcomes[fmt.Sprintf("s%d:%s", i, k)] += v
				}
				for _, sm := range r.Samples {
					total.Sample(sm)
				}
				for _, v := range r.Violations {
					total.Violate("C12", v.Key, v.Msg, map[string]any{"api": api, "gate": gate, "schedule": v.Replay}, v.Trace)
				}
				if !r.Exhaustive {
					total.Exhaustive = false
				}
				if r.EngineError != "" {
					total.EngineError = r.EngineError
				}
				if d, ok := r.Notes["db_completed"].(int); ok && d < minDone {
					minDone = d
				}
				i++
			}
		}
		if minDone == 1<<30 {
			minDone = -1
		}
		total.Notes["db_completed"] = minDone
		total.Notes["db_target"] = c.ArgInt("bound", 2)
		return total
	})
	prev := c12ExtraJobs
	c12ExtraJobs = func(tier string) []reg.Job {
		js := prev(tier)
		b, budget := "3", 100
		if tier == "thorough" {
			b, budget = "4", 600
		}
		return append(js, withPolicies(tier, []reg.Job{{Part: "C12/feeder", Build: "instr", Args: map[string]string{"bound": b}, Shards: 16, BudgetS: budget,
			Label: "failed concurrent upload from a slow source, then Close, db" + b}}, func(reg.Job) bool { return true })...)
	}
}
