//go:build verif

package sftp

// C02 (and C14's barrier) at the narrowest seam: the real packetManager alone – dispatcher goroutine,
// W read/write workers, the single command worker and the controller – driven through its own API
// (workerChan, newOrderedRequest, readyPacket) with stub workers that answer at once and a stub
// sender that records what leaves and in which order. No pipes, no codec, no handlers: executions
// are ~40-70 steps, so that ALL interleavings (sleep-set partial-order reduction, unbounded) of every
// request program up to a length can be enumerated, which the whole-server harnesses cannot afford.

import (
	"encoding"
	"fmt"
	"strings"

	"verif/explore"
	"verif/reg"
	"verif/vsched"
)

type pmSender struct {
	sent []uint32
	bad  []string
}

func (s *pmSender) sendPacket(m encoding.BinaryMarshaler) error {
	vsched.Env("pm.send", s, false, nil)
	if p, ok := m.(orderedPacket); ok {
		s.sent = append(s.sent, p.id())
	} else {
		s.bad = append(s.bad, fmt.Sprintf("sendPacket got a %T", m))
	}
	return nil
}

// pmFile is the stub store of one handle: it records whether a read/write runs while or after Close.
type pmFile struct {
	inflight int
	closed   bool
	bad      []string
}

// pmProgram: one letter per request. R/W = read/write on handle 1 (parallel workers), r = read on
// handle 2, S = stat (sequential worker), C = close of handle 1, c = close of handle 2.
func pmScenario(prog string, slow bool) explore.Scenario {
	return func() (func(), func(*vsched.Exec) explore.Verdict) {
		snd := &pmSender{}
		files := map[string]*pmFile{"1": {}, "2": {}}
		var mgr *packetManager
		var ids []uint32
		body := func() {
			mgr = newPktMgr(snd)
			var g vgroup
			runWorker := func(ch chan orderedRequest) {
				g.Go("worker", func() {
					for {
						pkt, ok := vsched.Recv2("pm.worker", (<-chan orderedRequest)(ch))
						if !ok {
							return
						}
						switch q := pkt.requestPacket.(type) {
						case *sshFxpReadPacket, *sshFxpWritePacket:
							h := "1"
							if r, ok := q.(*sshFxpReadPacket); ok {
								h = r.Handle
							}
							f := files[h]
							vsched.Env("pm.rw-enter", f, false, nil)
							if f.closed {
								f.bad = append(f.bad, fmt.Sprintf("request #%d runs after the Close of its handle", pkt.id()))
							}
							f.inflight++
							if slow {
								vsched.Env("pm.rw-exit", f, false, nil)
							}
							f.inflight--
						case *sshFxpClosePacket:
							f := files[q.Handle]
							vsched.Env("pm.close", f, false, nil)
							if f.inflight > 0 {
								f.bad = append(f.bad, fmt.Sprintf("Close #%d entered with %d reads/writes in flight", pkt.id(), f.inflight))
							}
							f.closed = true
						}
						mgr.readyPacket(mgr.newOrderedResponse(statusFromError(pkt.id(), nil), pkt.orderID()))
					}
				})
			}
			pktChan := mgr.workerChan(runWorker)
			send := vsched.SendTo("pm.feed", (chan<- orderedRequest)(pktChan))
			for i, c := range prog {
				id := uint32(100 + i)
				ids = append(ids, id)
				var p requestPacket
				switch c {
				case 'R':
					p = &sshFxpReadPacket{ID: id, Handle: "1", Len: 1}
				case 'r':
					p = &sshFxpReadPacket{ID: id, Handle: "2", Len: 1}
				case 'W':
					p = &sshFxpWritePacket{ID: id, Handle: "1"}
				case 'S':
					p = &sshFxpStatPacket{ID: id, Path: "/x"}
				case 'C':
					p = &sshFxpClosePacket{ID: id, Handle: "1"}
				case 'c':
					p = &sshFxpClosePacket{ID: id, Handle: "2"}
				default:
					panic("pm program letter " + string(c))
				}
				send(mgr.newOrderedRequest(p))
			}
			// the connection stays open until every response has left (what a server may drop on hang-up is C07's clause:
			// the controller may see `fini` before it has drained its queue)
			vsched.Env("pm.await-all", snd, true, func() bool { return len(snd.sent) >= len(ids) })
			vsched.Close("pm.feed-close", (chan<- orderedRequest)(pktChan))
			g.Wait() // what both Serve functions do: wait for the workers, which end when the dispatcher has closed their channels
		}
		judge := func(e *vsched.Exec) explore.Verdict {
			v := explore.Verdict{Outcome: fmt.Sprint(snd.sent)}
			if e.Deadlock {
				return v
			}
			if len(snd.bad) > 0 {
				v.Bad, v.Key = strings.Join(snd.bad, "; "), "pm-sender"
				return v
			}
			if fmt.Sprint(snd.sent) != fmt.Sprint(ids) {
				v.Bad = fmt.Sprintf("program %q: responses left in the order %v, the requests arrived in the order %v", prog, snd.sent, ids)
				v.Key = "pm-order"
				return v
			}
			for h, f := range files {
				if len(f.bad) > 0 {
					v.Bad = fmt.Sprintf("program %q, handle %s: %s", prog, h, strings.Join(f.bad, "; "))
					v.Key = "pm-close-barrier"
					return v
				}
			}
			if len(mgr.incoming) != 0 || len(mgr.outgoing) != 0 {
				v.Bad = fmt.Sprintf("program %q: %d registered requests and %d ready responses left in the manager", prog, len(mgr.incoming), len(mgr.outgoing))
				v.Key = "pm-leftover"
			}
			return v
		}
		return body, judge
	}
}

// pmPrograms: all programs over the alphabet up to the length, handle-consistent (nothing on a handle after its close).
func pmPrograms(alphabet string, maxLen int) []string {
	var out []string
	var rec func(p string, c1, c2 bool)
	rec = func(p string, c1, c2 bool) {
		if len(p) > 0 {
			out = append(out, p)
		}
		if len(p) == maxLen {
			return
		}
		for _, c := range alphabet {
			switch c {
			case 'R', 'W':
				if c1 {
					continue
				}
			case 'r':
				if c2 {
					continue
				}
			case 'C':
				if c1 {
					continue
				}
				rec(p+"C", true, c2)
				continue
			case 'c':
				if c2 {
					continue
				}
				rec(p+"c", c1, true)
				continue
			}
			rec(p+string(c), c1, c2)
		}
	}
	rec("", false, false)
	return out
}

func init() {
	reg.Part("C02/pm", func(c *reg.Ctx) *reg.Result {
		total := reg.NewResult(c.Part)
		progs := pmPrograms(c.Arg("alphabet", "RSC"), c.ArgInt("len", 4))
		if p := c.Arg("prog", ""); p != "" {
			progs = strings.Split(p, "+")
		}
		strategy := c.Arg("strategy", "por")
		sub := *c
		sub.NShards, sub.Shard = 1, 0
		done := 0
		for i, p := range progs {
			if !c.Mine(int64(i)) {
				continue
			}
			if c.Expired() {
				total.Exhaustive = false
				break
			}
			r := explore.Run(explore.Config{Prop: c.Property, Strategy: strategy, Bound: c.ArgInt("bound", 3), Ctx: &sub, Label: c.Part}, pmScenario(p, c.Arg("slow", "1") == "1"))
			total.Evaluations += r.Evaluations
			total.States += r.States
			total.Transitions += r.Transitions
			total.Distinct += r.Distinct
			for k, v := range r.Outcomes {
				if len(total.Outcomes) < 4000 {
					total.Outcomes[p+":"+k] += v
				}
			}
			total.Sample(map[string]any{"program": p, "complete_traces": r.Evaluations, "outcomes": len(r.Outcomes)})
			for _, v := range r.Violations {
				total.Violate(c.Property, v.Key, v.Msg, map[string]any{"program": p, "schedule": v.Replay}, v.Trace)
			}
			if r.EngineError != "" {
				total.EngineError = r.EngineError
				break
			}
			if !r.Exhaustive {
				total.Exhaustive = false
			} else {
				done++
			}
		}
		total.Notes["programs_total"] = len(progs)
		total.Notes["programs_completed_this_shard"] = done
		total.Bound = fmt.Sprintf("%s: %d request programs (alphabet %q, length <= %d) on the packetManager alone", strategy, len(progs), c.Arg("alphabet", "RSC"), c.ArgInt("len", 4))
		return total
	})
}
