//go:build verif

package sftp

// Scheduled (Engine A) sessions against the real RequestServer / Server.

import (
	"bytes"
	"fmt"
	"os"
	"path/filepath"
	"sort"
	"strings"
	"time"

	"verif/explore"
	"verif/reg"
	"verif/vsched"
)

// OpenFile makes vhandler an OpenFileWriter (read+write handles).
func (h *vhandler) OpenFile(r *Request) (WriterAtReaderAt, error) {
	vsched.Env("h.openfile", h, false, nil)
	h.log("OpenFile %s", r.Filepath)
	h.Ctxs = append(h.Ctxs, r.Context().Err)
	if h.FailOpen[r.Filepath] {
		return nil, os.ErrPermission
	}
	f := h.file(r.Filepath, true)
	h.Opened = append(h.Opened, f)
	return f, nil
}

// srvSpec describes one scripted session.
type srvSpec struct {
	server    string // "rs" or "os"
	alloc     bool
	setup     [][]byte // sent one at a time, each response awaited (causally well formed drivers)
	burst     [][]byte // pipelined in one write
	files     map[string]string
	split     bool // handler file ops have enter/exit points
	hangup    int  // >=0: hang up after writing that many bytes of the burst, without reading responses first
	rdvOut    bool // server->client pipe is a rendezvous pipe
	failAt    map[string]int64
	failOpn   []string
	readOnly  bool   // os server: ReadOnly()
	fixedRoot string // os server: serve this directory (wiped first) instead of a fresh scratch directory
	replyFail bool   // the peer's receiving side goes away once the setup is done: every later reply fails to be written
	appClose  bool   // the application calls RequestServer.Close() at a point the explorer chooses
	// the allocator option VALUE to use (instead of calling the constructor): one option list used for several servers
	rsOpt   RequestServerOption
	osOpt   ServerOption
	putOnly bool   // request server: the handlers do not implement OpenFileWriter (read+write handles are served by fileput)
	maxTx   uint32 // maximum payload option (0 = not given)
	txFirst bool   // give the maximum payload option before the allocator option (options are applied in order)
	dirs    []string
}

type srvRun struct {
	spec     *srvSpec
	h        *vhandler
	root     string
	in, out  *VPipe
	conn     *vduplex
	frames   []frame
	served   bool
	serveErr error
	short    string
	reqTypes []byte // request type per expected response (INIT first)
	reqIDs   []uint32
	alloc    *allocator
	allocBad []string
	appStop  func() // graceful stop by the application (request server)
}

var scratchRoot string
var scratchN int

func scratchDir() string {
	if scratchRoot == "" {
		base := "/dev/shm"
		if _, err := os.Stat(base); err != nil {
			base = os.TempDir()
		}
		scratchRoot, _ = os.MkdirTemp(base, fmt.Sprintf("verif-x-%d-", os.Getpid()))
	}
	scratchN++
	d := filepath.Join(scratchRoot, fmt.Sprint(scratchN))
	os.MkdirAll(d, 0o755)
	return d
}

// CleanupScratch removes this process's scratch trees.
func CleanupScratch() {
	if scratchRoot != "" {
		os.RemoveAll(scratchRoot)
	}
}

func pktType(p []byte) byte { return p[4] }
func pktID(p []byte) uint32 {
	if p[4] == sshFxpInit {
		return 0
	}
	return uint32(p[5])<<24 | uint32(p[6])<<16 | uint32(p[7])<<8 | uint32(p[8])
}

// run is the driver thread (thread 0).
func (s *srvSpec) start() *srvRun {
	r := &srvRun{spec: s, in: NewVPipe("c2s"), out: NewVPipe("s2c")}
	r.out.Rendezvous = s.rdvOut
	r.conn = &vduplex{in: r.in, out: r.out}
	var serve func() error
	switch s.server {
	case "rs":
		r.h = newVHandler(s.split)
		r.h.PutOnly = s.putOnly
		for n, c := range s.files {
			f := r.h.file(n, true)
			f.data = []byte(c)
			if off, ok := s.failAt[n]; ok {
				f.FailAt = off
			}
		}
		for _, n := range s.failOpn {
			r.h.FailOpen[n] = true
		}
		var opts []RequestServerOption
		if s.maxTx > 0 && s.txFirst {
			opts = append(opts, WithRSMaxTxPacket(s.maxTx))
		}
		if s.rsOpt != nil {
			opts = append(opts, s.rsOpt)
		} else if s.alloc {
			opts = append(opts, WithRSAllocator())
		}
		if s.maxTx > 0 && !s.txFirst {
			opts = append(opts, WithRSMaxTxPacket(s.maxTx))
		}
		rs := NewRequestServer(r.conn, r.h.handlers(), opts...)
		r.alloc = rs.pktMgr.alloc
		serve = rs.Serve
		r.appStop = func() { rs.Close() }
	case "os":
		if s.fixedRoot != "" {
			r.root = s.fixedRoot
			os.RemoveAll(r.root)
			os.MkdirAll(r.root, 0o755)
		} else {
			r.root = scratchDir()
		}
		for _, d := range s.dirs {
			os.Mkdir(filepath.Join(r.root, d), 0o755)
		}
		fixed := time.Unix(1_000_000_000, 0)
		var fnames []string
		for n := range s.files {
			fnames = append(fnames, n)
		}
		sort.Strings(fnames) // creation order decides the order in which tmpfs lists a directory
		for _, n := range fnames {
			c := s.files[n]
			os.MkdirAll(filepath.Dir(filepath.Join(r.root, n)), 0o755)
			os.WriteFile(filepath.Join(r.root, n), []byte(c), 0o644)
			os.Chtimes(filepath.Join(r.root, n), fixed, fixed) // attributes in replies must not depend on when the execution ran
		}
		for n := range s.files {
			if d := filepath.Dir(n); d != "." {
				os.Chtimes(filepath.Join(r.root, d), fixed, fixed)
			}
		}
		for _, d := range s.dirs {
			os.Chtimes(filepath.Join(r.root, d), fixed, fixed)
		}
		opts := []ServerOption{WithServerWorkingDirectory(r.root)}
		if s.maxTx > 0 && s.txFirst {
			opts = append(opts, WithMaxTxPacket(s.maxTx))
		}
		if s.osOpt != nil {
			opts = append(opts, s.osOpt)
		} else if s.alloc {
			opts = append(opts, WithAllocator())
		}
		if s.maxTx > 0 && !s.txFirst {
			opts = append(opts, WithMaxTxPacket(s.maxTx))
		}
		if s.readOnly {
			opts = append(opts, ReadOnly())
		}
		sv, err := NewServer(r.conn, opts...)
		if err != nil {
			panic(err)
		}
		r.alloc = sv.pktMgr.alloc
		serve = sv.Serve
	default:
		panic("unknown server " + s.server)
	}
	vsched.GoNamed("serve", "harness", func() {
		r.serveErr = serve()
		// the owner of the connection closes it once Serve has returned (what sshd / the tests do)
		r.out.CloseWrite()
		vsched.Env("served", r, false, nil)
		r.served = true
	})
	return r
}

func (r *srvRun) send(p []byte) {
	r.reqTypes = append(r.reqTypes, pktType(p))
	r.reqIDs = append(r.reqIDs, pktID(p))
	r.in.Write(p)
}

func (r *srvRun) collect(n int) bool {
	for len(r.frames) < n {
		f, err := readFrame(r.out)
		if err != nil {
			r.short = fmt.Sprintf("response stream ended after %d of %d responses: %v", len(r.frames), n, err)
			return false
		}
		r.frames = append(r.frames, f)
	}
	return true
}

func (r *srvRun) drive() {
	s := r.spec
	r.send(mustPkt(&sshFxInitPacket{Version: 3}))
	ok := r.collect(1)
	for _, p := range s.setup {
		if !ok {
			break
		}
		r.send(p)
		ok = r.collect(len(r.reqTypes))
	}
	if ok && s.replyFail {
		r.out.CloseRead()
	}
	if ok && s.appClose && r.appStop != nil {
		vsched.GoNamed("application", "harness", func() {
			vsched.Env("app.close", r, false, nil) // somewhere during the burst: the explorer decides when
			r.appStop()
		})
	}
	if ok && len(s.burst) > 0 {
		var all []byte
		for _, p := range s.burst {
			r.reqTypes = append(r.reqTypes, pktType(p))
			r.reqIDs = append(r.reqIDs, pktID(p))
			all = append(all, p...)
		}
		if s.replyFail || s.appClose {
			r.in.Write(all) // no reply can be expected: write the burst and hang up
		} else if s.hangup >= 0 && s.hangup < len(all) {
			r.in.Write(all[:s.hangup])
		} else {
			r.in.Write(all)
			if s.hangup < 0 {
				r.collect(len(r.reqTypes))
			}
		}
	}
	r.in.CloseWrite()
	// drain whatever else the server writes until it closes its side or Serve returns
	for {
		f, err := readFrame(r.out)
		if err != nil {
			break
		}
		r.frames = append(r.frames, f)
	}
	vsched.Env("await-served", r, true, func() bool { return r.served })
}

// orderOracle checks C02 on the collected frames: one response per request, same id, legal type,
// arrival order. complete says whether all responses are owed (connection was kept open).
func (r *srvRun) orderOracle(complete bool) string {
	if complete && len(r.frames) != len(r.reqTypes) {
		return fmt.Sprintf("%d requests but %d responses (%s)", len(r.reqTypes), len(r.frames), r.short)
	}
	if len(r.frames) > len(r.reqTypes) {
		return fmt.Sprintf("%d responses to %d requests", len(r.frames), len(r.reqTypes))
	}
	for i, f := range r.frames {
		if f.typ == sshFxpVersion {
			if r.reqTypes[i] != sshFxpInit {
				return fmt.Sprintf("response %d is VERSION but request %d is %s", i, i, fxp(r.reqTypes[i]))
			}
			continue
		}
		if f.id != r.reqIDs[i] {
			return fmt.Sprintf("response %d carries id %d, request %d had id %d (responses out of order or misrouted): %v", i, f.id, i, r.reqIDs[i], r.frames)
		}
		if !legalResponse(r.reqTypes[i], f.typ) {
			return fmt.Sprintf("response %d to %s has illegal type %s", i, fxp(r.reqTypes[i]), fxp(f.typ))
		}
	}
	return ""
}

func (r *srvRun) cleanup() {
	if r.root != "" && r.spec.fixedRoot == "" {
		os.RemoveAll(r.root)
	}
}

// fileContent returns the final content of a served file.
func (r *srvRun) fileContent(name string) string {
	if r.h != nil {
		if f := r.h.files["/"+strings.TrimPrefix(name, "/")]; f != nil {
			return string(f.data)
		}
		return "<missing>"
	}
	b, err := os.ReadFile(filepath.Join(r.root, name))
	if err != nil {
		return "<missing>"
	}
	return string(b)
}

// ---------------------------------------------------------------------------------------------
// C14: Close waits for the reads and writes sent before it.

// c14Split: two handles on two files, one opened write-only (gets the writes) and one read-only (gets
// the reads): the request server serves these through fileput / fileget instead of fileputget.
func c14SplitScenario(server string, nw, nr int) explore.Scenario {
	return func() (func(), func(*vsched.Exec) explore.Verdict) {
		const init = "ABCDEFGHIJKLMNOP"
		nm := func(n string) string {
			if server == "os" {
				return n
			}
			return "/" + n
		}
		spec := &srvSpec{server: server, split: true, hangup: -1, files: map[string]string{nm("f"): init, nm("g"): init}}
		spec.setup = [][]byte{
			mustPkt(&sshFxpOpenPacket{ID: 1, Path: nm("f"), Pflags: sshFxfWrite}),
			mustPkt(&sshFxpOpenPacket{ID: 2, Path: nm("g"), Pflags: sshFxfRead}),
		}
		want := []byte(init)
		id := uint32(10)
		for i := 0; i < nw || i < nr; i++ {
			if i < nw {
				d := []byte{byte('a' + 2*i), byte('b' + 2*i)}
				spec.burst = append(spec.burst, mustPkt(&sshFxpWritePacket{ID: id, Handle: "1", Offset: uint64(2 * i), Length: 2, Data: d}))
				copy(want[2*i:], d)
				id++
			}
			if i < nr {
				spec.burst = append(spec.burst, mustPkt(&sshFxpReadPacket{ID: id, Handle: "2", Offset: uint64(2 * i), Len: 2}))
				id++
			}
		}
		spec.burst = append(spec.burst, mustPkt(&sshFxpClosePacket{ID: id, Handle: "1"}), mustPkt(&sshFxpClosePacket{ID: id + 1, Handle: "2"}))
		var r *srvRun
		body := func() { r = spec.start(); r.drive() }
		judge := func(e *vsched.Exec) explore.Verdict {
			defer r.cleanup()
			v := explore.Verdict{}
			var st []string
			for _, f := range r.frames {
				st = append(st, f.String())
			}
			v.Outcome = strings.Join(st, " ") + " | " + r.fileContent("f")
			v.Sample = map[string]any{"responses": st}
			if e.Deadlock {
				return v
			}
			if msg := r.orderOracle(true); msg != "" {
				v.Bad, v.Key = msg, "c14-order"
				return v
			}
			for i, f := range r.frames {
				if c, ok := f.statusCode(); ok && c != sshFxOk {
					v.Bad = fmt.Sprintf("pipelined %s#%d before close was answered %s: %v", fxp(r.reqTypes[i]), f.id, fx(c), st)
					v.Key = fmt.Sprintf("c14-status-%s", fxp(r.reqTypes[i]))
					return v
				}
				if f.typ == sshFxpData && string(f.body[8:]) != init[2*((int(f.id)-10)/2):2*((int(f.id)-10)/2)+2] && nw == nr {
					v.Bad = fmt.Sprintf("read #%d returned %s", f.id, f)
					v.Key = "c14-read-data"
					return v
				}
			}
			if got := r.fileContent("f"); got != string(want) {
				v.Bad, v.Key = fmt.Sprintf("final content of f is %q, want %q", got, want), "c14-content"
				return v
			}
			if r.h != nil {
				for _, f := range r.h.Opened {
					if len(f.Bad) > 0 {
						v.Bad = fmt.Sprintf("handler object %s: %s", f.name, strings.Join(f.Bad, "; "))
						v.Key = "c14-overlap:" + f.Bad[0]
						return v
					}
				}
			}
			return v
		}
		return body, judge
	}
}

func c14Scenario(server string, nw, nr int, twoHandles bool, alloc bool, mid bool, ro bool, end string, sameID bool, failW bool) explore.Scenario {
	return func() (func(), func(*vsched.Exec) explore.Verdict) {
		const init = "ABCDEFGHIJKLMNOP"
		spec := &srvSpec{server: server, alloc: alloc, split: true, hangup: -1, files: map[string]string{"/f": init, "/g": init}}
		if server == "os" {
			spec.files = map[string]string{"f": init, "g": init}
		}
		name := func(n string) string {
			if server == "os" {
				return n
			}
			return "/" + n
		}
		if failW {
			// request server whose handlers are a plain FileWriter; the store refuses the write at offset 2 (the second of the burst):
			// the other writes sent before the CLOSE are carried out all the same, and the handle stays open until its CLOSE
			spec.putOnly = true
			spec.failAt = map[string]int64{name("f"): 2}
		}
		spec.replyFail, spec.appClose = end == "replyfail", end == "appclose"
		pf := uint32(sshFxfRead | sshFxfWrite)
		if ro {
			// a read-only os-backed server: the handles are opened for reading, the burst holds reads only
			spec.readOnly = true
			pf = sshFxfRead
		}
		spec.setup = append(spec.setup, mustPkt(&sshFxpOpenPacket{ID: 1, Path: name("f"), Pflags: pf}))
		handles := []string{"1"}
		if twoHandles {
			spec.setup = append(spec.setup, mustPkt(&sshFxpOpenPacket{ID: 2, Path: name("g"), Pflags: pf}))
			handles = append(handles, "2")
		}
		id := uint32(10)
		want := map[string][]byte{"f": []byte(init), "g": []byte(init)}
		names := []string{"f", "g"}
		type rd struct {
			id   uint32
			want string
		}
		var reads []rd
		// with two handles the requests are interleaved: W(A) W(B) W(A) W(B) ... R(A) R(B) ...
		for i := 0; i < nw; i++ {
			for hi, h := range handles {
				off := 2 * i
				data := []byte{byte('a' + off + hi), byte('b' + off + hi)}
				spec.burst = append(spec.burst, mustPkt(&sshFxpWritePacket{ID: id, Handle: h, Offset: uint64(off), Length: 2, Data: data}))
				copy(want[names[hi]][off:], data)
				if !sameID {
					if !sameID {
						id++
					}
				}
			}
		}
		if failW {
			copy(want["f"][2:], init[2:4]) // the refused write leaves its bytes as they were
		}
		for i := 0; i < nr; i++ {
			for _, h := range handles {
				off := 8 + 2*i
				spec.burst = append(spec.burst, mustPkt(&sshFxpReadPacket{ID: id, Handle: h, Offset: uint64(off), Len: 2}))
				reads = append(reads, rd{id, init[off : off+2]})
				if !sameID {
					if !sameID {
						id++
					}
				}
			}
		}
		if mid {
			// a sequential (non read/write) request between the transfers and the close
			spec.burst = append(spec.burst, mustPkt(&sshFxpFstatPacket{ID: id, Handle: handles[0]}))
			if !sameID {
				id++
			}
		}
		for _, h := range handles {
			spec.burst = append(spec.burst, mustPkt(&sshFxpClosePacket{ID: id, Handle: h}))
			if !sameID {
				id++
			}
		}
		var r *srvRun
		body := func() {
			r = spec.start()
			r.drive()
		}
		judge := func(e *vsched.Exec) explore.Verdict {
			defer r.cleanup()
			v := explore.Verdict{}
			var st []string
			for _, f := range r.frames {
				st = append(st, f.String())
			}
			files := names[:len(handles)]
			var content []string
			for _, n := range files {
				content = append(content, r.fileContent(n))
			}
			v.Outcome = strings.Join(st, " ") + " | " + strings.Join(content, ",")
			v.Sample = map[string]any{"responses": st, "final": content}
			if e.Deadlock {
				return v
			}
			if end != "" {
				// the replies cannot be collected (the peer's receiving side is gone / the application stopped the server):
				// what remains of the property is the order of events at the handler objects
				v.Outcome = "end=" + end
				if r.h != nil {
					for _, f := range r.h.Opened {
						if len(f.Bad) > 0 {
							v.Bad = fmt.Sprintf("session ended by %s; handler object %s: %s", end, f.name, strings.Join(f.Bad, "; "))
							v.Key = "c14-overlap:" + f.Bad[0]
							return v
						}
						if f.Closes != 1 {
							v.Bad = fmt.Sprintf("session ended by %s; handler object %s closed %d times", end, f.name, f.Closes)
							v.Key = "c14-closes"
							return v
						}
					}
				}
				if end == "replyfail" {
					// the requests all arrived (only the replies are lost): every write sent before the close must have been carried out
					for _, n := range names[:len(handles)] {
						if got := r.fileContent(n); got != string(want[n]) {
							v.Bad = fmt.Sprintf("session in which the peer has stopped receiving: final content of %s is %q, want %q (a write sent before the close was not carried out)", n, got, want[n])
							v.Key = "c14-content"
							return v
						}
					}
				}
				return v
			}
			if msg := r.orderOracle(true); msg != "" {
				v.Bad, v.Key = msg, "c14-order"
				return v
			}
			for i, f := range r.frames {
				if failW && r.reqTypes[i] == sshFxpWrite && i == 3 { // INIT, OPEN, write@0, write@2: the refused one
					if c, ok := f.statusCode(); !ok || c == sshFxOk {
						v.Bad = fmt.Sprintf("the write the store refused was answered %s: %v", f, st)
						v.Key = "c14-refused-write-ok"
						return v
					}
					continue
				}
				if c, ok := f.statusCode(); ok && c != sshFxOk {
					v.Bad = fmt.Sprintf("pipelined %s#%d before close was answered %s: %v", fxp(r.reqTypes[i]), f.id, fx(c), st)
					v.Key = fmt.Sprintf("c14-status-%s", fxp(r.reqTypes[i]))
					return v
				}
			}
			for _, x := range reads {
				for _, f := range r.frames {
					if f.id == x.id && (f.typ != sshFxpData || string(f.body[8:]) != x.want) {
						v.Bad = fmt.Sprintf("read #%d returned %s, want %q", x.id, f, x.want)
						v.Key = "c14-read-data"
						return v
					}
				}
			}
			for i, n := range files {
				if content[i] != string(want[n]) {
					v.Bad = fmt.Sprintf("final content of %s is %q, want %q", n, content[i], want[n])
					v.Key = "c14-content"
					return v
				}
			}
			if r.h != nil {
				for _, f := range r.h.Opened {
					if len(f.Bad) > 0 {
						v.Bad = fmt.Sprintf("handler object %s: %s", f.name, strings.Join(f.Bad, "; "))
						v.Key = "c14-overlap:" + f.Bad[0]
						return v
					}
					if f.Closes != 1 {
						v.Bad = fmt.Sprintf("handler object %s closed %d times", f.name, f.Closes)
						v.Key = "c14-closes"
						return v
					}
				}
			}
			return v
		}
		return body, judge
	}
}

func atoiDef(s string, d int) int {
	var n int
	if _, err := fmt.Sscan(s, &n); err != nil {
		return d
	}
	return n
}

func init() {
	reg.Part("C14/sched", func(c *reg.Ctx) *reg.Result {
		sc := c14Scenario(c.Arg("server", "rs"), c.ArgInt("nw", 2), c.ArgInt("nr", 1), c.Arg("two", "0") == "1", c.Arg("alloc", "0") == "1", c.Arg("mid", "0") == "1", c.Arg("ro", "0") == "1", c.Arg("end", ""), c.Arg("sameid", "0") == "1", c.Arg("failw", "0") == "1")
		if c.Arg("splitmode", "0") == "1" {
			sc = c14SplitScenario(c.Arg("server", "rs"), c.ArgInt("nw", 2), c.ArgInt("nr", 2))
		}
		return explore.Run(explore.Config{Prop: "C14", Strategy: c.Arg("strategy", "db"), Bound: c.ArgInt("bound", 2), Ctx: c}, sc)
	})
	reg.Prop(&reg.Property{
		ID:    "C14",
		Level: "model_checking",
		Rule: "every schedule of the real server (dispatcher, 8+1 workers, controller, Serve loop, handler objects with separate enter/exit points) on a causally well-formed pipelined session " +
			"'open; write*k; read*j; close' with at most d deviations from the default schedule; distinct = distinct (response stream, final content) outcomes",
		Assumptions: []string{"deviation bound d and participant bound W as stated per job", "handler object calls are atomic between their enter and exit points", "map iteration sorted"},
		Jobs: func(tier string) []reg.Job {
			js := withPolicies(tier, c14Jobs(tier), func(j reg.Job) bool { return j.Args["server"] != "os" })
			// the close barrier at the narrowest seam: the packet manager alone, all programs of reads, writes and closes on two handles
			pmj := func(n, bound, budget int) reg.Job {
				return reg.Job{Part: "C02/pm", Build: "instr-w2", Args: map[string]string{"alphabet": "RWrCc", "len": fmt.Sprint(n), "strategy": "db", "bound": fmt.Sprint(bound)}, Shards: 16, BudgetS: budget,
					Label: fmt.Sprintf("packet manager alone (W=2): all programs <= %d over R,W,r,C,c, db%d", n, bound)}
			}
			if tier == "thorough" {
				return append(js, withPolicies(tier, []reg.Job{pmj(5, 3, 420)}, func(reg.Job) bool { return true })...)
			}
			// quick: length 3 to three deviations, length 4 to two
			return append(js, withPolicies(tier, []reg.Job{pmj(3, 3, 100), pmj(4, 2, 100)}, func(reg.Job) bool { return true })...)
		},
	})
}

func c14Jobs(tier string) []reg.Job {
	{
		{
			j := func(label, build, server string, nw, nr int, two bool, bound, budget int) reg.Job {
				a := map[string]string{"server": server, "nw": fmt.Sprint(nw), "nr": fmt.Sprint(nr), "bound": fmt.Sprint(bound)}
				if two {
					a["two"] = "1"
				}
				return reg.Job{Part: "C14/sched", Build: build, Args: a, Shards: 16, BudgetS: budget, Label: label}
			}
			if tier == "thorough" {
				return []reg.Job{
					j("rs W=8 2w+1r db3", "instr", "rs", 2, 1, false, 3, 900),
					j("rs W=2 2w+2r db4", "instr-w2", "rs", 2, 2, false, 4, 900),
					j("rs W=3 two handles db3", "instr-w3", "rs", 1, 1, true, 3, 600),
					func() reg.Job {
						x := j("rs W=2 3w, close, every request with the same id db4", "instr-w2", "rs", 3, 0, false, 4, 600)
						x.Args["sameid"] = "1"
						return x
					}(),
					func() reg.Job {
						x := j("rs (FileWriter-only handlers) W=2 3w of which the store refuses the second, close db4", "instr-w2", "rs", 3, 0, false, 4, 600)
						x.Args["failw"] = "1"
						return x
					}(),
					func() reg.Job {
						x := j("os W=2 3w, close, every request with the same id db3", "instr-w2", "os", 3, 0, false, 3, 600)
						x.Args["sameid"] = "1"
						return x
					}(),
					j("os W=8 2w+1r db3", "instr", "os", 2, 1, false, 3, 900),
					j("os W=2 2w+2r db3", "instr-w2", "os", 2, 2, false, 3, 600),
					func() reg.Job {
						x := j("os read-only W=2 3r, fstat, close db4", "instr-w2", "os", 0, 3, false, 4, 600)
						x.Args["ro"], x.Args["mid"] = "1", "1"
						return x
					}(),
					func() reg.Job {
						x := j("os read-only W=8 3r, close db3", "instr", "os", 0, 3, false, 3, 600)
						x.Args["ro"] = "1"
						return x
					}(),
					func() reg.Job {
						x := j("rs W=2 3w+2r, realpath, close: the peer has stopped receiving db3", "instr-w2", "rs", 3, 2, false, 3, 600)
						x.Args["end"], x.Args["mid"] = "replyfail", "1"
						return x
					}(),
					func() reg.Job {
						x := j("rs W=2 2w+2r, close: the application calls Close() db3", "instr-w2", "rs", 2, 2, false, 3, 600)
						x.Args["end"] = "appclose"
						return x
					}(),
					func() reg.Job {
						x := j("rs W=2 2w+1r, fstat, close db3", "instr-w2", "rs", 2, 1, false, 3, 600)
						x.Args["mid"] = "1"
						return x
					}(),
				}
			}
			return []reg.Job{
				j("rs W=8 2w+1r db2", "instr", "rs", 2, 1, false, 2, 100),
				j("rs W=2 2w+1r db3", "instr-w2", "rs", 2, 1, false, 3, 100),
				j("os W=2 2w+1r db2", "instr-w2", "os", 2, 1, false, 2, 100),
				j("rs W=2 two handles interleaved 2w each db2", "instr-w2", "rs", 2, 0, true, 2, 100),
				func() reg.Job {
					// a peer that does not number its requests: the server must not rely on request ids to tell requests apart
					x := j("rs W=2 3w, close, every request with the same id db3", "instr-w2", "rs", 3, 0, false, 3, 100)
					x.Args["sameid"] = "1"
					return x
				}(),
				func() reg.Job {
					x := j("rs (FileWriter-only handlers) W=2 3w of which the store refuses the second, close db3", "instr-w2", "rs", 3, 0, false, 3, 100)
					x.Args["failw"] = "1"
					return x
				}(),
				func() reg.Job {
					x := j("os W=2 3w, close, every request with the same id db2", "instr-w2", "os", 3, 0, false, 2, 100)
					x.Args["sameid"] = "1"
					return x
				}(),
				func() reg.Job {
					x := j("rs W=2 write-only + read-only handles 2w/2r db2", "instr-w2", "rs", 2, 2, false, 2, 100)
					x.Args["splitmode"] = "1"
					return x
				}(),
				func() reg.Job {
					x := j("rs W=2 2w+1r, fstat, close db3", "instr-w2", "rs", 2, 1, false, 3, 100)
					x.Args["mid"] = "1"
					return x
				}(),
				func() reg.Job {
					x := j("os W=2 2w+1r, fstat, close db2", "instr-w2", "os", 2, 1, false, 2, 100)
					x.Args["mid"] = "1"
					return x
				}(),
				j("os W=2 two handles interleaved 2w+1r each db2", "instr-w2", "os", 2, 1, true, 2, 100),
				func() reg.Job {
					x := j("os read-only W=2 3r, close db3", "instr-w2", "os", 0, 3, false, 3, 100)
					x.Args["ro"] = "1"
					return x
				}(),
				func() reg.Job {
					x := j("os read-only W=8 3r, close db2", "instr", "os", 0, 3, false, 2, 100)
					x.Args["ro"] = "1"
					return x
				}(),
				func() reg.Job {
					x := j("rs W=2 3w+1r, realpath, close: the peer has stopped receiving db2", "instr-w2", "rs", 3, 1, false, 2, 100)
					x.Args["end"], x.Args["mid"] = "replyfail", "1"
					return x
				}(),
				func() reg.Job {
					x := j("rs W=2 2w+1r, close: the application calls Close() db2", "instr-w2", "rs", 2, 1, false, 2, 100)
					x.Args["end"] = "appclose"
					return x
				}(),
			}
		}
	}
}

var _ = bytes.Equal
