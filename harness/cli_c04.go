//go:build verif

package sftp

// C04: connection loss fails every call and hangs none.
// Crash points (every byte offset at which the server->client stream may end, every client->server
// write that may fail) x in-flight sets x schedules with a bounded number of deviations.

import (
	"fmt"
	"os"
	"strings"

	"verif/explore"
	"verif/reg"
	"verif/vsched"
)

// measureCalls runs the fault-free default schedule once and returns the number of bytes the peer
// wrote and the number of client->server writes.
func measureCalls(s callsSpec) (bytes, writes int) {
	explore.Run(explore.Config{Prop: "C04", Strategy: "db", Bound: 0}, callsScenario(s, "C04"))
	if lastCliEnv == nil {
		return 0, 0
	}
	return len(lastCliEnv.s2c.Total), lastCliEnv.c2s.Writes
}

var lastCliEnv *cliEnv

// judgeCut is the oracle for a multi-chunk transfer under connection loss.
func (s xferSpec) judgeCut(res *xferResult, env *cliEnv) (outcome, bad, key string) {
	gotErr := errText(res.err)
	outcome = fmt.Sprintf("n=%d err=%q after=%v wait=%v", res.n, gotErr, res.afterErr != nil, res.waitErr != nil)
	if res.n < 0 {
		return outcome, fmt.Sprintf("%s: returned a negative count\n  %s", s, outcome), "cut-count:" + s.api
	}
	fail := func(k, f string, a ...any) (string, string, string) {
		return outcome, fmt.Sprintf("%s: ", s) + fmt.Sprintf(f, a...) + "\n  " + outcome + " wire=[" + env.peer.wireString() + "]", "cut-" + k + ":" + s.api
	}
	if len(env.peer.Bad) > 0 {
		return fail("peer", "peer observed protocol violation: %v", env.peer.Bad)
	}
	if res.closeErr != nil {
		return fail("close", "Client.Close returned %v", res.closeErr)
	}
	if res.err == nil {
		// nothing was lost as far as this call is concerned: the fault-free oracle applies
		clean := s
		clean.cut, clean.failWrite = -1, 0
		o, b, k := clean.judge(res, env)
		if b != "" {
			return o, "(connection cut at byte " + fmt.Sprint(s.cut) + ", write failure " + fmt.Sprint(s.failWrite) + ") " + b, "cut-" + k
		}
		return outcome, "", ""
	}
	isRead := s.api == "ReadAt" || s.api == "Read" || s.api == "WriteTo"
	if isRead {
		src := pattern(s.fileLen, 'a')
		n := int(res.n)
		if n > len(res.data) || s.off+n > len(src) && n > 0 {
			return fail("count", "count %d exceeds what exists", n)
		}
		if n > 0 && string(res.data[:n]) != string(src[s.off:s.off+n]) {
			return fail("data", "the %d bytes returned with the error are %q, the file has %q", n, res.data[:n], src[s.off:s.off+n])
		}
	} else if s.api == "WriteAt" || s.api == "Write" {
		n := int(res.n)
		src := pattern(s.reqLen, 'a')
		pf := env.peer.files["/f"].data
		if n > 0 && (s.off+n > len(pf) || string(pf[s.off:s.off+n]) != string(src[:n])) {
			return fail("stored", "count %d returned with the error but the served file %q does not hold that prefix", n, pf)
		}
	}
	if s.after && res.afterErr == nil && s.cut >= 0 && s.cut < len(env.s2c.Total) {
		return fail("after", "a call started after the connection was lost returned nil")
	}
	return outcome, "", ""
}

func xferCutScenario(s xferSpec) explore.Scenario {
	return func() (func(), func(*vsched.Exec) explore.Verdict) {
		res := &xferResult{}
		var env *cliEnv
		body := func() { s.run(res, &env) }
		judge := func(e *vsched.Exec) explore.Verdict {
			if e.Deadlock {
				return explore.Verdict{Outcome: "DEADLOCK"}
			}
			if env.err != nil {
				v := explore.Verdict{Outcome: "newclient-failed"}
				if !env.c2s.wclosed {
					v.Bad, v.Key = "NewClientPipe failed ("+env.err.Error()+") but did not close the writer", "cut-newclient-writer-open"
				}
				return v
			}
			o, bad, key := s.judgeCut(res, env)
			return explore.Verdict{Outcome: o, Bad: bad, Key: key, Sample: map[string]any{"spec": s.String(), "outcome": o}}
		}
		return body, judge
	}
}

func measureXfer(s xferSpec) (bytes, writes int) {
	var n, w int
	mk := func() (func(), func(*vsched.Exec) explore.Verdict) {
		res := &xferResult{}
		var env *cliEnv
		return func() { s.run(res, &env) }, func(e *vsched.Exec) explore.Verdict {
			if env != nil {
				n, w = len(env.s2c.Total), env.c2s.Writes
			}
			return explore.Verdict{Outcome: "probe"}
		}
	}
	explore.Run(explore.Config{Prop: "C04", Strategy: "db", Bound: 0}, mk)
	return n, w
}

type c04Case struct {
	calls *callsSpec
	xfer  *xferSpec
	bound int
	desc  string
}

func c04Cases(tier string, group string, lower bool) []c04Case {
	stat := func(p string) cop { return cop{kind: "Stat", path: p} }
	rl := func(p string) cop { return cop{kind: "ReadLink", path: p} }
	ra := func(off int) cop { return cop{kind: "ReadAt", off: off} }
	wa := func(off int, d string) cop { return cop{kind: "WriteAt", off: off, data: d} }
	var out []c04Case
	deep := 3
	if tier == "thorough" {
		deep = 4
	}
	if lower {
		deep-- // jobs under another default scheduler: one deviation less
	}
	if group == "" || group == "calls" {
		bases := []callsSpec{
			{callers: [][]cop{{stat("/a")}}, permute: true, after: true},
			{callers: [][]cop{{stat("/a")}, {rl("/l")}}, permute: true, after: true},
			{callers: [][]cop{{wa(0, "PQ")}, {ra(4)}}, permute: true, after: true},
			{callers: [][]cop{{{kind: "ReadDir", path: "/dir3"}}}, permute: true, after: true},                                 // a listing of three batches
			{callers: [][]cop{{stat("/a"), stat("/b")}, {rl("/l")}}, permute: true, after: true},                               // a caller that starts its next call while the loss is being announced
			{ctxCancel: true, callers: [][]cop{{{kind: "ReadDirCtx", path: "/dir2"}, stat("/b")}}, permute: true, after: true}, // a listing abandoned through its context, then the loss
		}
		// a client with a remote-status function (NewClient over ssh): the status arrives only after every caller has returned
		bases = append(bases, callsSpec{status: true, callers: [][]cop{{stat("/a")}, {rl("/l")}}, permute: true, after: true})
		if tier == "thorough" {
			bases = append(bases, callsSpec{callers: [][]cop{{stat("/a"), ra(2)}, {rl("/l")}, {wa(0, "XY")}}, permute: true, after: true})
		}
		for bi := range bases {
			b := bases[bi]
			b.cut = -1
			// the conversations of several requests and the three-operation sets cost an order of magnitude more per
			// deviation: they are explored one level less deep than the one- and two-call sets
			heavy := b.ctxCancel
			nops := 0
			for _, c := range b.callers {
				for _, o := range c {
					nops++
					heavy = heavy || o.kind == "ReadDir"
				}
			}
			deep := deep
			if heavy || nops > 2 {
				deep--
			}
			total, writes := measureCalls(b)
			for k := 0; k <= total; k++ {
				for _, ce := range []bool{false, true} {
					if ce && tier != "thorough" && k%4 != 1 {
						continue
					}
					s := b
					s.cut, s.cutErr = k, ce
					out = append(out, c04Case{calls: &s, bound: deep, desc: s.String()})
					if ce {
						// the same cut reported as a timeout-class error that every later read repeats
						t := b
						t.cut, t.cutTmo = k, true
						out = append(out, c04Case{calls: &t, bound: deep, desc: t.String()})
					} else {
						// the same cut on a transport whose sending half goes on accepting bytes after Close
						t := b
						t.cut, t.sink = k, true
						out = append(out, c04Case{calls: &t, bound: deep, desc: t.String()})
					}
				}
			}
			for j := 1; j <= writes+1; j++ {
				for _, eof := range []bool{false, true} {
					s := b
					s.cut, s.fw, s.fwEOF = -1, j, eof
					out = append(out, c04Case{calls: &s, bound: deep, desc: s.String()})
				}
			}
		}
	}
	if group == "" || group == "xfer" {
		apis := []struct {
			api  string
			conc bool
		}{{"ReadAt", true}, {"ReadAt", false}, {"WriteTo", true}, {"WriteTo", false}, {"WriteAt", true}, {"WriteAt", false}, {"ReadFrom", true}, {"ReadFrom", false}, {"ReadFromC", true}}
		for _, a := range apis {
			b := xferSpec{api: a.api, conc: a.conc, P: 2, K: 2, fileLen: 6, reqLen: 6, permute: true, cut: -1, after: true}
			if a.api != "ReadAt" && a.api != "WriteTo" {
				b.fileLen = 0
			}
			total, writes := measureXfer(b)
			for k := 0; k <= total; k++ {
				s := b
				s.cut = k
				bd := 1
				if tier == "thorough" {
					bd = 3
				}
				out = append(out, c04Case{xfer: &s, bound: bd, desc: s.String()})
			}
			for j := 1; j <= writes+1; j++ {
				for _, eof := range []bool{false, true} {
					s := b
					s.failWrite, s.fwEOF = j, eof
					fb := 1
					if tier == "thorough" {
						fb = 2
					}
					out = append(out, c04Case{xfer: &s, bound: fb, desc: s.String()})
				}
			}
		}
	}
	return out
}

func init() {
	reg.Part("C04/cuts", func(c *reg.Ctx) *reg.Result {
		total := reg.NewResult(c.Part)
		cases := c04Cases(c.Tier, c.Arg("group", ""), c.Arg("policy", "") != "")
		sub := *c
		sub.NShards, sub.Shard = 1, 0
		completed := 0
		for i, cs := range cases {
			if !c.Mine(int64(i)) {
				continue
			}
			if f := os.Getenv("VERIF_C04_FILTER"); f != "" && !strings.Contains(cs.desc, f) {
				continue
			}
			if c.Expired() {
				total.Exhaustive = false
				break
			}
			var sc explore.Scenario
			if cs.calls != nil {
				sc = func() (func(), func(*vsched.Exec) explore.Verdict) {
					b, j := callsScenario(*cs.calls, "C04")()
					return b, j
				}
			} else {
				sc = xferCutScenario(*cs.xfer)
			}
			r := explore.Run(explore.Config{Prop: "C04", Strategy: "db", Bound: cs.bound, Ctx: &sub, Label: c.Part}, sc)
			total.Evaluations += r.Evaluations
			total.States += r.States
			total.Transitions += r.Transitions
			total.Distinct += r.Distinct
			for k, v := range r.Outcomes {
				if len(total.Outcomes) < 5000 {
					total.Outcomes[k] += v
				}
			}
			for _, sm := range r.Samples {
				total.Sample(sm)
			}
			for _, v := range r.Violations {
				total.Violate(v.Property, v.Key, cs.desc+"\n"+v.Msg, map[string]any{"case": cs.desc, "schedule": v.Replay}, v.Trace)
			}
			if os.Getenv("VERIF_C04_FILTER") != "" {
				if df, err := os.OpenFile(fmt.Sprintf("/dev/shm/c04dbg-%d.txt", os.Getpid()), os.O_CREATE|os.O_APPEND|os.O_WRONLY, 0o644); err == nil {
					for k, v := range r.Outcomes {
						fmt.Fprintf(df, "CASE %s\n   %d x %s\n", cs.desc, v, k)
					}
					df.Close()
				}
			}
			if r.EngineError != "" {
				total.EngineError = r.EngineError
				break
			}
			if !r.Exhaustive {
				total.Exhaustive = false
			} else {
				completed++
			}
		}
		total.Notes["crash_point_cases_total"] = len(cases)
		total.Notes["crash_point_cases_completed_this_shard"] = completed
		total.Bound = fmt.Sprintf("%d (crash point x in-flight set) cases, each explored to its deviation bound (one- and two-call sets: db(3) quick / db(4) thorough, listings and three-operation sets one less, all one less under the other default schedulers; transfers: db(1) / db(3), their failing writes db(1) / db(2))", len(cases))
		return total
	})
	reg.Prop(&reg.Property{
		ID:    "C04",
		Level: "model_checking",
		Rule: "crash points: the server->client stream ends (EOF or error) after every byte offset k of the conversation including the handshake, or the j-th client->server write fails, for every j; in-flight sets: one call, two concurrent calls, " +
			"one multi-chunk transfer of each kind (sequential and concurrent), plus a call started after the loss; for each (crash point, set) all schedules and reply orders with a bounded number of deviations; distinct = distinct (case, schedule) pairs",
		Assumptions: []string{"a peer that sees EOF on its read side closes its write side (what sshd does); without that Client.Close waits by design",
			"after an injected write failure the writer keeps failing (a dead transport)", "deviation bounds as reported"},
		Jobs: func(tier string) []reg.Job {
			b, pb := 100, 100
			if tier == "thorough" {
				b, pb = 600, 150
			}
			js := []reg.Job{
				{Part: "C04/cuts", Build: "instr", Args: map[string]string{"group": "calls", "cache": "1"}, Shards: 16, BudgetS: b, Label: "calls: every cut point and failing write"},
				{Part: "C04/cuts", Build: "instr", Args: map[string]string{"group": "xfer", "cache": "1"}, Shards: 16, BudgetS: b, Label: "transfers: every cut point and failing write"},
			}
			// the same cases with deviations counted from other default schedulers (explore.Config.Policy)
			pols := []string{"2", "3"}
			if tier == "thorough" {
				pols = []string{"1", "2", "3", "4"}
			}
			for _, p := range pols {
				js = append(js,
					reg.Job{Part: "C04/cuts", Build: "instr", Args: map[string]string{"group": "calls", "cache": "1", "policy": p}, Shards: 16, BudgetS: pb, Label: "calls: every cut point and failing write [policy " + p + "]"},
					reg.Job{Part: "C04/cuts", Build: "instr", Args: map[string]string{"group": "xfer", "cache": "1", "policy": p}, Shards: 16, BudgetS: pb, Label: "transfers: every cut point and failing write [policy " + p + "]"})
			}
			return js
		},
	})
}
