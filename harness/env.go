//go:build verif

package sftp

// Environment models shared by the scheduled (Engine A) harnesses: byte pipes that are scheduler
// objects, a duplex endpoint for servers, packet helpers and instrumented handler objects.

import (
	"encoding/binary"
	"errors"
	"fmt"
	"io"
	"os"
	rdebug "runtime/debug"
	"sort"
	"strings"
	"time"

	"verif/reg"
	"verif/vsched"
)

// VPipe is a unidirectional in-memory byte pipe whose operations are scheduling points.
type VPipe struct {
	Name       string
	buf        []byte
	wclosed    bool  // writer side closed: reader sees EOF after draining
	rclosed    bool  // reader side closed: reads and writes fail
	Rendezvous bool  // io.Pipe-like: Write returns only when everything was consumed
	Writes     int   // completed Write calls
	FailWrite  int   // the n-th Write call and all later ones fail (1-based; 0 = never)
	EndErr     error // what the reader gets once the writer has closed and everything was read (nil = io.EOF)
	FailOnce   int   // the n-th Write call fails, later ones work again (a transient failure; 0 = never)
	SinkClosed bool  // writes after the writer was closed are accepted and dropped (a WriteCloser whose Close does not stop it)
	FailErr    error // error of failing writes (default: a plain injected error; io.EOF models a closed ssh channel)
	CutAfter   int   // the reader sees EOF/err after this many bytes in total (-1 = never)
	CutErr     error
	delivered  int
	Total      []byte // everything ever written (for framing checks)
	Chunks     []int  // length of every write
}

func NewVPipe(name string) *VPipe { return &VPipe{Name: name, CutAfter: -1} }

func (p *VPipe) readable() bool {
	return len(p.buf) > 0 || p.wclosed || p.rclosed || (p.CutAfter >= 0 && p.delivered >= p.CutAfter)
}

func (p *VPipe) Read(b []byte) (int, error) {
	vsched.Env("pipe.read:"+p.Name, p, false, p.readable)
	if p.rclosed {
		return 0, io.ErrClosedPipe
	}
	if p.CutAfter >= 0 && p.delivered >= p.CutAfter {
		if p.CutErr != nil {
			return 0, p.CutErr
		}
		return 0, io.EOF
	}
	if len(p.buf) == 0 {
		if p.EndErr != nil {
			return 0, p.EndErr
		}
		return 0, io.EOF
	}
	if len(b) == 0 {
		return 0, nil
	}
	n := copy(b, p.buf)
	if p.CutAfter >= 0 && p.delivered+n > p.CutAfter {
		n = p.CutAfter - p.delivered
	}
	p.buf = p.buf[n:]
	p.delivered += n
	return n, nil
}

func (p *VPipe) Write(b []byte) (int, error) {
	vsched.Env("pipe.write:"+p.Name, p, false, nil)
	p.Writes++
	if p.SinkClosed && p.wclosed {
		return len(b), nil
	}
	if p.rclosed || p.wclosed {
		return 0, io.ErrClosedPipe
	}
	if p.FailOnce > 0 && p.Writes == p.FailOnce {
		if p.FailErr != nil {
			return 0, p.FailErr
		}
		return 0, errors.New("injected transient write failure")
	}
	if p.FailWrite > 0 && p.Writes >= p.FailWrite { // a dead transport stays dead
		if p.FailErr != nil {
			return 0, p.FailErr
		}
		return 0, errors.New("injected write failure")
	}
	p.buf = append(p.buf, b...)
	p.Total = append(p.Total, b...)
	p.Chunks = append(p.Chunks, len(b))
	if p.Rendezvous {
		vsched.Env("pipe.wdone:"+p.Name, p, false, func() bool { return len(p.buf) == 0 || p.rclosed })
	}
	return len(b), nil
}

// CloseWrite is the writer hanging up.
func (p *VPipe) CloseWrite() error {
	vsched.Env("pipe.closew:"+p.Name, p, false, nil)
	p.wclosed = true
	return nil
}

// CloseRead is the reader going away.
func (p *VPipe) CloseRead() error {
	vsched.Env("pipe.closer:"+p.Name, p, false, nil)
	p.rclosed = true
	return nil
}

// Close (io.WriteCloser for the client's writer).
func (p *VPipe) Close() error { return p.CloseWrite() }

// vduplex is the server's connection: it reads from in and writes to out; Close closes both
// directions and unblocks a pending Read, like a net.Conn or an ssh channel.
type vduplex struct {
	in, out *VPipe
	closes  int
}

func (d *vduplex) Read(b []byte) (int, error)  { return d.in.Read(b) }
func (d *vduplex) Write(b []byte) (int, error) { return d.out.Write(b) }
func (d *vduplex) Close() error {
	d.closes++
	d.in.CloseRead()
	return d.out.CloseWrite()
}

// ---- packets ----

func mustPkt(m interface{ MarshalBinary() ([]byte, error) }) []byte {
	b, err := m.MarshalBinary()
	if err != nil {
		panic(err)
	}
	binary.BigEndian.PutUint32(b, uint32(len(b)-4))
	return b
}

// frame is one decoded frame of a byte stream.
type frame struct {
	typ  byte
	id   uint32
	body []byte // after the type byte
}

// splitFrames cuts a response stream into frames; rest is the undecodable tail.
func splitFrames(b []byte) (fs []frame, rest []byte) {
	for len(b) >= 4 {
		l := binary.BigEndian.Uint32(b)
		if l == 0 || uint64(l) > uint64(len(b)-4) {
			break
		}
		f := frame{typ: b[4], body: b[5 : 4+l]}
		if f.typ != sshFxpVersion && f.typ != sshFxpInit && len(f.body) >= 4 {
			f.id = binary.BigEndian.Uint32(f.body)
		}
		fs = append(fs, f)
		b = b[4+l:]
	}
	return fs, b
}

func (f frame) statusCode() (uint32, bool) {
	if f.typ != sshFxpStatus || len(f.body) < 8 {
		return 0, false
	}
	return binary.BigEndian.Uint32(f.body[4:]), true
}

func (f frame) String() string {
	s := fmt.Sprintf("%s#%d", fxp(f.typ), f.id)
	if c, ok := f.statusCode(); ok {
		s += fmt.Sprintf("(%s)", fx(c))
	}
	if f.typ == sshFxpData && len(f.body) >= 8 {
		if d := f.body[8:]; len(d) > 64 {
			// large payloads: length, a hash of the content and its first bytes (distinct contents stay distinct)
			h := uint64(14695981039346656037)
			for _, c := range d {
				h = (h ^ uint64(c)) * 1099511628211
			}
			s += fmt.Sprintf("(%d bytes, fnv %016x, %q...)", len(d), h, d[:16])
		} else {
			s += fmt.Sprintf("(%q)", d)
		}
	}
	if f.typ == sshFxpHandle && len(f.body) >= 8 {
		s += fmt.Sprintf("(%q)", f.body[8:])
	}
	return s
}

// readFrame reads one frame from r (scheduled or real).
func readFrame(r io.Reader) (frame, error) {
	var hdr [4]byte
	if _, err := io.ReadFull(r, hdr[:]); err != nil {
		return frame{}, err
	}
	l := binary.BigEndian.Uint32(hdr[:])
	if l == 0 || l > 1<<20 {
		return frame{}, fmt.Errorf("bad frame length %d", l)
	}
	body := make([]byte, l)
	if _, err := io.ReadFull(r, body); err != nil {
		return frame{}, err
	}
	f := frame{typ: body[0], body: body[1:]}
	if f.typ != sshFxpVersion && len(f.body) >= 4 {
		f.id = binary.BigEndian.Uint32(f.body)
	}
	return f, nil
}

// legalResponse is the table of response types the draft allows per request type.
func legalResponse(req, resp byte) bool {
	switch req {
	case sshFxpInit:
		return resp == sshFxpVersion
	case sshFxpOpen, sshFxpOpendir:
		return resp == sshFxpHandle || resp == sshFxpStatus
	case sshFxpRead:
		return resp == sshFxpData || resp == sshFxpStatus
	case sshFxpLstat, sshFxpStat, sshFxpFstat:
		return resp == sshFxpAttrs || resp == sshFxpStatus
	case sshFxpReaddir, sshFxpRealpath, sshFxpReadlink:
		return resp == sshFxpName || resp == sshFxpStatus
	case sshFxpExtended:
		return resp == sshFxpStatus || resp == sshFxpExtendedReply
	default:
		return resp == sshFxpStatus
	}
}

// ---- instrumented handler objects ----

// vfile is a handler file object (reader, writer, closer, transfer-error sink) whose calls are
// scheduler-visible. With Split, ReadAt/WriteAt have separate enter and exit points so that
// overlap with Close is observable.
type vfile struct {
	h            *vhandler
	name         string
	data         []byte
	Split        bool
	inflight     int
	Closes       int
	TErrs        int
	Reads        int
	WritesN      int
	Bad          []string
	FailAt       int64 // offset whose read/write fails (-1 none)
	PartialReads int   // that many ReadAt calls deliver only the first half of what exists and a transient (non-EOF) error
	noClose      bool
}

func (f *vfile) note(s string) { f.Bad = append(f.Bad, s) }

func (f *vfile) ReadAt(b []byte, off int64) (int, error) {
	vsched.Env("file.read-enter:"+f.name, f, false, nil)
	if f.Closes > 0 {
		f.note("ReadAt entered after Close")
	}
	f.inflight++
	if f.Split {
		vsched.Env("file.read-exit:"+f.name, f, false, nil)
	}
	f.inflight--
	f.Reads++
	f.h.log("ReadAt %s off=%d len=%d", f.name, off, len(b))
	if f.FailAt >= 0 && off == f.FailAt {
		return 0, errors.New("injected read failure")
	}
	if off >= int64(len(f.data)) {
		return 0, io.EOF
	}
	if f.PartialReads > 0 && len(b) > 1 {
		f.PartialReads--
		n := copy(b[:len(b)/2], f.data[off:])
		return n, errors.New("transient read error")
	}
	n := copy(b, f.data[off:])
	if n < len(b) {
		return n, io.EOF
	}
	return n, nil
}

func (f *vfile) WriteAt(b []byte, off int64) (int, error) {
	vsched.Env("file.write-enter:"+f.name, f, false, nil)
	if f.Closes > 0 {
		f.note("WriteAt entered after Close")
	}
	f.inflight++
	if f.Split {
		vsched.Env("file.write-exit:"+f.name, f, false, nil)
	}
	f.inflight--
	f.WritesN++
	f.h.log("WriteAt %s off=%d %q", f.name, off, b)
	if f.FailAt >= 0 && off == f.FailAt {
		return 0, errors.New("injected write failure")
	}
	for int64(len(f.data)) < off+int64(len(b)) {
		f.data = append(f.data, 0)
	}
	copy(f.data[off:], b)
	return len(b), nil
}

func (f *vfile) Close() error {
	vsched.Env("file.close:"+f.name, f, false, nil)
	if f.inflight != 0 {
		f.note(fmt.Sprintf("Close entered with %d reads/writes in flight", f.inflight))
	}
	f.Closes++
	f.h.log("Close %s", f.name)
	return nil
}

func (f *vfile) TransferError(err error) {
	vsched.Env("file.terr:"+f.name, f, false, nil)
	f.TErrs++
	f.h.log("TransferError %s", f.name)
}

// vlister is a ListerAt with Close.
type vlister struct {
	h      *vhandler
	name   string
	infos  []os.FileInfo
	Closes int
	req    *Request // the request the lister was made for
}

func (l *vlister) ListAt(out []os.FileInfo, off int64) (int, error) {
	vsched.Env("lister.listat:"+l.name, l, false, nil)
	if l.req != nil {
		// what a paged back end does: a context of its own for this page, derived from the request's
		_ = l.req.WithContext(l.req.Context())
	}
	l.h.log("ListAt %s off=%d", l.name, off)
	if off >= int64(len(l.infos)) {
		return 0, io.EOF
	}
	n := copy(out, l.infos[off:])
	if n < len(out) {
		return n, io.EOF
	}
	return n, nil
}
func (l *vlister) Close() error {
	vsched.Env("lister.close:"+l.name, l, false, nil)
	l.Closes++
	l.h.log("CloseLister %s", l.name)
	return nil
}

type vinfo struct {
	name string
	size int64
	dir  bool
}

func (i vinfo) Name() string { return i.name }
func (i vinfo) Size() int64  { return i.size }
func (i vinfo) Mode() os.FileMode {
	if i.dir {
		return os.ModeDir | 0o755
	}
	return 0o644
}
func (i vinfo) ModTime() time.Time { return time.Unix(1000000000, 0) }
func (i vinfo) IsDir() bool        { return i.dir }
func (i vinfo) Sys() any           { return nil }

// vhandler is a recording Handlers implementation over an in-memory name space.
type vhandler struct {
	files    map[string]*vfile
	Split    bool
	Log      []string
	Opened   []*vfile   // every object handed out, in order
	Listers  []*vlister // every lister handed out
	FailOpen map[string]bool
	Ctxs     []func() error
	PutOnly  bool // the FilePut handler does not implement OpenFileWriter
}

func newVHandler(split bool) *vhandler {
	return &vhandler{files: map[string]*vfile{}, Split: split, FailOpen: map[string]bool{}}
}

func (h *vhandler) log(f string, a ...any) { h.Log = append(h.Log, fmt.Sprintf(f, a...)) }

func (h *vhandler) handlers() Handlers {
	if h.PutOnly {
		return Handlers{h, vhandlerPut{h}, h, h}
	}
	return Handlers{h, h, h, h}
}

// vhandlerPut is the vhandler without its OpenFile method: the FilePut handler is then a plain FileWriter and handles
// opened for reading and writing are served by the package's write-only wrapper (method "Put") instead of fileputget.
type vhandlerPut struct{ h *vhandler }

func (p vhandlerPut) Filewrite(r *Request) (io.WriterAt, error) { return p.h.Filewrite(r) }

func (h *vhandler) file(name string, create bool) *vfile {
	f := h.files[name]
	if f == nil && create {
		f = &vfile{h: h, name: name, Split: h.Split, FailAt: -1}
		h.files[name] = f
	}
	return f
}

// open hands out a fresh object per open that shares the named file's bytes through the map.
func (h *vhandler) Fileread(r *Request) (io.ReaderAt, error) {
	vsched.Env("h.fileread", h, false, nil)
	h.log("Fileread %s", r.Filepath)
	h.Ctxs = append(h.Ctxs, r.Context().Err)
	if h.FailOpen[r.Filepath] {
		return nil, os.ErrPermission
	}
	f := h.file(r.Filepath, false)
	if f == nil {
		return nil, os.ErrNotExist
	}
	h.Opened = append(h.Opened, f)
	return f, nil
}

func (h *vhandler) Filewrite(r *Request) (io.WriterAt, error) {
	vsched.Env("h.filewrite", h, false, nil)
	h.log("Filewrite %s", r.Filepath)
	h.Ctxs = append(h.Ctxs, r.Context().Err)
	if h.FailOpen[r.Filepath] {
		return nil, os.ErrPermission
	}
	f := h.file(r.Filepath, true)
	h.Opened = append(h.Opened, f)
	return f, nil
}

func (h *vhandler) Filecmd(r *Request) error {
	vsched.Env("h.filecmd", h, false, nil)
	h.log("Filecmd %s %s %s", r.Method, r.Filepath, r.Target)
	switch r.Method {
	case "Remove":
		if h.files[r.Filepath] == nil {
			return os.ErrNotExist
		}
		delete(h.files, r.Filepath)
	case "Link":
		f := h.files[r.Filepath]
		if f == nil {
			return os.ErrNotExist
		}
		h.files[r.Target] = f
	case "Rename", "PosixRename":
		f := h.files[r.Filepath]
		if f == nil {
			return os.ErrNotExist
		}
		delete(h.files, r.Filepath)
		h.files[r.Target] = f
	case "Setstat":
		// the size attribute is applied (so that what the handler was given shows in later replies)
		f := h.files[r.Filepath]
		if f == nil {
			return os.ErrNotExist
		}
		if r.AttrFlags().Size {
			a := r.Attributes()
			if a == nil {
				return errors.New("attributes do not decode")
			}
			if a.Size > 1<<20 {
				return errors.New("size out of range")
			}
			for uint64(len(f.data)) < a.Size {
				f.data = append(f.data, 0)
			}
			f.data = f.data[:a.Size]
		}
	}
	return nil
}

func (h *vhandler) Filelist(r *Request) (ListerAt, error) {
	vsched.Env("h.filelist", h, false, nil)
	h.log("Filelist %s %s", r.Method, r.Filepath)
	switch r.Method {
	case "List":
		if h.FailOpen[r.Filepath] {
			return nil, os.ErrPermission
		}
		h.Ctxs = append(h.Ctxs, r.Context().Err)
		var names []string
		for n := range h.files {
			names = append(names, n)
		}
		sort.Strings(names)
		l := &vlister{h: h, name: r.Filepath, req: r}
		for _, n := range names {
			if r.Filepath != "/" {
				// a sub-directory lists the files below it, by their base names
				if !strings.HasPrefix(n, r.Filepath+"/") {
					continue
				}
				l.infos = append(l.infos, vinfo{name: strings.TrimPrefix(n, r.Filepath+"/"), size: int64(len(h.files[n].data))})
				continue
			}
			l.infos = append(l.infos, vinfo{name: strings.TrimPrefix(n, "/"), size: int64(len(h.files[n].data))})
		}
		h.Listers = append(h.Listers, l)
		return l, nil
	default: // Stat, Lstat, Readlink
		f := h.files[r.Filepath]
		if f == nil {
			return nil, os.ErrNotExist
		}
		l := &vlister{h: h, name: "stat:" + r.Filepath, infos: []os.FileInfo{vinfo{name: strings.TrimPrefix(r.Filepath, "/"), size: int64(len(f.data))}}}
		h.Listers = append(h.Listers, l)
		return l, nil
	}
}

// wrapValues are count/length substitutions chosen so that a bound check written as a
// multiplication (count*m > len) wraps around in 32 bits: ceil(2^32/m) and the next value, for the
// element sizes a decoder might multiply by.
func wrapValues() []uint32 {
	var out []uint32
	for _, m := range []uint64{2, 3, 4, 8, 12, 16, 24, 32} {
		v := (uint64(1)<<32 + m - 1) / m
		out = append(out, uint32(v), uint32(v+1))
	}
	return out
}

// withPolicies expands scheduled jobs (jobs with a "bound" argument, explored by deviation bounding)
// into the same job under each default-scheduler policy of explore.Config.Policy: the deviation bound
// is a distance from ONE deterministic schedule, so bounding the distance from five different ones
// (run-to-block lowest id / highest id, strict lowest-id priority, strict highest-id priority, round
// robin) covers regions of the schedule space that are many deviations away from the first.
// cacheOK says whether the job's whole environment is routed through declared scheduler operations,
// so that happens-before state caching (strategy dbc) is sound for it; it is not for the os-backed
// server (file-system effects are invisible) nor for oracles that read the global step counter.
func withPolicies(tier string, jobs []reg.Job, cacheOK func(reg.Job) bool) []reg.Job {
	var out []reg.Job
	for _, j := range jobs {
		b, has := j.Args["bound"]
		if !has || j.Args["strategy"] == "por" || j.Args["policy"] != "" || j.Optional {
			out = append(out, j)
			continue
		}
		bound := atoiDef(b, 2)
		ok := cacheOK != nil && cacheOK(j)
		clone := func(pol, bnd, shards int) reg.Job {
			c := j
			c.Args = map[string]string{}
			for k, v := range j.Args {
				c.Args[k] = v
			}
			if bnd < 1 {
				bnd = 1
			}
			c.Args["bound"] = fmt.Sprint(bnd)
			if pol != 0 {
				c.Args["policy"] = fmt.Sprint(pol)
				c.Label = fmt.Sprintf("%s [policy %d, db%d]", j.Label, pol, bnd)
				c.Shards = shards
			}
			if ok {
				c.Args["cache"] = "1"
			}
			return c
		}
		up := 0
		if ok {
			up = 1 // with the state cache one more deviation costs about what the plain search costs at the base bound
		}
		if tier == "thorough" {
			// internal deadlines keep the tier's worst case bounded: a job that does not finish reports the bound it completed
			base := clone(0, bound+up, j.Shards)
			if base.BudgetS > 420 {
				base.BudgetS = 420
			}
			out = append(out, base)
			for _, c := range []reg.Job{clone(1, bound, 8), clone(2, bound+up, 8), clone(3, bound+up, 8), clone(4, bound, 8)} {
				if c.BudgetS > 120 {
					c.BudgetS = 120
				}
				out = append(out, c)
			}
		} else {
			pb := bound
			if !ok && pb > 2 {
				pb = 2 // without the cache the strict-priority policies cost as much as the base job: one deviation less
			}
			if v := j.Args["polcap"]; v != "" && atoiDef(v, pb) < pb {
				pb = atoiDef(v, pb) // heavy jobs: the strict-priority policies to a smaller bound in the quick tier
			}
			out = append(out, clone(0, bound, j.Shards), clone(1, bound-1, 8), clone(2, pb, 4), clone(3, pb, 4), clone(4, bound-1+up, 4))
		}
	}
	return out
}

// fdsUnder lists the process's open file descriptors that refer to a path under root (this
// execution's scratch tree): files the os-backed server opened and has not closed. Counting all of
// /proc/self/fd instead is disturbed by garbage collection: the finalizer of a file leaked by an
// EARLIER execution may close it during this one.
func fdsUnder(root string) []string {
	es, err := os.ReadDir("/proc/self/fd")
	if err != nil {
		return nil
	}
	var out []string
	for _, e := range es {
		t, err := os.Readlink("/proc/self/fd/" + e.Name())
		if err != nil {
			continue
		}
		if t == root || strings.HasPrefix(t, root+"/") {
			out = append(out, e.Name()+" -> "+t)
		}
	}
	return out
}

// gcOff / gcOn bracket an execution whose oracle looks at open file descriptors: no collection runs
// in between, so a leaked *os.File cannot be closed by its finalizer before the oracle has seen it
// (which would make the verdict depend on the collector's timing).
var gcSaved = -2

func gcOff() {
	gcOn()
	gcSaved = rdebug.SetGCPercent(-1)
}

func gcOn() {
	if gcSaved != -2 {
		rdebug.SetGCPercent(gcSaved)
		gcSaved = -2
	}
}
