//go:build verif

package sftp

// C08: the input space.  Everything is generated deterministically, in the same order in every
// process (shards and their child processes rely on it).

import (
	"encoding/binary"
	"fmt"
)

// c08input: one byte string and which entry points it is meant for.
//
//	src 'g' generic string: given as is to every entry point
//	    'f' derived from a valid frame (truncated / field mutated / garbage appended): every entry point
//	        gets the part of the frame its level starts at; maxOff = highest level offset that still sees the change
//	    't' frame with another type byte: entry points that read the type byte (levels S and T)
//	    'a' derived from a stand-alone attribute / name-entry / extension blob: levels P and A
//	    's' framing special (long declared lengths, bodies around the limit): level S
type c08input struct {
	b      []byte
	src    byte
	maxOff int
	desc   string
}

var c08alphabet = []byte{0, 1, 4, 0x7f, 0x80, 0xff}

func c08inAlphabet(b []byte) bool {
	for _, x := range b {
		switch x {
		case 0, 1, 4, 0x7f, 0x80, 0xff:
		default:
			return false
		}
	}
	return true
}

type c08valid struct {
	desc  string
	b     []byte
	marks []c06mark
}

func c08levelOff(level byte) int {
	switch level {
	case 'S':
		return 0
	case 'T':
		return 4
	case 'B':
		return 5
	}
	return 9
}

// c08corpus: valid encodings taken from the C06 product (evenly spaced picks per kind plus a few rich
// ones), and stand-alone blobs.
func c08corpus(thorough bool) (frames, blobs []c08valid) {
	per := 5
	if thorough {
		per = 14
	}
	addFrame := func(lp *c06lp) {
		e := c06RefEncode(lp)
		frames = append(frames, c08valid{desc: lp.describe(), b: e.b, marks: e.marks})
	}
	for _, k := range c06allKinds() {
		var all []*c06lp
		c06enumerate(k.name, k.typ, false, func(lp *c06lp) { all = append(all, lp) })
		last := -1
		for j := 0; j < per; j++ {
			idx := (j*len(all))/per + (j*37)%(len(all)/per+1)
			if idx >= len(all) {
				idx = len(all) - 1
			}
			if idx == last {
				continue
			}
			last = idx
			addFrame(all[idx])
		}
	}
	full := c06attrs{flags: 0x8000000f, size: 0x0102030405060708, uid: 0x11121314, gid: 0x21222324, perm: 0o100644, atime: 0x41424344, mtime: 0x51525354,
		ext: [][2]string{{"type@x", "data"}, {"", "\x00"}}}
	addFrame(&c06lp{kind: "OPEN", typ: 3, id: 7, f: []c06field{c06s("/p/q"), c06u(0x1a), c06a(full)}})
	addFrame(&c06lp{kind: "SETSTAT", typ: 9, id: 7, f: []c06field{c06s("/p/q"), c06a(full)}})
	addFrame(&c06lp{kind: "FSETSTAT", typ: 10, id: 7, f: []c06field{c06s("h"), c06a(full)}})
	addFrame(&c06lp{kind: "MKDIR", typ: 14, id: 7, f: []c06field{c06s("/d"), c06a(full)}})
	addFrame(&c06lp{kind: "ATTRS", typ: 105, id: 7, f: []c06field{c06a(full)}})
	addFrame(&c06lp{kind: "NAME", typ: 104, id: 7, f: []c06field{c06n([]c06name{{name: "a", long: "l a", attrs: full}, {name: "", long: "", attrs: c06attrs{}}, {name: "b", long: "l b", attrs: c06attrs{flags: 0xd, size: 5, perm: 0o40755, atime: 1, mtime: 1}}})}})
	addFrame(&c06lp{kind: "WRITE", typ: 6, id: 7, f: []c06field{c06s("h"), c06q(1 << 32), c06d("hello")}})
	addFrame(&c06lp{kind: "DATA", typ: 103, id: 7, f: []c06field{c06d("hello")}})

	addBlob := func(desc string, f ...c06field) {
		// encode the fields alone: reuse the reference encoder and strip length, type and id
		e := c06RefEncode(&c06lp{typ: 0, id: 0, f: f})
		var marks []c06mark
		for _, m := range e.marks {
			if m.Off >= 9 {
				marks = append(marks, c06mark{m.Off - 9, m.Kind, m.Val})
			}
		}
		blobs = append(blobs, c08valid{desc: "blob " + desc, b: e.b[9:], marks: marks})
	}
	for _, a := range c06attrSets() {
		if a.size != 0x0102030405060708 && !thorough {
			continue
		}
		addBlob(fmt.Sprintf("ATTRS flags=%#x ext=%d", a.flags, len(a.ext)), c06a(a))
	}
	for i, e := range c06nameEntries(false) {
		if e.name == "a" && e.long != "" {
			e := e
			_ = i
			addBlob(fmt.Sprintf("name entry form %c", e.form), c06s(e.name), c06s(e.long), c06a(e.attrs))
		}
	}
	addBlob("extension pair", c06s("statvfs@openssh.com"), c06s("2"))
	addBlob("extension pair (empty)", c06s(""), c06s(""))
	addBlob("two strings", c06s("/old"), c06s("/new"))
	addBlob("flags word + attributes", c06u(0x8000000f), c06a(full))
	return frames, blobs
}

// c08cuts: every truncation point of short encodings; for long ones the points around every field
// boundary, the first 64 and the last 8.
func c08cuts(v *c08valid) []int {
	n := len(v.b)
	if n <= 600 {
		r := make([]int, 0, n+1)
		for i := 0; i <= n; i++ {
			r = append(r, i)
		}
		return r
	}
	set := map[int]bool{}
	for i := 0; i < 64; i++ {
		set[i] = true
	}
	for i := n - 8; i <= n; i++ {
		set[i] = true
	}
	for _, m := range v.marks {
		for d := -1; d <= 5; d++ {
			if x := m.Off + d; x >= 0 && x <= n {
				set[x] = true
			}
		}
		if m.Kind == "len" {
			for d := -1; d <= 1; d++ {
				if x := m.Off + 4 + int(m.Val) + d; x >= 0 && x <= n {
					set[x] = true
				}
			}
		}
	}
	var r []int
	for i := 0; i <= n; i++ {
		if set[i] {
			r = append(r, i)
		}
	}
	return r
}

func c08mutValues(n uint32) []uint32 {
	var r []uint32
	for _, v := range append([]uint32{0, 1, n - 1, n + 1, 1<<31 - 1, 1<<32 - 1}, wrapValues()...) {
		dup := v == n
		for _, x := range r {
			if x == v {
				dup = true
			}
		}
		if !dup {
			r = append(r, v)
		}
	}
	return r
}

// c08forEachInput yields every input once, in a fixed order.  maxLen: length of the small-alphabet strings.
func c08forEachInput(thorough bool, yield func(in *c08input) bool) {
	maxLen := 5
	if thorough {
		maxLen = 6
	}
	ok := true
	emit := func(in *c08input) {
		if ok {
			ok = yield(in)
		}
	}
	// G1: all byte strings of length <= 2
	emit(&c08input{b: []byte{}, src: 'g'})
	for a := 0; a < 256 && ok; a++ {
		emit(&c08input{b: []byte{byte(a)}, src: 'g'})
	}
	for a := 0; a < 256 && ok; a++ {
		for b := 0; b < 256 && ok; b++ {
			emit(&c08input{b: []byte{byte(a), byte(b)}, src: 'g'})
		}
	}
	// G2: all strings of length 3..maxLen over the alphabet
	for n := 3; n <= maxLen && ok; n++ {
		idx := make([]int, n)
		for ok {
			b := make([]byte, n)
			for i, x := range idx {
				b[i] = c08alphabet[x]
			}
			emit(&c08input{b: b, src: 'g'})
			i := n - 1
			for i >= 0 {
				idx[i]++
				if idx[i] < len(c08alphabet) {
					break
				}
				idx[i] = 0
				i--
			}
			if i < 0 {
				break
			}
		}
	}
	if !ok {
		return
	}
	frames, blobs := c08corpus(thorough)
	derive := func(v *c08valid, src byte) {
		// G3: truncations (the full length is the valid encoding itself), garbage appended
		for _, cut := range c08cuts(v) {
			emit(&c08input{b: v.b[:cut:cut], src: src, maxOff: 9, desc: fmt.Sprintf("%s cut at %d of %d", v.desc, cut, len(v.b))})
		}
		emit(&c08input{b: append(append([]byte{}, v.b...), 0xff), src: src, maxOff: 9, desc: v.desc + " + 1 garbage byte"})
		emit(&c08input{b: append(append([]byte{}, v.b...), 0, 0, 0, 1, 0xff), src: src, maxOff: 9, desc: v.desc + " + 5 garbage bytes"})
		// G4: every length / count / flags field replaced
		for _, m := range v.marks {
			if m.Kind == "type" {
				continue
			}
			for _, val := range c08mutValues(m.Val) {
				b := append([]byte{}, v.b...)
				binary.BigEndian.PutUint32(b[m.Off:], val)
				emit(&c08input{b: b, src: src, maxOff: m.Off, desc: fmt.Sprintf("%s with %s field at offset %d: %d -> %d", v.desc, m.Kind, m.Off, m.Val, val)})
			}
		}
	}
	for i := range frames {
		derive(&frames[i], 'f')
	}
	// G4': every type byte
	for i := range frames {
		v := &frames[i]
		for t := 0; t < 256 && ok; t++ {
			if byte(t) == v.b[4] {
				continue
			}
			b := append([]byte{}, v.b...)
			b[4] = byte(t)
			emit(&c08input{b: b, src: 't', desc: fmt.Sprintf("%s with type byte %d", v.desc, t)})
		}
	}
	for i := range blobs {
		derive(&blobs[i], 'a')
	}
	// G5: framing specials
	for _, l := range []uint32{0, 1, 4, 5, 9, 262143, 262144, 262145, 1<<31 - 1, 1 << 31, 1<<32 - 1} {
		seen := map[int64]bool{}
		for _, av := range []int64{0, 1, int64(l) - 1, int64(l), int64(l) + 1} {
			if av < 0 || av > 262150 || seen[av] {
				continue
			}
			seen[av] = true
			b := make([]byte, 4+av)
			binary.BigEndian.PutUint32(b, l)
			if av >= 1 {
				b[4] = 4 // SSH_FXP_CLOSE
			}
			if av >= 9 {
				binary.BigEndian.PutUint32(b[5:], 1)
				if l >= 9 {
					binary.BigEndian.PutUint32(b[9:], l-9) // a handle filling the declared frame
				}
			}
			emit(&c08input{b: b, src: 's', desc: fmt.Sprintf("frame with declared length %d and %d bytes after the length word", l, av)})
		}
	}
}

// c08risky: some 4-byte window (any alignment) reads as a number >= 2^16, i.e. the input can make a
// count-driven allocation large.  Used only to skip inputs for entry points already reported.
func c08risky(b []byte) bool {
	for i := 0; i+4 <= len(b); i++ {
		if b[i] != 0 || b[i+1] != 0 {
			return true
		}
	}
	return false
}
