//go:build verif

package sftp

// C06: packet kinds with their own shapes (init/version, attribute-carrying requests, read/write,
// responses, statvfs reply).

import (
	"bytes"
	"encoding"
	"encoding/binary"
	"fmt"
	"os"

	sshfx "github.com/pkg/sftp/internal/encoding/ssh/filexfer"
	"github.com/pkg/sftp/internal/encoding/ssh/filexfer/openssh"
)

func c06fxPairs(e [][2]string) []*sshfx.ExtensionPair {
	var r []*sshfx.ExtensionPair
	for _, p := range e {
		r = append(r, &sshfx.ExtensionPair{Name: p[0], Data: p[1]})
	}
	return r
}

func c06pairsFromFx(x []*sshfx.ExtensionPair) [][2]string {
	var r [][2]string
	for _, p := range x {
		r = append(r, [2]string{p.Name, p.Data})
	}
	return r
}

// c06wireAttrs splits what unmarshalAttrs does so that the flags word is kept, and cross-checks it
// against unmarshalAttrs itself.
func c06wireAttrs(b []byte) (c06attrs, []byte, error) {
	flags, rest, err := unmarshalUint32Safe(b)
	if err != nil {
		return c06attrs{}, nil, err
	}
	fs, rest2, err := unmarshalFileStat(flags, rest)
	if err != nil {
		return c06attrs{}, nil, err
	}
	fs2, rest3, err := unmarshalAttrs(b)
	if err != nil {
		return c06attrs{}, nil, err
	}
	a, a2 := c06attrsFromFileStat(flags, fs), c06attrsFromFileStat(flags, fs2)
	if fmt.Sprint(a) != fmt.Sprint(a2) || len(rest2) != len(rest3) {
		return a, rest2, fmt.Errorf("unmarshalAttrs and unmarshalFileStat disagree: %v / %v", a, a2)
	}
	return a, rest2, nil
}

func c06otherKinds() []c06kind {
	var ks []c06kind

	// ---- INIT / VERSION: uint32 version, extension pairs to the end (draft-02 section 4)
	ks = append(ks, c06kind{name: "INIT", typ: 1,
		wire: func(lp *c06lp) encoding.BinaryMarshaler {
			p := &sshFxInitPacket{Version: lp.u32(0)}
			for _, e := range lp.f[1].e {
				p.Extensions = append(p.Extensions, extensionPair{Name: e[0], Data: e[1]})
			}
			return p
		},
		wireDec: func(frame []byte) (*c06lp, encoding.BinaryMarshaler, error) {
			rp, err := c06wireMake(frame)
			if err != nil {
				return nil, nil, err
			}
			p, ok := rp.(*sshFxInitPacket)
			if !ok {
				return nil, nil, errC06Type
			}
			var e [][2]string
			for _, x := range p.Extensions {
				e = append(e, [2]string{x.Name, x.Data})
			}
			return &c06lp{kind: "INIT", typ: 1, noID: true, f: []c06field{c06u(p.Version), c06e(e)}}, p, nil
		},
		fx: func(lp *c06lp) ([]byte, error) {
			return (&sshfx.InitPacket{Version: lp.u32(0), Extensions: c06fxPairs(lp.f[1].e)}).MarshalBinary()
		},
		fxDec: func(frame []byte) (*c06lp, []byte, error) {
			var p sshfx.InitPacket
			if frame[4] != 1 {
				return nil, nil, errC06Type
			}
			if err := p.UnmarshalBinary(frame[5:]); err != nil {
				return nil, nil, err
			}
			re, err := p.MarshalBinary()
			return &c06lp{kind: "INIT", typ: 1, noID: true, f: []c06field{c06u(p.Version), c06e(c06pairsFromFx(p.Extensions))}}, re, err
		}})
	ks = append(ks, c06kind{name: "VERSION", typ: 2,
		wire: func(lp *c06lp) encoding.BinaryMarshaler {
			p := &sshFxVersionPacket{Version: lp.u32(0)}
			for _, e := range lp.f[1].e {
				p.Extensions = append(p.Extensions, sshExtensionPair{Name: e[0], Data: e[1]})
			}
			return p
		},
		// as Client.recvVersion does
		wireDec: func(frame []byte) (*c06lp, encoding.BinaryMarshaler, error) {
			if frame[4] != sshFxpVersion {
				return nil, nil, errC06Type
			}
			version, data, err := unmarshalUint32Safe(frame[5:])
			if err != nil {
				return nil, nil, err
			}
			var e [][2]string
			p := &sshFxVersionPacket{Version: version}
			for len(data) > 0 {
				var ext extensionPair
				ext, data, err = unmarshalExtensionPair(data)
				if err != nil {
					return nil, nil, err
				}
				e = append(e, [2]string{ext.Name, ext.Data})
				p.Extensions = append(p.Extensions, sshExtensionPair{Name: ext.Name, Data: ext.Data})
			}
			return &c06lp{kind: "VERSION", typ: 2, noID: true, f: []c06field{c06u(version), c06e(e)}}, p, nil
		},
		fx: func(lp *c06lp) ([]byte, error) {
			return (&sshfx.VersionPacket{Version: lp.u32(0), Extensions: c06fxPairs(lp.f[1].e)}).MarshalBinary()
		},
		fxDec: func(frame []byte) (*c06lp, []byte, error) {
			var p sshfx.VersionPacket
			if frame[4] != 2 {
				return nil, nil, errC06Type
			}
			if err := p.UnmarshalBinary(frame[5:]); err != nil {
				return nil, nil, err
			}
			re, err := p.MarshalBinary()
			return &c06lp{kind: "VERSION", typ: 2, noID: true, f: []c06field{c06u(p.Version), c06e(c06pairsFromFx(p.Extensions))}}, re, err
		}})

	// ---- OPEN: string filename, uint32 pflags, ATTRS (draft-02 6.3)
	ks = append(ks, c06kind{name: "OPEN", typ: 3,
		wire: func(lp *c06lp) encoding.BinaryMarshaler {
			return &sshFxpOpenPacket{ID: lp.id, Path: lp.str(0), Pflags: lp.u32(1), Flags: lp.at(2).flags, Attrs: lp.at(2).fileStat()}
		},
		wireDec: func(frame []byte) (*c06lp, encoding.BinaryMarshaler, error) {
			rp, err := c06wireMake(frame)
			if err != nil {
				return nil, nil, err
			}
			p, ok := rp.(*sshFxpOpenPacket)
			if !ok {
				return nil, nil, errC06Type
			}
			fs, err := p.unmarshalFileStat(p.Flags)
			if err != nil {
				return nil, nil, err
			}
			return &c06lp{kind: "OPEN", typ: 3, id: p.ID, f: []c06field{c06s(p.Path), c06u(p.Pflags), c06a(c06attrsFromFileStat(p.Flags, fs))}}, p, nil
		},
		fx: func(lp *c06lp) ([]byte, error) {
			return c06fxCompose(&sshfx.OpenPacket{Filename: lp.str(0), PFlags: lp.u32(1), Attrs: lp.at(2).fx()}, lp.id)
		},
		fxDec: func(frame []byte) (*c06lp, []byte, error) {
			rp, re, err := c06fxReq(frame)
			if err != nil {
				return nil, nil, err
			}
			p, ok := rp.Request.(*sshfx.OpenPacket)
			if !ok {
				return nil, nil, errC06Type
			}
			return &c06lp{kind: "OPEN", typ: 3, id: rp.RequestID, f: []c06field{c06s(p.Filename), c06u(p.PFlags), c06a(c06attrsFromFx(&p.Attrs))}}, re, nil
		}})

	// ---- SETSTAT / FSETSTAT: string path|handle, ATTRS (draft-02 6.9)
	ks = append(ks, c06kind{name: "SETSTAT", typ: 9,
		wire: func(lp *c06lp) encoding.BinaryMarshaler {
			return &sshFxpSetstatPacket{ID: lp.id, Path: lp.str(0), Flags: lp.at(1).flags, Attrs: lp.at(1).fileStat()}
		},
		wireDec: func(frame []byte) (*c06lp, encoding.BinaryMarshaler, error) {
			rp, err := c06wireMake(frame)
			if err != nil {
				return nil, nil, err
			}
			p, ok := rp.(*sshFxpSetstatPacket)
			if !ok {
				return nil, nil, errC06Type
			}
			fs, err := p.unmarshalFileStat(p.Flags)
			if err != nil {
				return nil, nil, err
			}
			return &c06lp{kind: "SETSTAT", typ: 9, id: p.ID, f: []c06field{c06s(p.Path), c06a(c06attrsFromFileStat(p.Flags, fs))}}, p, nil
		},
		fx: func(lp *c06lp) ([]byte, error) {
			return c06fxCompose(&sshfx.SetstatPacket{Path: lp.str(0), Attrs: lp.at(1).fx()}, lp.id)
		},
		fxDec: func(frame []byte) (*c06lp, []byte, error) {
			rp, re, err := c06fxReq(frame)
			if err != nil {
				return nil, nil, err
			}
			p, ok := rp.Request.(*sshfx.SetstatPacket)
			if !ok {
				return nil, nil, errC06Type
			}
			return &c06lp{kind: "SETSTAT", typ: 9, id: rp.RequestID, f: []c06field{c06s(p.Path), c06a(c06attrsFromFx(&p.Attrs))}}, re, nil
		}})
	ks = append(ks, c06kind{name: "FSETSTAT", typ: 10,
		wire: func(lp *c06lp) encoding.BinaryMarshaler {
			return &sshFxpFsetstatPacket{ID: lp.id, Handle: lp.str(0), Flags: lp.at(1).flags, Attrs: lp.at(1).fileStat()}
		},
		wireDec: func(frame []byte) (*c06lp, encoding.BinaryMarshaler, error) {
			rp, err := c06wireMake(frame)
			if err != nil {
				return nil, nil, err
			}
			p, ok := rp.(*sshFxpFsetstatPacket)
			if !ok {
				return nil, nil, errC06Type
			}
			fs, err := p.unmarshalFileStat(p.Flags)
			if err != nil {
				return nil, nil, err
			}
			return &c06lp{kind: "FSETSTAT", typ: 10, id: p.ID, f: []c06field{c06s(p.Handle), c06a(c06attrsFromFileStat(p.Flags, fs))}}, p, nil
		},
		fx: func(lp *c06lp) ([]byte, error) {
			return c06fxCompose(&sshfx.FSetstatPacket{Handle: lp.str(0), Attrs: lp.at(1).fx()}, lp.id)
		},
		fxDec: func(frame []byte) (*c06lp, []byte, error) {
			rp, re, err := c06fxReq(frame)
			if err != nil {
				return nil, nil, err
			}
			p, ok := rp.Request.(*sshfx.FSetstatPacket)
			if !ok {
				return nil, nil, errC06Type
			}
			return &c06lp{kind: "FSETSTAT", typ: 10, id: rp.RequestID, f: []c06field{c06s(p.Handle), c06a(c06attrsFromFx(&p.Attrs))}}, re, nil
		}})

	// ---- MKDIR: string path, ATTRS (draft-02 6.6).  The wire codec's struct carries only the flags
	// word of the attributes (documented as ignored), so the logical packets have empty attributes.
	ks = append(ks, c06kind{name: "MKDIR", typ: 14,
		wire: func(lp *c06lp) encoding.BinaryMarshaler {
			return &sshFxpMkdirPacket{ID: lp.id, Path: lp.str(0), Flags: lp.at(1).flags}
		},
		wireDec: func(frame []byte) (*c06lp, encoding.BinaryMarshaler, error) {
			rp, err := c06wireMake(frame)
			if err != nil {
				return nil, nil, err
			}
			p, ok := rp.(*sshFxpMkdirPacket)
			if !ok {
				return nil, nil, errC06Type
			}
			return &c06lp{kind: "MKDIR", typ: 14, id: p.ID, f: []c06field{c06s(p.Path), c06a(c06attrs{flags: p.Flags})}}, p, nil
		},
		fx: func(lp *c06lp) ([]byte, error) {
			return c06fxCompose(&sshfx.MkdirPacket{Path: lp.str(0), Attrs: lp.at(1).fx()}, lp.id)
		},
		fxDec: func(frame []byte) (*c06lp, []byte, error) {
			rp, re, err := c06fxReq(frame)
			if err != nil {
				return nil, nil, err
			}
			p, ok := rp.Request.(*sshfx.MkdirPacket)
			if !ok {
				return nil, nil, errC06Type
			}
			return &c06lp{kind: "MKDIR", typ: 14, id: rp.RequestID, f: []c06field{c06s(p.Path), c06a(c06attrsFromFx(&p.Attrs))}}, re, nil
		}})

	// ---- READ: string handle, uint64 offset, uint32 len (draft-02 6.4)
	ks = append(ks, c06kind{name: "READ", typ: 5,
		wire: func(lp *c06lp) encoding.BinaryMarshaler {
			return &sshFxpReadPacket{ID: lp.id, Handle: lp.str(0), Offset: lp.u64(1), Len: lp.u32(2)}
		},
		wireDec: func(frame []byte) (*c06lp, encoding.BinaryMarshaler, error) {
			rp, err := c06wireMake(frame)
			if err != nil {
				return nil, nil, err
			}
			p, ok := rp.(*sshFxpReadPacket)
			if !ok {
				return nil, nil, errC06Type
			}
			return &c06lp{kind: "READ", typ: 5, id: p.ID, f: []c06field{c06s(p.Handle), c06q(p.Offset), c06u(p.Len)}}, p, nil
		},
		fx: func(lp *c06lp) ([]byte, error) {
			return c06fxCompose(&sshfx.ReadPacket{Handle: lp.str(0), Offset: lp.u64(1), Length: lp.u32(2)}, lp.id)
		},
		fxDec: func(frame []byte) (*c06lp, []byte, error) {
			rp, re, err := c06fxReq(frame)
			if err != nil {
				return nil, nil, err
			}
			p, ok := rp.Request.(*sshfx.ReadPacket)
			if !ok {
				return nil, nil, errC06Type
			}
			return &c06lp{kind: "READ", typ: 5, id: rp.RequestID, f: []c06field{c06s(p.Handle), c06q(p.Offset), c06u(p.Length)}}, re, nil
		}})

	// ---- WRITE: string handle, uint64 offset, string data (draft-02 6.4)
	ks = append(ks, c06kind{name: "WRITE", typ: 6,
		wire: func(lp *c06lp) encoding.BinaryMarshaler {
			return &sshFxpWritePacket{ID: lp.id, Handle: lp.str(0), Offset: lp.u64(1), Length: uint32(len(lp.str(2))), Data: []byte(lp.str(2))}
		},
		wireDec: func(frame []byte) (*c06lp, encoding.BinaryMarshaler, error) {
			rp, err := c06wireMake(frame)
			if err != nil {
				return nil, nil, err
			}
			p, ok := rp.(*sshFxpWritePacket)
			if !ok {
				return nil, nil, errC06Type
			}
			if int(p.Length) != len(p.Data) {
				return nil, nil, fmt.Errorf("decoded WRITE has Length %d but %d data bytes", p.Length, len(p.Data))
			}
			return &c06lp{kind: "WRITE", typ: 6, id: p.ID, f: []c06field{c06s(p.Handle), c06q(p.Offset), c06d(string(p.Data))}}, p, nil
		},
		fx: func(lp *c06lp) ([]byte, error) {
			return c06fxCompose(&sshfx.WritePacket{Handle: lp.str(0), Offset: lp.u64(1), Data: []byte(lp.str(2))}, lp.id)
		},
		fxDec: func(frame []byte) (*c06lp, []byte, error) {
			rp, re, err := c06fxReq(frame)
			if err != nil {
				return nil, nil, err
			}
			p, ok := rp.Request.(*sshfx.WritePacket)
			if !ok {
				return nil, nil, errC06Type
			}
			// same for a WritePacket whose body is decoded into a reused struct
			var raw sshfx.RawPacket
			if err := raw.UnmarshalBinary(frame[4:]); err != nil {
				return nil, nil, err
			}
			if err := c06reusedWrite.UnmarshalPacketBody(&raw.Data); err != nil {
				return nil, nil, fmt.Errorf("decoding into a reused WritePacket: %w", err)
			}
			if string(c06reusedWrite.Data) != string(p.Data) || c06reusedWrite.Handle != p.Handle || c06reusedWrite.Offset != p.Offset {
				return nil, nil, fmt.Errorf("decoding into a reused WritePacket gives %d payload bytes %q, into a fresh one %d bytes", len(c06reusedWrite.Data), c06clip(c06reusedWrite.Data), len(p.Data))
			}
			return &c06lp{kind: "WRITE", typ: 6, id: rp.RequestID, f: []c06field{c06s(p.Handle), c06q(p.Offset), c06d(string(p.Data))}}, re, nil
		}})

	// ---- STATUS: uint32 code, string message, string language tag (draft-02 section 7)
	ks = append(ks, c06kind{name: "STATUS", typ: 101,
		wire: func(lp *c06lp) encoding.BinaryMarshaler {
			return &sshFxpStatusPacket{ID: lp.id, StatusError: StatusError{Code: lp.u32(0), msg: lp.str(1), lang: lp.str(2)}}
		},
		// as the client does: unmarshalStatus(id, data)
		wireDec: func(frame []byte) (*c06lp, encoding.BinaryMarshaler, error) {
			if frame[4] != sshFxpStatus {
				return nil, nil, errC06Type
			}
			sid, _ := unmarshalUint32(frame[5:])
			err := unmarshalStatus(sid, frame[5:])
			se, ok := err.(*StatusError)
			if !ok {
				return nil, nil, fmt.Errorf("unmarshalStatus: %T %v", err, err)
			}
			return &c06lp{kind: "STATUS", typ: 101, id: sid, f: []c06field{c06u(se.Code), c06s(se.msg), c06s(se.lang)}},
				&sshFxpStatusPacket{ID: sid, StatusError: *se}, nil
		},
		fx: func(lp *c06lp) ([]byte, error) {
			return c06fxCompose(&sshfx.StatusPacket{StatusCode: sshfx.Status(lp.u32(0)), ErrorMessage: lp.str(1), LanguageTag: lp.str(2)}, lp.id)
		},
		fxDec: func(frame []byte) (*c06lp, []byte, error) {
			var p sshfx.StatusPacket
			id, re, err := c06fxResp(frame, sshfx.PacketTypeStatus, &p)
			if err != nil {
				return nil, nil, err
			}
			return &c06lp{kind: "STATUS", typ: 101, id: id, f: []c06field{c06u(uint32(p.StatusCode)), c06s(p.ErrorMessage), c06s(p.LanguageTag)}}, re, nil
		}})

	// ---- HANDLE: string handle
	ks = append(ks, c06kind{name: "HANDLE", typ: 102,
		wire: func(lp *c06lp) encoding.BinaryMarshaler { return &sshFxpHandlePacket{ID: lp.id, Handle: lp.str(0)} },
		// as Client.open/opendir do
		wireDec: func(frame []byte) (*c06lp, encoding.BinaryMarshaler, error) {
			if frame[4] != sshFxpHandle {
				return nil, nil, errC06Type
			}
			sid, data := unmarshalUint32(frame[5:])
			handle, _ := unmarshalString(data)
			return &c06lp{kind: "HANDLE", typ: 102, id: sid, f: []c06field{c06s(handle)}}, &sshFxpHandlePacket{ID: sid, Handle: handle}, nil
		},
		fx: func(lp *c06lp) ([]byte, error) { return c06fxCompose(&sshfx.HandlePacket{Handle: lp.str(0)}, lp.id) },
		fxDec: func(frame []byte) (*c06lp, []byte, error) {
			var p sshfx.HandlePacket
			id, re, err := c06fxResp(frame, sshfx.PacketTypeHandle, &p)
			if err != nil {
				return nil, nil, err
			}
			return &c06lp{kind: "HANDLE", typ: 102, id: id, f: []c06field{c06s(p.Handle)}}, re, nil
		}})

	// ---- DATA: string data
	ks = append(ks, c06kind{name: "DATA", typ: 103,
		wire: func(lp *c06lp) encoding.BinaryMarshaler {
			return &sshFxpDataPacket{ID: lp.id, Length: uint32(len(lp.str(0))), Data: []byte(lp.str(0))}
		},
		wireDec: func(frame []byte) (*c06lp, encoding.BinaryMarshaler, error) {
			if frame[4] != sshFxpData {
				return nil, nil, errC06Type
			}
			p := &sshFxpDataPacket{}
			if err := p.UnmarshalBinary(frame[5:]); err != nil {
				return nil, nil, err
			}
			if int(p.Length) != len(p.Data) {
				return nil, nil, fmt.Errorf("decoded DATA has Length %d but %d data bytes", p.Length, len(p.Data))
			}
			return &c06lp{kind: "DATA", typ: 103, id: p.ID, f: []c06field{c06d(string(p.Data))}}, p, nil
		},
		fx: func(lp *c06lp) ([]byte, error) {
			return c06fxCompose(&sshfx.DataPacket{Data: []byte(lp.str(0))}, lp.id)
		},
		fxDec: func(frame []byte) (*c06lp, []byte, error) {
			var p sshfx.DataPacket
			id, re, err := c06fxResp(frame, sshfx.PacketTypeData, &p)
			if err != nil {
				return nil, nil, err
			}
			// the same frame decoded into a packet that is reused from case to case (its Data slice is
			// the decoder's copy hint) must give the same payload as decoding into a fresh packet
			if _, _, err := c06fxResp(frame, sshfx.PacketTypeData, &c06reusedData); err != nil {
				return nil, nil, fmt.Errorf("decoding into a reused DataPacket: %w", err)
			}
			if string(c06reusedData.Data) != string(p.Data) {
				return nil, nil, fmt.Errorf("decoding into a reused DataPacket gives %d payload bytes %q, into a fresh one %d bytes", len(c06reusedData.Data), c06clip(c06reusedData.Data), len(p.Data))
			}
			return &c06lp{kind: "DATA", typ: 103, id: id, f: []c06field{c06d(string(p.Data))}}, re, nil
		}})

	// ---- NAME: uint32 count, count × (string filename, string longname, ATTRS) (draft-02 section 7)
	ks = append(ks, c06kind{name: "NAME", typ: 104,
		wire: func(lp *c06lp) encoding.BinaryMarshaler {
			p := &sshFxpNamePacket{ID: lp.id}
			for i := range lp.f[0].n {
				e := &lp.f[0].n[i]
				na := &sshFxpNameAttr{Name: e.name, LongName: e.long}
				if e.form == 'E' {
					na.Attrs = emptyFileStat
				} else {
					na.Attrs = []any{c06nameInfo(e)}
				}
				p.NameAttrs = append(p.NameAttrs, na)
			}
			return p
		},
		// as Client.ReadDir does (keeping the long name and the flags word)
		wireDec: func(frame []byte) (*c06lp, encoding.BinaryMarshaler, error) {
			if frame[4] != sshFxpName {
				return nil, nil, errC06Type
			}
			sid, data := unmarshalUint32(frame[5:])
			count, data := unmarshalUint32(data)
			var ns []c06name
			for i := uint32(0); i < count; i++ {
				var e c06name
				var err error
				e.name, data = unmarshalString(data)
				e.long, data = unmarshalString(data)
				e.attrs, data, err = c06wireAttrs(data)
				if err != nil {
					return nil, nil, err
				}
				ns = append(ns, e)
			}
			if len(data) != 0 {
				return nil, nil, fmt.Errorf("%d bytes left over after %d name entries", len(data), count)
			}
			return &c06lp{kind: "NAME", typ: 104, id: sid, f: []c06field{c06n(ns)}}, nil, nil
		},
		fx: func(lp *c06lp) ([]byte, error) {
			p := &sshfx.NamePacket{}
			for i := range lp.f[0].n {
				e := &lp.f[0].n[i]
				p.Entries = append(p.Entries, &sshfx.NameEntry{Filename: e.name, Longname: e.long, Attrs: e.attrs.fx()})
			}
			return c06fxCompose(p, lp.id)
		},
		fxDec: func(frame []byte) (*c06lp, []byte, error) {
			var p sshfx.NamePacket
			id, re, err := c06fxResp(frame, sshfx.PacketTypeName, &p)
			if err != nil {
				return nil, nil, err
			}
			var ns []c06name
			for _, e := range p.Entries {
				ns = append(ns, c06name{name: e.Filename, long: e.Longname, attrs: c06attrsFromFx(&e.Attrs)})
			}
			return &c06lp{kind: "NAME", typ: 104, id: id, f: []c06field{c06n(ns)}}, re, nil
		}})

	// ---- ATTRS: ATTRS
	ks = append(ks, c06kind{name: "ATTRS", typ: 105,
		wire: func(lp *c06lp) encoding.BinaryMarshaler {
			return &sshFxpStatResponse{ID: lp.id, info: c06attrsInfo(lp.form, lp.at(0))}
		},
		// as Client.stat/fstat do
		wireDec: func(frame []byte) (*c06lp, encoding.BinaryMarshaler, error) {
			if frame[4] != sshFxpAttrs {
				return nil, nil, errC06Type
			}
			sid, data := unmarshalUint32(frame[5:])
			a, rest, err := c06wireAttrs(data)
			if err != nil {
				return nil, nil, err
			}
			if len(rest) != 0 {
				return nil, nil, fmt.Errorf("%d bytes left over after the attributes", len(rest))
			}
			return &c06lp{kind: "ATTRS", typ: 105, id: sid, f: []c06field{c06a(a)}}, nil, nil
		},
		fx: func(lp *c06lp) ([]byte, error) { return c06fxCompose(&sshfx.AttrsPacket{Attrs: lp.at(0).fx()}, lp.id) },
		fxDec: func(frame []byte) (*c06lp, []byte, error) {
			var p sshfx.AttrsPacket
			id, re, err := c06fxResp(frame, sshfx.PacketTypeAttrs, &p)
			if err != nil {
				return nil, nil, err
			}
			return &c06lp{kind: "ATTRS", typ: 105, id: id, f: []c06field{c06a(c06attrsFromFx(&p.Attrs))}}, re, nil
		}})

	// ---- EXTENDED_REPLY to statvfs@openssh.com: 11 × uint64 (OpenSSH PROTOCOL 3.4: f_bsize, f_frsize,
	// f_blocks, f_bfree, f_bavail, f_files, f_ffree, f_favail, f_fsid, f_flag, f_namemax)
	ks = append(ks, c06kind{name: "EXTREPLY-statvfs", typ: 201,
		wire: func(lp *c06lp) encoding.BinaryMarshaler {
			return &StatVFS{ID: lp.id, Bsize: lp.u64(0), Frsize: lp.u64(1), Blocks: lp.u64(2), Bfree: lp.u64(3), Bavail: lp.u64(4),
				Files: lp.u64(5), Ffree: lp.u64(6), Favail: lp.u64(7), Fsid: lp.u64(8), Flag: lp.u64(9), Namemax: lp.u64(10)}
		},
		// as Client.StatVFS does
		wireDec: func(frame []byte) (*c06lp, encoding.BinaryMarshaler, error) {
			if frame[4] != sshFxpExtendedReply {
				return nil, nil, errC06Type
			}
			var r StatVFS
			if err := binary.Read(bytes.NewReader(frame[5:]), binary.BigEndian, &r); err != nil {
				return nil, nil, err
			}
			return &c06lp{kind: "EXTREPLY-statvfs", typ: 201, id: r.ID, f: []c06field{c06q(r.Bsize), c06q(r.Frsize), c06q(r.Blocks), c06q(r.Bfree),
				c06q(r.Bavail), c06q(r.Files), c06q(r.Ffree), c06q(r.Favail), c06q(r.Fsid), c06q(r.Flag), c06q(r.Namemax)}}, &r, nil
		},
		fx: func(lp *c06lp) ([]byte, error) {
			return c06fxCompose(&openssh.StatVFSExtendedReplyPacket{BlockSize: lp.u64(0), FragmentSize: lp.u64(1), Blocks: lp.u64(2), BlocksFree: lp.u64(3),
				BlocksAvail: lp.u64(4), Files: lp.u64(5), FilesFree: lp.u64(6), FilesAvail: lp.u64(7), FilesystemID: lp.u64(8), MountFlags: lp.u64(9), MaxNameLength: lp.u64(10)}, lp.id)
		},
		fxDec: func(frame []byte) (*c06lp, []byte, error) {
			var p openssh.StatVFSExtendedReplyPacket
			id, re, err := c06fxResp(frame, sshfx.PacketTypeExtendedReply, &p)
			if err != nil {
				return nil, nil, err
			}
			return &c06lp{kind: "EXTREPLY-statvfs", typ: 201, id: id, f: []c06field{c06q(p.BlockSize), c06q(p.FragmentSize), c06q(p.Blocks), c06q(p.BlocksFree),
				c06q(p.BlocksAvail), c06q(p.Files), c06q(p.FilesFree), c06q(p.FilesAvail), c06q(p.FilesystemID), c06q(p.MountFlags), c06q(p.MaxNameLength)}}, re, nil
		}})
	return ks
}

// c06nameInfo / c06attrsInfo rebuild the os.FileInfo flavour from which the logical attributes were derived.
func c06nameInfo(e *c06name) os.FileInfo { return c06attrsInfo(e.form, &e.attrs) }

func c06attrsInfo(form byte, a *c06attrs) os.FileInfo {
	mode := c06osMode(a.perm)
	fi, back := c06fileInfo(form, "n", int64(a.size), mode, int64(a.mtime), a.uid, a.gid, a.ext)
	if fmt.Sprint(back) != fmt.Sprint(*a) {
		panic(fmt.Sprintf("c06attrsInfo: form %c cannot carry %v (gives %v)", form, *a, back))
	}
	return fi
}

// packets reused across cases (per worker process; the enumeration is sequential)
var (
	c06reusedData  sshfx.DataPacket
	c06reusedWrite sshfx.WritePacket
)

func c06clip(b []byte) []byte {
	if len(b) > 24 {
		return b[:24]
	}
	return b
}
