//go:build verif

package sftp

// C09: a read-only server never changes the file system.
//
// Engine B, free running. Every case builds two identical scratch trees {f, d/, l->f, g->nowhere,
// (m missing)}, serves tree A with the real os-backed Server in ReadOnly() mode and tree B with the
// same Server without ReadOnly(), sends the same request (or sequence of up to three requests, the
// first of which obtains a handle) to both in lock step and snapshots both trees after every step.
//
// Oracles (only what the statement says):
//   hard          tree A (read-only server) is byte/attribute identical before and after every request
//   denied        if the request changed tree B (i.e. it IS a modifying attempt; decided by running it,
//                 not by a hand-written list) the read-only server must answer SSH_FX_PERMISSION_DENIED
//   keeps-working a request of a purely reading kind gets the same answer (handles, data, attributes,
//                 names, status code) from both servers
// Requests that are neither (failed modifications, opens with extra no-op flags, ...) may be
// answered either way. The differential oracles are applied to a step only while the two sessions
// are still in equivalent states (no earlier step changed tree B or opened a handle on one side
// only); the hard oracle is applied to every step.

import (
	"encoding/binary"
	"encoding/hex"
	"fmt"
	"io"
	"os"
	"path/filepath"
	"sort"
	"strings"
	"syscall"
	"unsafe"

	"verif/reg"
)

const (
	c09MtimeSec  = 1_000_000_000 // 2001-09-09: far from "now" and from the six-month boundary
	c09MtimeNsec = 123456789
)

// c09Pkt builds one request frame from its fields (uint32, uint64, string = length-prefixed, []byte = raw).
func c09Pkt(typ byte, fields ...any) []byte {
	b := []byte{0, 0, 0, 0, typ}
	for _, f := range fields {
		switch v := f.(type) {
		case uint32:
			b = binary.BigEndian.AppendUint32(b, v)
		case uint64:
			b = binary.BigEndian.AppendUint64(b, v)
		case string:
			b = binary.BigEndian.AppendUint32(b, uint32(len(v)))
			b = append(b, v...)
		case []byte:
			b = append(b, v...)
		default:
			panic(fmt.Sprintf("c09Pkt: %T", f))
		}
	}
	binary.BigEndian.PutUint32(b, uint32(len(b)-4))
	return b
}

func c09Lutime(p string) {
	ts := []syscall.Timespec{{Sec: c09MtimeSec, Nsec: c09MtimeNsec}, {Sec: c09MtimeSec, Nsec: c09MtimeNsec}}
	bp, err := syscall.BytePtrFromString(p)
	if err != nil {
		panic(err)
	}
	dirfd := -100 // AT_FDCWD
	if _, _, e := syscall.Syscall6(syscall.SYS_UTIMENSAT, uintptr(dirfd), uintptr(unsafe.Pointer(bp)), uintptr(unsafe.Pointer(&ts[0])), 0x100 /* AT_SYMLINK_NOFOLLOW */, 0, 0); e != 0 {
		panic(fmt.Sprintf("c09: utimensat %s: %v", p, e))
	}
}

// c09MkTree seeds one scratch tree.
func c09MkTree() string {
	root := scratchDir()
	must := func(err error) {
		if err != nil {
			panic(fmt.Sprintf("c09: seeding tree: %v", err))
		}
	}
	must(os.WriteFile(filepath.Join(root, "f"), []byte("hello"), 0o644))
	must(os.Mkdir(filepath.Join(root, "d"), 0o755))
	must(os.Symlink("f", filepath.Join(root, "l")))
	must(os.Symlink("nowhere", filepath.Join(root, "g")))
	for _, n := range []string{"f", "d", "l", "g", "."} {
		c09Lutime(filepath.Join(root, n))
	}
	return root
}

// c09Req is one request of the alphabet.
type c09Req struct {
	class string // stable class used in violation keys ("OPEN:nowrite+CREAT", "SETSTAT", "EXTENDED:hardlink@openssh.com")
	desc  string // human readable, unique within the alphabet
	pure  bool   // of a purely reading kind: must be answered like the normal server answers
	opens bool   // may create a handle (OPEN, OPENDIR) or destroy one (CLOSE)
	build func(id uint32, root, handle string) []byte
}

var c09Targets = []string{"f", "d", "l", "g", "m"}

func c09PflagString(pf uint32) string {
	var s []string
	for _, x := range []struct {
		b uint32
		n string
	}{{sshFxfRead, "READ"}, {sshFxfWrite, "WRITE"}, {sshFxfAppend, "APPEND"}, {sshFxfCreat, "CREAT"}, {sshFxfTrunc, "TRUNC"}, {sshFxfExcl, "EXCL"}} {
		if pf&x.b != 0 {
			s = append(s, x.n)
		}
	}
	if len(s) == 0 {
		return "0"
	}
	return strings.Join(s, "|")
}

func c09OpenClass(pf uint32) string {
	c := "OPEN:nowrite"
	if pf&sshFxfWrite != 0 {
		c = "OPEN:write"
	}
	if pf&sshFxfCreat != 0 {
		c += "+CREAT"
	}
	if pf&sshFxfTrunc != 0 {
		c += "+TRUNC"
	}
	return c
}

func c09Open(path string, pf uint32, withPerm bool) c09Req {
	r := c09Req{class: c09OpenClass(pf), pure: pf == sshFxfRead, opens: true}
	r.desc = fmt.Sprintf("OPEN %s pflags=%s", path, c09PflagString(pf))
	if withPerm {
		r.desc += " attrs{perm=0600}"
	}
	r.build = func(id uint32, root, h string) []byte {
		if withPerm {
			return c09Pkt(sshFxpOpen, id, path, pf, uint32(sshFileXferAttrPermissions), uint32(0o600))
		}
		return c09Pkt(sshFxpOpen, id, path, pf, uint32(0))
	}
	return r
}

// c09AttrBytes encodes the attributes selected by flags; same=true uses the values file f already has.
func c09AttrBytes(flags uint32, same bool) []byte {
	var b []byte
	size, uid, gid, perm, atime, mtime := uint64(2), uint32(1), uint32(2), uint32(0o600), uint32(111), uint32(222)
	if same {
		size, uid, gid, perm, atime, mtime = 5, 0, 0, 0o644, c09MtimeSec, c09MtimeSec
	}
	if flags&sshFileXferAttrSize != 0 {
		b = binary.BigEndian.AppendUint64(b, size)
	}
	if flags&sshFileXferAttrUIDGID != 0 {
		b = binary.BigEndian.AppendUint32(b, uid)
		b = binary.BigEndian.AppendUint32(b, gid)
	}
	if flags&sshFileXferAttrPermissions != 0 {
		b = binary.BigEndian.AppendUint32(b, perm)
	}
	if flags&sshFileXferAttrACmodTime != 0 {
		b = binary.BigEndian.AppendUint32(b, atime)
		b = binary.BigEndian.AppendUint32(b, mtime)
	}
	if flags&sshFileXferAttrExtended != 0 {
		b = binary.BigEndian.AppendUint32(b, 1)
		for _, s := range []string{"x@example.org", "v"} {
			b = binary.BigEndian.AppendUint32(b, uint32(len(s)))
			b = append(b, s...)
		}
	}
	return b
}

// the 32 subsets of {size, uidgid, permissions, acmodtime, extended}
func c09AttrFlagSets() []uint32 {
	bits := []uint32{sshFileXferAttrSize, sshFileXferAttrUIDGID, sshFileXferAttrPermissions, sshFileXferAttrACmodTime, sshFileXferAttrExtended}
	var out []uint32
	for m := 0; m < 32; m++ {
		var f uint32
		for i, b := range bits {
			if m&(1<<i) != 0 {
				f |= b
			}
		}
		out = append(out, f)
	}
	return out
}

func c09PathReq(class string, typ byte, path string, pure, opens bool) c09Req {
	return c09Req{class: class, desc: class + " " + path, pure: pure, opens: opens,
		build: func(id uint32, root, h string) []byte {
			p := strings.ReplaceAll(path, "$ROOT", root)
			if typ == sshFxpMkdir {
				return c09Pkt(typ, id, p, uint32(0))
			}
			return c09Pkt(typ, id, p)
		}}
}

func c09TwoPathReq(class string, typ byte, ext, a, b string) c09Req {
	return c09Req{class: class, desc: fmt.Sprintf("%s %s %s", class, a, b),
		build: func(id uint32, root, h string) []byte {
			if ext != "" {
				return c09Pkt(sshFxpExtended, id, ext, a, b)
			}
			return c09Pkt(typ, id, a, b)
		}}
}

// c09Singles: every request type on every target.
func c09Singles() []c09Req {
	var rs []c09Req
	for pf := uint32(0); pf < 64; pf++ {
		for _, t := range c09Targets {
			rs = append(rs, c09Open(t, pf, false), c09Open(t, pf, true))
		}
	}
	for _, fl := range c09AttrFlagSets() {
		for _, t := range c09Targets {
			for _, same := range []bool{false, true} {
				fl, t, same := fl, t, same
				rs = append(rs, c09Req{class: "SETSTAT", desc: fmt.Sprintf("SETSTAT %s flags=%#x same=%v", t, fl, same),
					build: func(id uint32, root, h string) []byte {
						return c09Pkt(sshFxpSetstat, id, t, fl, c09AttrBytes(fl, same))
					}})
			}
		}
	}
	for _, t := range c09Targets {
		rs = append(rs,
			c09PathReq("REMOVE", sshFxpRemove, t, false, false),
			c09PathReq("RMDIR", sshFxpRmdir, t, false, false),
			c09PathReq("MKDIR", sshFxpMkdir, t, false, false))
	}
	for _, a := range c09Targets {
		for _, b := range c09Targets {
			rs = append(rs,
				c09TwoPathReq("RENAME", sshFxpRename, "", a, b),
				c09TwoPathReq("SYMLINK", sshFxpSymlink, "", a, b),
				c09TwoPathReq("EXTENDED:posix-rename@openssh.com", 0, "posix-rename@openssh.com", a, b),
				c09TwoPathReq("EXTENDED:hardlink@openssh.com", 0, "hardlink@openssh.com", a, b))
		}
	}
	for _, t := range append(append([]string{}, c09Targets...), ".", "", "$ROOT", "$ROOT/f", "d/..") {
		rs = append(rs,
			c09PathReq("STAT", sshFxpStat, t, true, false),
			c09PathReq("LSTAT", sshFxpLstat, t, true, false),
			c09PathReq("READLINK", sshFxpReadlink, t, true, false),
			c09PathReq("REALPATH", sshFxpRealpath, t, true, false),
			c09PathReq("OPENDIR", sshFxpOpendir, t, true, true))
	}
	for _, t := range []string{"$ROOT", "$ROOT/f", "$ROOT/l", "$ROOT/g", "$ROOT/m", "m"} {
		t := t
		rs = append(rs, c09Req{class: "EXTENDED:statvfs@openssh.com", desc: "statvfs " + t, pure: true,
			build: func(id uint32, root, h string) []byte {
				return c09Pkt(sshFxpExtended, id, "statvfs@openssh.com", strings.ReplaceAll(t, "$ROOT", root))
			}})
	}
	// handle requests without an open handle, and the remaining extended names
	rs = append(rs, c09HandleSteps(false)...)
	rs = append(rs,
		c09Req{class: "EXTENDED:unknown", desc: "EXTENDED unknown@example.org f m", pure: true,
			build: func(id uint32, root, h string) []byte {
				return c09Pkt(sshFxpExtended, id, "unknown@example.org", "f", "m")
			}},
		c09Req{class: "EXTENDED:unknown", desc: "EXTENDED '' (empty name)", pure: true,
			build: func(id uint32, root, h string) []byte { return c09Pkt(sshFxpExtended, id, "") }})
	return rs
}

// c09HandleSteps: the requests that go through a handle. full = all 32 FSETSTAT flag subsets.
func c09HandleSteps(full bool) []c09Req {
	var rs []c09Req
	w := func(off uint64, data string) c09Req {
		return c09Req{class: "WRITE", desc: fmt.Sprintf("WRITE h off=%d %q", off, data),
			build: func(id uint32, root, h string) []byte {
				return c09Pkt(sshFxpWrite, id, h, off, uint32(len(data)), []byte(data))
			}}
	}
	rs = append(rs, w(0, "XY"), w(7, "Z"))
	sets := c09AttrFlagSets()
	if !full {
		sets = []uint32{sshFileXferAttrPermissions}
	}
	for _, fl := range sets {
		fl := fl
		rs = append(rs, c09Req{class: "FSETSTAT", desc: fmt.Sprintf("FSETSTAT h flags=%#x", fl),
			build: func(id uint32, root, h string) []byte {
				return c09Pkt(sshFxpFsetstat, id, h, fl, c09AttrBytes(fl, false))
			}})
	}
	hreq := func(class string, typ byte, opens bool) c09Req {
		return c09Req{class: class, desc: class + " h", pure: true, opens: opens,
			build: func(id uint32, root, h string) []byte { return c09Pkt(typ, id, h) }}
	}
	rs = append(rs,
		hreq("READDIR", sshFxpReaddir, false),
		hreq("FSTAT", sshFxpFstat, false),
		c09Req{class: "READ", desc: "READ h off=0 len=3", pure: true,
			build: func(id uint32, root, h string) []byte { return c09Pkt(sshFxpRead, id, h, uint64(0), uint32(3)) }},
		hreq("CLOSE", sshFxpClose, true),
		c09Req{class: "EXTENDED:fsync@openssh.com", desc: "EXTENDED fsync@openssh.com h", pure: true,
			build: func(id uint32, root, h string) []byte { return c09Pkt(sshFxpExtended, id, "fsync@openssh.com", h) }})
	return rs
}

// c09FirstSteps: ways of obtaining a handle without asking for write access.
func c09FirstSteps(allNoWrite bool) []c09Req {
	rs := []c09Req{
		c09Open("f", sshFxfRead, false),
		c09Open("l", sshFxfRead, false),
		c09Open("d", sshFxfRead, false),
		c09PathReq("OPENDIR", sshFxpOpendir, "d", true, true),
		c09PathReq("OPENDIR", sshFxpOpendir, ".", true, true),
	}
	if allNoWrite {
		for pf := uint32(0); pf < 64; pf++ {
			if pf&sshFxfWrite != 0 || pf == sshFxfRead {
				continue
			}
			for _, t := range []string{"f", "d", "m"} {
				rs = append(rs, c09Open(t, pf, false))
			}
		}
	}
	return rs
}

// c09PathSteps: path requests interleaved between handle requests in the thorough tier.
func c09PathSteps() []c09Req {
	return []c09Req{
		c09PathReq("REMOVE", sshFxpRemove, "f", false, false),
		c09PathReq("MKDIR", sshFxpMkdir, "m", false, false),
		c09TwoPathReq("RENAME", sshFxpRename, "", "f", "m"),
		c09TwoPathReq("EXTENDED:hardlink@openssh.com", 0, "hardlink@openssh.com", "f", "m"),
		{class: "SETSTAT", desc: "SETSTAT f flags=0x4", build: func(id uint32, root, h string) []byte {
			return c09Pkt(sshFxpSetstat, id, "f", uint32(sshFileXferAttrPermissions), c09AttrBytes(sshFileXferAttrPermissions, false))
		}},
		c09PathReq("LSTAT", sshFxpLstat, "f", true, false),
	}
}

// c09Mask renders a response so that answers of the two servers can be compared: status by code
// (messages contain paths), names with the tree root replaced and sorted, statvfs replies by type only.
func c09Mask(f frame, err error, root string) string {
	if err != nil {
		return "<no response: " + err.Error() + ">"
	}
	switch f.typ {
	case sshFxpStatus:
		c, _ := f.statusCode()
		return fmt.Sprintf("STATUS#%d(%s)", f.id, fx(c))
	case sshFxpHandle:
		return fmt.Sprintf("HANDLE#%d(%q)", f.id, f.body[8:])
	case sshFxpExtendedReply:
		return fmt.Sprintf("EXTENDED_REPLY#%d", f.id)
	case sshFxpName:
		b := f.body[4:]
		n, b, e := unmarshalUint32Safe(b)
		if e != nil {
			return "NAME<malformed>"
		}
		var ents []string
		for i := uint32(0); i < n; i++ {
			var name, long string
			if name, b, e = unmarshalStringSafe(b); e != nil {
				return "NAME<malformed>"
			}
			if long, b, e = unmarshalStringSafe(b); e != nil {
				return "NAME<malformed>"
			}
			before := b
			if _, b, e = unmarshalAttrs(b); e != nil {
				return "NAME<malformed>"
			}
			ents = append(ents, fmt.Sprintf("%q %q %x", strings.ReplaceAll(name, root, "$ROOT"), strings.ReplaceAll(long, root, "$ROOT"), before[:len(before)-len(b)]))
		}
		sort.Strings(ents)
		return fmt.Sprintf("NAME#%d[%s]", f.id, strings.Join(ents, "; "))
	default:
		return fmt.Sprintf("%s#%d(%x)", fxp(f.typ), f.id, f.body[4:])
	}
}

func c09Short(masked string) string {
	if i := strings.IndexAny(masked, "[("); i > 0 && !strings.HasPrefix(masked, "STATUS") {
		return masked[:i]
	}
	return masked
}

// c09Side is one of the two sessions of a case.
type c09Side struct {
	root   string
	sess   *bSession
	handle string
	snap   string
}

// c09Layout selects where ReadOnly() stands among the other server options (options are applied in the order given):
// 0 = only the working directory before it (the layout of every sequence case), 1..3 = first / in the middle / last among
// all the other options.
var c09Layout int

func c09Start(readOnly bool) *c09Side {
	s := &c09Side{root: c09MkTree()}
	opts := []ServerOption{WithServerWorkingDirectory(s.root)}
	if c09Layout > 0 {
		others := []ServerOption{WithServerWorkingDirectory(s.root), WithDebug(io.Discard), WithAllocator(), WithMaxTxPacket(40000), WindowsRootEnumeratesDrives()}
		at := map[int]int{1: 0, 2: 2, 3: len(others)}[c09Layout]
		opts = nil
		for i, o := range others {
			if i == at && readOnly {
				opts = append(opts, ReadOnly())
			}
			opts = append(opts, o)
		}
		if at == len(others) && readOnly {
			opts = append(opts, ReadOnly())
		}
	} else if readOnly {
		opts = append(opts, ReadOnly())
	}

	s.sess = bServeOS(opts...)
	s.snap = c09Snap(s.root)
	if f, err := s.sess.Exchange(c09Pkt(sshFxpInit, uint32(3))); err != nil || f.typ != sshFxpVersion {
		panic(fmt.Sprintf("c09: INIT not answered with VERSION: %v %v", f, err))
	}
	return s
}

func (s *c09Side) step(id uint32, r c09Req) (masked string, changed bool, diff string, pkt []byte) {
	h := s.handle
	if h == "" {
		h = "1" // what the first handle would be called
	}
	pkt = r.build(id, s.root, h)
	f, err := s.sess.Exchange(pkt)
	if err == nil && f.typ == sshFxpHandle && s.handle == "" {
		s.handle = string(f.body[8:])
	}
	masked = c09Mask(f, err, s.root)
	after := c09Snap(s.root)
	if after != s.snap {
		changed = true
		diff = c09Diff(s.snap, after)
	}
	s.snap = after
	return
}

func (s *c09Side) stop() {
	s.sess.Stop(nil)
	os.RemoveAll(s.root)
}

// c09Snap is snapshotTree plus the root directory's own mtime (FSETSTAT through a handle on "." can move it).
func c09Snap(root string) string {
	s := snapshotTree(root, true)
	if fi, err := os.Lstat(root); err == nil {
		s += fmt.Sprintf("\n. (root) mtime=%d", fi.ModTime().UnixNano())
	}
	return s
}

func c09Diff(a, b string) string {
	am, bm := map[string]bool{}, map[string]bool{}
	for _, l := range strings.Split(a, "\n") {
		am[l] = true
	}
	for _, l := range strings.Split(b, "\n") {
		bm[l] = true
	}
	var out []string
	for _, l := range strings.Split(a, "\n") {
		if !bm[l] {
			out = append(out, "- "+l)
		}
	}
	for _, l := range strings.Split(b, "\n") {
		if !am[l] {
			out = append(out, "+ "+l)
		}
	}
	return strings.Join(out, "\n")
}

// c09RunCase executes one sequence against both servers and applies the oracles.
func c09RunCase(res *reg.Result, seq []c09Req) {
	ro, rw := c09Start(true), c09Start(false)
	defer ro.stop()
	defer rw.stop()
	if ro.snap != rw.snap {
		panic("c09: twin trees differ before the first request:\n" + c09Diff(ro.snap, rw.snap))
	}
	var descs, hexes []string
	for _, r := range seq {
		descs = append(descs, r.desc)
	}
	equivalent := true // both sessions in equivalent states so far
	for i, r := range seq {
		id := uint32(10 + i)
		mro, chRO, diffRO, pkt := ro.step(id, r)
		mrw, chRW, _, _ := rw.step(id, r)
		hexes = append(hexes, hex.EncodeToString(pkt))
		replay := map[string]any{"sequence": descs, "failing_step": i, "packets_hex": hexes, "tree": "f(hello) d/ l->f g->nowhere", "readonly_answer": mro, "normal_answer": mrw}
		where := fmt.Sprintf("step %d of %v", i+1, descs)
		denied := mro == fmt.Sprintf("STATUS#%d(%s)", id, fx(sshFxPermissionDenied))
		if chRO {
			res.Violate("C09", "c09-tree-changed:"+r.class,
				fmt.Sprintf("read-only server changed the served tree on %s (%s), answer %s:\n%s", r.desc, where, c09Short(mro), diffRO), replay, nil)
		}
		if equivalent {
			if chRW && !denied {
				res.Violate("C09", "c09-not-denied:"+r.class,
					fmt.Sprintf("%s (%s) is a modifying attempt (it changes the twin tree through the normal server, which answers %s) but the read-only server answers %s instead of SSH_FX_PERMISSION_DENIED", r.desc, where, c09Short(mrw), c09Short(mro)), replay, nil)
			}
			if r.pure && !chRW && mro != mrw {
				res.Violate("C09", "c09-read-differs:"+r.class,
					fmt.Sprintf("purely reading request %s (%s) is answered %s by the read-only server but %s by the normal server", r.desc, where, mro, mrw), replay, nil)
			}
		} else if r.pure && denied && mrw != mro {
			res.Violate("C09", "c09-read-denied:"+r.class,
				fmt.Sprintf("purely reading request %s (%s) is answered SSH_FX_PERMISSION_DENIED by the read-only server (normal server: %s)", r.desc, where, c09Short(mrw)), replay, nil)
		}
		fp := fmt.Sprintf("%s ro=%s rw=%s", r.class, c09Short(mro), c09Short(mrw))
		if chRW {
			fp += " modifies"
		}
		if chRO {
			fp += " RO-TREE-CHANGED"
		}
		if i == len(seq)-1 {
			res.Outcome(fp)
		}
		if chRW || chRO || (r.opens && mro != mrw) {
			equivalent = false
		}
	}
}

func c09Bound(res *reg.Result, what string, done, total int64) {
	res.Bound = fmt.Sprintf("%s: %d of %d cases of this shard's share completed", what, done, total)
}

func init() {
	reg.Part("C09/single", func(c *reg.Ctx) *reg.Result {
		res := reg.NewResult(c.Part)
		old := syscall.Umask(0o022)
		defer syscall.Umask(old)
		reqs := c09Singles()
		var i, done int64
		for _, r := range reqs {
			i++
			if !c.Mine(i) {
				continue
			}
			if c.Expired() {
				res.Exhaustive = false
				break
			}
			res.Case(r.desc)
			res.Sample(r.desc)
			c09RunCase(res, []c09Req{r})
			// the same request with ReadOnly() first, in the middle and last among every other server option
			for c09Layout = 1; c09Layout <= 3; c09Layout++ {
				res.Case(fmt.Sprintf("%s [option layout %d]", r.desc, c09Layout))
				c09RunCase(res, []c09Req{r})
			}
			c09Layout = 0
			done++
		}
		c09Bound(res, fmt.Sprintf("all %d single requests (64 pflag sets x 5 targets x 2 attr variants OPEN, 32 attr-flag subsets x 5 targets x 2 value sets SETSTAT, REMOVE/MKDIR/RMDIR x 5, RENAME/SYMLINK/posix-rename/hardlink x 25, stat family/opendir/realpath/readlink x 10, statvfs, handle requests without handle, fsync, unknown extended)", len(reqs)), done, (int64(len(reqs))+int64(c.NShards)-1)/int64(max(c.NShards, 1)))
		res.Notes["requests"] = len(reqs)
		return res
	})
	reg.Part("C09/seq", func(c *reg.Ctx) *reg.Result {
		res := reg.NewResult(c.Part)
		old := syscall.Umask(0o022)
		defer syscall.Umask(old)
		thorough := !c.Quick()
		firsts := c09FirstSteps(true)
		steps := c09HandleSteps(true)
		if thorough {
			steps = append(steps, c09PathSteps()...)
		}
		var i, done int64
		total := int64(len(firsts) * (len(steps) + len(steps)*len(steps)))
	outer:
		for _, f := range firsts {
			for _, s1 := range steps {
				for k := -1; k < len(steps); k++ {
					i++
					if !c.Mine(i) {
						continue
					}
					if c.Expired() {
						res.Exhaustive = false
						break outer
					}
					seq := []c09Req{f, s1}
					if k >= 0 {
						seq = append(seq, steps[k])
					}
					key := f.desc + " ; " + s1.desc
					if k >= 0 {
						key += " ; " + steps[k].desc
					}
					res.Case(key)
					res.Sample(key)
					c09RunCase(res, seq)
					done++
				}
			}
		}
		c09Bound(res, fmt.Sprintf("all %d sequences 'obtain handle; step; [step]' over %d first steps x %d steps", total, len(firsts), len(steps)), done, (total+int64(c.NShards)-1)/int64(max(c.NShards, 1)))
		res.Notes["first_steps"] = len(firsts)
		res.Notes["steps"] = len(steps)
		return res
	})
	reg.Prop(&reg.Property{
		ID:    "C09",
		Level: "model_checking",
		Rule: "every request of the alphabet (all 20 request types; OPEN with all 64 pflag sets x {file, dir, symlink, dangling symlink, missing} x {no attrs, permissions}; SETSTAT/FSETSTAT with all 32 attribute-flag subsets; " +
			"REMOVE/MKDIR/RMDIR/RENAME/SYMLINK; extended posix-rename, hardlink, statvfs, fsync, unknown) and every sequence of depth <= 3 that first obtains a handle without write access (OPEN with any of the 32 pflag sets lacking WRITE on file/dir/missing, OPEN READ on a symlink, OPENDIR) and then sends WRITE/FSETSTAT/READDIR/FSTAT/READ/CLOSE/fsync through it, " +
			"each executed against the real read-only Server and, on an identical twin tree, against the same Server without ReadOnly(); a case is distinct by its request sequence, outcomes are (request class, read-only answer, normal answer, tree effect)",
		Assumptions: []string{
			"linux, root, tmpfs scratch trees; umask 022; atime is not part of the snapshot (reads legitimately move it)",
			"'modifying attempt' = the request changes the twin tree when sent to the non-read-only server (decided by execution); purely reading kinds = stat family, OPEN with pflags exactly READ, OPENDIR, READ, READDIR, FSTAT, CLOSE, READLINK, REALPATH, statvfs, unsupported extended names",
			"differential oracles apply while both sessions are in equivalent states; the snapshot oracle applies to every step",
			"unknown packet types and malformed packets are C07's subject and are not sent here",
		},
		Jobs: func(tier string) []reg.Job {
			if tier == "thorough" {
				return []reg.Job{
					{Part: "C09/single", Build: "plain", Shards: 8, BudgetS: 300, Procs: 2, Label: "single requests"},
					{Part: "C09/seq", Build: "plain", Shards: 16, BudgetS: 540, Procs: 1, Label: "handle sequences depth<=3 (all no-write opens, path steps)"},
				}
			}
			return []reg.Job{
				{Part: "C09/single", Build: "plain", Shards: 4, BudgetS: 60, Procs: 2, Label: "single requests"},
				{Part: "C09/seq", Build: "plain", Shards: 16, BudgetS: 70, Procs: 1, Label: "handle sequences depth<=3 (all no-write opens)"},
			}
		},
	})
}
