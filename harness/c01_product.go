//go:build verif

package sftp

// C01 (Engine B half): "Transferred bytes are exactly the file's bytes" – exhaustive product of
// client options x server kinds x file lengths x call parameters on the real client and the real
// servers, free-running over in-memory pipes. The oracle is a byte-slice reference file with
// os.File semantics. The scheduled (Engine A) half is added by c01ExtraJobs.

import (
	"bytes"
	"encoding/json"
	"errors"
	"fmt"
	"io"
	"os"
	"path/filepath"
	"sync"
	"sync/atomic"
	"time"

	"verif/reg"
)

// Hook for the scheduled (Engine A) half: when non-nil its jobs are appended to the property's
// jobs. c01Prop is a package-level variable (initialised before every init function), so another
// harness file's init may also extend c01Prop.Rule / c01Prop.Assumptions.
var c01ExtraJobs func(tier string) []reg.Job

// ---------------------------------------------------------------------------------------------
// In-memory handler with plain byte-slice files (no sleeps, no per-open copies): one object per
// name serves Get, Put and Open (read+write through one handle), Setstat(size) and Stat.

type bmFile struct {
	mu   sync.Mutex
	name string
	data []byte
	// a store that breaks off: reads reaching failAt deliver what lies before it (possibly nothing) and failErr
	failAt  int64
	failErr error
}

const bmMaxFile = 1 << 26

func (f *bmFile) ReadAt(b []byte, off int64) (int, error) {
	f.mu.Lock()
	defer f.mu.Unlock()
	if off < 0 {
		return 0, errors.New("negative offset")
	}
	if off >= int64(len(f.data)) {
		return 0, io.EOF
	}
	if f.failErr != nil && off+int64(len(b)) > f.failAt {
		n := 0
		if off < f.failAt {
			n = copy(b, f.data[off:f.failAt])
		}
		return n, f.failErr
	}
	n := copy(b, f.data[off:])
	if n < len(b) {
		return n, io.EOF
	}
	return n, nil
}

func (f *bmFile) WriteAt(b []byte, off int64) (int, error) {
	f.mu.Lock()
	defer f.mu.Unlock()
	if off < 0 || off+int64(len(b)) > bmMaxFile {
		return 0, errors.New("offset out of the harness range")
	}
	if len(b) == 0 {
		return 0, nil
	}
	end := int(off) + len(b)
	if end > len(f.data) {
		f.data = append(f.data, make([]byte, end-len(f.data))...)
	}
	copy(f.data[off:], b)
	return len(b), nil
}

func (f *bmFile) truncate(size int64) error {
	f.mu.Lock()
	defer f.mu.Unlock()
	if size < 0 || size > bmMaxFile {
		return errors.New("size out of the harness range")
	}
	if int(size) <= len(f.data) {
		f.data = f.data[:size]
	} else {
		f.data = append(f.data, make([]byte, int(size)-len(f.data))...)
	}
	return nil
}

func (f *bmFile) set(b []byte) {
	f.mu.Lock()
	f.data = append(f.data[:0], b...)
	f.mu.Unlock()
}

func (f *bmFile) get() []byte {
	f.mu.Lock()
	defer f.mu.Unlock()
	return append([]byte(nil), f.data...)
}

type bmHandler struct {
	statSkew int // added to every size reported by Stat/Lstat: the size is a hint, the name may designate other data by now
	mu       sync.Mutex
	files    map[string]*bmFile
}

func newBMHandler() *bmHandler { return &bmHandler{files: map[string]*bmFile{}} }

func (h *bmHandler) handlers() Handlers {
	return Handlers{FileGet: h, FilePut: h, FileCmd: h, FileList: h}
}

func (h *bmHandler) file(name string, create bool) *bmFile {
	h.mu.Lock()
	defer h.mu.Unlock()
	f := h.files[name]
	if f == nil && create {
		f = &bmFile{name: name}
		h.files[name] = f
	}
	return f
}

func (h *bmHandler) Fileread(r *Request) (io.ReaderAt, error) {
	f := h.file(r.Filepath, false)
	if f == nil {
		return nil, os.ErrNotExist
	}
	return f, nil
}

func (h *bmHandler) open(r *Request) (*bmFile, error) {
	fl := r.Pflags()
	f := h.file(r.Filepath, fl.Creat)
	if f == nil {
		return nil, os.ErrNotExist
	}
	if fl.Trunc {
		f.truncate(0)
	}
	return f, nil
}

func (h *bmHandler) Filewrite(r *Request) (io.WriterAt, error) { return h.open(r) }

func (h *bmHandler) OpenFile(r *Request) (WriterAtReaderAt, error) { return h.open(r) }

func (h *bmHandler) Filecmd(r *Request) error {
	switch r.Method {
	case "Setstat":
		f := h.file(r.Filepath, false)
		if f == nil {
			return os.ErrNotExist
		}
		if r.AttrFlags().Size {
			return f.truncate(int64(r.Attributes().Size))
		}
		return nil
	}
	return ErrSSHFxOpUnsupported
}

type bmLister []os.FileInfo

func (l bmLister) ListAt(out []os.FileInfo, off int64) (int, error) {
	if off >= int64(len(l)) {
		return 0, io.EOF
	}
	n := copy(out, l[off:])
	if n < len(out) {
		return n, io.EOF
	}
	return n, nil
}

func (h *bmHandler) Filelist(r *Request) (ListerAt, error) {
	switch r.Method {
	case "Stat", "Lstat":
		f := h.file(r.Filepath, false)
		if f == nil {
			return nil, os.ErrNotExist
		}
		f.mu.Lock()
		sz := len(f.data) + h.statSkew
		f.mu.Unlock()
		if sz < 0 {
			sz = 0
		}
		return bmLister{vinfo{name: filepath.Base(r.Filepath), size: int64(sz)}}, nil
	}
	return nil, ErrSSHFxOpUnsupported
}

// ---------------------------------------------------------------------------------------------
// helpers shared by the C01/C12 free-running parts

// bpipeReset forgets the tap of a pipe (the tap would otherwise keep every byte ever sent).
func bpipeReset(p *bpipe) {
	p.mu.Lock()
	p.Total = p.Total[:0]
	p.mu.Unlock()
}

// bWatchdog turns a stuck case into an engine error (exit 2 with a goroutine dump); it is never a
// verdict. The returned function reports progress.
func bWatchdog(what string, limit time.Duration) (tick func(desc string), stop func()) {
	var n atomic.Int64
	var last atomic.Value
	last.Store("")
	done := make(chan struct{})
	go func() {
		seen, since := int64(-1), time.Now()
		t := time.NewTicker(2 * time.Second)
		defer t.Stop()
		for {
			select {
			case <-done:
				return
			case <-t.C:
			}
			if v := n.Load(); v != seen {
				seen, since = v, time.Now()
			} else if time.Since(since) > limit {
				panic(fmt.Sprintf("%s watchdog: no progress for %v in case %v (engine error, not a verdict)", what, limit, last.Load()))
			}
		}
	}()
	return func(desc string) { last.Store(desc); n.Add(1) }, func() { close(done) }
}

// bErr3 is the error class of the C01 oracle.
func bErr3(err error) string {
	switch {
	case err == nil:
		return "nil"
	case errors.Is(err, io.EOF):
		return "EOF"
	default:
		return "other"
	}
}

func c01FilePat(n int) []byte {
	b := make([]byte, n)
	for i := range b {
		b[i] = byte(1 + (i*13)%127)
	}
	return b
}

func c01DataPat(n int) []byte {
	b := make([]byte, n)
	for i := range b {
		b[i] = byte(128 + (i*29)%127)
	}
	return b
}

var c01Marker = []byte{0xFF, 0x7F}

// reference write with os.File semantics (a zero-length write does not extend; holes are zero).
func refWriteAt(ref []byte, data []byte, off int) []byte {
	if len(data) == 0 {
		return ref
	}
	if end := off + len(data); end > len(ref) {
		ref = append(ref, make([]byte, end-len(ref))...)
	}
	copy(ref[off:], data)
	return ref
}

// ---- ReadFrom sources -------------------------------------------------------------------------

// pieceReader delivers at most step bytes per Read and exposes nothing else.
type pieceReader struct {
	b    []byte
	i    int
	step int
}

func (p *pieceReader) Read(b []byte) (int, error) {
	if p.i >= len(p.b) {
		return 0, io.EOF
	}
	n := len(b)
	if p.step > 0 && n > p.step {
		n = p.step
	}
	n = copy(b[:n], p.b[p.i:])
	p.i += n
	return n, nil
}

type srcLen struct{ *pieceReader }

func (s srcLen) Len() int { return len(s.b) - s.i }

// srcLen0 has a Len that is only a hint about what is buffered right now (nothing, before the first Read): a reader with
// a staging buffer filled on demand. Read still delivers everything.
type srcLen0 struct{ *pieceReader }

func (s srcLen0) Len() int { return 0 }

type srcSize struct{ *pieceReader }

func (s srcSize) Size() int64 { return int64(len(s.b)) }

type srcSizeNeg struct{ *pieceReader }

func (s srcSizeNeg) Size() int64 { return -1 }

type srcStat struct{ *pieceReader }

func (s srcStat) Stat() (os.FileInfo, error) {
	return vinfo{name: "src", size: int64(len(s.b))}, nil
}

type srcOpaque struct{ r io.Reader }

func (s srcOpaque) Read(b []byte) (int, error) { return s.r.Read(b) }

var c01SrcKinds = []string{"len", "size", "stat", "limited", "opaque", "size-unknown", "len-hint-0"}

func c01Source(kind string, data []byte, P int) (io.Reader, *pieceReader) {
	step := P/2 + 1
	pr := &pieceReader{b: data}
	switch kind {
	case "len":
		return srcLen{pr}, pr
	case "len-hint-0":
		return srcLen0{pr}, pr
	case "size":
		return srcSize{pr}, pr
	case "size-unknown":
		return srcSizeNeg{pr}, pr
	case "stat":
		pr.step = step
		return srcStat{pr}, pr
	case "limited":
		return &io.LimitedReader{R: srcOpaque{pr}, N: int64(len(data))}, pr
	default:
		pr.step = step
		return srcOpaque{pr}, pr
	}
}

// plainWriter is an io.Writer and nothing else.
type plainWriter struct{ b []byte }

func (w *plainWriter) Write(p []byte) (int, error) { w.b = append(w.b, p...); return len(p), nil }

// ---------------------------------------------------------------------------------------------
// configurations and cases

type c01Cfg struct {
	P      int    `json:"P"`
	K      int    `json:"K"`
	CR     bool   `json:"concurrent_reads"`
	CW     bool   `json:"concurrent_writes"`
	FS     bool   `json:"use_fstat"`
	Server string `json:"server"` // "os" | "rs"
	Alloc  bool   `json:"allocator"`
	MaxTx  uint32 `json:"max_tx,omitempty"`
}

func (c c01Cfg) String() string {
	return fmt.Sprintf("P=%d K=%d cr=%v cw=%v fstat=%v %s alloc=%v maxtx=%d", c.P, c.K, c.CR, c.CW, c.FS, c.Server, c.Alloc, c.MaxTx)
}

// c01Case is one unit of work (one File, one or a few calls).
type c01Case struct {
	Op   string `json:"op"`            // readat | read | writeto | writeat | write | readfrom | rfwc
	L    int    `json:"L"`             // length of the served file before the call
	Off  int    `json:"off"`           // offset (ReadAt/WriteAt/Seek before the call)
	Len  int    `json:"len"`           // buffer/data length; readat: -1 = every length 0..L+2
	Kind string `json:"kind"`          // source kind (readfrom)
	C    int    `json:"c"`             // concurrency argument (rfwc)
	Pre  string `json:"pre,omitempty"` // a call on the same File before the transfer: chmod | truncate (to the current length) | stat
}

type c01Env struct {
	cfg  c01Cfg
	sess *bSession
	cl   *Client
	path string
	h    *bmHandler
	mf   *bmFile
}

func c01Start(cfg c01Cfg) (*c01Env, error) {
	e := &c01Env{cfg: cfg}
	if cfg.Server == "os" {
		var so []ServerOption
		if cfg.Alloc {
			so = append(so, WithAllocator())
		}
		if cfg.MaxTx != 0 {
			so = append(so, WithMaxTxPacket(cfg.MaxTx))
		}
		e.path = filepath.Join(scratchDir(), "f")
		if err := os.WriteFile(e.path, nil, 0o644); err != nil {
			return nil, err
		}
		e.sess = bServeOS(so...)
	} else {
		var so []RequestServerOption
		if cfg.Alloc {
			so = append(so, WithRSAllocator())
		}
		if cfg.MaxTx != 0 {
			so = append(so, WithRSMaxTxPacket(cfg.MaxTx))
		}
		e.h = newBMHandler()
		e.path = "/f"
		e.mf = e.h.file(e.path, true)
		e.sess = bServeRS(e.h.handlers(), so...)
	}
	cl, err := e.sess.Client(MaxPacketUnchecked(cfg.P), MaxConcurrentRequestsPerFile(cfg.K),
		UseConcurrentReads(cfg.CR), UseConcurrentWrites(cfg.CW), UseFstat(cfg.FS))
	if err != nil {
		return nil, err
	}
	e.cl = cl
	return e, nil
}

func (e *c01Env) stop() {
	e.sess.Stop(e.cl)
	if e.cfg.Server == "os" {
		os.RemoveAll(filepath.Dir(e.path))
	}
}

func (e *c01Env) setContent(b []byte) error {
	bpipeReset(e.sess.c2s)
	bpipeReset(e.sess.s2c)
	if e.mf != nil {
		e.mf.set(b)
		return nil
	}
	return os.WriteFile(e.path, b, 0o644)
}

func (e *c01Env) content() []byte {
	if e.mf != nil {
		return e.mf.get()
	}
	b, err := os.ReadFile(e.path)
	if err != nil {
		return []byte("<unreadable: " + err.Error() + ">")
	}
	return b
}

func (e *c01Env) open() (*File, error) { return e.cl.OpenFile(e.path, os.O_RDWR) }

// c01Bad is a failed comparison.
type c01Bad struct {
	what string // count | err | data | content | nil-short | source | harness
	msg  string
}

func showBytes(b []byte) string {
	if len(b) > 48 {
		return fmt.Sprintf("%x…(%d bytes)", b[:48], len(b))
	}
	return fmt.Sprintf("%x", b)
}

func firstDiff(a, b []byte) int {
	n := len(a)
	if len(b) < n {
		n = len(b)
	}
	for i := 0; i < n; i++ {
		if a[i] != b[i] {
			return i
		}
	}
	if len(a) != len(b) {
		return n
	}
	return -1
}

// c01Run executes one case on an open session. calls = API calls whose result was checked.
func c01Run(e *c01Env, cs c01Case, out func(fp string)) (calls int64, bad *c01Bad) {
	P := e.cfg.P
	ref := c01FilePat(cs.L)
	if err := e.setContent(ref); err != nil {
		return 0, &c01Bad{"harness", "cannot set the file content: " + err.Error()}
	}
	f, err := e.open()
	if err != nil {
		return 0, &c01Bad{"harness", "open failed: " + err.Error()}
	}
	defer f.Close()
	fail := func(what, format string, a ...any) *c01Bad { return &c01Bad{what, fmt.Sprintf(format, a...)} }
	// a handle that has been used for something else first (nothing that changes the content) transfers like a fresh one
	var preErr error
	switch cs.Pre {
	case "chmod":
		preErr = f.Chmod(0o644)
	case "truncate":
		preErr = f.Truncate(int64(cs.L))
	case "stat":
		_, preErr = f.Stat()
	}
	if preErr != nil {
		return 1, fail("err", "File.%s before the transfer failed: %v", cs.Pre, preErr)
	}
	rel := func(n, want int) string {
		switch {
		case n == 0:
			return "0"
		case n == want:
			return "full"
		default:
			return "short"
		}
	}
	chunks := func(n int) string {
		switch k := (n + P - 1) / P; {
		case k <= 1:
			return "1pkt"
		case k <= e.cfg.K:
			return "<=K"
		default:
			return ">K"
		}
	}
	checkContent := func(want []byte) *c01Bad {
		got := e.content()
		if !bytes.Equal(got, want) {
			return fail("content", "served file content differs at byte %d: got %s (len %d) want %s (len %d)", firstDiff(got, want), showBytes(got), len(got), showBytes(want), len(want))
		}
		return nil
	}
	switch cs.Op {
	case "readat":
		lens := []int{cs.Len}
		if cs.Len < 0 {
			lens = lens[:0]
			for l := 0; l <= cs.L+2; l++ {
				lens = append(lens, l)
			}
		}
		for _, ln := range lens {
			buf := bytes.Repeat([]byte{0xEE}, ln)
			n, err := f.ReadAt(buf, int64(cs.Off))
			calls++
			wantN, wantErr := 0, "nil"
			if ln > 0 {
				avail := cs.L - cs.Off
				if avail < 0 {
					avail = 0
				}
				wantN = ln
				if avail < ln {
					wantN, wantErr = avail, "EOF"
				}
			}
			out(fmt.Sprintf("ReadAt %s n=%s err=%s", chunks(ln), rel(n, ln), bErr3(err)))
			d := fmt.Sprintf("ReadAt(len=%d, off=%d) on a %d-byte file", ln, cs.Off, cs.L)
			if err == nil && n != ln {
				return calls, fail("nil-short", "%s returned n=%d with a nil error", d, n)
			}
			if n != wantN {
				return calls, fail("count", "%s returned n=%d err=%v, reference n=%d err=%s", d, n, err, wantN, wantErr)
			}
			if bErr3(err) != wantErr {
				return calls, fail("err", "%s returned n=%d err=%v, reference n=%d err=%s", d, n, err, wantN, wantErr)
			}
			if n > 0 && !bytes.Equal(buf[:n], ref[cs.Off:cs.Off+n]) {
				return calls, fail("data", "%s delivered %s, the file holds %s (first difference at byte %d)", d, showBytes(buf[:n]), showBytes(ref[cs.Off:cs.Off+n]), firstDiff(buf[:n], ref[cs.Off:cs.Off+n]))
			}
		}
		return calls, checkContent(ref)

	case "read":
		bs := cs.Len
		var got []byte
		pos := 0
		for k := 0; ; k++ {
			if k > cs.L/bs+2 {
				return calls, fail("count", "Read loop with %d-byte buffers on a %d-byte file did not reach EOF after %d calls", bs, cs.L, k)
			}
			buf := bytes.Repeat([]byte{0xEE}, bs)
			n, err := f.Read(buf)
			calls++
			out(fmt.Sprintf("Read %s n=%s err=%s", chunks(bs), rel(n, bs), bErr3(err)))
			d := fmt.Sprintf("Read #%d (buffer %d) at position %d of a %d-byte file", k, bs, pos, cs.L)
			wantN := cs.L - pos
			if wantN > bs {
				wantN = bs
			}
			if n != wantN {
				return calls, fail("count", "%s returned n=%d err=%v, reference n=%d", d, n, err, wantN)
			}
			if err == nil && n != bs {
				return calls, fail("nil-short", "%s returned n=%d with a nil error", d, n)
			}
			if err != nil && (bErr3(err) != "EOF" || pos+n != cs.L) {
				return calls, fail("err", "%s returned n=%d err=%v although the file does not end there", d, n, err)
			}
			if !bytes.Equal(buf[:n], ref[pos:pos+n]) {
				return calls, fail("data", "%s delivered %s, the file holds %s", d, showBytes(buf[:n]), showBytes(ref[pos:pos+n]))
			}
			got = append(got, buf[:n]...)
			pos += n
			if err != nil {
				break
			}
		}
		if !bytes.Equal(got, ref) {
			return calls, fail("data", "Read loop (buffer %d) delivered %d bytes, the file has %d", bs, len(got), cs.L)
		}
		return calls, checkContent(ref)

	case "writeto", "writeto-stale":
		if cs.Op == "writeto-stale" {
			// the size a by-name STAT reports differs from the open file's (cs.Len = difference): the
			// name was re-pointed after the open, or the file is changing. WriteTo must still deliver
			// exactly the open file's bytes.
			if e.h != nil {
				e.h.statSkew = cs.Len
				defer func() { e.h.statSkew = 0 }()
			} else {
				other := c01FilePat(cs.L + cs.Len)
				if cs.L+cs.Len < 0 {
					other = nil
				}
				tmp := e.path + ".new"
				if err := os.WriteFile(tmp, other, 0o644); err != nil {
					return calls, fail("harness", "cannot write the replacement file: %v", err)
				}
				if err := os.Rename(tmp, e.path); err != nil {
					return calls, fail("harness", "cannot re-point the name: %v", err)
				}
				checkContent = func([]byte) *c01Bad { return nil } // the name now designates the replacement
			}
		}
		if _, err := f.Seek(int64(cs.Off), io.SeekStart); err != nil {
			return calls, fail("harness", "Seek(%d) failed: %v", cs.Off, err)
		}
		w := &plainWriter{}
		n, err := f.WriteTo(w)
		calls++
		start := cs.Off
		if start > cs.L {
			start = cs.L
		}
		want := ref[start:]
		out(fmt.Sprintf("WriteTo %s n=%s err=%s", chunks(len(want)), rel(int(n), len(want)), bErr3(err)))
		d := fmt.Sprintf("WriteTo from offset %d of a %d-byte file", cs.Off, cs.L)
		if cs.Op == "writeto-stale" {
			d += fmt.Sprintf(" whose name reports a size of %d", cs.L+cs.Len)
		}
		if err != nil {
			return calls, fail("err", "%s returned n=%d err=%v, reference n=%d err=nil", d, n, err, len(want))
		}
		if int(n) != len(want) || int(n) != len(w.b) {
			return calls, fail("count", "%s returned n=%d, the writer received %d bytes, reference %d", d, n, len(w.b), len(want))
		}
		if !bytes.Equal(w.b, want) {
			return calls, fail("data", "%s delivered %s, the file holds %s (first difference at byte %d)", d, showBytes(w.b), showBytes(want), firstDiff(w.b, want))
		}
		return calls, checkContent(ref)

	case "writeat":
		data := c01DataPat(cs.Len)
		n, err := f.WriteAt(data, int64(cs.Off))
		calls++
		out(fmt.Sprintf("WriteAt %s n=%s err=%s", chunks(cs.Len), rel(n, cs.Len), bErr3(err)))
		d := fmt.Sprintf("WriteAt(len=%d, off=%d) onto a %d-byte file", cs.Len, cs.Off, cs.L)
		if err != nil {
			return calls, fail("err", "%s returned n=%d err=%v", d, n, err)
		}
		if n != cs.Len {
			return calls, fail("nil-short", "%s returned n=%d with a nil error", d, n)
		}
		if b := checkContent(refWriteAt(ref, data, cs.Off)); b != nil {
			b.msg = d + ": " + b.msg
			return calls, b
		}
		return calls, nil

	case "write":
		if _, err := f.Seek(int64(cs.Off), io.SeekStart); err != nil {
			return calls, fail("harness", "Seek(%d) failed: %v", cs.Off, err)
		}
		data := c01DataPat(cs.Len)
		n, err := f.Write(data)
		calls++
		out(fmt.Sprintf("Write %s n=%s err=%s", chunks(cs.Len), rel(n, cs.Len), bErr3(err)))
		d := fmt.Sprintf("Seek(%d); Write(len=%d) onto a %d-byte file", cs.Off, cs.Len, cs.L)
		if err != nil {
			return calls, fail("err", "%s returned n=%d err=%v", d, n, err)
		}
		if n != cs.Len {
			return calls, fail("nil-short", "%s returned n=%d with a nil error", d, n)
		}
		n2, err := f.Write(c01Marker)
		calls++
		if err != nil || n2 != len(c01Marker) {
			return calls, fail("err", "%s; second Write(2 bytes) returned n=%d err=%v", d, n2, err)
		}
		want := refWriteAt(refWriteAt(ref, data, cs.Off), c01Marker, cs.Off+cs.Len)
		if b := checkContent(want); b != nil {
			b.msg = d + "; Write(2-byte marker): " + b.msg
			return calls, b
		}
		return calls, nil

	case "readfrom", "rfwc":
		if _, err := f.Seek(int64(cs.Off), io.SeekStart); err != nil {
			return calls, fail("harness", "Seek(%d) failed: %v", cs.Off, err)
		}
		data := c01DataPat(cs.Len)
		var n int64
		var err error
		var d string
		kind := cs.Kind
		if cs.Op == "rfwc" {
			kind = "opaque"
		}
		src, pr := c01Source(kind, data, P)
		if cs.Op == "rfwc" {
			n, err = f.ReadFromWithConcurrency(src, cs.C)
			d = fmt.Sprintf("Seek(%d); ReadFromWithConcurrency(%d-byte source, c=%d) onto a %d-byte file", cs.Off, cs.Len, cs.C, cs.L)
			out(fmt.Sprintf("ReadFromWithConcurrency %s n=%s err=%s", chunks(cs.Len), rel(int(n), cs.Len), bErr3(err)))
		} else {
			n, err = f.ReadFrom(src)
			d = fmt.Sprintf("Seek(%d); ReadFrom(%d-byte source of kind %s) onto a %d-byte file", cs.Off, cs.Len, kind, cs.L)
			out(fmt.Sprintf("ReadFrom/%s %s n=%s err=%s", kind, chunks(cs.Len), rel(int(n), cs.Len), bErr3(err)))
		}
		calls++
		if err != nil {
			return calls, fail("err", "%s returned n=%d err=%v", d, n, err)
		}
		if int(n) != cs.Len {
			return calls, fail("count", "%s returned n=%d with a nil error", d, n)
		}
		if pr.i != len(data) {
			return calls, fail("source", "%s consumed %d of %d source bytes", d, pr.i, len(data))
		}
		n2, err := f.Write(c01Marker)
		calls++
		if err != nil || n2 != len(c01Marker) {
			return calls, fail("err", "%s; following Write(2 bytes) returned n=%d err=%v", d, n2, err)
		}
		want := refWriteAt(refWriteAt(ref, data, cs.Off), c01Marker, cs.Off+cs.Len)
		if b := checkContent(want); b != nil {
			b.msg = d + "; Write(2-byte marker): " + b.msg
			return calls, b
		}
		return calls, nil
	}
	return calls, &c01Bad{"harness", "unknown op " + cs.Op}
}

// c01SmallCases enumerates the exhaustive product of call parameters for one small configuration.
func c01SmallCases(P, K int, visit func(c01Case)) {
	maxL := 2*P*K + P + 1
	for L := 0; L <= maxL; L++ {
		for off := 0; off <= L+1; off++ {
			visit(c01Case{Op: "readat", L: L, Off: off, Len: -1})
		}
		for bs := 1; bs <= L+1; bs++ {
			visit(c01Case{Op: "read", L: L, Len: bs})
		}
		seen := map[int]bool{}
		for _, off := range []int{0, 1, P, L} {
			if !seen[off] {
				seen[off] = true
				visit(c01Case{Op: "writeto", L: L, Off: off})
			}
		}
		if L > P {
			for _, skew := range []int{-(L - P - 1), -1, 1, P, 2*P + 1} {
				if L+skew > P { // keep the concurrent path (sizes <= P fall back to the sequential one)
					visit(c01Case{Op: "writeto-stale", L: L, Off: 0, Len: skew})
				}
			}
		}
	}
	for _, F := range []int{0, P, 2*P + 1} {
		for ln := 0; ln <= maxL; ln++ {
			for off := 0; off <= F+1; off++ {
				visit(c01Case{Op: "writeat", L: F, Off: off, Len: ln})
				visit(c01Case{Op: "write", L: F, Off: off, Len: ln})
			}
			for _, off := range []int{0, 1} {
				for _, kind := range c01SrcKinds {
					visit(c01Case{Op: "readfrom", L: F, Off: off, Len: ln, Kind: kind})
				}
				seen := map[int]bool{}
				for _, c := range []int{-1, 0, 1, 2, K, K + 1} {
					if !seen[c] {
						seen[c] = true
						visit(c01Case{Op: "rfwc", L: F, Off: off, Len: ln, C: c})
					}
				}
			}
		}
	}
}

// c01PreCases: transfers through a handle on which another method was called first.
func c01PreCases(P, K int, visit func(c01Case)) {
	L := 2*P + 1
	for _, pre := range []string{"chmod", "truncate", "stat"} {
		visit(c01Case{Op: "readat", L: L, Off: 0, Len: -1, Pre: pre})
		// (no Read/WriteTo loops here: they end at EOF only, and a free-running case has no way to decide "never returns")
		for _, ln := range []int{1, P, L + 1} {
			visit(c01Case{Op: "writeat", L: P, Off: 1, Len: ln, Pre: pre})
			visit(c01Case{Op: "write", L: P, Off: 0, Len: ln, Pre: pre})
			visit(c01Case{Op: "readfrom", L: P, Off: 0, Len: ln, Kind: c01SrcKinds[0], Pre: pre})
			visit(c01Case{Op: "rfwc", L: 0, Off: 0, Len: ln, C: K, Pre: pre})
		}
	}
}

// c01LargeCases: boundary lengths around multiples of a large packet size.
func c01LargeCases(P, K int, lite bool, visit func(c01Case)) {
	var Ls []int
	ks := []int{1, 2, 3, 2*K + 1}
	if lite {
		ks = []int{1, 2*K + 1}
	}
	for _, k := range ks {
		for _, d := range []int{-1, 0, 1} {
			Ls = append(Ls, k*P+d)
		}
	}
	uniq := func(v []int) []int {
		seen := map[int]bool{}
		var o []int
		for _, x := range v {
			if x >= 0 && !seen[x] {
				seen[x] = true
				o = append(o, x)
			}
		}
		return o
	}
	for _, L := range Ls {
		offs := uniq([]int{0, 1, P - 1, P, L - 1, L, L + 1})
		lens := uniq([]int{P, P + 1, 2*P + 1, L - 1, L, L + 2})
		if lite {
			offs = uniq([]int{0, 1, P, L})
			lens = uniq([]int{P + 1, L, L + 2})
		}
		for _, off := range offs {
			for _, ln := range lens {
				visit(c01Case{Op: "readat", L: L, Off: off, Len: ln})
			}
		}
		bss := uniq([]int{P - 1, P, P + 1, 2*P + 1, L + 1})
		if lite {
			bss = uniq([]int{P + 1, L + 1})
		}
		for _, bs := range bss {
			visit(c01Case{Op: "read", L: L, Len: bs})
		}
		for _, off := range uniq([]int{0, 1, P, L}) {
			visit(c01Case{Op: "writeto", L: L, Off: off})
		}
		// writes of L bytes onto short files
		for _, F := range []int{0, P + 1} {
			for _, off := range []int{0, 1, P} {
				if lite && off == P {
					continue
				}
				visit(c01Case{Op: "writeat", L: F, Off: off, Len: L})
				visit(c01Case{Op: "write", L: F, Off: off, Len: L})
			}
			for _, kind := range c01SrcKinds {
				visit(c01Case{Op: "readfrom", L: F, Off: 1, Len: L, Kind: kind})
			}
			seen := map[int]bool{}
			for _, c := range []int{-1, 0, 1, 2, K, K + 1} {
				if !seen[c] && !(lite && c > 1 && c != K) {
					seen[c] = true
					visit(c01Case{Op: "rfwc", L: F, Off: 1, Len: L, C: c})
				}
			}
		}
	}
}

type c01Replay struct {
	Cfg  c01Cfg  `json:"cfg"`
	Case c01Case `json:"case"`
}

func c01Configs(set string) (cfgs []c01Cfg, large bool) {
	var pk [][2]int
	var maxTx []uint32
	switch set {
	case "small":
		// the whole small product costs a few seconds, so both tiers run all of it
		for _, p := range []int{1, 3, 4} {
			for _, k := range []int{1, 2, 3} {
				pk = append(pk, [2]int{p, k})
			}
		}
		maxTx = []uint32{0}
	case "large":
		pk, maxTx, large = [][2]int{{32768, 2}}, []uint32{0, 65536}, true
	case "huge":
		pk, maxTx, large = [][2]int{{200000, 2}}, []uint32{1 << 20}, true
	}
	for _, x := range pk {
		for _, server := range []string{"os", "rs"} {
			for _, alloc := range []bool{false, true} {
				for _, tx := range maxTx {
					for o := 0; o < 8; o++ {
						cfgs = append(cfgs, c01Cfg{P: x[0], K: x[1], CR: o&1 != 0, CW: o&2 != 0, FS: o&4 != 0, Server: server, Alloc: alloc, MaxTx: tx})
					}
				}
			}
		}
	}
	return cfgs, large
}

func c01Part(c *reg.Ctx) *reg.Result {
	res := reg.NewResult(c.Part)
	tick, stop := bWatchdog("C01/product", 120*time.Second)
	defer stop()
	report := func(cfg c01Cfg, cs c01Case, bad *c01Bad) {
		path, isRead := "seq", cs.Op == "readat" || cs.Op == "read" || cs.Op == "writeto" || cs.Op == "writeto-stale"
		if isRead && cfg.CR || !isRead && cfg.CW || cs.Op == "rfwc" {
			path = "conc"
		}
		key := fmt.Sprintf("c01-product:%s/%s:%s", cs.Op, path, bad.what)
		res.Violate("C01", key, fmt.Sprintf("[%v] %s", cfg, bad.msg), c01Replay{cfg, cs}, nil)
	}
	if c.Replay != nil {
		var r c01Replay
		if err := json.Unmarshal(c.Replay, &r); err != nil {
			res.EngineError = "bad replay record: " + err.Error()
			return res
		}
		e, err := c01Start(r.Cfg)
		if err != nil {
			res.EngineError = err.Error()
			return res
		}
		defer e.stop()
		n, bad := c01Run(e, r.Case, res.Outcome)
		res.Evaluations += n
		if bad != nil {
			fmt.Fprintf(os.Stderr, "replay: [%v] %s\n", r.Cfg, bad.msg)
			report(r.Cfg, r.Case, bad)
		}
		return res
	}
	set := c.Arg("set", "small")
	cfgs, large := c01Configs(set)
	lite := c.Quick()
	var i, cases int64
	expired := false
	for _, cfg := range cfgs {
		if expired {
			break
		}
		var e *c01Env
		visit := func(cs c01Case) {
			i++
			if expired || !c.Mine(i) {
				return
			}
			if c.Expired() {
				expired = true
				return
			}
			if e == nil {
				var err error
				if e, err = c01Start(cfg); err != nil {
					res.EngineError = fmt.Sprintf("cannot start %v: %v", cfg, err)
					expired = true
					return
				}
			}
			tick(fmt.Sprintf("%v %+v", cfg, cs))
			n, bad := c01Run(e, cs, res.Outcome)
			res.Evaluations += n
			cases++
			if cs.Len > cfg.P || cs.Len < 0 && cs.L+2 > cfg.P || (cs.Op == "writeto" || cs.Op == "writeto-stale") && cs.L-cs.Off > cfg.P {
				res.Distinct++
			}
			if cases%997 == 1 {
				res.Sample(map[string]any{"cfg": cfg.String(), "case": cs})
			}
			if bad != nil {
				if bad.what == "harness" {
					res.EngineError = fmt.Sprintf("[%v] %+v: %s", cfg, cs, bad.msg)
					expired = true
					return
				}
				report(cfg, cs, bad)
			}
		}
		if large {
			c01LargeCases(cfg.P, cfg.K, lite, visit)
		} else {
			c01SmallCases(cfg.P, cfg.K, visit)
			c01PreCases(cfg.P, cfg.K, visit)
		}
		if e != nil {
			e.stop()
		}
	}
	res.Notes["cases_total_all_shards"] = i
	res.Notes["configurations"] = len(cfgs)
	if expired && res.EngineError == "" {
		res.Exhaustive = false
		res.Bound = fmt.Sprintf("deadline reached: this shard completed %d of its cases (enumeration order: configuration-major)", cases)
	} else {
		res.Bound = fmt.Sprintf("set %q: %d configurations, %d cases in total, all executed", set, len(cfgs), i)
	}
	return res
}

func init() {
	reg.Part("C01/product", c01Part)
	reg.Prop(c01Prop)
}

var c01Prop = &reg.Property{
	ID:    "C01",
	Level: "model_checking",
	Rule: "full Cartesian product: client options (MaxPacketUnchecked P x MaxConcurrentRequestsPerFile K x UseConcurrentReads x UseConcurrentWrites x UseFstat) x server kind {Server over a scratch file, RequestServer over a byte-slice handler} x allocator {off,on} (x max-tx-packet for the large sets) x file length L in [0, 2PK+P+1] x " +
		"{every ReadAt(len in [0,L+2], off in [0,L+1]); Read loops with every buffer size 1..L+1; WriteTo after Seek to {0,1,P,L}; every WriteAt(len in [0,2PK+P+1], off in [0,F+1]) and Seek+Write+Write onto files of length F in {0,P,2P+1}; ReadFrom with seven source kinds (Len, Size, Stat, LimitedReader, opaque, Size()=-1, Len()=0 as a mere hint) and ReadFromWithConcurrency(c in {-1,0,1,2,K,K+1}) with every source length}; " +
		"evaluations = File method calls compared with the byte-slice reference; distinct non-trivial = cases whose transfer spans more than one packet",
	Assumptions: []string{
		"free-running execution: each case runs under whatever schedule the Go runtime picks (reply reordering and interleavings are the subject of the scheduled jobs of this property)",
		"the client's packet size does not exceed the server's maximum payload (P=200000 only against max-tx-packet 1<<20)",
		"data values are fixed patterns (file bytes 1..127 with period 127, written bytes 128..254, marker ff7f, holes 00)",
		"the os-backed server runs on tmpfs (/dev/shm); the handler-based server on a byte-slice file whose ReadAt/WriteAt behave like a regular file",
	},
	Jobs: func(tier string) []reg.Job {
		var jobs []reg.Job
		if tier == "thorough" {
			jobs = []reg.Job{
				{Part: "C01/product", Build: "plain", Args: map[string]string{"set": "small"}, Shards: 16, BudgetS: 540, Procs: 1, Label: "product P{1,3,4} x K{1,2,3}"},
				{Part: "C01/product", Build: "plain", Args: map[string]string{"set": "large"}, Shards: 8, BudgetS: 540, Procs: 1, Label: "product large P=32768 K=2 maxtx{default,65536}"},
				{Part: "C01/product", Build: "plain", Args: map[string]string{"set": "huge"}, Shards: 4, BudgetS: 540, Procs: 1, Label: "product huge P=200000 K=2 maxtx=1<<20"},
			}
		} else {
			jobs = []reg.Job{
				{Part: "C01/product", Build: "plain", Args: map[string]string{"set": "small"}, Shards: 16, BudgetS: 80, Procs: 1, Label: "product P{1,3,4} x K{1,2,3}"},
				{Part: "C01/product", Build: "plain", Args: map[string]string{"set": "large"}, Shards: 8, BudgetS: 80, Procs: 1, Label: "product large P=32768 K=2 maxtx{default,65536} (boundary subset)"},
				{Part: "C01/product", Build: "plain", Args: map[string]string{"set": "huge"}, Shards: 4, BudgetS: 80, Procs: 1, Label: "product huge P=200000 K=2 maxtx=1<<20 (boundary subset)"},
			}
		}
		jobs = append(jobs, reg.Job{Part: "C01/special", Build: "plain", Shards: 4, BudgetS: 60, Procs: 1, Label: "served files whose stat size is 0 although they have content (procfs); stores that break off in mid-file; every read path"})
		if c01ExtraJobs != nil {
			jobs = append(jobs, c01ExtraJobs(tier)...)
		}
		return jobs
	},
}
