//go:build verif

package sftp

// Scheduled (Engine A) client harnesses against the permuting reference peer: transfers with
// reply reordering, failing chunks and connection loss (C01-A, C04, C13), concurrent callers (C03).

import (
	"errors"
	"fmt"
	"io"
	"os"
	"sort"
	"strconv"
	"strings"

	"verif/explore"
	"verif/reg"
	"verif/vsched"
)

// countingReader is a source for ReadFrom that counts what was consumed; kind selects which size
// hint it exposes.
type countingReader struct {
	data     []byte
	pos      int
	Consumed int
	failAt   int // > 0: once that many bytes have been delivered the source fails (not with io.EOF)
}

var errSourceFailed = errors.New("source failed")

func (r *countingReader) Read(b []byte) (int, error) {
	if r.failAt > 0 && r.pos >= r.failAt {
		return 0, errSourceFailed
	}
	if r.pos >= len(r.data) {
		return 0, io.EOF
	}
	if r.failAt > 0 && len(b) > r.failAt-r.pos {
		b = b[:r.failAt-r.pos]
	}
	n := copy(b, r.data[r.pos:])
	r.pos += n
	r.Consumed += n
	return n, nil
}

type lenReader struct{ *countingReader }

func (r lenReader) Len() int { return len(r.data) - r.pos }

type captureWriter struct {
	data   []byte
	failAt int // fail the write that would pass this many bytes (-1 never)
}

func (w *captureWriter) Write(b []byte) (int, error) {
	w.data = append(w.data, b...)
	return len(b), nil
}

// xferSpec describes one transfer scenario.
type xferSpec struct {
	api       string // ReadAt Read WriteTo WriteAt Write ReadFrom ReadFromC
	conc      bool   // concurrent reads / writes enabled
	useFstat  bool
	P, K      int
	fileLen   int
	reqLen    int
	off       int
	fail      []int // failing chunk indexes, counted from the start offset in units of P
	permute   bool
	cut       int // >=0: the server->client stream ends after that many bytes (C04)
	cutErr    bool
	failWrite int  // >0: that client->server write fails (C04)
	fwEOF     bool // failing writes report io.EOF (what a closed ssh channel does)
	after     bool // C04: issue one more call after the transfer
	noOffset  bool // do not judge the File offset (C01 speaks about bytes and counts; offsets are C12/C13)
	short     int  // k+1: the first READ of chunk k is answered with one byte only although the file goes on (sequential reads ask for the rest)
	failRest  bool // ... and the request for the rest of that chunk fails
	srcFail   int  // ReadFrom: the source fails (not EOF) after that many bytes
	noType    bool // the server reports permission bits only for the file (no file-type bits: it is not known to be regular)
}

func (s xferSpec) String() string {
	sh := ""
	if s.short > 0 {
		sh = fmt.Sprintf(" short-reply@chunk%d rest-fails=%v", s.short-1, s.failRest)
	}
	if s.noType {
		sh += " mode-without-type-bits"
	}
	if s.srcFail > 0 {
		sh += fmt.Sprintf(" source-fails-after-%d", s.srcFail)
	}
	return fmt.Sprintf("%s conc=%v P=%d K=%d file=%d req=%d off=%d fail=%v permute=%v cut=%d fw=%d fwEOF=%v%s", s.api, s.conc, s.P, s.K, s.fileLen, s.reqLen, s.off, s.fail, s.permute, s.cut, s.failWrite, s.fwEOF, sh)
}

func pattern(n int, base byte) []byte {
	b := make([]byte, n)
	for i := range b {
		b[i] = base + byte(i%26)
	}
	return b
}

type xferResult struct {
	n        int64
	err      error
	data     []byte // bytes delivered to the caller (reads)
	offAfter int64
	consumed int
	peerFile []byte
	afterErr error
	newErr   error
	closeErr error
	waitErr  error
}

func failMsg(i int) string { return fmt.Sprintf("fail@chunk%d", i) }

// run executes the scenario body (thread 0).
func (s xferSpec) run(res *xferResult, envOut **cliEnv) {
	isRead := s.api == "ReadAt" || s.api == "Read" || s.api == "WriteTo"
	env := newCliEnv(func(e *cliEnv) {
		e.peer.Permute = s.permute
		f := &pfile{}
		if isRead {
			f.data = pattern(s.fileLen, 'a')
		} else {
			f.data = pattern(s.fileLen, 'A')
		}
		e.peer.files["/f"] = f
		e.peer.handles["h1"] = f
		e.peer.hpath["h1"] = "/f"
		for _, i := range s.fail {
			e.peer.FailOff[uint64(s.off+i*s.P)] = failMsg(i)
		}
		if s.noType {
			e.peer.FileMode = 0o644
		}
		if s.short > 0 {
			e.peer.ShortAt[uint64(s.off+(s.short-1)*s.P)] = 1
			if s.failRest {
				e.peer.FailOff[uint64(s.off+(s.short-1)*s.P+1)] = "fail@rest"
			}
		}
		if s.cut >= 0 {
			e.s2c.CutAfter = s.cut
			if s.cutErr {
				e.s2c.CutErr = errors.New("injected transport error")
			}
		}
		e.c2s.FailWrite = s.failWrite
		if s.fwEOF {
			e.c2s.FailErr = io.EOF
		}
	}, MaxPacketUnchecked(s.P), MaxConcurrentRequestsPerFile(s.K), UseConcurrentReads(s.conc), UseConcurrentWrites(s.conc), UseFstat(s.useFstat))
	*envOut = env
	if env.err != nil {
		res.newErr = env.err
		return
	}
	c := env.c
	f := &File{c: c, path: "/f", handle: "h1", offset: 0}
	switch s.api {
	case "ReadAt":
		b := make([]byte, s.reqLen)
		n, err := f.ReadAt(b, int64(s.off))
		res.n, res.err, res.data = int64(n), err, b
	case "Read":
		f.offset = int64(s.off)
		b := make([]byte, s.reqLen)
		n, err := f.Read(b)
		res.n, res.err, res.data = int64(n), err, b
	case "WriteTo":
		f.offset = int64(s.off)
		w := &captureWriter{}
		n, err := f.WriteTo(w)
		res.n, res.err, res.data = n, err, w.data
	case "WriteAt":
		n, err := f.WriteAt(pattern(s.reqLen, 'a'), int64(s.off))
		res.n, res.err = int64(n), err
	case "Write":
		f.offset = int64(s.off)
		n, err := f.Write(pattern(s.reqLen, 'a'))
		res.n, res.err = int64(n), err
	case "ReadFrom":
		f.offset = int64(s.off)
		cr := &countingReader{data: pattern(s.reqLen, 'a'), failAt: s.srcFail}
		var src io.Reader = cr
		if s.conc {
			src = lenReader{cr} // has Len(): lets ReadFrom pick the concurrent path
		}
		n, err := f.ReadFrom(src)
		res.n, res.err, res.consumed = n, err, cr.Consumed
	case "ReadFromC":
		f.offset = int64(s.off)
		cr := &countingReader{data: pattern(s.reqLen, 'a'), failAt: s.srcFail}
		n, err := f.ReadFromWithConcurrency(cr, s.K)
		res.n, res.err, res.consumed = n, err, cr.Consumed
	default:
		panic("unknown api " + s.api)
	}
	res.offAfter = f.offset
	if s.after {
		_, res.afterErr = c.Stat("/after")
	}
	res.closeErr = c.Close()
	res.waitErr = c.Wait()
	res.peerFile = append([]byte(nil), env.peer.files["/f"].data...)
}

// expected computes (n, error text) from the reference model for fault-free and failing-chunk runs.
// errText "" = nil, "EOF" = io.EOF, else the failure message.
func (s xferSpec) expected() (n int, errText string, offAfter int) {
	failAt := -1 // lowest failing chunk
	for _, i := range s.fail {
		if failAt < 0 || i < failAt {
			failAt = i
		}
	}
	switch s.api {
	case "ReadAt", "Read":
		end := s.off + s.reqLen
		avail := s.fileLen
		n, errText = s.reqLen, ""
		if avail < end {
			n, errText = avail-s.off, "EOF"
			if n < 0 {
				n = 0
			}
		}
		if failAt >= 0 && failAt*s.P < n {
			n, errText = failAt*s.P, failMsg(failAt)
		} else if failAt >= 0 && failAt*s.P == n && errText == "" {
			// failing chunk starts exactly at the end of the request: not needed
		}
		if s.reqLen == 0 {
			n, errText = 0, ""
		}
		if s.short > 0 && s.failRest && (s.short-1)*s.P+1 < n {
			n, errText = (s.short-1)*s.P+1, "fail@rest"
		}
		offAfter = 0
		if s.api == "Read" {
			offAfter = s.off + n
		}
	case "WriteTo":
		n = s.fileLen - s.off
		if n < 0 {
			n = 0
		}
		if failAt >= 0 && failAt*s.P < n {
			n, errText = failAt*s.P, failMsg(failAt)
		}
		if s.short > 0 && s.failRest && (s.short-1)*s.P+1 < n {
			n, errText = (s.short-1)*s.P+1, "fail@rest"
		}
		offAfter = s.off + n
	case "WriteAt", "Write":
		n = s.reqLen
		if failAt >= 0 && failAt*s.P < s.reqLen {
			n, errText = failAt*s.P, failMsg(failAt)
		}
		if s.api == "Write" {
			offAfter = s.off + n
		}
	case "ReadFrom", "ReadFromC":
		n = s.reqLen // bytes consumed; checked against the counting reader instead when a chunk fails
		offAfter = s.off + s.reqLen
		if failAt >= 0 && failAt*s.P < s.reqLen {
			errText = failMsg(failAt)
			offAfter = s.off + failAt*s.P
			n = -1
		}
		if s.srcFail > 0 && (failAt < 0 || failAt*s.P >= s.srcFail) {
			// the source gave out first (in file order): its error, the prefix it delivered is intact
			errText = "other:" + errSourceFailed.Error()
			offAfter = s.off + s.srcFail
			n = -1
		}
	}
	return
}

func errText(err error) string {
	switch {
	case err == nil:
		return ""
	case err == io.EOF:
		return "EOF"
	}
	var se *StatusError
	if errors.As(err, &se) {
		return se.msg
	}
	return "other:" + err.Error()
}

// judgeXfer compares a finished fault-free / failing-chunk run against the reference.
func (s xferSpec) judge(res *xferResult, env *cliEnv) (outcome, bad, key string) {
	wantN, wantErr, wantOff := s.expected()
	gotErr := errText(res.err)
	outcome = fmt.Sprintf("n=%d err=%q off=%d consumed=%d data=%q peer=%q wire=[%s]", res.n, gotErr, res.offAfter, res.consumed, res.data[:max(0, min(int(res.n), len(res.data)))], res.peerFile, env.peer.wireString())
	fail := func(k, f string, a ...any) (string, string, string) {
		return outcome, fmt.Sprintf("%s: ", s) + fmt.Sprintf(f, a...) + "\n  " + outcome, "xfer-" + k + ":" + s.api + ":conc=" + strconv.FormatBool(s.conc)
	}
	if res.n < 0 || int(res.n) > max(len(res.data), s.reqLen, s.fileLen) {
		return fail("count", "returned count %d is outside the request", res.n)
	}
	if len(env.peer.Bad) > 0 {
		return fail("peer", "peer observed protocol violation: %v", env.peer.Bad)
	}
	if res.closeErr != nil {
		// Close reports the writer's close error only; the pipe never fails to close
		return fail("close", "Client.Close returned %v", res.closeErr)
	}
	isRead := s.api == "ReadAt" || s.api == "Read" || s.api == "WriteTo"
	if wantN >= 0 && int(res.n) != wantN {
		return fail("count", "returned count %d, reference says %d (err %q)", res.n, wantN, wantErr)
	}
	if gotErr != wantErr {
		if !(wantErr != "" && wantErr != "EOF" && gotErr == "") {
			return fail("error", "returned error %q, reference says %q", gotErr, wantErr)
		}
		return fail("nil-on-failure", "returned nil error although chunk failed (%q expected)", wantErr)
	}
	if res.err == nil && isRead && s.api != "WriteTo" && int(res.n) != s.reqLen {
		return fail("short-nil", "short count %d of %d with nil error", res.n, s.reqLen)
	}
	if isRead {
		src := pattern(s.fileLen, 'a')
		want := src[min(s.off, len(src)):min(s.off+int(res.n), len(src))]
		if string(res.data[:res.n]) != string(want) {
			return fail("data", "delivered bytes %q differ from the file's %q", res.data[:res.n], want)
		}
	} else {
		// the first n bytes (n = intact prefix) must be stored at the right place
		n := int(res.n)
		if s.api == "ReadFrom" || s.api == "ReadFromC" {
			if int(res.n) != res.consumed {
				return fail("consumed", "returned count %d but %d bytes were consumed from the source", res.n, res.consumed)
			}
			n = int(res.offAfter) - s.off
		}
		src := pattern(s.reqLen, 'a')
		if n < 0 || s.off+n > len(res.peerFile) && n > 0 {
			return fail("stored", "prefix of %d bytes claimed but the served file has only %d bytes", n, len(res.peerFile))
		}
		if n > 0 && string(res.peerFile[s.off:s.off+n]) != string(src[:n]) {
			return fail("stored", "served file %q does not hold the %d-byte prefix %q at offset %d", res.peerFile, n, src[:n], s.off)
		}
		if wantErr == "" {
			// fault free: the whole file content is determined
			ref := pattern(s.fileLen, 'A')
			for len(ref) < s.off+s.reqLen {
				ref = append(ref, 0)
			}
			copy(ref[s.off:], src)
			if string(res.peerFile) != string(ref) {
				return fail("content", "served file is %q, reference %q", res.peerFile, ref)
			}
		}
	}
	if !s.noOffset && int(res.offAfter) != wantOff {
		return fail("offset", "File offset is %d afterwards, reference says %d", res.offAfter, wantOff)
	}
	return outcome, "", ""
}

func xferScenario(s xferSpec) explore.Scenario {
	return func() (func(), func(*vsched.Exec) explore.Verdict) {
		res := &xferResult{}
		var env *cliEnv
		body := func() { s.run(res, &env) }
		judge := func(e *vsched.Exec) explore.Verdict {
			if e.Deadlock {
				return explore.Verdict{Outcome: "DEADLOCK"}
			}
			if env.err != nil {
				return explore.Verdict{Outcome: "newclient-failed", Bad: "NewClientPipe failed: " + env.err.Error(), Key: "xfer-newclient"}
			}
			o, bad, key := s.judge(res, env)
			return explore.Verdict{Outcome: o, Bad: bad, Key: key, Sample: map[string]any{"spec": s.String(), "outcome": o}}
		}
		return body, judge
	}
}

func parseInts(s string) []int {
	var r []int
	for _, f := range strings.FieldsFunc(s, func(c rune) bool { return c == '+' || c == ' ' }) {
		if n, err := strconv.Atoi(f); err == nil {
			r = append(r, n)
		}
	}
	return r
}

func specFromArgs(c *reg.Ctx) xferSpec {
	return xferSpec{
		api: c.Arg("api", "ReadAt"), conc: c.Arg("conc", "1") == "1", useFstat: c.Arg("fstat", "0") == "1",
		P: c.ArgInt("P", 2), K: c.ArgInt("K", 2), fileLen: c.ArgInt("file", 6), reqLen: c.ArgInt("req", 6), off: c.ArgInt("off", 0),
		fail: parseInts(c.Arg("fail", "")), permute: c.Arg("permute", "1") == "1", cut: c.ArgInt("cut", -1), cutErr: c.Arg("cuterr", "0") == "1",
		failWrite: c.ArgInt("fw", 0), after: c.Arg("after", "0") == "1",
	}
}

// runMulti explores a list of scenarios inside one part and merges the results.
func runMulti(c *reg.Ctx, prop string, strategy string, bound int, specs []xferSpec, mk func(xferSpec) explore.Scenario) *reg.Result {
	total := reg.NewResult(c.Part)
	minDone := 1 << 30
	for i, s := range specs {
		if c.Expired() {
			total.Exhaustive = false
			break
		}
		r := explore.Run(explore.Config{Prop: prop, Strategy: strategy, Bound: bound, Ctx: c, Label: c.Part}, mk(s))
		total.Evaluations += r.Evaluations
		total.States += r.States
		total.Transitions += r.Transitions
		total.Distinct += r.Distinct
		for k, v := range r.Outcomes {
			total.Outcomes[fmt.Sprintf("s%d:%s", i, k)] += v
		}
		for _, sm := range r.Samples {
			total.Sample(sm)
		}
		for _, v := range r.Violations {
			total.Violate(v.Property, v.Key, v.Msg, map[string]any{"spec": s.String(), "schedule": v.Replay}, v.Trace)
		}
		if !r.Exhaustive {
			total.Exhaustive = false
		}
		if r.EngineError != "" {
			total.EngineError = r.EngineError
			break
		}
		if d, ok := r.Notes["db_completed"].(int); ok && d < minDone {
			minDone = d
		}
		for _, k := range []string{"sleep_blocked"} {
			a, _ := total.Notes[k].(int64)
			b, _ := r.Notes[k].(int64)
			total.Notes[k] = a + b
		}
	}
	total.Notes["scenarios"] = len(specs)
	total.Notes["strategy"] = strategy
	if strategy == "db" {
		if minDone == 1<<30 {
			minDone = -1
		}
		total.Notes["db_completed"] = minDone
		total.Notes["db_target"] = bound
	} else if total.Exhaustive {
		total.Bound = "por: all Mazurkiewicz traces of every scenario"
	} else {
		total.Bound = "por: not completed within the budget"
	}
	return total
}

// ---------------------------------------------------------------------------------------------
// C13 scenario families

func c13Specs(tier, group string) []xferSpec {
	var out []xferSpec
	off := 0
	add := func(api string, conc bool, m int, partial bool, K int, fail []int) {
		req := m * 2
		if partial {
			req--
		}
		s := xferSpec{api: api, conc: conc, P: 2, K: K, fileLen: req + 3 + off, reqLen: req, off: off, fail: fail, permute: true, cut: -1}
		switch api {
		case "WriteTo":
			s.fileLen = req + off // the transfer is the rest of the file
		case "WriteAt", "Write", "ReadFrom", "ReadFromC":
			s.fileLen = 0
		}
		out = append(out, s)
	}
	apis := []struct {
		api  string
		conc bool
	}{{"ReadAt", true}, {"ReadAt", false}, {"Read", true}, {"WriteTo", true}, {"WriteTo", false}, {"WriteAt", true}, {"WriteAt", false}, {"Write", true}, {"ReadFrom", true}, {"ReadFrom", false}, {"ReadFromC", true}}
	ms := []int{3}
	if tier == "thorough" {
		ms = []int{2, 3, 4}
	}
	for _, a := range apis {
		if group != "" && group != a.api {
			continue
		}
		for _, m := range ms {
			for _, partial := range []bool{false, true} {
				for i := 0; i < m; i++ {
					add(a.api, a.conc, m, partial, 2, []int{i})
				}
				// the same transfers started at a non-zero position (counts and offsets are relative to it)
				if m == 3 || tier == "thorough" {
					offs := []int{1}
					if tier == "thorough" {
						offs = []int{1, 5}
					}
					for _, off = range offs {
						for i := 0; i < m; i++ {
							if tier == "thorough" || i != 1 || partial {
								add(a.api, a.conc, m, partial, 2, []int{i})
							}
						}
					}
					off = 0
				}
				if tier == "thorough" || m == 3 {
					for i := 0; i < m; i++ {
						for j := i + 1; j < m; j++ {
							add(a.api, a.conc, m, partial, 3, []int{i, j})
						}
					}
				}
			}
		}
	}
	return out
}

// EOF inside the request together with a failing chunk (reads only).
func c13EOFSpecs() []xferSpec {
	var out []xferSpec
	// a reply shorter than asked for in the middle of the file (a server may do that; it is not the end of the file):
	// the sequential readers ask for the rest, which arrives or fails
	for _, api := range []string{"ReadAt", "WriteTo"} {
		for k := 0; k < 3; k++ {
			for _, fr := range []bool{false, true} {
				sp := xferSpec{api: api, conc: false, P: 2, K: 2, fileLen: 9, reqLen: 6, short: k + 1, failRest: fr, permute: true, cut: -1}
				if api == "WriteTo" {
					sp.fileLen = 6
				}
				out = append(out, sp)
			}
		}
	}
	// WriteTo with concurrent reads enabled on a file the server does not report as regular (mode word without type bits):
	// only regular files may be fetched by the chunk-per-worker path, where a short reply means end of file; anything else
	// goes through the sequential path, which asks for the rest
	for k := 0; k < 3; k++ {
		for _, fr := range []bool{false, true} {
			out = append(out, xferSpec{api: "WriteTo", conc: true, P: 2, K: 2, fileLen: 6, reqLen: 6, short: k + 1, failRest: fr, noType: true, permute: true, cut: -1})
		}
	}
	out = append(out, xferSpec{api: "WriteTo", conc: true, P: 2, K: 2, fileLen: 6, reqLen: 6, noType: true, fail: []int{1}, permute: true, cut: -1})
	// uploads whose source gives out (an error that is not io.EOF) after whole and partial chunks, from offset 0 and from a
	// non-zero offset, alone and together with a chunk the server refuses behind / in front of that point
	for _, a := range []struct {
		api  string
		conc bool
	}{{"ReadFrom", false}, {"ReadFrom", true}, {"ReadFromC", true}} {
		for _, off := range []int{0, 5} {
			for _, sf := range []int{2, 3, 4} {
				out = append(out, xferSpec{api: a.api, conc: a.conc, P: 2, K: 2, reqLen: 8, off: off, srcFail: sf, permute: true, cut: -1})
			}
			out = append(out, xferSpec{api: a.api, conc: a.conc, P: 2, K: 2, reqLen: 8, off: off, srcFail: 4, fail: []int{0}, permute: true, cut: -1},
				xferSpec{api: a.api, conc: a.conc, P: 2, K: 2, reqLen: 8, off: off, srcFail: 4, fail: []int{1}, permute: true, cut: -1})
		}
	}
	for _, conc := range []bool{true, false} {
		// request 8 bytes of a 5-byte file: chunks 0,1 full, chunk 2 short (1 byte), chunk 3 beyond EOF
		out = append(out, xferSpec{api: "ReadAt", conc: conc, P: 2, K: 3, fileLen: 5, reqLen: 8, permute: true, cut: -1})
		out = append(out, xferSpec{api: "ReadAt", conc: conc, P: 2, K: 3, fileLen: 5, reqLen: 8, fail: []int{1}, permute: true, cut: -1})
		out = append(out, xferSpec{api: "ReadAt", conc: conc, P: 2, K: 3, fileLen: 5, reqLen: 8, fail: []int{3}, permute: true, cut: -1})
		out = append(out, xferSpec{api: "Read", conc: conc, P: 2, K: 2, fileLen: 4, reqLen: 7, fail: []int{0}, permute: true, cut: -1})
	}
	return out
}

func init() {
	reg.Part("C13/faults", func(c *reg.Ctx) *reg.Result {
		specs := c13Specs(c.Tier, c.Arg("api", ""))
		if c.Arg("eof", "0") == "1" {
			specs = c13EOFSpecs()
		}
		return runMulti(c, "C13", c.Arg("strategy", "db"), c.ArgInt("bound", 2), specs, xferScenario)
	})
	reg.Part("xfer/one", func(c *reg.Ctx) *reg.Result {
		return explore.Run(explore.Config{Prop: c.Property, Strategy: c.Arg("strategy", "db"), Bound: c.ArgInt("bound", 2), Ctx: c}, xferScenario(specFromArgs(c)))
	})
	reg.Prop(&reg.Property{
		ID:    "C13",
		Level: "model_checking",
		Rule: "for every transfer API (ReadAt, Read, WriteTo, WriteAt, Write, ReadFrom, ReadFromWithConcurrency; sequential and concurrent variants), m chunks (last full or partial), every single failing chunk and every pair: " +
			"all schedules of client goroutines and peer reply orders with at most d deviations (db) or all Mazurkiewicz traces (por); distinct = distinct schedules; oracle = reference byte-slice model of which prefix must have moved",
		Assumptions: []string{"P=2, K in {2,3}, m<=4 chunks", "peer answers every request exactly once unless told to fail a chunk", "deviation bound as reported"},
		Jobs: func(tier string) []reg.Job {
			if tier == "thorough" {
				var js []reg.Job
				for _, a := range []string{"ReadAt", "Read", "WriteTo", "WriteAt", "Write", "ReadFrom", "ReadFromC"} {
					js = append(js, reg.Job{Part: "C13/faults", Build: "instr", Args: map[string]string{"api": a, "bound": "3"}, Shards: 16, BudgetS: 420, Label: a + " m=2..4 single+pair faults db3"})
				}
				js = append(js, reg.Job{Part: "C13/faults", Build: "instr", Args: map[string]string{"eof": "1", "bound": "3"}, Shards: 16, BudgetS: 300, Label: "EOF inside request + failing chunk db3"})
				js = withPolicies(tier, js, func(reg.Job) bool { return true })
				js = append(js, reg.Job{Part: "C13/faults", Build: "instr", Args: map[string]string{"api": "ReadAt", "strategy": "por"}, Shards: 16, BudgetS: 600, Label: "ReadAt por", Optional: true})
				return js
			}
			return withPolicies(tier, []reg.Job{
				{Part: "C13/faults", Build: "instr", Args: map[string]string{"bound": "2"}, Shards: 16, BudgetS: 100, Label: "all APIs m=3 single+pair faults db2"},
				{Part: "C13/faults", Build: "instr", Args: map[string]string{"eof": "1", "bound": "2"}, Shards: 16, BudgetS: 60, Label: "EOF inside request + failing chunk db2"},
			}, func(reg.Job) bool { return true })
		},
	})
}

var _ = sort.Strings
var _ = os.ErrClosed
