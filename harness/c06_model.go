//go:build verif

package sftp

// C06/C08 shared: logical packet model, independent reference encoder (written from
// draft-ietf-secsh-filexfer-02 and the OpenSSH PROTOCOL file, it calls none of the package's marshal
// helpers), canonical rendering of decoded fields, conversions to the two codecs' structs.

import (
	"encoding/binary"
	"fmt"
	"os"
	"strings"
	"syscall"
	"time"

	sshfx "github.com/pkg/sftp/internal/encoding/ssh/filexfer"
)

// ---- logical packets -------------------------------------------------------------------------

type c06attrs struct {
	flags                        uint32
	size                         uint64
	uid, gid, perm, atime, mtime uint32
	ext                          [][2]string
}

type c06name struct {
	name, long string
	attrs      c06attrs
	form       byte // how the wire codec is given the attributes: 'E' emptyFileStat, 'F','U','S','X','Y' kinds of os.FileInfo
}

// c06field kinds: 'u' uint32, 'q' uint64, 's' string, 'd' data (a string on the wire, []byte in the
// structs), 'a' ATTRS, 'n' name list (count + entries), 'e' extension pairs up to the end of the packet.
type c06field struct {
	k byte
	u uint64
	s string
	a c06attrs
	n []c06name
	e [][2]string
}

type c06lp struct {
	kind string
	typ  byte
	noID bool
	id   uint32
	f    []c06field
	form byte // for ATTRS responses: FileInfo form
}

func c06u(v uint32) c06field         { return c06field{k: 'u', u: uint64(v)} }
func c06q(v uint64) c06field         { return c06field{k: 'q', u: v} }
func c06s(v string) c06field         { return c06field{k: 's', s: v} }
func c06d(v string) c06field         { return c06field{k: 'd', s: v} }
func c06a(v c06attrs) c06field       { return c06field{k: 'a', a: v} }
func c06n(v []c06name) c06field      { return c06field{k: 'n', n: v} }
func c06e(v [][2]string) c06field    { return c06field{k: 'e', e: v} }
func (lp *c06lp) str(i int) string   { return lp.f[i].s }
func (lp *c06lp) u32(i int) uint32   { return uint32(lp.f[i].u) }
func (lp *c06lp) u64(i int) uint64   { return lp.f[i].u }
func (lp *c06lp) at(i int) *c06attrs { return &lp.f[i].a }

// ---- reference encoder -----------------------------------------------------------------------

// c06mark records where a length / count / flags / type field sits in a reference encoding (used
// by C08 to mutate exactly those fields).
type c06mark struct {
	Off  int
	Kind string // "frame", "type", "len", "count", "flags"
	Val  uint32
}

type c06enc struct {
	b     []byte
	marks []c06mark
}

func (e *c06enc) u8(v byte) { e.b = append(e.b, v) }
func (e *c06enc) u32(v uint32, kind string) {
	if kind != "" {
		e.marks = append(e.marks, c06mark{len(e.b), kind, v})
	}
	var t [4]byte
	binary.BigEndian.PutUint32(t[:], v)
	e.b = append(e.b, t[:]...)
}
func (e *c06enc) u64(v uint64) {
	var t [8]byte
	binary.BigEndian.PutUint64(t[:], v)
	e.b = append(e.b, t[:]...)
}
func (e *c06enc) str(s string) {
	e.u32(uint32(len(s)), "len")
	e.b = append(e.b, s...)
}

// draft-02 section 5: uint32 flags; uint64 size (SIZE 0x1); uint32 uid, gid (UIDGID 0x2); uint32
// permissions (0x4); uint32 atime, mtime (ACMODTIME 0x8); uint32 extended_count + pairs (0x80000000).
func (e *c06enc) attrs(a *c06attrs) {
	e.u32(a.flags, "flags")
	if a.flags&0x00000001 != 0 {
		e.u64(a.size)
	}
	if a.flags&0x00000002 != 0 {
		e.u32(a.uid, "")
		e.u32(a.gid, "")
	}
	if a.flags&0x00000004 != 0 {
		e.u32(a.perm, "")
	}
	if a.flags&0x00000008 != 0 {
		e.u32(a.atime, "")
		e.u32(a.mtime, "")
	}
	if a.flags&0x80000000 != 0 {
		e.u32(uint32(len(a.ext)), "count")
		for _, p := range a.ext {
			e.str(p[0])
			e.str(p[1])
		}
	}
}

// c06RefEncode lays the packet out as the draft says: uint32 length, byte type, [uint32 id], fields.
func c06RefEncode(lp *c06lp) *c06enc {
	e := &c06enc{}
	e.u32(0, "frame")
	e.marks = append(e.marks, c06mark{len(e.b), "type", uint32(lp.typ)})
	e.u8(lp.typ)
	if !lp.noID {
		e.u32(lp.id, "")
	}
	for i := range lp.f {
		f := &lp.f[i]
		switch f.k {
		case 'u':
			e.u32(uint32(f.u), "")
		case 'q':
			e.u64(f.u)
		case 's', 'd':
			e.str(f.s)
		case 'a':
			e.attrs(&f.a)
		case 'n':
			e.u32(uint32(len(f.n)), "count")
			for j := range f.n {
				e.str(f.n[j].name)
				e.str(f.n[j].long)
				e.attrs(&f.n[j].attrs)
			}
		case 'e':
			for _, p := range f.e {
				e.str(p[0])
				e.str(p[1])
			}
		}
	}
	binary.BigEndian.PutUint32(e.b[0:4], uint32(len(e.b)-4))
	e.marks[0].Val = uint32(len(e.b) - 4)
	return e
}

// ---- canonical rendering (only what the packet defines: attribute fields not covered by the flags
// are explicitly undefined in both codecs) ------------------------------------------------------

func c06short(s string) string {
	if len(s) > 24 {
		return fmt.Sprintf("%q..(%d)", s[:8], len(s))
	}
	return fmt.Sprintf("%q", s)
}

func (a *c06attrs) canon(sb *strings.Builder) {
	fmt.Fprintf(sb, "{f=%#x", a.flags)
	if a.flags&1 != 0 {
		fmt.Fprintf(sb, " size=%d", a.size)
	}
	if a.flags&2 != 0 {
		fmt.Fprintf(sb, " uid=%d gid=%d", a.uid, a.gid)
	}
	if a.flags&4 != 0 {
		fmt.Fprintf(sb, " perm=%o", a.perm)
	}
	if a.flags&8 != 0 {
		fmt.Fprintf(sb, " atime=%d mtime=%d", a.atime, a.mtime)
	}
	if a.flags&0x80000000 != 0 {
		fmt.Fprintf(sb, " ext=%d:%q", len(a.ext), a.ext)
	}
	sb.WriteByte('}')
}

func (lp *c06lp) canon() string {
	var sb strings.Builder
	fmt.Fprintf(&sb, "t=%d", lp.typ)
	if !lp.noID {
		fmt.Fprintf(&sb, " id=%d", lp.id)
	}
	for i := range lp.f {
		f := &lp.f[i]
		switch f.k {
		case 'u':
			fmt.Fprintf(&sb, " u%d", uint32(f.u))
		case 'q':
			fmt.Fprintf(&sb, " q%d", f.u)
		case 's':
			fmt.Fprintf(&sb, " s%q", f.s)
		case 'd':
			fmt.Fprintf(&sb, " d%q", f.s)
		case 'a':
			sb.WriteByte(' ')
			f.a.canon(&sb)
		case 'n':
			fmt.Fprintf(&sb, " n%d[", len(f.n))
			for j := range f.n {
				fmt.Fprintf(&sb, "(%q %q ", f.n[j].name, f.n[j].long)
				f.n[j].attrs.canon(&sb)
				sb.WriteByte(')')
			}
			sb.WriteByte(']')
		case 'e':
			fmt.Fprintf(&sb, " e%d:%q", len(f.e), f.e)
		}
	}
	return sb.String()
}

// describe is a short human-readable rendering for samples and replays.
func (lp *c06lp) describe() string {
	var sb strings.Builder
	fmt.Fprintf(&sb, "%s id=%#x", lp.kind, lp.id)
	for i := range lp.f {
		f := &lp.f[i]
		switch f.k {
		case 'u':
			fmt.Fprintf(&sb, " %#x", uint32(f.u))
		case 'q':
			fmt.Fprintf(&sb, " %#x", f.u)
		case 's', 'd':
			sb.WriteString(" " + c06short(f.s))
		case 'a':
			fmt.Fprintf(&sb, " attrs(flags=%#x,ext=%d)", f.a.flags, len(f.a.ext))
		case 'n':
			fmt.Fprintf(&sb, " names[")
			for j := range f.n {
				fmt.Fprintf(&sb, "%s/%c ", c06short(f.n[j].name), f.n[j].form)
			}
			sb.WriteString("]")
		case 'e':
			fmt.Fprintf(&sb, " ext-pairs=%d", len(f.e))
		}
	}
	return sb.String()
}

// ---- conversions: wire codec -----------------------------------------------------------------

func (a *c06attrs) fileStat() *FileStat {
	fs := &FileStat{Size: a.size, Mode: a.perm, Mtime: a.mtime, Atime: a.atime, UID: a.uid, GID: a.gid}
	for _, p := range a.ext {
		fs.Extended = append(fs.Extended, StatExtended{ExtType: p[0], ExtData: p[1]})
	}
	return fs
}

func c06attrsFromFileStat(flags uint32, fs *FileStat) c06attrs {
	a := c06attrs{flags: flags}
	if fs == nil {
		return a
	}
	a.size, a.perm, a.mtime, a.atime, a.uid, a.gid = fs.Size, fs.Mode, fs.Mtime, fs.Atime, fs.UID, fs.GID
	for _, x := range fs.Extended {
		a.ext = append(a.ext, [2]string{x.ExtType, x.ExtData})
	}
	return a
}

// os.FileInfo flavours through which the wire codec is given attributes in NAME and ATTRS responses.
type c06fi struct {
	name  string
	size  int64
	mode  os.FileMode
	mtime int64
	sys   any
}

func (f *c06fi) Name() string       { return f.name }
func (f *c06fi) Size() int64        { return f.size }
func (f *c06fi) Mode() os.FileMode  { return f.mode }
func (f *c06fi) ModTime() time.Time { return time.Unix(f.mtime, 0) }
func (f *c06fi) IsDir() bool        { return f.mode.IsDir() }
func (f *c06fi) Sys() any           { return f.sys }

type c06fiU struct {
	c06fi
	uid, gid uint32
}

func (f *c06fiU) Uid() uint32 { return f.uid }
func (f *c06fiU) Gid() uint32 { return f.gid }

type c06fiX struct {
	c06fi
	ext []StatExtended
}

func (f *c06fiX) Extended() []StatExtended { return f.ext }

type c06fiUX struct {
	c06fiU
	ext []StatExtended
}

func (f *c06fiUX) Extended() []StatExtended { return f.ext }

// POSIX file type bits (S_IFREG, S_IFDIR, S_IFLNK), written out here rather than taken from the package.
// (the POSIX type code and the three special bits of the draft's permissions word, from a table of its own)
func c06posixMode(m os.FileMode) uint32 {
	p := uint32(m & os.ModePerm)
	if m&os.ModeSetuid != 0 {
		p |= 0o4000
	}
	if m&os.ModeSetgid != 0 {
		p |= 0o2000
	}
	if m&os.ModeSticky != 0 {
		p |= 0o1000
	}
	switch m & os.ModeType {
	case os.ModeDir:
		return p | 0o040000
	case os.ModeSymlink:
		return p | 0o120000
	case os.ModeNamedPipe:
		return p | 0o010000
	case os.ModeSocket:
		return p | 0o140000
	case os.ModeDevice | os.ModeCharDevice:
		return p | 0o020000
	case os.ModeDevice:
		return p | 0o060000
	default:
		return p | 0o100000
	}
}

// c06osMode is the inverse for the words c06posixMode produces.
func c06osMode(perm uint32) os.FileMode {
	m := os.FileMode(perm & 0o777)
	if perm&0o4000 != 0 {
		m |= os.ModeSetuid
	}
	if perm&0o2000 != 0 {
		m |= os.ModeSetgid
	}
	if perm&0o1000 != 0 {
		m |= os.ModeSticky
	}
	switch perm &^ 0o7777 {
	case 0o040000:
		m |= os.ModeDir
	case 0o120000:
		m |= os.ModeSymlink
	case 0o010000:
		m |= os.ModeNamedPipe
	case 0o140000:
		m |= os.ModeSocket
	case 0o020000:
		m |= os.ModeDevice | os.ModeCharDevice
	case 0o060000:
		m |= os.ModeDevice
	}
	return m
}

// c06fileInfo builds the FileInfo flavour `form` and the attributes the draft expects for it:
// size, permissions and times always; uid/gid when the FileInfo can say; extended when non-empty.
func c06fileInfo(form byte, name string, size int64, mode os.FileMode, mtime int64, uid, gid uint32, ext [][2]string) (os.FileInfo, c06attrs) {
	base := c06fi{name: name, size: size, mode: mode, mtime: mtime}
	a := c06attrs{flags: 0x1 | 0x4 | 0x8, size: uint64(size), perm: c06posixMode(mode), atime: uint32(mtime), mtime: uint32(mtime)}
	var sx []StatExtended
	for _, p := range ext {
		sx = append(sx, StatExtended{ExtType: p[0], ExtData: p[1]})
	}
	switch form {
	case 'F':
		return &base, a
	case 'S':
		base.sys = &syscall.Stat_t{Uid: uid, Gid: gid}
		a.flags |= 0x2
		a.uid, a.gid = uid, gid
		return &base, a
	case 'U':
		a.flags |= 0x2
		a.uid, a.gid = uid, gid
		return &c06fiU{base, uid, gid}, a
	case 'X':
		if len(ext) > 0 {
			a.flags |= 0x80000000
			a.ext = ext
		}
		return &c06fiX{base, sx}, a
	case 'Y':
		a.flags |= 0x2
		a.uid, a.gid = uid, gid
		if len(ext) > 0 {
			a.flags |= 0x80000000
			a.ext = ext
		}
		return &c06fiUX{c06fiU{base, uid, gid}, sx}, a
	}
	panic("c06fileInfo: form")
}

// ---- conversions: filexfer codec ---------------------------------------------------------------

func (a *c06attrs) fx() sshfx.Attributes {
	x := sshfx.Attributes{Flags: a.flags, Size: a.size, UID: a.uid, GID: a.gid, Permissions: sshfx.FileMode(a.perm), ATime: a.atime, MTime: a.mtime}
	for _, p := range a.ext {
		x.ExtendedAttributes = append(x.ExtendedAttributes, sshfx.ExtendedAttribute{Type: p[0], Data: p[1]})
	}
	return x
}

func c06attrsFromFx(x *sshfx.Attributes) c06attrs {
	a := c06attrs{flags: x.Flags, size: x.Size, uid: x.UID, gid: x.GID, perm: uint32(x.Permissions), atime: x.ATime, mtime: x.MTime}
	for _, e := range x.ExtendedAttributes {
		a.ext = append(a.ext, [2]string{e.Type, e.Data})
	}
	return a
}
