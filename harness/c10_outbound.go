//go:build verif

package sftp

// C10, second half: handle-based requests (request kind x handle kind table, Fstat/Fsetstat
// synthesis) and the outbound direction (what a handler returns reaches the wire and a real
// Client unchanged in kind).

import (
	"encoding/hex"
	"errors"
	"fmt"
	"io"
	"os"
	"reflect"
	"strings"
	"syscall"

	"verif/reg"
)

// ---------------------------------------------------------------------------------------------
// handle table

type c10HandleKind struct {
	Name   string
	Pflags uint32 // OPEN flags (0 with Dir)
	Dir    bool
	Caps   c10Caps
	Obj    string // kind label of the object handed out
}

var c10HandleKinds = []c10HandleKind{
	{"Get", 0x1, false, c10Caps{}, "Get"},
	{"Put", 0x2 | 0x8, false, c10Caps{}, "Put"},
	{"PutRW", 0x1 | 0x2, false, c10Caps{}, "Put"}, // read+write without OpenFileWriter: a plain writer
	{"Open", 0x1 | 0x2, false, c10Caps{OpenFile: true}, "Open"},
	{"List", 0, true, c10Caps{}, "List"},
}

type c10HReq struct {
	Name   string
	Off    uint64
	Len    uint32
	Data   string
	Aflags uint32
}

func c10HandleReqs() []c10HReq {
	var out []c10HReq
	for _, off := range []uint64{0, 1, 1 << 32, 1<<63 - 1} {
		for _, l := range []uint32{1, 5, 32768} {
			out = append(out, c10HReq{Name: "READ", Off: off, Len: l})
		}
		for _, d := range []string{"", "x", "hello\x00\xffw"} {
			out = append(out, c10HReq{Name: "WRITE", Off: off, Data: d})
		}
	}
	out = append(out, c10HReq{Name: "READDIR"}, c10HReq{Name: "FSTAT"}, c10HReq{Name: "CLOSE"})
	for _, af := range c10AttrSubsets() {
		out = append(out, c10HReq{Name: "FSETSTAT", Aflags: af})
	}
	return out
}

// c10RunHandle opens a fresh handle of the kind on path p, sends the request and judges the calls.
func c10RunHandle(x *c10Sess, hk c10HandleKind, p string, r c10HReq, bogus bool, pre string) (problems []c10Problem, outcome string, err error) {
	bad := func(aspect, format string, a ...any) {
		problems = append(problems, c10Problem{aspect, fmt.Sprintf(format, a...)})
	}
	var f frame
	if hk.Dir {
		f, _, err = x.do(sshFxpOpendir, p)
	} else {
		f, _, err = x.do(sshFxpOpen, p, hk.Pflags, uint32(0))
	}
	if err != nil {
		return nil, "", err
	}
	h, ok := c10ParseHandle(f)
	if !ok {
		return nil, "", fmt.Errorf("open of a %s handle answered %v", hk.Name, f)
	}
	use := h
	if bogus {
		use = h + "x"
	}
	cp := c10Clean(x.base, p)
	var calls []c10Call
	// an attribute request on the handle first: what it does must not change how the handle serves what follows
	switch pre {
	case "FSTAT":
		_, _, err = x.do(sshFxpFstat, h)
	case "FSETSTAT":
		_, _, err = x.do(sshFxpFsetstat, h, uint32(sshFileXferAttrPermissions), c10AttrBytes(sshFileXferAttrPermissions))
	}
	if err != nil {
		return nil, "", err
	}
	switch r.Name {
	case "READ":
		f, calls, err = x.do(sshFxpRead, use, r.Off, r.Len)
	case "WRITE":
		f, calls, err = x.do(sshFxpWrite, use, r.Off, r.Data)
	case "READDIR":
		f, calls, err = x.do(sshFxpReaddir, use)
	case "FSTAT":
		f, calls, err = x.do(sshFxpFstat, use)
	case "FSETSTAT":
		f, calls, err = x.do(sshFxpFsetstat, use, r.Aflags, c10AttrBytes(r.Aflags))
	case "CLOSE":
		f, calls, err = x.do(sshFxpClose, use)
	}
	if err != nil {
		return nil, "", err
	}
	var ss []string
	for _, c := range calls {
		ss = append(ss, c.String())
	}
	matching := !bogus
	switch r.Name {
	case "READ":
		matching = matching && (hk.Obj == "Get" || hk.Obj == "Open")
	case "WRITE":
		matching = matching && (hk.Obj == "Put" || hk.Obj == "Open")
	case "READDIR":
		matching = matching && hk.Obj == "List"
	}
	outcome = fmt.Sprintf("%s on %s handle", r.Name, hk.Name)
	if bogus {
		outcome = r.Name + " on an unknown handle"
	}
	switch {
	case !matching:
		outcome += ": no handler"
		if len(calls) != 0 {
			bad("mismatch", "%s (off=%d len=%d data=%q) on %s invoked %v; no handler method matches this request, none may be invoked", r.Name, r.Off, r.Len, r.Data, strings.TrimPrefix(outcome, r.Name+" on "), ss)
		}
		if st, ok := c10ParseStatus(f); !ok || st.Code == sshFxOk {
			bad("mismatch-status", "%s that matches no handler was answered %v, want a failure status", r.Name, f)
		}
	case r.Name == "READ":
		wl := int(r.Len)
		if len(calls) != 1 || calls[0].Site != "ReadAt" || calls[0].Kind != hk.Obj || calls[0].Off != int64(r.Off) || calls[0].Len != wl {
			bad("args", "READ off=%d len=%d on %s handle invoked %v, want exactly ReadAt[%s](len=%d off=%d)", r.Off, r.Len, hk.Name, ss, hk.Obj, wl, int64(r.Off))
		}
	case r.Name == "WRITE":
		if len(calls) != 1 || calls[0].Site != "WriteAt" || calls[0].Kind != hk.Obj || calls[0].Off != int64(r.Off) || calls[0].Data != r.Data {
			bad("args", "WRITE off=%d data=%q on %s handle invoked %v, want exactly one WriteAt with these values", r.Off, r.Data, hk.Name, ss)
		}
		if st, ok := c10ParseStatus(f); !ok || st.Code != sshFxOk {
			bad("response", "WRITE answered %v, want STATUS OK", f)
		}
	case r.Name == "READDIR":
		if len(calls) != 1 || calls[0].Site != "ListAt" || calls[0].Off != 0 {
			bad("args", "first READDIR invoked %v, want exactly one ListAt at offset 0", ss)
		}
	case r.Name == "FSTAT":
		w := c10Want{n: 1, site: "Filelist", method: "Stat", fp: cp, resp: sshFxpAttrs, respCode: -1}
		problems = append(problems, c10Judge(w, calls, f)...)
		n := 0
		for _, c := range calls {
			if c.Site == "ListAt" {
				n++
			}
		}
		if n != 1 {
			bad("args", "FSTAT invoked %v, want one Filelist and one ListAt", ss)
		}
	case r.Name == "FSETSTAT":
		w := c10Want{n: 1, site: "Filecmd", method: "Setstat", fp: cp, attrKind: 1, flags: r.Aflags, aflags: r.Aflags, attrs: c10AttrBytes(r.Aflags), respCode: sshFxOk}
		problems = append(problems, c10Judge(w, calls, f)...)
	case r.Name == "CLOSE":
		site := "Close"
		if hk.Dir {
			site = "ListerClose"
		}
		if len(calls) != 1 || calls[0].Site != site {
			bad("args", "CLOSE of a %s handle invoked %v, want exactly one %s", hk.Name, ss, site)
		}
		if st, ok := c10ParseStatus(f); !ok || st.Code != sshFxOk {
			bad("response", "CLOSE answered %v, want STATUS OK", f)
		}
	}
	if !(r.Name == "CLOSE" && !bogus) {
		if _, _, e := x.do(sshFxpClose, h); e != nil {
			return problems, outcome, e
		}
	}
	return problems, outcome, nil
}

// ---------------------------------------------------------------------------------------------
// outbound: error corpus

type c10Err struct {
	Name  string
	Err   error
	Class string // ok | not-exist | permission | eof | other | code
	Code  uint32 // expected STATUS code
	Key   string // wrapper{inner} for the violation key
}

func c10ErrCorpus() []c10Err {
	out := []c10Err{{Name: "nil", Err: nil, Class: "ok", Code: sshFxOk, Key: "nil"}}
	type base struct {
		name  string
		err   error
		class string
		code  uint32
	}
	bases := []base{
		{"io.EOF", io.EOF, "eof", sshFxEOF},
		{"os.ErrNotExist", os.ErrNotExist, "not-exist", sshFxNoSuchFile},
		{"os.ErrPermission", os.ErrPermission, "permission", sshFxPermissionDenied},
		{"ENOENT", syscall.ENOENT, "not-exist", sshFxNoSuchFile},
		{"EACCES", syscall.EACCES, "permission", sshFxPermissionDenied},
		{"EPERM", syscall.EPERM, "permission", sshFxPermissionDenied},
		{"ENOTDIR", syscall.ENOTDIR, "other", sshFxFailure},
	}
	for _, b := range bases {
		out = append(out, c10Err{Name: b.name, Err: b.err, Class: b.class, Code: b.code, Key: "bare{" + b.name + "}"})
	}
	for _, b := range bases {
		out = append(out,
			c10Err{Name: "PathError{" + b.name + "}", Err: &os.PathError{Op: "opx", Path: "/some/path", Err: b.err}, Class: b.class, Code: b.code, Key: "PathError{" + b.name + "}"},
			c10Err{Name: "LinkError{" + b.name + "}", Err: &os.LinkError{Op: "lnx", Old: "/old", New: "/new", Err: b.err}, Class: b.class, Code: b.code, Key: "LinkError{" + b.name + "}"},
			c10Err{Name: "SyscallError{" + b.name + "}", Err: &os.SyscallError{Syscall: "sysx", Err: b.err}, Class: b.class, Code: b.code, Key: "SyscallError{" + b.name + "}"},
		)
	}
	for _, e := range []fxerr{ErrSSHFxOk, ErrSSHFxEOF, ErrSSHFxNoSuchFile, ErrSSHFxPermissionDenied, ErrSSHFxFailure, ErrSSHFxBadMessage, ErrSSHFxNoConnection, ErrSSHFxConnectionLost, ErrSSHFxOpUnsupported} {
		out = append(out, c10Err{Name: fmt.Sprintf("ErrSSHFx(%d)", uint32(e)), Err: e, Class: "code", Code: uint32(e), Key: fmt.Sprintf("fxerr{%d}", uint32(e))})
	}
	out = append(out, c10Err{Name: "errors.New", Err: errors.New("arbitrary text 7f3a"), Class: "other", Code: sshFxFailure, Key: "errors.New"})
	return out
}

// c10Site is one place where a handler (or an object it handed out) returns an error.
type c10Site struct {
	Name string // key of c10Rec.fail
	Via  string // how it is reached
	Caps c10Caps
	// raw performs the request(s) on the wire and returns the response to judge and the success type.
	raw func(x *c10Sess) (frame, byte, error)
	// cli performs the operation through a real Client.
	cli func(c *Client) error
	// eofIsSuccess: an EOF from this site is the normal end of a listing for Client.ReadDir
	eofIsSuccess bool
	// skipEOF: EOF-class errors have a documented different meaning at this site
	skipEOF bool
	// okOnlyWire: no client operation exposes this site's error
	noClient bool
}

func c10OpenThen(x *c10Sess, pflags uint32, dir bool, then func(h string) (frame, []c10Call, error)) (frame, error) {
	var f frame
	var err error
	if dir {
		f, _, err = x.do(sshFxpOpendir, "/d")
	} else {
		f, _, err = x.do(sshFxpOpen, "/f", pflags, uint32(0))
	}
	if err != nil {
		return f, err
	}
	h, ok := c10ParseHandle(f)
	if !ok {
		return f, fmt.Errorf("open answered %v", f)
	}
	f, _, err = then(h)
	return f, err
}

func c10Sites() []c10Site {
	simple := func(name, via string, caps c10Caps, okType byte, typ byte, fields []any, cli func(c *Client) error) c10Site {
		return c10Site{Name: name, Via: via, Caps: caps,
			raw: func(x *c10Sess) (frame, byte, error) {
				f, _, err := x.do(typ, fields...)
				if h, ok := c10ParseHandle(f); ok && err == nil {
					x.do(sshFxpClose, h)
				}
				return f, okType, err
			}, cli: cli}
	}
	ext := func(name string, a ...string) []any {
		out := []any{name}
		for _, s := range a {
			out = append(out, s)
		}
		return out
	}
	closeF := func(f *File, err error) error {
		if err == nil {
			f.Close()
		}
		return err
	}
	sites := []c10Site{
		simple("Fileread", "OPEN read", c10Caps{}, sshFxpHandle, sshFxpOpen, []any{"/f", uint32(1), uint32(0)}, func(c *Client) error { return closeF(c.Open("/f")) }),
		simple("Filewrite", "OPEN write|creat", c10Caps{}, sshFxpHandle, sshFxpOpen, []any{"/f", uint32(0xa), uint32(0)}, func(c *Client) error { return closeF(c.OpenFile("/f", os.O_WRONLY|os.O_CREATE)) }),
		simple("OpenFile", "OPEN read|write", c10Caps{OpenFile: true}, sshFxpHandle, sshFxpOpen, []any{"/f", uint32(3), uint32(0)}, func(c *Client) error { return closeF(c.OpenFile("/f", os.O_RDWR)) }),
		simple("Filecmd", "SETSTAT", c10Caps{}, sshFxpStatus, sshFxpSetstat, []any{"/f", uint32(4), uint32(0o644)}, func(c *Client) error { return c.Chmod("/f", 0o644) }),
		simple("Filecmd", "RENAME", c10Caps{}, sshFxpStatus, sshFxpRename, []any{"/f", "/g"}, func(c *Client) error { return c.Rename("/f", "/g") }),
		simple("Filecmd", "RMDIR", c10Caps{}, sshFxpStatus, sshFxpRmdir, []any{"/d"}, func(c *Client) error { return c.RemoveDirectory("/d") }),
		simple("Filecmd", "MKDIR", c10Caps{}, sshFxpStatus, sshFxpMkdir, []any{"/d", uint32(0)}, func(c *Client) error { return c.Mkdir("/d") }),
		simple("Filecmd", "hardlink", c10Caps{}, sshFxpStatus, sshFxpExtended, ext("hardlink@openssh.com", "/f", "/g"), func(c *Client) error { return c.Link("/f", "/g") }),
		simple("Filecmd", "SYMLINK", c10Caps{}, sshFxpStatus, sshFxpSymlink, []any{"t", "/l"}, func(c *Client) error { return c.Symlink("t", "/l") }),
		simple("Filecmd", "REMOVE", c10Caps{}, sshFxpStatus, sshFxpRemove, []any{"/f"}, func(c *Client) error { return c.removeFile("/f") }),
		simple("Filecmd", "posix-rename (fallback to Rename)", c10Caps{}, sshFxpStatus, sshFxpExtended, ext("posix-rename@openssh.com", "/f", "/g"), func(c *Client) error { return c.PosixRename("/f", "/g") }),
		simple("PosixRename", "posix-rename", c10Caps{Posix: true}, sshFxpStatus, sshFxpExtended, ext("posix-rename@openssh.com", "/f", "/g"), func(c *Client) error { return c.PosixRename("/f", "/g") }),
		simple("StatVFS", "statvfs", c10Caps{StatVFS: true}, sshFxpExtendedReply, sshFxpExtended, ext("statvfs@openssh.com", "/f"), func(c *Client) error { _, err := c.StatVFS("/f"); return err }),
		simple("Filelist:List", "OPENDIR", c10Caps{}, sshFxpHandle, sshFxpOpendir, []any{"/d"}, func(c *Client) error { _, err := c.ReadDir("/d"); return err }),
		simple("Filelist:Stat", "STAT", c10Caps{}, sshFxpAttrs, sshFxpStat, []any{"/f"}, func(c *Client) error { _, err := c.Stat("/f"); return err }),
		simple("Filelist:Stat", "LSTAT (fallback to Stat)", c10Caps{}, sshFxpAttrs, sshFxpLstat, []any{"/f"}, func(c *Client) error { _, err := c.Lstat("/f"); return err }),
		simple("Filelist:Readlink", "READLINK (fallback to Filelist)", c10Caps{}, sshFxpName, sshFxpReadlink, []any{"/l"}, func(c *Client) error { _, err := c.ReadLink("/l"); return err }),
		simple("Lstat", "LSTAT", c10Caps{Lstat: true}, sshFxpAttrs, sshFxpLstat, []any{"/f"}, func(c *Client) error { _, err := c.Lstat("/f"); return err }),
		simple("RealPath", "REALPATH", c10Caps{RealPath: 1}, sshFxpName, sshFxpRealpath, []any{"x"}, func(c *Client) error { _, err := c.RealPath("x"); return err }),
		simple("Readlink", "READLINK", c10Caps{Readlink: true}, sshFxpName, sshFxpReadlink, []any{"/l"}, func(c *Client) error { _, err := c.ReadLink("/l"); return err }),
		simple("ListAt:Stat", "STAT (ListAt of the stat lister)", c10Caps{}, sshFxpAttrs, sshFxpStat, []any{"/f"}, func(c *Client) error { _, err := c.Stat("/f"); return err }),
	}
	sites[len(sites)-1].skipEOF = true // ListAt at end of a one-entry stat listing: (0, EOF) means "no such entry" by design
	sites = append(sites,
		c10Site{Name: "Filelist:Stat", Via: "FSTAT", raw: func(x *c10Sess) (frame, byte, error) {
			f, err := c10OpenThen(x, 1, false, func(h string) (frame, []c10Call, error) {
				f, c, e := x.do(sshFxpFstat, h)
				x.do(sshFxpClose, h)
				return f, c, e
			})
			return f, sshFxpAttrs, err
		}, cli: func(c *Client) error {
			f, err := c.Open("/f")
			if err != nil {
				return fmt.Errorf("setup: %w", errC10Setup)
			}
			defer f.Close()
			_, err = f.Stat()
			return err
		}},
		c10Site{Name: "Filecmd", Via: "FSETSTAT", raw: func(x *c10Sess) (frame, byte, error) {
			f, err := c10OpenThen(x, 1, false, func(h string) (frame, []c10Call, error) {
				f, c, e := x.do(sshFxpFsetstat, h, uint32(4), uint32(0o600))
				x.do(sshFxpClose, h)
				return f, c, e
			})
			return f, sshFxpStatus, err
		}, cli: func(c *Client) error {
			f, err := c.Open("/f")
			if err != nil {
				return errC10Setup
			}
			defer f.Close()
			return f.Chmod(0o600)
		}},
		c10Site{Name: "ReadAt", Via: "READ", raw: func(x *c10Sess) (frame, byte, error) {
			f, err := c10OpenThen(x, 1, false, func(h string) (frame, []c10Call, error) {
				f, c, e := x.do(sshFxpRead, h, uint64(0), uint32(4))
				x.do(sshFxpClose, h)
				return f, c, e
			})
			return f, sshFxpData, err
		}, cli: func(c *Client) error {
			f, err := c.Open("/f")
			if err != nil {
				return errC10Setup
			}
			defer f.Close()
			_, err = f.ReadAt(make([]byte, 4), 0)
			return err
		}},
		c10Site{Name: "ReadAt", Via: "READ on a read/write object", Caps: c10Caps{OpenFile: true}, raw: func(x *c10Sess) (frame, byte, error) {
			f, err := c10OpenThen(x, 3, false, func(h string) (frame, []c10Call, error) {
				f, c, e := x.do(sshFxpRead, h, uint64(0), uint32(4))
				x.do(sshFxpClose, h)
				return f, c, e
			})
			return f, sshFxpData, err
		}, cli: func(c *Client) error {
			f, err := c.OpenFile("/f", os.O_RDWR)
			if err != nil {
				return errC10Setup
			}
			defer f.Close()
			_, err = f.ReadAt(make([]byte, 4), 0)
			return err
		}},
		c10Site{Name: "WriteAt", Via: "WRITE", raw: func(x *c10Sess) (frame, byte, error) {
			f, err := c10OpenThen(x, 0xa, false, func(h string) (frame, []c10Call, error) {
				f, c, e := x.do(sshFxpWrite, h, uint64(0), "wxyz")
				x.do(sshFxpClose, h)
				return f, c, e
			})
			return f, sshFxpStatus, err
		}, cli: func(c *Client) error {
			f, err := c.OpenFile("/f", os.O_WRONLY|os.O_CREATE)
			if err != nil {
				return errC10Setup
			}
			defer f.Close()
			_, err = f.WriteAt([]byte("wxyz"), 0)
			return err
		}},
		c10Site{Name: "WriteAt", Via: "WRITE on a read/write object", Caps: c10Caps{OpenFile: true}, raw: func(x *c10Sess) (frame, byte, error) {
			f, err := c10OpenThen(x, 3, false, func(h string) (frame, []c10Call, error) {
				f, c, e := x.do(sshFxpWrite, h, uint64(0), "wxyz")
				x.do(sshFxpClose, h)
				return f, c, e
			})
			return f, sshFxpStatus, err
		}, cli: func(c *Client) error {
			f, err := c.OpenFile("/f", os.O_RDWR)
			if err != nil {
				return errC10Setup
			}
			defer f.Close()
			_, err = f.WriteAt([]byte("wxyz"), 0)
			return err
		}},
		c10Site{Name: "Close", Via: "CLOSE of a reader", raw: func(x *c10Sess) (frame, byte, error) {
			f, err := c10OpenThen(x, 1, false, func(h string) (frame, []c10Call, error) { return x.do(sshFxpClose, h) })
			return f, sshFxpStatus, err
		}, cli: func(c *Client) error {
			f, err := c.Open("/f")
			if err != nil {
				return errC10Setup
			}
			return f.Close()
		}},
		c10Site{Name: "Close", Via: "CLOSE of a writer", raw: func(x *c10Sess) (frame, byte, error) {
			f, err := c10OpenThen(x, 0xa, false, func(h string) (frame, []c10Call, error) { return x.do(sshFxpClose, h) })
			return f, sshFxpStatus, err
		}, cli: func(c *Client) error {
			f, err := c.OpenFile("/f", os.O_WRONLY|os.O_CREATE)
			if err != nil {
				return errC10Setup
			}
			return f.Close()
		}},
		c10Site{Name: "ListAt:List", Via: "READDIR", eofIsSuccess: true, raw: func(x *c10Sess) (frame, byte, error) {
			f, err := c10OpenThen(x, 0, true, func(h string) (frame, []c10Call, error) {
				f, c, e := x.do(sshFxpReaddir, h)
				x.do(sshFxpClose, h)
				return f, c, e
			})
			return f, sshFxpName, err
		}, cli: func(c *Client) error { _, err := c.ReadDir("/d"); return err }},
		c10Site{Name: "ListerClose", Via: "CLOSE of a directory handle", noClient: true, raw: func(x *c10Sess) (frame, byte, error) {
			f, err := c10OpenThen(x, 0, true, func(h string) (frame, []c10Call, error) { return x.do(sshFxpClose, h) })
			return f, sshFxpStatus, err
		}},
	)
	return sites
}

var errC10Setup = errors.New("c10 harness: setup step failed")

// c10OutKey: one prefix per expected class; the (wrapper, inner) pair is the suffix.
func c10OutKey(e c10Err) string {
	switch e.Class {
	case "permission":
		return "c10-out-perm:" + e.Key
	case "not-exist":
		return "c10-out-notexist:" + e.Key
	case "eof":
		return "c10-out-eof:" + e.Key
	case "code":
		return "c10-out-code:" + e.Key
	case "ok":
		return "c10-out-ok"
	}
	return "c10-out-other:" + e.Key
}

// c10ClientClass is the kind of error a caller of the Client can test for.
func c10ClientClass(err error) string {
	switch {
	case err == nil:
		return "ok"
	case errors.Is(err, os.ErrNotExist):
		return "not-exist"
	case errors.Is(err, os.ErrPermission):
		return "permission"
	case errors.Is(err, io.EOF):
		return "eof"
	}
	return "other"
}

var c10ErrSector = errors.New("backend: unreadable sector")
var c10ErrBrokeOff = fmt.Errorf("object store: %w", io.ErrUnexpectedEOF)

// shapes for data / attributes / strings returned by handlers
var c10InfoShapes = []c10Info{
	{name: "f", size: 0, mode: 0o644, mtime: 0, uid: 0, gid: 0},
	{name: "f", size: 1, mode: 0o600, mtime: 1000000000, uid: 1000, gid: 100},
	{name: "d", size: 4096, mode: os.ModeDir | 0o755, mtime: 1700000000, uid: 4294967295, gid: 4294967294},
	{name: "l", size: 1 << 32, mode: os.ModeSymlink | 0o777, mtime: 4294967295, uid: 7, gid: 8},
	{name: "s", size: 1<<63 - 1, mode: os.ModeSetuid | 0o4755&0o777, mtime: 86400, uid: 65534, gid: 65534},
	// entries that wrap a real os.FileInfo (Sys() is a *syscall.Stat_t naming another owner) or carry opaque
	// system data, and state the owner to present through Uid()/Gid()
	{name: "w", size: 9, mode: 0o640, mtime: 1234567890, uid: 424242, gid: 434343, sys: &syscall.Stat_t{Uid: 11, Gid: 12, Nlink: 2}},
	{name: "o", size: 10, mode: os.ModeDir | 0o700, mtime: 1234567891, uid: 5, gid: 6, sys: "opaque"},
}

var c10StringShapes = []string{"", "rel/../x", "/abs//y/", "\xff\x00z", "/a b/\xc3\xa9", strings.Repeat("p/", 200)}

func c10WantWireMode(m os.FileMode) uint32 {
	// independent of fromFileMode: POSIX S_IF* numbers
	w := uint32(m.Perm())
	switch {
	case m&os.ModeDir != 0:
		w |= 0o040000
	case m&os.ModeSymlink != 0:
		w |= 0o120000
	default:
		w |= 0o100000
	}
	if m&os.ModeSetuid != 0 {
		w |= 0o4000
	}
	return w
}

func c10CheckAttrs(a c10WireAttrs, in c10Info) string {
	if a.Flags&0xf != 0xf {
		return fmt.Sprintf("attribute flags %#x do not carry size, uid/gid, permissions and times", a.Flags)
	}
	if a.Size != uint64(in.size) || a.UID != in.uid || a.GID != in.gid || a.Mtime != uint32(in.mtime) || a.Perm != c10WantWireMode(in.mode) {
		return fmt.Sprintf("wire attributes size=%d uid=%d gid=%d perm=%#o mtime=%d, handler gave size=%d uid=%d gid=%d mode=%v(%#o) mtime=%d",
			a.Size, a.UID, a.GID, a.Perm, a.Mtime, in.size, in.uid, in.gid, in.mode, c10WantWireMode(in.mode), in.mtime)
	}
	return ""
}

func init() {
	reg.Part("C10/handles", func(c *reg.Ctx) *reg.Result {
		res := reg.NewResult(c.Part)
		reqs := c10HandleReqs()
		paths := []string{"/f", "../x/./y", "", "a\xff/../b//"}
		var unit int64
		for _, hk := range c10HandleKinds {
			for _, st := range c10Starts {
				unit++
				if !c.Mine(unit) {
					continue
				}
				if c.Expired() {
					res.Exhaustive = false
					return res
				}
				x, bad := c10Open(hk.Caps, st)
				if bad != "" {
					res.EngineError = bad
					return res
				}
				for _, p := range paths {
					for _, r := range reqs {
						for _, bogus := range []bool{false, true} {
							for _, pre := range []string{"", "FSTAT", "FSETSTAT"} {
								if pre != "" && (bogus || p != "/f") {
									continue
								}
								res.Evaluations++
								res.Distinct++
								problems, outcome, err := c10RunHandle(x, hk, p, r, bogus, pre)
								rp := map[string]any{"handle_kind": hk.Name, "start": st, "path": p, "req": r.Name, "off": r.Off, "len": r.Len, "data_hex": hex.EncodeToString([]byte(r.Data)), "attr_flags": r.Aflags, "unknown_handle": bogus, "preceded_by": pre}
								if err != nil {
									res.Violate("C10", "c10-in-handle:"+r.Name+":exchange", fmt.Sprintf("%v: %v", rp, err), rp, nil)
									x.close()
									if x, bad = c10Open(hk.Caps, st); bad != "" {
										res.EngineError = bad
										return res
									}
									continue
								}
								res.Outcome(outcome)
								for _, pr := range problems {
									key := "c10-in-handle:" + r.Name + ":" + pr.aspect
									if pr.aspect == "mismatch" || pr.aspect == "mismatch-status" {
										tgt := hk.Obj
										if bogus {
											tgt = "unknown"
										}
										key = "c10-in-mismatch:" + r.Name + "-on-" + tgt
									}
									if pre != "" {
										key += ":after-" + pre
									}
									res.Violate("C10", key, fmt.Sprintf("start=%q path=%q (preceded by %q on the same handle): %s", st, p, pre, pr.msg), rp, nil)
								}
							}
						}
					}
				}
				x.close()
			}
		}
		res.Sample(map[string]any{"handle_kinds": len(c10HandleKinds), "requests": len(reqs), "paths": paths})
		res.Bound = fmt.Sprintf("%d handle kinds x %d start directories x %d paths x %d handle requests x {issued handle, unknown handle}", len(c10HandleKinds), len(c10Starts), len(paths), len(reqs))
		return res
	})

	reg.Part("C10/outbound-wire", func(c *reg.Ctx) *reg.Result {
		res := reg.NewResult(c.Part)
		corpus := c10ErrCorpus()
		var unit int64
		for _, site := range c10Sites() {
			unit++
			if !c.Mine(unit) {
				continue
			}
			if c.Expired() {
				res.Exhaustive = false
				return res
			}
			x, bad := c10Open(site.Caps, "/home/u")
			if bad != "" {
				res.EngineError = bad
				return res
			}
			for _, e := range corpus {
				if site.skipEOF && (e.Class == "eof" || e.Code == sshFxEOF && e.Class == "code") {
					continue
				}
				res.Evaluations++
				res.Distinct++
				x.rec.mu.Lock()
				x.rec.fail = map[string]error{site.Name: e.Err}
				x.rec.mu.Unlock()
				f, okType, err := site.raw(x)
				x.rec.mu.Lock()
				x.rec.fail = map[string]error{}
				x.rec.mu.Unlock()
				rp := map[string]any{"site": site.Name, "via": site.Via, "error": e.Name, "caps": site.Caps.String()}
				if err != nil {
					res.Violate("C10", "c10-out-exchange:"+site.Name, fmt.Sprintf("%v: %v", rp, err), rp, nil)
					x.close()
					if x, bad = c10Open(site.Caps, "/home/u"); bad != "" {
						res.EngineError = bad
						return res
					}
					continue
				}
				oc := fmt.Sprint(fxp(f.typ))
				if st, ok := c10ParseStatus(f); ok {
					oc = fmt.Sprint(fx(st.Code))
				}
				res.Outcome(fmt.Sprintf("%s at %s -> %s", e.Class, site.Name, oc))
				if e.Err == nil {
					if f.typ != okType {
						res.Violate("C10", "c10-out-ok:"+site.Name, fmt.Sprintf("handler %s (%s) returned nil; the wire shows %v, want %v", site.Name, site.Via, f, fxp(okType)), rp, nil)
					}
					continue
				}
				st, ok := c10ParseStatus(f)
				if !ok {
					res.Violate("C10", c10OutKey(e), fmt.Sprintf("handler %s (%s) returned %s; the wire shows %v, want STATUS %v", site.Name, site.Via, e.Name, f, fx(e.Code)), rp, nil)
					continue
				}
				if st.Code != e.Code {
					res.Violate("C10", c10OutKey(e), fmt.Sprintf("handler %s (%s) returned %s (%q), a %s error; the wire shows STATUS %v %q, want %v", site.Name, site.Via, e.Name, e.Err.Error(), e.Class, fx(st.Code), st.Msg, fx(e.Code)), rp, nil)
					continue
				}
				if e.Class == "other" && !strings.Contains(st.Msg, e.Err.Error()) {
					res.Violate("C10", "c10-out-text:"+e.Key, fmt.Sprintf("handler %s (%s) returned %q; the failure status carries %q", site.Name, site.Via, e.Err.Error(), st.Msg), rp, nil)
				}
			}
			x.close()
		}
		res.Sample(map[string]any{"sites": len(c10Sites()), "errors": len(corpus)})
		res.Bound = fmt.Sprintf("%d return sites x %d error values", len(c10Sites()), len(corpus))
		return res
	})

	reg.Part("C10/outbound-client", func(c *reg.Ctx) *reg.Result {
		res := reg.NewResult(c.Part)
		corpus := c10ErrCorpus()
		var unit int64
		for _, site := range c10Sites() {
			if site.noClient {
				continue
			}
			unit++
			if !c.Mine(unit) {
				continue
			}
			if c.Expired() {
				res.Exhaustive = false
				return res
			}
			rec := newC10Rec()
			rec.data = []byte("0123456789")
			h := c10Handlers(rec, site.Caps)
			s := bServeRS(h, WithStartDirectory("/home/u"))
			cl, err := s.Client()
			if err != nil {
				res.EngineError = fmt.Sprintf("client: %v", err)
				return res
			}
			for _, e := range corpus {
				if e.Class == "code" && e.Code == sshFxOk {
					continue // a handler-made OK status where another reply type is due: not an error kind
				}
				if site.skipEOF && (e.Class == "eof" || e.Code == sshFxEOF && e.Class == "code") {
					continue
				}
				res.Evaluations++
				res.Distinct++
				rec.mu.Lock()
				rec.fail = map[string]error{site.Name: e.Err}
				rec.mu.Unlock()
				got := site.cli(cl)
				rec.mu.Lock()
				rec.fail = map[string]error{}
				rec.mu.Unlock()
				rec.take()
				rp := map[string]any{"site": site.Name, "via": site.Via, "error": e.Name, "caps": site.Caps.String(), "through": "Client"}
				if errors.Is(got, errC10Setup) {
					res.EngineError = fmt.Sprintf("%v: setup failed", rp)
					return res
				}
				want := e.Class
				if e.Class == "code" {
					want = map[uint32]string{sshFxEOF: "eof", sshFxNoSuchFile: "not-exist", sshFxPermissionDenied: "permission"}[e.Code]
					if want == "" {
						want = "other"
					}
				}
				if site.eofIsSuccess && want == "eof" {
					want = "ok"
				}
				cls := c10ClientClass(got)
				res.Outcome(fmt.Sprintf("%s -> client %s", e.Class, cls))
				if cls != want {
					res.Violate("C10", c10OutKey(e), fmt.Sprintf("handler %s (%s) returned %s, a %s error; the Client call returned %v (kind %s), want kind %s", site.Name, site.Via, e.Name, e.Class, got, cls, want), rp, nil)
					continue
				}
				if e.Class == "other" && !strings.Contains(got.Error(), e.Err.Error()) {
					res.Violate("C10", "c10-out-text:"+e.Key, fmt.Sprintf("handler %s (%s) returned %q; the Client error %q does not carry the text", site.Name, site.Via, e.Err.Error(), got.Error()), rp, nil)
				}
				if e.Class == "code" && want == "other" {
					var se *StatusError
					if !errors.As(got, &se) || se.Code != e.Code {
						res.Violate("C10", c10OutKey(e), fmt.Sprintf("handler %s (%s) returned %s; the Client error is %v, want a StatusError with code %d", site.Name, site.Via, e.Name, got, e.Code), rp, nil)
					}
				}
			}
			s.Stop(cl)
		}
		res.Bound = fmt.Sprintf("%d return sites x %d error values through a real Client", len(c10Sites())-1, len(corpus))
		return res
	})

	// data, attributes, strings and statvfs of several shapes, on the wire and through a Client
	reg.Part("C10/outbound-values", func(c *reg.Ctx) *reg.Result {
		res := reg.NewResult(c.Part)
		if !c.Mine(0) {
			return res
		}
		caps := c10Caps{OpenFile: true, Posix: true, StatVFS: true, Lstat: true, RealPath: 1, Readlink: true, Names: true}
		for _, cp := range []c10Caps{caps, {RealPath: 2}, {}} {
			rec := newC10Rec()
			s := bServeRS(c10Handlers(rec, cp), WithStartDirectory("/home/u"))
			cl, err := s.Client()
			if err != nil {
				res.EngineError = err.Error()
				return res
			}
			violate := func(key, msg string, rp any) {
				res.Violate("C10", "c10-out-value:"+key, msg+fmt.Sprintf(" [caps %v]", cp), rp, nil)
			}
			// attributes
			for i, in := range c10InfoShapes {
				rec.mu.Lock()
				rec.info = in
				rec.mu.Unlock()
				type op struct {
					name string
					f    func() (os.FileInfo, error)
				}
				for _, o := range []op{{"Stat", func() (os.FileInfo, error) { return cl.Stat("/x/" + in.name) }}, {"Lstat", func() (os.FileInfo, error) { return cl.Lstat("/x/" + in.name) }},
					{"File.Stat", func() (os.FileInfo, error) {
						f, err := cl.Open("/x/" + in.name)
						if err != nil {
							return nil, err
						}
						defer f.Close()
						return f.Stat()
					}}} {
					res.Evaluations++
					res.Distinct++
					fi, err := o.f()
					rec.take()
					rp := map[string]any{"op": o.name, "shape": i}
					if err != nil {
						violate("attrs:"+o.name, fmt.Sprintf("%s failed: %v", o.name, err), rp)
						continue
					}
					st, _ := fi.Sys().(*FileStat)
					if st == nil || fi.Size() != in.size || fi.Mode() != in.mode || fi.ModTime().Unix() != int64(uint32(in.mtime)) || st.UID != in.uid || st.GID != in.gid {
						violate("attrs:"+o.name, fmt.Sprintf("%s returned size=%d mode=%v mtime=%d sys=%+v; handler gave %+v", o.name, fi.Size(), fi.Mode(), fi.ModTime().Unix(), st, in), rp)
					}
					res.Outcome("attrs as given")
				}
			}
			rec.mu.Lock()
			rec.info = nil
			rec.mu.Unlock()
			// strings from RealPath / Readlink resolvers: verbatim
			for i, sv := range c10StringShapes {
				rec.mu.Lock()
				rec.realpath, rec.link = sv, sv
				rec.mu.Unlock()
				rp := map[string]any{"shape": i, "value_hex": hex.EncodeToString([]byte(sv))}
				if cp.RealPath != 0 {
					res.Evaluations++
					res.Distinct++
					got, err := cl.RealPath("whatever")
					if err != nil || got != sv {
						violate("realpath", fmt.Sprintf("custom RealPath returned %q; the Client got %q, %v", sv, got, err), rp)
					}
					res.Outcome("realpath verbatim")
				}
				if cp.Readlink {
					res.Evaluations++
					res.Distinct++
					got, err := cl.ReadLink("/l")
					if err != nil || got != sv {
						violate("readlink", fmt.Sprintf("Readlink returned %q; the Client got %q, %v", sv, got, err), rp)
					}
					res.Outcome("readlink verbatim")
				} else if sv != "" {
					// fallback: the name of the FileInfo in the lister
					rec.mu.Lock()
					rec.info = c10Info{name: sv, mode: os.ModeSymlink | 0o777}
					rec.mu.Unlock()
					res.Evaluations++
					res.Distinct++
					got, err := cl.ReadLink("/l")
					if err != nil || got != sv {
						violate("readlink-fallback", fmt.Sprintf("Filelist(Readlink) held the name %q; the Client got %q, %v", sv, got, err), rp)
					}
					rec.mu.Lock()
					rec.info = nil
					rec.mu.Unlock()
					res.Outcome("readlink name verbatim")
				}
				rec.take()
			}
			// statvfs
			if cp.StatVFS {
				for i, v := range []StatVFS{{}, {Bsize: 1, Frsize: 2, Blocks: 3, Bfree: 4, Bavail: 5, Files: 6, Ffree: 7, Favail: 8, Fsid: 9, Flag: 10, Namemax: 11},
					{Bsize: 1<<64 - 1, Frsize: 1 << 63, Blocks: 1 << 32, Bfree: 1<<32 - 1, Bavail: 0xdeadbeef, Files: 1 << 40, Ffree: 12345678901234, Favail: 1, Fsid: 0xfeedface, Flag: 3, Namemax: 255}} {
					v := v
					rec.mu.Lock()
					rec.vfs = &v
					rec.mu.Unlock()
					res.Evaluations++
					res.Distinct++
					got, err := cl.StatVFS("/")
					rec.take()
					if err == nil {
						got.ID = 0
					}
					if err != nil || !reflect.DeepEqual(*got, v) {
						violate("statvfs", fmt.Sprintf("StatVFS handler returned %+v; the Client got %+v, %v", v, got, err), map[string]any{"shape": i})
					}
					res.Outcome("statvfs as given")
				}
			}
			// data: (n, err) shapes of ReadAt on the wire; the common ones through the Client
			content := []byte("ABCDEFGHIJ")
			for _, kind := range []struct {
				name   string
				pflags uint32
			}{{"Get", 1}, {"Open", 3}} {
				if kind.name == "Open" && !cp.OpenFile {
					continue
				}
				for _, sh := range []struct {
					n   int
					err error
				}{{8, nil}, {8, io.EOF}, {3, io.EOF}, {3, nil}, {1, io.EOF}, {1, nil},
					// a store that fails part-way: the error must reach the client, not a short read that looks like the end of the file
					{3, c10ErrSector}, {7, c10ErrSector}, {0, c10ErrSector}, {0, io.EOF}, {5, os.ErrPermission},
					// a back end that broke off in the middle of an object (io.ReadFull): a failure, not the end of the file
					{0, io.ErrUnexpectedEOF}, {3, io.ErrUnexpectedEOF}, {0, c10ErrBrokeOff}} {
					rec.mu.Lock()
					rec.data, rec.readSet, rec.readN, rec.readErr = content, true, sh.n, sh.err
					rec.mu.Unlock()
					res.Evaluations++
					res.Distinct++
					// raw, on a second session sharing the recorder
					x := &c10Sess{s: bServeRS(c10Handlers(rec, cp)), rec: rec, caps: cp, base: "/", id: 500}
					f, err := c10OpenThen(x, kind.pflags, false, func(h string) (frame, []c10Call, error) {
						f, c, e := x.do(sshFxpRead, h, uint64(0), uint32(8))
						x.do(sshFxpClose, h)
						return f, c, e
					})
					x.close()
					rp := map[string]any{"object": kind.name, "n": sh.n, "err": fmt.Sprint(sh.err)}
					if err != nil {
						violate("data", fmt.Sprintf("exchange failed: %v", err), rp)
						continue
					}
					if sh.err != nil && (sh.err != io.EOF || sh.n == 0) {
						code, ok := f.statusCode()
						want := uint32(sshFxFailure)
						switch sh.err {
						case io.EOF:
							want = sshFxEOF
						case os.ErrPermission:
							want = sshFxPermissionDenied
						}
						if !ok || code != want || (want == sshFxFailure && !strings.Contains(string(f.body), sh.err.Error())) {
							violate("data-error", fmt.Sprintf("ReadAt returned (%d, %v); the wire shows %v, want a status %d carrying the error", sh.n, sh.err, f, want), rp)
						}
						res.Outcome("read error as given")
						continue
					}
					r := &c10rd{b: f.body}
					r.u32()
					got := r.str()
					if f.typ != sshFxpData || r.bad || got != string(content[:sh.n]) {
						violate("data", fmt.Sprintf("ReadAt returned (%d, %v) with bytes %q; the wire shows %v", sh.n, sh.err, content[:sh.n], f), rp)
					}
					res.Outcome("data as given")
				}
				rec.mu.Lock()
				rec.readSet = false
				rec.data = content
				rec.mu.Unlock()
				// through the Client: whole content with EOF at the right place
				flags := os.O_RDONLY
				if kind.name == "Open" {
					flags = os.O_RDWR
				}
				fl, err := cl.OpenFile("/f", flags)
				if err == nil {
					buf := make([]byte, 16)
					n, rerr := fl.ReadAt(buf, 2)
					if n != 8 || rerr != io.EOF || string(buf[:n]) != "CDEFGHIJ" {
						violate("data-client", fmt.Sprintf("File.ReadAt(16 bytes at 2) on 10 bytes of content returned %d %q %v", n, buf[:n], rerr), nil)
					}
					n, rerr = fl.ReadAt(buf[:4], 0)
					if n != 4 || rerr != nil || string(buf[:4]) != "ABCD" {
						violate("data-client", fmt.Sprintf("File.ReadAt(4 bytes at 0) returned %d %q %v", n, buf[:n], rerr), nil)
					}
					fl.Close()
					res.Evaluations += 2
					res.Distinct += 2
				} else {
					violate("data-client", fmt.Sprintf("open failed: %v", err), nil)
				}
				rec.take()
			}
			// listing: names, attributes and long names (with and without name lookup) on the wire
			var entries []os.FileInfo
			for i, in := range c10InfoShapes {
				in.name = fmt.Sprintf("e%d \xff", i)
				entries = append(entries, in)
			}
			rec.mu.Lock()
			rec.entries = entries
			rec.mu.Unlock()
			x := &c10Sess{s: bServeRS(c10Handlers(rec, cp)), rec: rec, caps: cp, base: "/", id: 900}
			f, err := c10OpenThen(x, 0, true, func(h string) (frame, []c10Call, error) {
				f, c, e := x.do(sshFxpReaddir, h)
				x.do(sshFxpClose, h)
				return f, c, e
			})
			x.close()
			rec.take()
			res.Evaluations++
			res.Distinct++
			ns, ok := c10ParseName(f)
			if err != nil || !ok || len(ns) != len(entries) {
				violate("listing", fmt.Sprintf("READDIR of %d entries answered %v (%v)", len(entries), f, err), nil)
			} else {
				for i, e := range ns {
					in := entries[i].(c10Info)
					if e.Name != in.name {
						violate("listing", fmt.Sprintf("entry %d has name %q, lister gave %q", i, e.Name, in.name), nil)
					}
					if m := c10CheckAttrs(e.Attrs, in); m != "" {
						violate("listing-attrs", fmt.Sprintf("entry %d: %s", i, m), nil)
					}
					wantU, wantG := fmt.Sprint(in.uid), fmt.Sprint(in.gid)
					if cp.Names {
						wantU, wantG = "U"+wantU, "G"+wantG
					}
					fields := strings.Fields(e.Long)
					if len(fields) < 5 || fields[2] != wantU || fields[3] != wantG || !strings.HasSuffix(e.Long, in.name) {
						violate("listing-longname", fmt.Sprintf("entry %d long name %q, want owner %s group %s name %q", i, e.Long, wantU, wantG, in.name), nil)
					}
				}
				res.Outcome("listing as given")
			}
			s.Stop(cl)
		}
		res.Bound = "3 interface combinations x (5 attribute shapes x 3 stat operations, 6 string shapes, 3 statvfs shapes, 6 ReadAt result shapes x 2 object kinds, 1 listing of 5 entries)"
		return res
	})

	reg.Prop(&reg.Property{
		ID:    "C10",
		Level: "model_checking",
		Rule: "exhaustive tables against the real RequestServer (free-running, lock-step raw packets from an independent encoder): inbound = every request kind x every path of the corpus (all strings of length <= 4 over {'/','.','a',0xff} plus 24 long adversarial ones) x 3 start directories x optional-interface combinations, OPEN x all 64 pflags x all 32 attribute-flag subsets, handle requests x handle kinds; " +
			"outbound = every handler/object return site x every error of the corpus, on the wire and through a real Client, plus data/attribute/string shapes; every evaluated request is a distinct tuple",
		Assumptions: []string{
			"lock-step requests (one outstanding request): the verdict does not depend on the schedule",
			"the reference clean() is 15 lines of segment-stack code validated against path.Clean on the corpus at every run",
			"paths longer than the corpus and path bytes outside {'/','.','a',0xff,NUL,space,UTF-8 sample} are not enumerated",
			"linux build only (filepath.Clean == path.Clean)",
		},
		Jobs: func(tier string) []reg.Job {
			corpus, budget := "base", 80
			if tier == "thorough" {
				corpus, budget = "big", 500
			}
			a := map[string]string{"caps": "all", "corpus": corpus}
			return []reg.Job{
				{Part: "C10/inbound-paths", Build: "plain", Args: a, Shards: 16, BudgetS: budget, Procs: 1, Label: "inbound paths x all 192 interface combinations"},
				{Part: "C10/inbound-open", Build: "plain", Args: a, Shards: 16, BudgetS: budget, Procs: 1, Label: "inbound OPEN flags x attrs x all paths"},
				{Part: "C10/handles", Build: "plain", Shards: 15, BudgetS: 60, Procs: 1, Label: "handle requests x handle kinds"},
				{Part: "C10/outbound-wire", Build: "plain", Shards: 8, BudgetS: 60, Procs: 1, Label: "outbound errors on the wire"},
				{Part: "C10/outbound-client", Build: "plain", Shards: 8, BudgetS: 60, Procs: 1, Label: "outbound errors through a Client"},
				{Part: "C10/outbound-values", Build: "plain", Shards: 1, BudgetS: 60, Procs: 1, Label: "outbound data/attributes/strings"},
			}
		},
	})
}
