//go:build verif

package sftp

// Scheduled server programs for C02 (ordering), C18 (allocator invisibility) and C11 (resources).

import (
	"bytes"
	"encoding/binary"
	"fmt"
	"os"
	"strings"

	"verif/explore"
	"verif/reg"
	"verif/vsched"
)

const progInit = "ABCDEFGHIJKLMNOP"

// program returns setup and burst packets of a named program.
func program(name, server string) (setup, burst [][]byte, files map[string]string) {
	nm := func(n string) string {
		if server == "os" {
			return n
		}
		return "/" + n
	}
	files = map[string]string{nm("f"): progInit, nm("g"): strings.ToLower(progInit)}
	rd := func(id uint32, h string, off, n int) []byte {
		return mustPkt(&sshFxpReadPacket{ID: id, Handle: h, Offset: uint64(off), Len: uint32(n)})
	}
	wr := func(id uint32, h string, off int, d string) []byte {
		return mustPkt(&sshFxpWritePacket{ID: id, Handle: h, Offset: uint64(off), Length: uint32(len(d)), Data: []byte(d)})
	}
	switch name {
	case "rwmix":
		setup = [][]byte{
			mustPkt(&sshFxpOpenPacket{ID: 1, Path: nm("f"), Pflags: sshFxfRead | sshFxfWrite}),
			mustPkt(&sshFxpOpenPacket{ID: 2, Path: nm("g"), Pflags: sshFxfRead | sshFxfWrite}),
		}
		burst = [][]byte{
			rd(10, "1", 0, 2), wr(11, "2", 0, "xy"), rd(12, "1", 2, 2), rd(13, "2", 4, 2), wr(14, "1", 8, "zw"), rd(15, "1", 4, 2),
			mustPkt(&sshFxpClosePacket{ID: 16, Handle: "1"}), mustPkt(&sshFxpClosePacket{ID: 17, Handle: "2"}),
		}
	case "short":
		setup = [][]byte{mustPkt(&sshFxpOpenPacket{ID: 1, Path: nm("f"), Pflags: sshFxfRead | sshFxfWrite})}
		burst = [][]byte{rd(10, "1", 0, 2), mustPkt(&sshFxpLstatPacket{ID: 11, Path: nm("missing")}), wr(12, "1", 8, "zw"), rd(13, "1", 2, 2),
			mustPkt(&sshFxpClosePacket{ID: 14, Handle: "1"})}
	case "rsplit": // a read-only and a write-only handle: the request server's fileget / fileput paths
		setup = [][]byte{
			mustPkt(&sshFxpOpenPacket{ID: 1, Path: nm("f"), Pflags: sshFxfRead}),
			mustPkt(&sshFxpOpenPacket{ID: 2, Path: nm("g"), Pflags: sshFxfWrite}),
		}
		burst = [][]byte{rd(10, "1", 0, 2), wr(11, "2", 0, "xy"), rd(12, "1", 2, 2), wr(13, "2", 2, "zw"), rd(14, "1", 4, 2),
			mustPkt(&sshFxpClosePacket{ID: 15, Handle: "1"}), mustPkt(&sshFxpClosePacket{ID: 16, Handle: "2"})}
	case "rweof": // a read that crosses the end of the file (short last chunk) with more requests behind it;
		// the handle is read-only: the request server serves it through another code path (fileget)
		// than read-write handles (fileputget)
		setup = [][]byte{mustPkt(&sshFxpOpenPacket{ID: 1, Path: nm("f"), Pflags: sshFxfRead})}
		burst = [][]byte{rd(10, "1", 0, 3), rd(11, "1", 14, 4), mustPkt(&sshFxpRealpathPacket{ID: 12, Path: "/p/../q"}), rd(13, "1", 3, 3),
			mustPkt(&sshFxpRealpathPacket{ID: 14, Path: "/r/./s"})}
	case "romix": // read-only server: refused requests pipelined behind a read
		setup = [][]byte{mustPkt(&sshFxpOpenPacket{ID: 1, Path: nm("f"), Pflags: sshFxfRead})}
		burst = [][]byte{rd(10, "1", 0, 2), mustPkt(&sshFxpMkdirPacket{ID: 11, Path: nm("newdir")}), mustPkt(&sshFxpRmdirPacket{ID: 12, Path: nm("newdir")}),
			mustPkt(&sshFxpRemovePacket{ID: 13, Filename: nm("g")}), mustPkt(&sshFxpFstatPacket{ID: 14, Handle: "1"}), rd(15, "1", 2, 2)}
	case "rorefuse": // read-only server: refused requests whose ids run over the small numbers the server uses to count its requests, behind a read whose reply has to wait
		setup = [][]byte{mustPkt(&sshFxpOpenPacket{ID: 1, Path: nm("f"), Pflags: sshFxfRead})}
		long := nm(strings.Repeat("Z", 200))
		// INIT, OPEN, LSTAT and READ are the server's requests 1-4: the refused MKDIR carries the id 4
		burst = [][]byte{mustPkt(&sshFxpLstatPacket{ID: 60, Path: nm("g")}), rd(61, "1", 0, 8), mustPkt(&sshFxpMkdirPacket{ID: 4, Path: nm("newdir")})}
		for id := uint32(70); id < 76; id++ {
			burst = append(burst, mustPkt(&sshFxpLstatPacket{ID: id, Path: long}))
		}
		burst = append(burst, rd(64, "1", 8, 8))
		files[long] = "long"
	case "reads6": // more parallel requests in flight than there are workers (at W=2): responses pile up behind a slow first one
		setup = [][]byte{mustPkt(&sshFxpOpenPacket{ID: 1, Path: nm("f"), Pflags: sshFxfRead})}
		burst = [][]byte{rd(10, "1", 0, 2), rd(11, "1", 2, 2), rd(12, "1", 4, 2), rd(13, "1", 6, 2), rd(14, "1", 8, 2), rd(15, "1", 10, 2)}
	case "reads12": // as reads6 with enough requests to fill every queue of the packet manager at W=2 (4*W held responses)
		setup = [][]byte{mustPkt(&sshFxpOpenPacket{ID: 1, Path: nm("f"), Pflags: sshFxfRead})}
		for i := 0; i < 12; i++ {
			burst = append(burst, rd(uint32(10+i), "1", i, 2))
		}
	case "longlen": // READ requests asking for more than the server's maximum payload (and more than a frame can carry): answered with what the server is willing to send
		big := make([]byte, 100000)
		for i := range big {
			big[i] = byte('a' + i%23)
		}
		files[nm("f")] = string(big)
		setup = [][]byte{mustPkt(&sshFxpOpenPacket{ID: 1, Path: nm("f"), Pflags: sshFxfRead})}
		burst = [][]byte{rd(10, "1", 1000, 65536), mustPkt(&sshFxpFstatPacket{ID: 11, Handle: "1"}), rd(12, "1", 60000, 65536), rd(13, "1", 0, 300000), rd(14, "1", 5, 1<<20),
			rd(15, "1", 0, 32768), mustPkt(&sshFxpRealpathPacket{ID: 16, Path: "/p/../q"}), mustPkt(&sshFxpClosePacket{ID: 17, Handle: "1"})}
	case "attrpipe": // requests whose attribute block is decoded late (SETSTAT, FSETSTAT, OPEN with attributes) pipelined with long packets behind them
		setup = [][]byte{mustPkt(&sshFxpOpenPacket{ID: 1, Path: nm("f"), Pflags: sshFxfRead | sshFxfWrite})}
		long := nm(strings.Repeat("Z", 200)) // an existing file (error messages of the os-backed server quote the root directory)
		files[long] = "long"
		// size, then access and modification time (applied after the truncation, so that later ATTRS replies do not show the clock)
		size := func(n uint64) []byte {
			return binary.BigEndian.AppendUint32(binary.BigEndian.AppendUint32(binary.BigEndian.AppendUint64(nil, n), 1700000000), 1700000001)
		}
		burst = [][]byte{
			mustPkt(&sshFxpRealpathPacket{ID: 10, Path: "/p/../q"}),
			mustPkt(&sshFxpSetstatPacket{ID: 11, Path: nm("g"), Flags: sshFileXferAttrSize | sshFileXferAttrACmodTime, Attrs: size(5)}),
			mustPkt(&sshFxpStatPacket{ID: 12, Path: long}),
			mustPkt(&sshFxpFsetstatPacket{ID: 13, Handle: "1", Flags: sshFileXferAttrSize | sshFileXferAttrACmodTime, Attrs: size(7)}),
			mustPkt(&sshFxpLstatPacket{ID: 14, Path: long}),
			mustPkt(&sshFxpStatPacket{ID: 15, Path: nm("g")}),
			mustPkt(&sshFxpFstatPacket{ID: 16, Handle: "1"}),
			mustPkt(&sshFxpClosePacket{ID: 17, Handle: "1"}),
		}
	case "twodirs": // two directory handles listed in an interleaved fashion: each reply must hold its own directory's entries
		setup = [][]byte{mustPkt(&sshFxpOpendirPacket{ID: 1, Path: nm("da")}), mustPkt(&sshFxpOpendirPacket{ID: 2, Path: nm("db")})}
		burst = [][]byte{mustPkt(&sshFxpReaddirPacket{ID: 10, Handle: "1"}), mustPkt(&sshFxpReaddirPacket{ID: 11, Handle: "2"}), mustPkt(&sshFxpStatPacket{ID: 12, Path: nm("f")}),
			mustPkt(&sshFxpReaddirPacket{ID: 13, Handle: "1"}), mustPkt(&sshFxpReaddirPacket{ID: 14, Handle: "2"}),
			mustPkt(&sshFxpClosePacket{ID: 15, Handle: "1"}), mustPkt(&sshFxpClosePacket{ID: 16, Handle: "2"})}
		for i := 0; i < 3; i++ {
			files[nm(fmt.Sprintf("da/alpha-%d", i))] = "a"
			files[nm(fmt.Sprintf("db/bravo-%d", i))] = "bb"
		}
	case "bigread": // servers configured with a maximum payload above the 256 KiB frame limit: replies larger than a frame
		big := make([]byte, 400000)
		for i := range big {
			big[i] = byte('a' + i%23)
		}
		files[nm("f")] = string(big)
		setup = [][]byte{mustPkt(&sshFxpOpenPacket{ID: 1, Path: nm("f"), Pflags: sshFxfRead})}
		burst = [][]byte{rd(10, "1", 1000, 300000), mustPkt(&sshFxpFstatPacket{ID: 11, Handle: "1"}), rd(12, "1", 0, 262144), rd(13, "1", 399000, 300000),
			mustPkt(&sshFxpClosePacket{ID: 14, Handle: "1"})}
	case "pathkeep": // the path of an OPEN outlives its packet: later requests reuse the receive buffers, then the handle's path is needed again
		setup = [][]byte{mustPkt(&sshFxpOpenPacket{ID: 1, Path: nm("f"), Pflags: sshFxfRead}),
			mustPkt(&sshFxpStatPacket{ID: 2, Path: nm("g")}), mustPkt(&sshFxpStatPacket{ID: 3, Path: nm("g")}), mustPkt(&sshFxpLstatPacket{ID: 4, Path: nm("g")})}
		burst = [][]byte{mustPkt(&sshFxpFstatPacket{ID: 10, Handle: "1"}), rd(11, "1", 0, 4), mustPkt(&sshFxpLstatPacket{ID: 12, Path: nm("g")}),
			mustPkt(&sshFxpFstatPacket{ID: 13, Handle: "1"}), mustPkt(&sshFxpClosePacket{ID: 14, Handle: "1"})}
	case "rw2":
		setup = [][]byte{mustPkt(&sshFxpOpenPacket{ID: 1, Path: nm("f"), Pflags: sshFxfRead | sshFxfWrite})}
		burst = [][]byte{rd(10, "1", 0, 3), wr(11, "1", 12, "uv"), rd(12, "1", 3, 3)}
	case "rw3":
		setup = [][]byte{mustPkt(&sshFxpOpenPacket{ID: 1, Path: nm("f"), Pflags: sshFxfRead | sshFxfWrite})}
		burst = [][]byte{rd(10, "1", 0, 3), rd(11, "1", 3, 3), wr(12, "1", 12, "uv"), rd(13, "1", 6, 3), rd(14, "1", 9, 3)}
	case "cmdmix":
		setup = [][]byte{mustPkt(&sshFxpOpenPacket{ID: 1, Path: nm("f"), Pflags: sshFxfRead})}
		burst = [][]byte{
			rd(10, "1", 0, 2),
			mustPkt(&sshFxpRealpathPacket{ID: 11, Path: "/x/../y"}),
			mustPkt(&sshFxpOpendirPacket{ID: 12, Path: nm("")}),
			rd(13, "1", 2, 2),
			mustPkt(&sshFxpReaddirPacket{ID: 14, Handle: "2"}),
			mustPkt(&sshFxpLstatPacket{ID: 15, Path: nm("missing")}),
			rd(16, "1", 4, 2),
			mustPkt(&sshFxpClosePacket{ID: 17, Handle: "2"}),
			mustPkt(&sshFxpClosePacket{ID: 18, Handle: "1"}),
		}
		if server == "os" {
			burst[2] = mustPkt(&sshFxpOpendirPacket{ID: 12, Path: "."})
		}
	case "extmix":
		setup = [][]byte{mustPkt(&sshFxpOpenPacket{ID: 1, Path: nm("f"), Pflags: sshFxfRead})}
		burst = [][]byte{
			rd(10, "1", 0, 2),
			framed(sshFxpExtended, bstr(be32(nil, 11), "bogus@example.com")),
			rd(12, "1", 2, 2),
			mustPkt(&sshFxpStatPacket{ID: 13, Path: nm("f")}),
			mustPkt(&sshFxpFstatPacket{ID: 14, Handle: "1"}),
			rd(15, "9", 0, 2), // never-issued handle
			mustPkt(&sshFxpRemovePacket{ID: 16, Filename: nm("g")}),
			mustPkt(&sshFxpClosePacket{ID: 17, Handle: "1"}),
		}
	case "extpair": // two requests of each extension in flight at once (the single command worker carries them out one after the other)
		for _, n := range []string{"a1", "a2"} {
			files[nm(n)] = "content of " + n
		}
		burst = [][]byte{
			mustPkt(&sshFxpPosixRenamePacket{ID: 10, Oldpath: nm("a1"), Newpath: nm("b1")}),
			mustPkt(&sshFxpPosixRenamePacket{ID: 11, Oldpath: nm("a2"), Newpath: nm("b2")}),
			mustPkt(&sshFxpHardlinkPacket{ID: 12, Oldpath: nm("f"), Newpath: nm("h1")}),
			mustPkt(&sshFxpHardlinkPacket{ID: 13, Oldpath: nm("g"), Newpath: nm("h2")}),
			mustPkt(&sshFxpLstatPacket{ID: 14, Path: nm("b1")}),
			mustPkt(&sshFxpLstatPacket{ID: 15, Path: nm("b2")}),
			mustPkt(&sshFxpLstatPacket{ID: 16, Path: nm("h1")}),
			mustPkt(&sshFxpLstatPacket{ID: 17, Path: nm("h2")}),
		}
	default:
		panic("unknown program " + name)
	}
	return
}

// allocInvariant checks the allocator's page tables (white box): no page is lent twice or both
// lent and free.
func allocInvariant(a *allocator) string {
	if a == nil {
		return ""
	}
	// few pages exist at any time: a quadratic scan without allocation is the cheapest check
	var pages [64]*byte
	var owner [64]int64 // -1 = available list, else request order id
	n := 0
	add := func(p []byte, who int64) string {
		if len(p) == 0 {
			return ""
		}
		k := &p[:1][0]
		for i := 0; i < n; i++ {
			if pages[i] == k {
				return describeClash(owner[i], who)
			}
		}
		if n < len(pages) {
			pages[n], owner[n] = k, who
			n++
		}
		return ""
	}
	for _, p := range a.available {
		if m := add(p, -1); m != "" {
			return m
		}
	}
	for oid, ps := range a.used {
		for _, p := range ps {
			if m := add(p, int64(oid)); m != "" {
				return m
			}
		}
	}
	return ""
}

func describeClash(a, b int64) string {
	if a > b {
		a, b = b, a
	}
	if a < 0 && b < 0 {
		return "a page is in the available list twice"
	}
	if a < 0 {
		return "a page lent to a request is also in the available list"
	}
	return "a page is lent to two requests at once"
}

// progDeterministic: programs whose response bytes are the same under every schedule (no read races a write, listings of
// directories nobody changes); their responses are compared byte for byte with a reference run in C02 as well.
var progDeterministic = map[string]bool{"rorefuse": true, "attrpipe": true, "twodirs": true, "reads6": true, "reads12": true, "longlen": true, "pathkeep": true, "bigread": true}

type progOpts struct {
	readOnly     bool
	server, name string
	alloc        bool
	ref          [][]byte // reference response bodies (allocator off), nil = do not compare
	quiesce      bool
	maxTx        uint32 // maximum payload option (0 = default)
	txFirst      bool   // the maximum payload option is given before the allocator option
	putOnly      bool   // request server whose handlers do not implement OpenFileWriter
}

func responseBytes(fs []frame) [][]byte {
	var out [][]byte
	for _, f := range fs {
		out = append(out, append([]byte{f.typ}, f.body...))
	}
	return out
}

func progScenario(o progOpts, prop string) explore.Scenario {
	return func() (func(), func(*vsched.Exec) explore.Verdict) {
		setup, burst, files := program(o.name, o.server)
		spec := &srvSpec{server: o.server, alloc: o.alloc, setup: setup, burst: burst, files: files, hangup: -1, readOnly: o.readOnly, maxTx: o.maxTx, txFirst: o.txFirst, putOnly: o.putOnly, rdvOut: o.name == "rorefuse"} // rorefuse: a peer that takes each reply only when it gets round to it (writes to it block until then)
		var r *srvRun
		var usedAtQuiescence, usedKeyOK = -1, true
		body := func() {
			r = spec.start()
			if o.alloc {
				a := r.alloc
				vsched.StepHook = func() string { return allocInvariant(a) }
			}
			r.driveQ(func() {
				if o.quiesce && r.alloc != nil {
					vsched.AwaitQuiescence("quiescence")
					usedAtQuiescence = 0
					for oid, ps := range r.alloc.used {
						usedAtQuiescence += len(ps)
						if oid != uint32(len(r.reqTypes))+1 {
							usedKeyOK = false
						}
					}
				}
			})
		}
		judge := func(e *vsched.Exec) explore.Verdict {
			vsched.StepHook = nil
			defer r.cleanup()
			v := explore.Verdict{}
			var st []string
			for _, f := range r.frames {
				st = append(st, f.String())
			}
			v.Outcome = strings.Join(st, " ")
			v.Sample = map[string]any{"program": o.name, "server": o.server, "alloc": o.alloc, "responses": st}
			if e.Deadlock {
				return v
			}
			if msg := r.orderOracle(true); msg != "" {
				v.Bad, v.Key = msg, "order:"+o.server
				return v
			}
			if o.name == "extpair" {
				// every request of this program succeeds (each rename and link has its own source, each LSTAT names a file made before it)
				for i, f := range r.frames {
					if c, ok := f.statusCode(); ok && c != sshFxOk {
						v.Bad = fmt.Sprintf("response %d (%s to %s) is a failure; every request of this program names its own existing source: %v", i, f, fxp(r.reqTypes[i]), st)
						v.Key = "ext-pair:" + o.server
						return v
					}
				}
			}
			if o.ref != nil {
				got := responseBytes(r.frames)
				for i := range got {
					if i >= len(o.ref) || !bytes.Equal(got[i], o.ref[i]) {
						v.Bad = fmt.Sprintf("response %d with the allocator is %x (%s), without it %x", i, got[i], r.frames[i], o.ref[i])
						v.Key = "alloc-differs:" + o.server
						return v
					}
				}
			}
			if o.alloc && r.alloc != nil {
				if o.quiesce && (usedAtQuiescence > 1 || !usedKeyOK) {
					v.Bad = fmt.Sprintf("all %d responses are out and the server is idle, but %d pages are still marked in use (only the receive buffer of the next packet may be)", len(r.frames), usedAtQuiescence)
					v.Key = "alloc-in-use-at-quiescence:" + o.server
					return v
				}
				if n := len(r.alloc.used) + len(r.alloc.available); n != 0 {
					v.Bad = fmt.Sprintf("after Serve returned the allocator still holds %d used / %d available page lists", len(r.alloc.used), len(r.alloc.available))
					v.Key = "alloc-after-serve:" + o.server
					return v
				}
			}
			return v
		}
		return body, judge
	}
}

// driveQ is drive with a callback invoked when all responses of the burst have been collected and
// the connection is still open.
func (r *srvRun) driveQ(atQuiescence func()) {
	s := r.spec
	r.send(mustPkt(&sshFxInitPacket{Version: 3}))
	ok := r.collect(1)
	for _, p := range s.setup {
		if !ok {
			break
		}
		r.send(p)
		ok = r.collect(len(r.reqTypes))
	}
	if ok && len(s.burst) > 0 {
		var all []byte
		for _, p := range s.burst {
			r.reqTypes = append(r.reqTypes, pktType(p))
			r.reqIDs = append(r.reqIDs, pktID(p))
			all = append(all, p...)
		}
		r.in.Write(all)
		if r.collect(len(r.reqTypes)) && atQuiescence != nil {
			atQuiescence()
		}
	}
	r.in.CloseWrite()
	for {
		f, err := readFrame(r.out)
		if err != nil {
			break
		}
		r.frames = append(r.frames, f)
	}
	vsched.Env("await-served", r, true, func() bool { return r.served })
}

// reference runs the program once with the allocator off under the default schedule.
func progReference(server, name string, maxTx uint32, putOnly, readOnly bool) [][]byte {
	var ref [][]byte
	sc := func() (func(), func(*vsched.Exec) explore.Verdict) {
		setup, burst, files := program(name, server)
		spec := &srvSpec{server: server, setup: setup, burst: burst, files: files, hangup: -1, maxTx: maxTx, putOnly: putOnly, readOnly: readOnly}
		var r *srvRun
		return func() { r = spec.start(); r.drive() }, func(e *vsched.Exec) explore.Verdict {
			ref = responseBytes(r.frames)
			r.cleanup()
			return explore.Verdict{Outcome: "ref"}
		}
	}
	explore.Run(explore.Config{Prop: "ref", Strategy: "db", Bound: 0}, sc)
	return ref
}

func runProgs(c *reg.Ctx, prop string, alloc, compare bool) *reg.Result {
	total := reg.NewResult(c.Part)
	server := c.Arg("server", "rs")
	minDone := 1 << 30
	names := strings.Split(c.Arg("progs", "rwmix"), "+")
	for i, name := range names {
		if c.Expired() {
			total.Exhaustive = false
			break
		}
		o := progOpts{server: server, name: name, alloc: alloc, quiesce: alloc, readOnly: name == "romix" || name == "rorefuse", maxTx: uint32(c.ArgInt("maxtx", 0)), txFirst: c.Arg("txfirst", "0") == "1", putOnly: c.Arg("putonly", "0") == "1"}
		if compare || progDeterministic[name] {
			// the expected response bytes do not depend on the schedule: compared with a reference run (default schedule, no allocator)
			o.ref = progReference(server, name, o.maxTx, o.putOnly, o.readOnly)
		}
		r := explore.Run(explore.Config{Prop: prop, Strategy: c.Arg("strategy", "db"), Bound: c.ArgInt("bound", 2), Ctx: c, Label: c.Part}, progScenario(o, prop))
		total.Evaluations += r.Evaluations
		total.States += r.States
		total.Transitions += r.Transitions
		total.Distinct += r.Distinct
		for k, v := range r.Outcomes {
			total.Outcomes[fmt.Sprintf("p%d:%s", i, k)] += v
		}
		for _, sm := range r.Samples {
			total.Sample(sm)
		}
		for _, v := range r.Violations {
			total.Violate(v.Property, v.Key, "program "+name+" on "+server+": "+v.Msg, map[string]any{"program": name, "server": server, "schedule": v.Replay}, v.Trace)
		}
		if !r.Exhaustive {
			total.Exhaustive = false
		}
		if r.EngineError != "" {
			total.EngineError = r.EngineError
			break
		}
		if d, ok := r.Notes["db_completed"].(int); ok && d < minDone {
			minDone = d
		}
	}
	if minDone == 1<<30 {
		minDone = -1
	}
	total.Notes["db_completed"] = minDone
	total.Notes["db_target"] = c.ArgInt("bound", 2)
	total.Notes["programs"] = names
	return total
}

func init() {
	reg.Part("C02/sched", func(c *reg.Ctx) *reg.Result { return runProgs(c, "C02", c.Arg("alloc", "0") == "1", false) })
	reg.Part("C18/sched", func(c *reg.Ctx) *reg.Result { return runProgs(c, "C18", true, true) })
	reg.Part("C16/sched", func(c *reg.Ctx) *reg.Result { return runProgs(c, "C16", false, false) })
	reg.Part("C19/sched", func(c *reg.Ctx) *reg.Result { return runProgs(c, "C19", false, false) })
}

var _ = os.Remove

func init() {
	polcap := func(j reg.Job, n int) reg.Job { j.Args["polcap"] = fmt.Sprint(n); return j }
	of := func(j reg.Job) reg.Job { j.Args["putonly"] = "1"; return j }
	pj := func(part, label, build, server, progs string, bound, budget int, alloc bool) reg.Job {
		a := map[string]string{"server": server, "progs": progs, "bound": fmt.Sprint(bound)}
		if alloc {
			a["alloc"] = "1"
		}
		return reg.Job{Part: part, Build: build, Args: a, Shards: 16, BudgetS: budget, Label: label}
	}
	reg.Prop(&reg.Property{
		ID:    "C02",
		Level: "model_checking",
		Rule: "real servers under the cooperative scheduler on causally well-formed pipelined programs (mixes of parallel read/write and sequential open/stat/dir/extended/close requests, 5-9 packets, two handles, bogus handle, unknown extension): " +
			"all schedules with at most d deviations at the real W=8 and at W in {2,3}; plus (free-running) all request programs up to depth 4 over a 10-symbol alphabet; oracle on the bytes the server writes: one response per request, same id, legal type, arrival order",
		Assumptions: []string{"connection stays open until all responses are collected (what a server may omit on hang-up is C07)", "deviation and worker-count bounds as reported"},
		Jobs: func(tier string) []reg.Job {
			var js []reg.Job
			if tier == "thorough" {
				js = []reg.Job{
					pj("C02/sched", "rs W=8 db3", "instr", "rs", "rwmix+cmdmix+extmix+rsplit", 3, 900, false),
					pj("C02/sched", "rs W=2 db4", "instr-w2", "rs", "rwmix+cmdmix", 4, 900, false),
					pj("C02/sched", "rs W=3 alloc db3", "instr-w3", "rs", "rwmix+extmix", 3, 600, true),
					of(pj("C02/sched", "rs (handlers without OpenFileWriter) W=2 db3", "instr-w2", "rs", "rwmix+short", 3, 600, false)),
					of(pj("C02/sched", "rs (handlers without OpenFileWriter) W=8 db2", "instr", "rs", "rwmix+short", 2, 600, false)),
					pj("C02/sched", "os W=8 db3", "instr", "os", "rwmix+cmdmix+extmix+romix", 3, 900, false),
					pj("C02/sched", "os W=2 db3 alloc", "instr-w2", "os", "rwmix+cmdmix+extmix", 3, 600, true),
					pj("C02/sched", "rs W=2 six reads db4", "instr-w2", "rs", "reads6", 4, 600, false),
					pj("C02/sched", "rs W=2 two requests of each extension db3", "instr-w2", "rs", "extpair", 3, 600, false),
					pj("C02/sched", "os W=2 two requests of each extension db3", "instr-w2", "os", "extpair", 3, 600, false),
					pj("C02/sched", "rs W=3 six reads db3", "instr-w3", "rs", "reads6", 3, 600, false),
					pj("C02/sched", "os W=2 six reads db3", "instr-w2", "os", "reads6", 3, 600, false),
					pj("C02/sched", "rs W=2 twelve reads db3", "instr-w2", "rs", "reads12", 3, 600, false),
					pj("C02/sched", "rs W=2 over-long read requests, two listings db3", "instr-w2", "rs", "longlen+twodirs", 3, 600, false),
					pj("C02/sched", "os W=2 over-long read requests, two listings db3", "instr-w2", "os", "longlen+twodirs", 3, 600, false),
				}
			} else {
				js = []reg.Job{
					pj("C02/sched", "rs W=8 db2", "instr", "rs", "rwmix+cmdmix+extmix", 2, 100, false),
					pj("C02/sched", "rs W=2 db3", "instr-w2", "rs", "short", 3, 100, false),
					pj("C02/sched", "os W=2 db2", "instr-w2", "os", "rwmix+cmdmix+extmix", 2, 100, false),
					pj("C02/sched", "os read-only W=2 db2", "instr-w2", "os", "romix", 2, 100, false),
					pj("C02/sched", "rs W=2 alloc db2", "instr-w2", "rs", "rwmix+cmdmix+rsplit", 2, 100, true),
					of(pj("C02/sched", "rs (handlers without OpenFileWriter) W=2 db2", "instr-w2", "rs", "rwmix+short", 2, 100, false)),
					pj("C02/sched", "rs W=2 six reads db2", "instr-w2", "rs", "reads6", 2, 100, false),
					pj("C02/sched", "rs W=2 two requests of each extension db2", "instr-w2", "rs", "extpair", 2, 100, false),
					polcap(pj("C02/sched", "os W=2 two requests of each extension db2", "instr-w2", "os", "extpair", 2, 100, false), 1),
					pj("C02/sched", "os W=2 six reads db2", "instr-w2", "os", "reads6", 2, 100, false),
					pj("C02/sched", "rs W=2 twelve reads db2", "instr-w2", "rs", "reads12", 2, 100, false),
					pj("C02/sched", "rs W=2 over-long read requests, two listings db2", "instr-w2", "rs", "longlen+twodirs", 2, 100, false),
					polcap(pj("C02/sched", "os W=2 over-long read requests, two listings db2", "instr-w2", "os", "longlen+twodirs", 2, 100, false), 1),
				}
			}
			js = withPolicies(tier, js, func(j reg.Job) bool { return j.Args["server"] != "os" })
			big := func(label, server string, alloc, txFirst bool) reg.Job {
				j := pj("C02/sched", label, "instr-w2", server, "bigread", 1, 100, alloc)
				j.Args["maxtx"] = "1048576"
				if txFirst {
					j.Args["txfirst"] = "1"
				}
				j.Shards = 4
				return j
			}
			js = append(js, big("rs 1 MiB payloads db1", "rs", false, false), big("os 1 MiB payloads db1", "os", false, false),
				big("rs 1 MiB payloads, allocator db1", "rs", true, false), big("os 1 MiB payloads, allocator (option given last) db1", "os", true, true))
			// the packet manager alone (narrowest seam): ALL request programs up to a length, each under every policy
			pm := func(build, alphabet string, n, bound, budget int) reg.Job {
				return reg.Job{Part: "C02/pm", Build: build, Args: map[string]string{"alphabet": alphabet, "len": fmt.Sprint(n), "strategy": "db", "bound": fmt.Sprint(bound)}, Shards: 16, BudgetS: budget,
					Label: fmt.Sprintf("packet manager alone (%s): all programs <= %d over %s, db%d", build, n, alphabet, bound)}
			}
			if tier == "thorough" {
				js = append(js, withPolicies(tier, []reg.Job{pm("instr-w2", "RrSCc", 5, 3, 420), pm("instr-w3", "RSC", 5, 3, 420), pm("instr", "RSC", 4, 3, 420)}, func(reg.Job) bool { return true })...)
			} else {
				js = append(js, withPolicies(tier, []reg.Job{pm("instr-w2", "RSC", 3, 3, 100), pm("instr-w2", "RSC", 4, 2, 100)}, func(reg.Job) bool { return true })...)
			}
			if c02ExtraJobs != nil {
				js = append(js, c02ExtraJobs(tier)...)
			}
			return js
		},
	})
	reg.Prop(&reg.Property{
		ID:    "C18",
		Level: "model_checking",
		Rule: "real servers with the allocator on, under the cooperative scheduler, on pipelined programs whose expected responses are schedule independent (reads of distinct contents, writes to disjoint regions, commands): all schedules with at most d deviations; " +
			"oracle: response bytes identical to the allocator-off run, page tables consistent after every scheduling step (no page lent twice / lent and free), at quiescence only the next receive buffer in use, nothing after Serve; plus (free-running) the program corpus with vs without allocator; plus two servers built from one option list alive in the same execution, each session compared with itself served alone without allocator",
		Assumptions: []string{"deviation and worker-count bounds as reported", "page-table invariant read at scheduling-step boundaries"},
		Jobs: func(tier string) []reg.Job {
			var js []reg.Job
			if tier == "thorough" {
				js = []reg.Job{
					pj("C18/sched", "rs W=8 db3", "instr", "rs", "rwmix+rw3+cmdmix+rsplit+rweof", 3, 900, true),
					pj("C18/sched", "rs W=2 db4", "instr-w2", "rs", "rwmix+rw3", 4, 900, true),
					of(pj("C18/sched", "rs (handlers without OpenFileWriter) W=2 db3", "instr-w2", "rs", "rwmix+rw3+rweof+reads6", 3, 900, true)),
					pj("C18/sched", "rs W=2 db3 read crossing EOF", "instr-w2", "rs", "rweof", 3, 900, true),
					pj("C18/sched", "os W=3 db3", "instr-w3", "os", "rwmix+rw3", 3, 900, true),
					pj("C18/sched", "os W=2 db3", "instr-w2", "os", "rw2", 3, 600, true),
					pj("C18/sched", "rs W=2 db3 path kept across buffer reuse", "instr-w2", "rs", "pathkeep", 3, 600, true),
					pj("C18/sched", "os W=2 db3 path kept across buffer reuse", "instr-w2", "os", "pathkeep", 3, 600, true),
					pj("C18/sched", "rs W=2 db3 six/twelve reads, over-long reads", "instr-w2", "rs", "reads6+reads12+longlen", 3, 600, true),
					pj("C18/sched", "os W=2 db3 six reads, over-long reads, two listings", "instr-w2", "os", "reads6+longlen+twodirs", 3, 600, true),
					{Part: "C18/pair", Build: "instr-w2", Args: map[string]string{"server": "rs", "bound": "3"}, Shards: 16, BudgetS: 600, Label: "rs W=2 db3 two servers from one option list"},
					{Part: "C18/pair", Build: "instr-w2", Args: map[string]string{"server": "os", "bound": "2"}, Shards: 16, BudgetS: 600, Label: "os W=2 db2 two servers from one option list"},
					pj("C18/sched", "rs W=2 db3 attribute blocks decoded late", "instr-w2", "rs", "attrpipe", 3, 600, true),
					pj("C18/sched", "os W=2 db3 attribute blocks decoded late", "instr-w2", "os", "attrpipe", 3, 600, true),
					pj("C18/sched", "os read-only W=2 db3 refused requests with small ids behind a waiting read", "instr-w2", "os", "rorefuse", 3, 600, true),
				}
			} else {
				js = []reg.Job{
					pj("C18/sched", "rs W=8 db2", "instr", "rs", "rw3", 2, 100, true),
					pj("C18/sched", "rs W=2 db2 five programs", "instr-w2", "rs", "rwmix+rw3+cmdmix+extmix+rsplit", 2, 100, true),
					pj("C18/sched", "rs W=2 db3", "instr-w2", "rs", "rw2", 3, 100, true),
					of(pj("C18/sched", "rs (handlers without OpenFileWriter) W=2 db2", "instr-w2", "rs", "rwmix+rw3+rweof", 2, 100, true)),
					pj("C18/sched", "rs W=2 db2 read crossing EOF", "instr-w2", "rs", "rweof", 2, 100, true),
					pj("C18/sched", "os W=2 db2", "instr-w2", "os", "rwmix+rw3", 2, 100, true),
					pj("C18/sched", "rs W=2 db2 path kept across buffer reuse", "instr-w2", "rs", "pathkeep", 2, 100, true),
					pj("C18/sched", "os W=2 db2 path kept across buffer reuse", "instr-w2", "os", "pathkeep", 2, 100, true),
					pj("C18/sched", "rs W=2 db2 six reads (more pages outstanding than the pool keeps), over-long reads", "instr-w2", "rs", "reads6+longlen", 2, 100, true),
					polcap(pj("C18/sched", "os W=2 db2 six reads, over-long reads, two listings", "instr-w2", "os", "reads6+longlen+twodirs", 2, 100, true), 1),
					{Part: "C18/pair", Build: "instr-w2", Args: map[string]string{"server": "rs", "bound": "2"}, Shards: 16, BudgetS: 100, Label: "rs W=2 db2 two servers from one option list"},
					{Part: "C18/pair", Build: "instr-w2", Args: map[string]string{"server": "os", "bound": "1"}, Shards: 16, BudgetS: 100, Label: "os W=2 db1 two servers from one option list"},
					pj("C18/sched", "rs W=2 db2 attribute blocks decoded late", "instr-w2", "rs", "attrpipe", 2, 100, true),
					polcap(pj("C18/sched", "os W=2 db2 attribute blocks decoded late", "instr-w2", "os", "attrpipe", 2, 100, true), 1),
					polcap(pj("C18/sched", "os read-only W=2 db2 refused requests with small ids behind a waiting read", "instr-w2", "os", "rorefuse", 2, 100, true), 1),
				}
			}
			js = withPolicies(tier, js, func(j reg.Job) bool { return j.Args["server"] != "os" })
			for _, sv := range []string{"rs", "os"} {
				for _, txFirst := range []bool{false, true} {
					j := pj("C18/sched", fmt.Sprintf("%s 1 MiB payloads (payload option first: %v) db1", sv, txFirst), "instr-w2", sv, "bigread", 1, 100, true)
					j.Args["maxtx"] = "1048576"
					if txFirst {
						j.Args["txfirst"] = "1"
					}
					j.Shards = 4
					js = append(js, j)
				}
			}
			if c18ExtraJobs != nil {
				js = append(js, c18ExtraJobs(tier)...)
			}
			return js
		},
	})
}

var c02ExtraJobs, c18ExtraJobs func(tier string) []reg.Job
