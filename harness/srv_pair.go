//go:build verif

package sftp

// C18 with two servers alive at the same time that were configured from ONE option list (the usual
// "build the options once, use them for every accepted connection" pattern): what one session does
// must not change any response of the other. Both sessions run under the scheduler in one execution;
// each session's responses are compared byte for byte with a reference run of that session alone,
// allocator off.

import (
	"bytes"
	"fmt"
	"strings"

	"verif/explore"
	"verif/reg"
	"verif/vsched"
)

func pairProgram(which, server string) (setup, burst [][]byte, files map[string]string) {
	nm := func(n string) string {
		if server == "os" {
			return n
		}
		return "/" + n
	}
	files = map[string]string{nm("f"): progInit, nm("g"): "gg"}
	switch which {
	case "A": // harmless round trips whose packets are full of 'A'
		for i := 0; i < 4; i++ {
			burst = append(burst, mustPkt(&sshFxpRealpathPacket{ID: uint32(20 + i), Path: "/" + strings.Repeat("A", 40+i)}))
		}
	case "B": // data that has to survive: a write (the only read/write request of the burst, so that nothing races it), checked in the file afterwards
		setup = [][]byte{mustPkt(&sshFxpOpenPacket{ID: 1, Path: nm("f"), Pflags: sshFxfRead | sshFxfWrite})}
		d := strings.Repeat("B", 40)
		burst = [][]byte{
			mustPkt(&sshFxpWritePacket{ID: 10, Handle: "1", Offset: 0, Length: uint32(len(d)), Data: []byte(d)}),
			mustPkt(&sshFxpRealpathPacket{ID: 11, Path: "/" + strings.Repeat("b", 44)}),
			mustPkt(&sshFxpLstatPacket{ID: 12, Path: nm("g")}), // a file nobody writes
			mustPkt(&sshFxpClosePacket{ID: 13, Handle: "1"}),
		}
	}
	return
}

func pairReference(server, which string) [][]byte {
	var ref [][]byte
	sc := func() (func(), func(*vsched.Exec) explore.Verdict) {
		setup, burst, files := pairProgram(which, server)
		spec := &srvSpec{server: server, setup: setup, burst: burst, files: files, hangup: -1}
		var r *srvRun
		return func() { r = spec.start(); r.drive() }, func(e *vsched.Exec) explore.Verdict {
			ref = responseBytes(r.frames)
			r.cleanup()
			return explore.Verdict{Outcome: "ref"}
		}
	}
	explore.Run(explore.Config{Prop: "ref", Strategy: "db", Bound: 0}, sc)
	return ref
}

func pairScenario(server string, shared bool, refs map[string][][]byte) explore.Scenario {
	return func() (func(), func(*vsched.Exec) explore.Verdict) {
		runs := map[string]*srvRun{}
		body := func() {
			var rsOpt RequestServerOption
			var osOpt ServerOption
			if shared {
				rsOpt, osOpt = WithRSAllocator(), WithAllocator()
			}
			done := 0
			for _, w := range []string{"A", "B"} {
				setup, burst, files := pairProgram(w, server)
				spec := &srvSpec{server: server, alloc: true, setup: setup, burst: burst, files: files, hangup: -1, rsOpt: rsOpt, osOpt: osOpt}
				r := spec.start()
				runs[w] = r
				vsched.GoNamed("peer "+w, "harness", func() {
					r.driveQ(nil)
					vsched.Env("pair.done", &done, false, nil)
					done++
				})
			}
			vsched.Env("pair.await", &done, true, func() bool { return done == 2 })
		}
		judge := func(e *vsched.Exec) explore.Verdict {
			v := explore.Verdict{}
			var st []string
			for _, w := range []string{"A", "B"} {
				if r := runs[w]; r != nil {
					defer r.cleanup()
					for _, f := range r.frames {
						st = append(st, w+":"+f.String())
					}
				}
			}
			v.Outcome = strings.Join(st, " ")
			if e.Deadlock {
				return v
			}
			for _, w := range []string{"A", "B"} {
				r := runs[w]
				if msg := r.orderOracle(true); msg != "" {
					v.Bad, v.Key = "session "+w+": "+msg, "pair-order:"+server
					return v
				}
				got := responseBytes(r.frames)
				for i := range got {
					if i >= len(refs[w]) || !bytes.Equal(got[i], refs[w][i]) {
						v.Bad = fmt.Sprintf("two servers built from one option list, session %s: response %d is %x (%s); served alone and without the allocator it is %x", w, i, got[i], r.frames[i], refs[w][i])
						v.Key = "pair-differs:" + server
						return v
					}
				}
				if w == "B" {
					if got, want := r.fileContent("f"), strings.Repeat("B", 40); got != want {
						v.Bad = fmt.Sprintf("two servers built from one option list, session B: the file written with %q holds %q", want, got)
						v.Key = "pair-content:" + server
						return v
					}
				}
				if r.alloc != nil {
					if n := len(r.alloc.used) + len(r.alloc.available); n != 0 {
						v.Bad = fmt.Sprintf("session %s: after both Serve calls returned the allocator still holds %d used / %d available page lists", w, len(r.alloc.used), len(r.alloc.available))
						v.Key = "pair-after-serve:" + server
						return v
					}
				}
			}
			return v
		}
		return body, judge
	}
}

func init() {
	reg.Part("C18/pair", func(c *reg.Ctx) *reg.Result {
		server := c.Arg("server", "rs")
		refs := map[string][][]byte{"A": pairReference(server, "A"), "B": pairReference(server, "B")}
		r := explore.Run(explore.Config{Prop: "C18", Strategy: c.Arg("strategy", "db"), Bound: c.ArgInt("bound", 2), Ctx: c, Label: c.Part}, pairScenario(server, c.Arg("shared", "1") == "1", refs))
		total := reg.NewResult(c.Part)
		total.Evaluations, total.States, total.Transitions, total.Distinct = r.Evaluations, r.States, r.Transitions, r.Distinct
		for k, v := range r.Outcomes {
			total.Outcomes[k] += v
		}
		for _, sm := range r.Samples {
			total.Sample(sm)
		}
		for _, v := range r.Violations {
			total.Violate(v.Property, v.Key, "two "+server+" servers: "+v.Msg, map[string]any{"server": server, "schedule": v.Replay}, v.Trace)
		}
		total.Exhaustive = r.Exhaustive
		total.EngineError = r.EngineError
		total.Notes["db_completed"] = r.Notes["db_completed"]
		total.Notes["db_target"] = c.ArgInt("bound", 2)
		return total
	})
}
