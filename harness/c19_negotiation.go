//go:build verif

package sftp

// C19: version and extension negotiation is truthful.
//
// Engine B, free running, four parts:
//   C19/handshake  NewClientPipe against a scripted peer whose answer to INIT is every element of an
//                  explicit set of byte strings (versions, extension lists, truncations, type bytes,
//                  length fields); oracle = a reference parser of the VERSION packet written here
//   C19/sync       File.Sync against a scripted peer advertising every extension list: bytes the client
//                  writes are inspected
//   C19/setext     every sequence of SetSFTPExtensions calls (argument lists of length <= 3 over the three
//                  supported names and one invalid name): VERSION bytes of both servers against a model,
//                  and every advertised extension is then requested from the os-backed server
//   C19/unknown    every other extended-request name of a finite set is answered OP_UNSUPPORTED by both
//                  servers and the session goes on

import (
	"encoding/binary"
	"encoding/hex"
	"fmt"
	"io"
	"os"
	"path/filepath"
	"runtime"
	"sort"
	"strings"
	"time"

	"verif/reg"
)

type c19Pair struct{ name, data string }

func c19Str(b []byte, s string) []byte {
	b = binary.BigEndian.AppendUint32(b, uint32(len(s)))
	return append(b, s...)
}

// c19Version builds a VERSION-like frame: type byte, version word, pairs.
func c19Version(typ byte, version uint32, list []c19Pair) []byte {
	b := []byte{0, 0, 0, 0, typ}
	b = binary.BigEndian.AppendUint32(b, version)
	for _, p := range list {
		b = c19Str(c19Str(b, p.name), p.data)
	}
	binary.BigEndian.PutUint32(b, uint32(len(b)-4))
	return b
}

func c19Pkt(typ byte, fields ...any) []byte {
	b := []byte{0, 0, 0, 0, typ}
	for _, f := range fields {
		switch v := f.(type) {
		case uint32:
			b = binary.BigEndian.AppendUint32(b, v)
		case string:
			b = c19Str(b, v)
		default:
			panic(fmt.Sprintf("c19Pkt: %T", f))
		}
	}
	binary.BigEndian.PutUint32(b, uint32(len(b)-4))
	return b
}

// c19Ref is the reference reading of a peer's answer: accepted iff the stream starts with one whole
// frame of legal length whose type is VERSION, whose version is 3 and whose rest is a sequence of
// complete (name, data) string pairs.
func c19Ref(b []byte) (ok bool, list []c19Pair, why string) {
	if len(b) < 4 {
		return false, nil, "truncated"
	}
	l := binary.BigEndian.Uint32(b)
	if l == 0 || l > 256*1024 {
		return false, nil, "length"
	}
	if uint64(len(b)-4) < uint64(l) {
		return false, nil, "truncated"
	}
	body := b[4 : 4+l]
	if body[0] != sshFxpVersion {
		return false, nil, "type"
	}
	body = body[1:]
	if len(body) < 4 {
		return false, nil, "short-version"
	}
	if v := binary.BigEndian.Uint32(body); v != 3 {
		return false, nil, "version"
	}
	body = body[4:]
	str := func() (string, bool) {
		if len(body) < 4 {
			return "", false
		}
		n := binary.BigEndian.Uint32(body)
		if uint64(n) > uint64(len(body)-4) {
			return "", false
		}
		s := string(body[4 : 4+n])
		body = body[4+n:]
		return s, true
	}
	for len(body) > 0 {
		n, ok1 := str()
		if !ok1 {
			return false, nil, "malformed-list"
		}
		d, ok2 := str()
		if !ok2 {
			return false, nil, "malformed-list"
		}
		list = append(list, c19Pair{n, d})
	}
	return true, list, ""
}

var c19PairAlphabet = func() []c19Pair {
	var ps []c19Pair
	for _, n := range []string{"", "a", "fsync@openssh.com"} {
		for _, d := range []string{"", "1"} {
			ps = append(ps, c19Pair{n, d})
		}
	}
	return ps
}()

// c19Lists: every list of 0..maxLen pairs over the six-pair alphabet (includes empty names, duplicates).
func c19Lists(maxLen int) [][]c19Pair {
	out := [][]c19Pair{nil}
	prev := [][]c19Pair{nil}
	for l := 1; l <= maxLen; l++ {
		var cur [][]c19Pair
		for _, p := range prev {
			for _, x := range c19PairAlphabet {
				cur = append(cur, append(append([]c19Pair{}, p...), x))
			}
		}
		out = append(out, cur...)
		prev = cur
	}
	return out
}

func c19Versions() []uint32 {
	seen := map[uint32]bool{}
	var out []uint32
	add := func(v uint32) {
		if !seen[v] {
			seen[v] = true
			out = append(out, v)
		}
	}
	for v := uint32(0); v <= 1000; v++ {
		add(v)
	}
	for b := 0; b < 32; b++ {
		add(3 ^ 1<<b)
	}
	for pos := 0; pos < 4; pos++ {
		for x := uint32(0); x < 256; x++ {
			add(3&^(0xff<<(8*pos)) | x<<(8*pos))
		}
	}
	add(1 << 31)
	add(1<<32 - 1)
	return out
}

type c19Reply struct {
	class string
	desc  string
	bytes []byte
}

func c19ListString(l []c19Pair) string {
	var s []string
	for _, p := range l {
		s = append(s, fmt.Sprintf("%q=%q", p.name, p.data))
	}
	return "[" + strings.Join(s, " ") + "]"
}

// c19Replies enumerates the peer answers of the handshake part.
func c19Replies(thorough bool, f func(c19Reply)) {
	all := c19Lists(3)
	reps := [][]c19Pair{nil, {{"a", "1"}}, {{"fsync@openssh.com", "1"}, {"", ""}}}
	vlists, tlists := all, all // the full product is cheap enough for every tier
	if thorough {              // thorough adds a dense version range
		for v := uint32(0); v < 1<<20; v++ {
			f(c19Reply{"version-dense", fmt.Sprintf("VERSION version=%d ext=[]", v), c19Version(sshFxpVersion, v, nil)})
		}
	}
	for _, v := range c19Versions() {
		for _, l := range vlists {
			f(c19Reply{"version", fmt.Sprintf("VERSION version=%d ext=%s", v, c19ListString(l)), c19Version(sshFxpVersion, v, l)})
		}
	}
	for _, l := range all {
		f(c19Reply{"list", fmt.Sprintf("VERSION version=3 ext=%s", c19ListString(l)), c19Version(sshFxpVersion, 3, l)})
	}
	for _, l := range tlists {
		p := c19Version(sshFxpVersion, 3, l)
		for k := 0; k < len(p); k++ { // the stream ends after k bytes
			f(c19Reply{"stream-cut", fmt.Sprintf("VERSION version=3 ext=%s cut after %d of %d bytes", c19ListString(l), k, len(p)), append([]byte{}, p[:k]...)})
		}
		for k := 0; k < len(p)-4; k++ { // the frame is k bytes long (length field says so)
			q := append([]byte{}, p[:4+k]...)
			binary.BigEndian.PutUint32(q, uint32(k))
			f(c19Reply{"frame-cut", fmt.Sprintf("VERSION version=3 ext=%s frame shortened to %d of %d bytes", c19ListString(l), k, len(p)-4), q})
		}
	}
	for t := 0; t < 256; t++ {
		for _, l := range reps {
			f(c19Reply{"type", fmt.Sprintf("type=%d version=3 ext=%s", t, c19ListString(l)), c19Version(byte(t), 3, l)})
		}
	}
	// well-formed packets of every other response kind (what a confused or refusing peer might send instead of
	// VERSION), with the ids 0 and 3, and every frame shortening of each
	var others []c19Reply
	for _, id := range []uint32{0, 3, 1<<32 - 1} {
		for code := uint32(0); code <= 9; code++ {
			others = append(others, c19Reply{"other-packet", fmt.Sprintf("STATUS id=%d code=%d", id, code), c19Pkt(sshFxpStatus, id, code, "msg", "en")})
		}
		others = append(others,
			c19Reply{"other-packet", fmt.Sprintf("STATUS id=%d code=0 without message", id), c19Pkt(sshFxpStatus, id, uint32(0))},
			c19Reply{"other-packet", fmt.Sprintf("HANDLE id=%d", id), c19Pkt(sshFxpHandle, id, "h")},
			c19Reply{"other-packet", fmt.Sprintf("DATA id=%d", id), c19Pkt(sshFxpData, id, "abc")},
			c19Reply{"other-packet", fmt.Sprintf("NAME id=%d", id), c19Pkt(sshFxpName, id, uint32(1), "n", "long n", uint32(0))},
			c19Reply{"other-packet", fmt.Sprintf("ATTRS id=%d", id), c19Pkt(sshFxpAttrs, id, uint32(0))},
			c19Reply{"other-packet", fmt.Sprintf("EXTENDED_REPLY id=%d", id), c19Pkt(sshFxpExtendedReply, id, "x")},
			c19Reply{"other-packet", fmt.Sprintf("INIT version=%d (echo)", id), c19Pkt(sshFxpInit, id)})
	}
	for _, o := range others {
		f(o)
		p := o.bytes
		for k := 0; k < len(p)-4; k++ {
			q := append([]byte{}, p[:4+k]...)
			binary.BigEndian.PutUint32(q, uint32(k))
			f(c19Reply{"other-packet-cut", fmt.Sprintf("%s, frame shortened to %d of %d bytes", o.desc, k, len(p)-4), q})
		}
	}
	// the length field of every extension name / data string replaced (the frame itself stays whole)
	for _, l := range [][]c19Pair{{{"a", "1"}}, {{"fsync@openssh.com", "1"}, {"b", ""}}} {
		p := c19Version(sshFxpVersion, 3, l)
		off := 9
		for si := 0; off+4 <= len(p); si++ {
			n := binary.BigEndian.Uint32(p[off:])
			for _, lf := range []uint32{n + 1, n + 4, 255, 1<<16 - 1, 1<<31 - 1, 1 << 31, 1<<32 - 5, 1<<32 - 4, 1<<32 - 3, 1<<32 - 2, 1<<32 - 1} {
				q := append([]byte{}, p...)
				binary.BigEndian.PutUint32(q[off:], lf)
				f(c19Reply{"string-length", fmt.Sprintf("VERSION version=3 ext=%s with the length of string %d set to %d", c19ListString(l), si, lf), q})
			}
			off += 4 + int(n)
		}
	}
	for _, l := range reps {
		p := c19Version(sshFxpVersion, 3, l)
		n := uint32(len(p) - 4)
		for _, lf := range []uint32{0, 1, 4, 5, n - 1, n + 1, 256 * 1024, 256*1024 + 1, 1<<31 - 1, 1 << 31, 1<<32 - 1} {
			q := append([]byte{}, p...)
			binary.BigEndian.PutUint32(q, lf)
			f(c19Reply{"length-field", fmt.Sprintf("VERSION version=3 ext=%s length field %d (frame has %d)", c19ListString(l), lf, n), q})
		}
	}
}

func c19WriterClosed(p *bpipe) bool {
	p.mu.Lock()
	defer p.mu.Unlock()
	return p.wclosed
}

// c19Settle waits (scheduler yields, bounded by a generous wall-clock limit) for the goroutine count to
// come back to base. The time bound only limits how long a genuine leak is waited for.
func c19Settle(base int) bool {
	if runtime.NumGoroutine() <= base || c19LeakSeen {
		return true
	}
	deadline := time.Now().Add(2 * time.Second)
	for n := 0; ; n++ {
		runtime.Gosched()
		if runtime.NumGoroutine() <= base {
			return true
		}
		if n%1000 == 999 && time.Now().After(deadline) {
			return false
		}
	}
}

// c19LeakSeen is set once a leak has been confirmed and reported: later cases are not waited for again
// (each wait costs the full bound), the verdict is already a violation.
var c19LeakSeen bool

var c19ProbeNames = []string{"", "a", "fsync@openssh.com", "zz", "A", "fsync@openssh.co", "hardlink@openssh.com", "posix-rename@openssh.com", "statvfs@openssh.com"}

// c19Handshake runs one peer answer and returns a verdict ("" = fine) with a key suffix.
func c19Handshake(r c19Reply) (key, msg, outcome string) {
	defer func() {
		if p := recover(); p != nil {
			key, msg, outcome = "c19-panic", fmt.Sprintf("NewClientPipe panics (%v) on the peer's answer: %s", p, r.desc), ""
		}
	}()
	want, list, why := c19Ref(r.bytes)
	base := runtime.NumGoroutine()
	s2c, c2s := newBPipe(), newBPipe()
	s2c.Write(r.bytes)
	s2c.CloseWrite() // the peer answers and hangs up
	cl, err := NewClientPipe(s2c, c2s)
	switch {
	case err == nil && !want:
		if cl != nil {
			cl.Close()
		}
		return "c19-accepts:" + why, fmt.Sprintf("NewClientPipe succeeds although the peer's answer is not a well-formed version-3 VERSION packet (%s): %s", why, r.desc), ""
	case err != nil && want:
		return "c19-rejects-valid", fmt.Sprintf("NewClientPipe fails with %q on a well-formed version-3 VERSION packet: %s", err, r.desc), ""
	case err != nil:
		if cl != nil {
			return "c19-fail-returns-client", "NewClientPipe returns both an error and a client: " + r.desc, ""
		}
		if !c19WriterClosed(c2s) {
			return "c19-fail-writer-open:" + why, fmt.Sprintf("NewClientPipe fails (%v) but leaves the writer open: %s", err, r.desc), ""
		}
		if !c19Settle(base) {
			return "c19-fail-leak:" + why, fmt.Sprintf("NewClientPipe fails (%v) and leaves %d goroutine(s) behind: %s", err, runtime.NumGoroutine()-base, r.desc), ""
		}
		return "", "", "rejected:" + why
	}
	// established: the reported extensions are exactly the advertised ones
	adv := map[string]map[string]bool{}
	for _, p := range list {
		if adv[p.name] == nil {
			adv[p.name] = map[string]bool{}
		}
		adv[p.name][p.data] = true
	}
	probe := append([]string{}, c19ProbeNames...)
	for n := range adv {
		probe = append(probe, n)
	}
	var bad string
	for _, n := range probe {
		d, has := cl.HasExtension(n)
		switch {
		case has && adv[n] == nil:
			bad = fmt.Sprintf("HasExtension(%q) = (%q, true) but the peer did not advertise it", n, d)
		case !has && adv[n] != nil:
			bad = fmt.Sprintf("HasExtension(%q) = false but the peer advertised it", n)
		case has && !adv[n][d]:
			bad = fmt.Sprintf("HasExtension(%q) reports data %q, the peer advertised %v", n, d, adv[n])
		}
	}
	if len(cl.ext) != len(adv) {
		bad = fmt.Sprintf("client knows %d extensions, the peer advertised %d distinct names", len(cl.ext), len(adv))
	}
	init := c2s.Written()
	if string(init) != string(c19Pkt(sshFxpInit, uint32(3))) {
		bad = fmt.Sprintf("client sent %x as INIT, want a version-3 INIT packet", init)
	}
	cl.Close()
	if bad != "" {
		return "c19-extensions-differ", bad + ": " + r.desc, ""
	}
	if !c19Settle(base) {
		return "c19-close-leak", fmt.Sprintf("%d goroutine(s) left after Close of an established client: %s", runtime.NumGoroutine()-base, r.desc), ""
	}
	return "", "", fmt.Sprintf("established with %d pairs (%d names)", len(list), len(adv))
}

func c19HandshakePart(c *reg.Ctx) *reg.Result {
	res := reg.NewResult(c.Part)
	var i int64
	counts := map[string]int{}
	c19Replies(!c.Quick(), func(r c19Reply) {
		i++
		counts[r.class]++
		if !c.Mine(i) || !res.Exhaustive {
			return
		}
		if c.Expired() {
			res.Exhaustive = false
			return
		}
		res.Case(r.desc)
		if i%4001 == 0 || i < 3 {
			res.Sample(map[string]string{"reply": r.desc, "bytes_hex": hex.EncodeToString(r.bytes)})
		}
		key, msg, out := c19Handshake(r)
		if key != "" && strings.Contains(key, "leak") {
			// a leak verdict must be stable: re-run the case three more times
			for k := 0; k < 3 && key != ""; k++ {
				key, msg, out = c19Handshake(r)
			}
		}
		if key != "" {
			if strings.Contains(key, "leak") {
				c19LeakSeen = true
			}
			res.Violate("C19", key, msg, map[string]string{"reply": r.desc, "bytes_hex": hex.EncodeToString(r.bytes)}, nil)
			return
		}
		res.Outcome(r.class + " -> " + out)
	})
	res.Notes["replies_by_class"] = counts
	res.Bound = fmt.Sprintf("%d peer answers: %v", i, counts)
	return res
}

// ---- File.Sync ---------------------------------------------------------------------------------

func c19SyncCase(list []c19Pair) (key, msg, outcome string) {
	s2c, c2s := newBPipe(), newBPipe()
	done := make(chan struct{})
	go func() { // scripted peer: VERSION with the list, then STATUS OK to whatever arrives
		defer close(done)
		defer s2c.CloseWrite()
		if _, err := readFrame(c2s); err != nil {
			return
		}
		s2c.Write(c19Version(sshFxpVersion, 3, list))
		for {
			f, err := readFrame(c2s)
			if err != nil {
				return
			}
			s2c.Write(c19Pkt(sshFxpStatus, f.id, uint32(sshFxOk), "", ""))
		}
	}()
	cl, err := NewClientPipe(s2c, c2s)
	if err != nil {
		c2s.CloseWrite()
		<-done
		return "c19-sync-setup", fmt.Sprintf("NewClientPipe failed: %v", err), ""
	}
	initLen := len(c2s.Written())
	f := &File{c: cl, path: "/x", handle: "h1"}
	serr := f.Sync()
	sent := c2s.Written()[initLen:]
	cl.Close()
	<-done
	advertised := false
	other := false
	for _, p := range list {
		if p.name == "fsync@openssh.com" {
			if p.data == "1" {
				advertised = true
			} else {
				other = true
			}
		}
	}
	desc := c19ListString(list)
	if !advertised {
		if len(sent) != 0 {
			return "c19-sync-sends-unadvertised", fmt.Sprintf("File.Sync wrote %x although the server advertised %s (no fsync@openssh.com \"1\")", sent, desc), ""
		}
		if serr == nil {
			return "c19-sync-ok-unadvertised", fmt.Sprintf("File.Sync returned nil although the server advertised %s", desc), ""
		}
		return "", "", "not advertised -> nothing sent, error returned"
	}
	if len(sent) == 0 {
		if other {
			return "", "", "advertised with conflicting duplicate -> nothing sent"
		}
		return "", "", "advertised -> nothing sent"
	}
	// what was sent must be one fsync extended request for the handle
	fs, rest := splitFrames(sent)
	want := c19Pkt(sshFxpExtended, fs[0].id, "fsync@openssh.com", "h1")
	if len(fs) != 1 || len(rest) != 0 || string(sent) != string(want) {
		return "c19-sync-bytes", fmt.Sprintf("File.Sync wrote %x, want one fsync@openssh.com request %x", sent, want), ""
	}
	if serr != nil {
		return "c19-sync-error", fmt.Sprintf("File.Sync returned %v although the peer answered SSH_FX_OK", serr), ""
	}
	return "", "", "advertised -> fsync request sent"
}

func c19SyncPart(c *reg.Ctx) *reg.Result {
	res := reg.NewResult(c.Part)
	var i int64
	lists := c19Lists(3)
	for _, l := range lists {
		i++
		if !c.Mine(i) {
			continue
		}
		if c.Expired() {
			res.Exhaustive = false
			break
		}
		res.Case(c19ListString(l))
		res.Sample("server advertises " + c19ListString(l) + "; File.Sync")
		key, msg, out := c19SyncCase(l)
		if key != "" {
			res.Violate("C19", key, msg, c19ListString(l), nil)
			continue
		}
		res.Outcome(out)
	}
	res.Bound = fmt.Sprintf("all %d extension lists of 0..3 pairs over names {\"\", a, fsync@openssh.com} x data {\"\", 1}", len(lists))
	return res
}

// ---- SetSFTPExtensions --------------------------------------------------------------------------

var c19Supported = []c19Pair{{"hardlink@openssh.com", "1"}, {"posix-rename@openssh.com", "1"}, {"statvfs@openssh.com", "2"}}

const c19Invalid = "bogus@example.org"

func c19ArgLists(maxLen int) [][]string {
	names := []string{c19Supported[0].name, c19Supported[1].name, c19Supported[2].name, c19Invalid}
	out := [][]string{nil}
	prev := [][]string{nil}
	for l := 1; l <= maxLen; l++ {
		var cur [][]string
		for _, p := range prev {
			for _, n := range names {
				cur = append(cur, append(append([]string{}, p...), n))
			}
		}
		out = append(out, cur...)
		prev = cur
	}
	return out
}

// c19Model applies one call to the model of the configured list.
func c19Model(cur []c19Pair, args []string) (next []c19Pair, valid bool) {
	var l []c19Pair
	for _, a := range args {
		found := false
		for _, s := range c19Supported {
			if s.name == a {
				l = append(l, s)
				found = true
			}
		}
		if !found {
			return cur, false
		}
	}
	return l, true
}

type c19Handler struct{ root string }

type c19Lister []os.FileInfo

func (l c19Lister) ListAt(out []os.FileInfo, off int64) (int, error) {
	if off >= int64(len(l)) {
		return 0, io.EOF
	}
	n := copy(out, l[off:])
	if n < len(out) {
		return n, io.EOF
	}
	return n, nil
}
func (h *c19Handler) Fileread(r *Request) (io.ReaderAt, error)  { return nil, os.ErrPermission }
func (h *c19Handler) Filewrite(r *Request) (io.WriterAt, error) { return nil, os.ErrPermission }
func (h *c19Handler) Filecmd(r *Request) error                  { return nil }
func (h *c19Handler) Filelist(r *Request) (ListerAt, error) {
	fi, err := os.Stat(filepath.Join(h.root, r.Filepath))
	if err != nil {
		return nil, err
	}
	return c19Lister{fi}, nil
}

func c19Serve(server, root string) *bSession {
	if server == "rs" {
		h := &c19Handler{root}
		return bServeRS(Handlers{h, h, h, h})
	}
	if server == "os-readonly" {
		return bServeOS(WithServerWorkingDirectory(root), ReadOnly())
	}
	return bServeOS(WithServerWorkingDirectory(root))
}

// c19VersionBytes returns the raw VERSION frame a fresh server of the kind sends.
func c19VersionBytes(server, root string) ([]byte, error) {
	s := c19Serve(server, root)
	defer s.Stop(nil)
	if _, err := s.Exchange(c19Pkt(sshFxpInit, uint32(3))); err != nil {
		return nil, err
	}
	return s.s2c.Written(), nil
}

func c19SetextPart(c *reg.Ctx) *reg.Result {
	res := reg.NewResult(c.Part)
	saved := sftpExtensions
	defer func() { sftpExtensions = saved }()
	root := scratchDir()
	defer os.RemoveAll(root)
	firsts := c19ArgLists(3)
	seconds := append([][]string{{"<none>"}}, c19ArgLists(3)...)
	var i int64
	total := len(firsts) * len(seconds)
	check := func(desc string, model []c19Pair, step string) bool {
		want := c19Version(sshFxpVersion, 3, model)
		for _, sv := range []string{"os", "rs"} {
			got, err := c19VersionBytes(sv, root)
			if err != nil {
				res.Violate("C19", "c19-setext-noversion:"+sv, fmt.Sprintf("%s: %s server did not answer INIT: %v", desc, sv, err), desc, nil)
				return false
			}
			if string(got) != string(want) {
				_, l, _ := c19Ref(got)
				res.Violate("C19", "c19-setext-version:"+sv+":"+step, fmt.Sprintf("%s: %s server advertises %s (%x), configured is %s", desc, sv, c19ListString(l), got, c19ListString(model)), desc, nil)
				return false
			}
		}
		return true
	}
outer:
	for _, x := range firsts {
		for _, y := range seconds {
			i++
			if !c.Mine(i) {
				continue
			}
			if c.Expired() {
				res.Exhaustive = false
				break outer
			}
			desc := fmt.Sprintf("SetSFTPExtensions(%q)", x)
			calls := [][]string{x}
			if len(y) != 1 || y[0] != "<none>" {
				desc += fmt.Sprintf("; SetSFTPExtensions(%q)", y)
				calls = append(calls, y)
			}
			res.Case(desc)
			res.Sample(desc)
			sftpExtensions = supportedSFTPExtensions // the package's initial state
			model := append([]c19Pair{}, c19Supported...)
			okSoFar := true
			for ci, args := range calls {
				var valid bool
				model, valid = c19Model(model, args)
				err := SetSFTPExtensions(args...)
				step := "valid-call"
				if !valid {
					step = "invalid-call"
				}
				if (err == nil) != valid {
					res.Violate("C19", "c19-setext-error:"+step, fmt.Sprintf("%s: call %d returned %v", desc, ci+1, err), desc, nil)
					okSoFar = false
					break
				}
				if !check(desc+fmt.Sprintf(" (after call %d)", ci+1), model, step) {
					okSoFar = false
					break
				}
			}
			if !okSoFar {
				continue
			}
			// every advertised extension is actually served by the os-backed server
			dir := filepath.Join(root, fmt.Sprintf("t%d", i))
			os.Mkdir(dir, 0o755)
			os.WriteFile(filepath.Join(dir, "f"), []byte("x"), 0o644)
			os.WriteFile(filepath.Join(dir, "g"), []byte("y"), 0o644)
			s := bServeOS(WithServerWorkingDirectory(dir))
			s.Exchange(c19Pkt(sshFxpInit, uint32(3)))
			asked := map[string]bool{}
			var served []string
			for _, p := range model {
				if asked[p.name] {
					continue
				}
				asked[p.name] = true
				var req []byte
				switch p.name {
				case "hardlink@openssh.com":
					req = c19Pkt(sshFxpExtended, uint32(9), p.name, "f", "f-link")
				case "posix-rename@openssh.com":
					req = c19Pkt(sshFxpExtended, uint32(9), p.name, "g", "g-renamed")
				case "statvfs@openssh.com":
					req = c19Pkt(sshFxpExtended, uint32(9), p.name, dir)
				}
				f, err := s.Exchange(req)
				code, isStatus := f.statusCode()
				if err != nil || f.id != 9 || (isStatus && code == sshFxOPUnsupported) || (!isStatus && f.typ != sshFxpExtendedReply) {
					res.Violate("C19", "c19-advertised-not-served:"+p.name, fmt.Sprintf("%s: the os-backed server advertises %q but answers a %s request with %v (err %v)", desc, p.name, p.name, f, err), desc, nil)
				}
				served = append(served, fmt.Sprintf("%s->%s", strings.SplitN(p.name, "@", 2)[0], c19FrameKind(f)))
			}
			s.Stop(nil)
			os.RemoveAll(dir)
			sort.Strings(served)
			res.Outcome(fmt.Sprintf("configured %s; %v", c19ListString(model), served))
		}
	}
	res.Bound = fmt.Sprintf("%d first calls (argument lists over 3 supported + 1 invalid name) x (none + %d second calls) = %d call sequences", len(firsts), len(seconds)-1, total)
	return res
}

func c19FrameKind(f frame) string {
	if c, ok := f.statusCode(); ok {
		return fx(c).String()
	}
	return fxp(f.typ).String()
}

// ---- other extended names ----------------------------------------------------------------------

func c19OtherNames() []string {
	seen := map[string]bool{}
	for _, s := range c19Supported {
		seen[s.name] = true
	}
	var out []string
	add := func(n string) {
		if !seen[n] {
			seen[n] = true
			out = append(out, n)
		}
	}
	alpha := []string{"a", "h", "@", ".", "-", "\x00"}
	add("")
	for _, a := range alpha {
		add(a)
		for _, b := range alpha {
			add(a + b)
		}
	}
	for _, real := range []string{"hardlink@openssh.com", "posix-rename@openssh.com", "statvfs@openssh.com", "fsync@openssh.com"} {
		add("fsync@openssh.com") // known to the client, not served by either server
		for k := 0; k < len(real); k++ {
			add(real[:k] + real[k+1:])                                // one character dropped
			add(real[:k] + "x" + real[k+1:])                          // one character replaced
			add(real[:k] + strings.ToUpper(real[k:k+1]) + real[k+1:]) // one character upper-cased
		}
		add(real + "x")
		add(real + "\x00")
		add(" " + real)
		add(strings.ToUpper(real))
		add(strings.SplitN(real, "@", 2)[0])
		add(strings.SplitN(real, "@", 2)[0] + "@openssh.org")
		add(strings.SplitN(real, "@", 2)[0] + "@")
	}
	// very long names (the request still fits a frame): whatever the server says about them has to fit one too
	add(strings.Repeat("\x00", 70000))
	add(strings.Repeat("n", 200000))
	add(strings.Repeat("z", 262100))
	return out
}

func c19UnknownPart(c *reg.Ctx) *reg.Result {
	res := reg.NewResult(c.Part)
	root := scratchDir()
	defer os.RemoveAll(root)
	os.WriteFile(filepath.Join(root, "f"), []byte("x"), 0o644)
	before := snapshotTree(root, true)
	names := c19OtherNames()
	payloads := [][]any{{}, {"f"}, {"f", "m"}}
	var i int64
	for _, n := range names {
		for pi, pl := range payloads {
			for _, sv := range []string{"os", "rs", "os-readonly"} {
				i++
				if !c.Mine(i) {
					continue
				}
				if c.Expired() {
					res.Exhaustive = false
					res.Bound = "deadline reached"
					return res
				}
				desc := fmt.Sprintf("%s server: EXTENDED %q with %d string argument(s), then STAT", sv, n, pi)
				res.Case(desc)
				res.Sample(desc)
				s := c19Serve(sv, root)
				if f, err := s.Exchange(c19Pkt(sshFxpInit, uint32(3))); err != nil || f.typ != sshFxpVersion {
					panic(fmt.Sprintf("c19: INIT: %v %v", f, err))
				}
				req := c19Pkt(sshFxpExtended, append([]any{uint32(5), n}, pl...)...)
				f, err := s.Exchange(req)
				code, isStatus := f.statusCode()
				class := "short"
				if len(n) > 2 {
					class = "near-miss"
				}
				replay := map[string]string{"server": sv, "name": n, "packet_hex": hex.EncodeToString(req)}
				if len(n) > 1000 {
					class = "long"
					desc = fmt.Sprintf("%s server: EXTENDED with a name of %d bytes (%q...) and %d string argument(s), then STAT", sv, len(n), n[:4], pi)
					replay["name"] = fmt.Sprintf("%d x %q", len(n), n[:1])
					delete(replay, "packet_hex")
				}
				if err == nil && len(f.body)+1 > maxMsgLength {
					res.Violate("C19", "c19-unknown-reply-too-long:"+sv, fmt.Sprintf("%s: the reply is a frame of %d bytes, more than the %d a client of this package accepts (the session ends there)", desc, len(f.body)+1, maxMsgLength), replay, nil)
				}
				if err != nil || !isStatus || code != sshFxOPUnsupported || f.id != 5 {
					res.Violate("C19", "c19-unknown-not-unsupported:"+sv+":"+class, fmt.Sprintf("%s: answered %v (err %v), want STATUS#5(SSH_FX_OP_UNSUPPORTED)", desc, f, err), replay, nil)
				}
				statPath := root
				if sv == "rs" {
					statPath = "/f"
				}
				g, err := s.Exchange(c19Pkt(sshFxpStat, uint32(6), statPath))
				if err != nil || g.typ != sshFxpAttrs || g.id != 6 {
					res.Violate("C19", "c19-unknown-ends-session:"+sv+":"+class, fmt.Sprintf("%s: the following STAT is answered %v (err %v), want ATTRS#6", desc, g, err), replay, nil)
				}
				s.Stop(nil)
				res.Outcome(fmt.Sprintf("%s %s -> %s, then %s", sv, class, c19FrameKind(f), fxp(g.typ)))
			}
		}
	}
	if after := snapshotTree(root, true); after != before {
		res.Violate("C19", "c19-unknown-side-effect", "unsupported extended requests changed the served tree", nil, nil)
	}
	res.Notes["names"] = len(names)
	res.Bound = fmt.Sprintf("%d names (all strings of length <= 2 over {a,h,@,.,-,NUL}; every 1-character deletion, replacement and upper-casing of the three served names and fsync@openssh.com; suffix/prefix/domain variants) x 3 payload shapes x 3 servers (os-backed, os-backed read-only, request server)", len(names))
	return res
}

func init() {
	reg.Part("C19/handshake", c19HandshakePart)
	reg.Part("C19/sync", c19SyncPart)
	reg.Part("C19/setext", c19SetextPart)
	reg.Part("C19/unknown", c19UnknownPart)
	reg.Prop(&reg.Property{
		ID:    "C19",
		Level: "model_checking",
		Rule: "handshake: every peer answer of an explicit set (versions 0..1000 (thorough: 0..2^20), every one-bit and one-byte variation of 3, 2^31, 2^32-1; all extension lists of 0..3 pairs over 3 names x 2 data values incl. empty and duplicate names; every stream truncation and every frame shortening of a valid VERSION packet; every type byte; well-formed STATUS (every code), HANDLE, DATA, NAME, ATTRS, EXTENDED_REPLY and INIT packets with ids 0, 3 and 2^32-1 and every frame shortening of each; length-field mutations) run through NewClientPipe and judged by a reference parser (distinct = each answer); " +
			"sync: File.Sync against every advertised list, written bytes inspected; setext: every sequence of one or two SetSFTPExtensions calls with argument lists of length <= 3 over {3 supported names, 1 invalid name}, VERSION bytes of both servers compared with a model and each advertised extension requested from the os-backed server; " +
			"unknown: every extended name of a finite set (short strings, near-misses of the real names) sent to both servers followed by a STAT",
		Assumptions: []string{
			"the scripted peer writes its answer and hangs up; the client is given in-memory pipes (no SSH layer)",
			"a goroutine leak is decided by runtime.NumGoroutine after a yield loop bounded by 2 s and must be stable over 3 re-runs to be reported; the bound only limits waiting for a real leak",
			"with duplicate names in an advertised list HasExtension may report any of the advertised data values",
			"sftpExtensions is package-level state: saved/restored, one case at a time per process",
			"'every other name' is the finite set described in the rule; the three served names with malformed payloads are C07's subject",
		},
		Jobs: func(tier string) []reg.Job {
			hs := 16
			return []reg.Job{
				{Part: "C19/handshake", Build: "plain", Shards: hs, BudgetS: 80, Procs: 1, Label: "client handshake vs scripted peer"},
				{Part: "C19/sync", Build: "plain", Shards: 2, BudgetS: 60, Procs: 1, Label: "File.Sync extension guard"},
				{Part: "C19/setext", Build: "plain", Shards: 8, BudgetS: 80, Procs: 1, Label: "SetSFTPExtensions sequences vs VERSION bytes, advertised => served"},
				{Part: "C19/unknown", Build: "plain", Shards: 4, BudgetS: 60, Procs: 1, Label: "other extended names => OP_UNSUPPORTED, session continues"},
				// served also when two requests of one extension are in flight at once: every schedule with <= d deviations
				{Part: "C19/sched", Build: "instr-w2", Args: map[string]string{"server": "os", "progs": "extpair", "bound": map[bool]string{false: "2", true: "3"}[tier == "thorough"]}, Shards: 8, BudgetS: 100,
					Label: "os W=2 two pipelined requests of each advertised extension, under the scheduler"},
			}
		},
	})
}
