//go:build verif

package sftp

// Program-corpus halves of C02 and C18 (one deterministic schedule per program, so that a missing
// response is a deadlock and not a hang): every request program up to depth 4 over a
// small alphabet, pipelined in one burst against both real servers, allocator off and on.

import (
	"bytes"
	"fmt"
	"strings"

	"verif/explore"
	"verif/reg"
	"verif/vsched"
)

type corpSym struct {
	name string
	typ  byte
	mk   func(id uint32, server string) []byte
	// usesH1: names handle "1"; closesH1: closes it; stat: carries file times (os server)
	usesH1, closesH1, times bool
}

func corpusAlphabet() []corpSym {
	nm := func(server, n string) string {
		if server == "os" {
			return n
		}
		return "/" + n
	}
	return []corpSym{
		{name: "read1@0", usesH1: true, mk: func(id uint32, s string) []byte {
			return mustPkt(&sshFxpReadPacket{ID: id, Handle: "1", Offset: 0, Len: 3})
		}},
		{name: "read1@4", usesH1: true, mk: func(id uint32, s string) []byte {
			return mustPkt(&sshFxpReadPacket{ID: id, Handle: "1", Offset: 4, Len: 4})
		}},
		{name: "write1@8", usesH1: true, mk: func(id uint32, s string) []byte {
			return mustPkt(&sshFxpWritePacket{ID: id, Handle: "1", Offset: 8, Length: 2, Data: []byte("xy")})
		}},
		{name: "stat", times: true, mk: func(id uint32, s string) []byte { return mustPkt(&sshFxpStatPacket{ID: id, Path: nm(s, "g")}) }},
		{name: "lstat-missing", mk: func(id uint32, s string) []byte { return mustPkt(&sshFxpLstatPacket{ID: id, Path: nm(s, "missing")}) }},
		{name: "readdir2", times: true, mk: func(id uint32, s string) []byte { return mustPkt(&sshFxpReaddirPacket{ID: id, Handle: "2"}) }},
		{name: "fstat1", usesH1: true, times: true, mk: func(id uint32, s string) []byte { return mustPkt(&sshFxpFstatPacket{ID: id, Handle: "1"}) }},
		{name: "realpath", mk: func(id uint32, s string) []byte { return mustPkt(&sshFxpRealpathPacket{ID: id, Path: "/a/../b"}) }},
		{name: "read9", mk: func(id uint32, s string) []byte {
			return mustPkt(&sshFxpReadPacket{ID: id, Handle: "9", Offset: 0, Len: 3})
		}},
		{name: "ext-unknown", mk: func(id uint32, s string) []byte {
			return framed(sshFxpExtended, bstr(be32(nil, id), "nope@example.com"))
		}},
		// requests of the wrong kind for their handle: a READDIR on the file handle, a READ on the directory handle
		{name: "readdir1", usesH1: true, mk: func(id uint32, s string) []byte { return mustPkt(&sshFxpReaddirPacket{ID: id, Handle: "1"}) }},
		{name: "read2", mk: func(id uint32, s string) []byte {
			return mustPkt(&sshFxpReadPacket{ID: id, Handle: "2", Offset: 0, Len: 3})
		}},
		{name: "close1", usesH1: true, closesH1: true, mk: func(id uint32, s string) []byte { return mustPkt(&sshFxpClosePacket{ID: id, Handle: "1"}) }},
	}
}

// corpusRun executes one program against a fresh server under the scheduler (one deterministic
// schedule: a missing response is a deadlock, not a hang) and returns the run.
func corpusRun(server string, alloc bool, prog []corpSym, fixedRoot string) (r *srvRun, dead bool, dump string) {
	spec := &srvSpec{server: server, alloc: alloc, hangup: -1, fixedRoot: fixedRoot}
	if server == "rsput" {
		// request server whose handlers do not implement OpenFileWriter: the read+write handle is served by fileput
		spec.server, spec.putOnly = "rs", true
	}
	if spec.server == "rs" {
		spec.files = map[string]string{"/f": progInit, "/g": "gggg"}
		spec.setup = [][]byte{mustPkt(&sshFxpOpenPacket{ID: 1, Path: "/f", Pflags: sshFxfRead | sshFxfWrite}), mustPkt(&sshFxpOpendirPacket{ID: 2, Path: "/"})}
	} else {
		spec.files = map[string]string{"f": progInit, "g": "gggg"}
		spec.dirs = []string{"d"}
		spec.setup = [][]byte{mustPkt(&sshFxpOpenPacket{ID: 1, Path: "f", Pflags: sshFxfRead | sshFxfWrite}), mustPkt(&sshFxpOpendirPacket{ID: 2, Path: "d"})}
	}
	for i, sym := range prog {
		spec.burst = append(spec.burst, sym.mk(uint32(10+i), server))
	}
	sc := func() (func(), func(*vsched.Exec) explore.Verdict) {
		return func() { r = spec.start(); r.drive() }, func(e *vsched.Exec) explore.Verdict {
			dead, dump = e.Deadlock, e.DeadDump
			if e.Panic != nil {
				dead, dump = true, fmt.Sprint("panic: ", e.Panic)
			}
			return explore.Verdict{Outcome: "run"}
		}
	}
	explore.Run(explore.Config{Prop: "corpus", Strategy: "db", Bound: 0, AllowBlock: true}, sc)
	r.cleanup()
	return
}

func corpusPrograms(depth int, f func([]corpSym)) {
	alpha := corpusAlphabet()
	prog := make([]corpSym, 0, depth)
	var rec func()
	rec = func() {
		if len(prog) > 0 {
			f(append([]corpSym(nil), prog...))
		}
		if len(prog) == depth {
			return
		}
		for _, a := range alpha {
			prog = append(prog, a)
			rec()
			prog = prog[:len(prog)-1]
		}
	}
	rec()
}

func progName(p []corpSym) string {
	var s []string
	for _, x := range p {
		s = append(s, x.name)
	}
	return strings.Join(s, " ")
}

// deterministic reports whether the program's responses are schedule independent.
func deterministic(p []corpSym, server string) bool {
	closed := false
	for _, x := range p {
		if x.closesH1 {
			if closed {
				return true && false // a second close of the same handle after a first is sequential and deterministic, but keep it simple
			}
			closed = true
			continue
		}
		if closed && x.usesH1 {
			return false // a request naming the handle behind its close races with the close
		}
		if server == "os" && x.times {
			return false // carries mtime/atime of files created at run time
		}
	}
	// a close behind reads/writes is ordered by the dispatcher; reads and writes touch disjoint bytes
	return true
}

func init() {
	reg.Part("C02/programs", func(c *reg.Ctx) *reg.Result {
		res := reg.NewResult(c.Part)
		depth := c.ArgInt("depth", 3)
		var i int64
		for _, server := range []string{"rs", "rsput", "os"} {
			for _, alloc := range []bool{false, true} {
				corpusPrograms(depth, func(p []corpSym) {
					i++
					if !c.Mine(i) || !res.Exhaustive {
						return
					}
					if c.Expired() {
						res.Exhaustive = false
						return
					}
					r, dead, dump := corpusRun(server, alloc, p, "")
					key := fmt.Sprintf("%s alloc=%v [%s]", server, alloc, progName(p))
					res.Case(key)
					res.Sample(key)
					res.Transitions += int64(len(p))
					bad := r.orderOracle(true)
					if dead {
						bad = "server did not finish: " + dump + " " + bad
					}
					if bad != "" {
						res.Violate("C02", "c02-programs:"+server, key+": "+bad, map[string]any{"server": server, "alloc": alloc, "program": progName(p)}, nil)
					}
				})
			}
		}
		res.States = res.Evaluations
		res.Bound = fmt.Sprintf("all programs up to depth %d over %d symbols x 3 servers (request server with and without OpenFileWriter handlers, os-backed) x allocator off/on", depth, len(corpusAlphabet()))
		return res
	})
	reg.Part("C18/programs", func(c *reg.Ctx) *reg.Result {
		res := reg.NewResult(c.Part)
		depth := c.ArgInt("depth", 3)
		var i int64
		pairRoot := ""
		for _, server := range []string{"rs", "rsput", "os"} {
			corpusPrograms(depth, func(p []corpSym) {
				if !deterministic(p, server) {
					return
				}
				i++
				if !c.Mine(i) || !res.Exhaustive {
					return
				}
				if c.Expired() {
					res.Exhaustive = false
					return
				}
				if pairRoot == "" {
					pairRoot = scratchDir()
				}
				r0, dead0, _ := corpusRun(server, false, p, pairRoot)
				r1, dead1, dump1 := corpusRun(server, true, p, pairRoot)
				f0, f1 := r0.frames, r1.frames
				key := fmt.Sprintf("%s [%s]", server, progName(p))
				res.Case(key)
				res.Sample(key)
				res.Transitions += int64(2 * len(p))
				b0, b1 := responseBytes(f0), responseBytes(f1)
				bad := ""
				if len(b0) != len(b1) {
					bad = fmt.Sprintf("%d responses without the allocator, %d with it", len(b0), len(b1))
				}
				for k := range b0 {
					if bad == "" && !bytes.Equal(b0[k], b1[k]) {
						bad = fmt.Sprintf("response %d differs: without allocator %x (%s), with allocator %x (%s)", k, b0[k], f0[k], b1[k], f1[k])
					}
				}
				if dead0 || dead1 {
					bad = "server did not finish: " + dump1
				}
				a := r1.alloc
				if bad == "" && (a.countUsedPages() != 0 || a.countAvailablePages() != 0) {
					bad = fmt.Sprintf("after Serve returned the allocator still has %d used / %d available pages", a.countUsedPages(), a.countAvailablePages())
				}
				if bad != "" {
					res.Violate("C18", "c18-programs:"+server, key+": "+bad, map[string]any{"server": server, "program": progName(p)}, nil)
				}
			})
		}
		res.States = res.Evaluations
		res.Bound = fmt.Sprintf("all schedule-independent programs up to depth %d over %d symbols x 3 servers (request server with and without OpenFileWriter handlers, os-backed), with vs without allocator", depth, len(corpusAlphabet()))
		return res
	})
	c02ExtraJobs = func(tier string) []reg.Job {
		d, b := "4", 100
		if tier == "thorough" {
			d, b = "5", 900
		}
		return []reg.Job{{Part: "C02/programs", Build: "instr", Args: map[string]string{"depth": d}, Shards: 16, BudgetS: b, Procs: 1, Label: "corpus: all programs to depth " + d + " (one schedule each)"}}
	}
	c18ExtraJobs = func(tier string) []reg.Job {
		d, b := "4", 100
		if tier == "thorough" {
			d, b = "5", 900
		}
		return []reg.Job{{Part: "C18/programs", Build: "instr", Args: map[string]string{"depth": d}, Shards: 16, BudgetS: b, Procs: 1, Label: "corpus: programs with vs without allocator, depth " + d + " (one schedule each)"}}
	}
}
