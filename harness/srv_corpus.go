//go:build verif

package sftp

// Free-running (Engine B) halves of C02 and C18: every request program up to depth 4 over a
// small alphabet, pipelined in one burst against both real servers, allocator off and on.

import (
	"bytes"
	"fmt"
	"os"
	"path/filepath"
	"strings"

	"verif/reg"
)

type corpSym struct {
	name string
	typ  byte
	mk   func(id uint32, server string) []byte
	// usesH1: names handle "1"; closesH1: closes it; stat: carries file times (os server)
	usesH1, closesH1, times bool
}

func corpusAlphabet() []corpSym {
	nm := func(server, n string) string {
		if server == "os" {
			return n
		}
		return "/" + n
	}
	return []corpSym{
		{name: "read1@0", usesH1: true, mk: func(id uint32, s string) []byte {
			return mustPkt(&sshFxpReadPacket{ID: id, Handle: "1", Offset: 0, Len: 3})
		}},
		{name: "read1@4", usesH1: true, mk: func(id uint32, s string) []byte {
			return mustPkt(&sshFxpReadPacket{ID: id, Handle: "1", Offset: 4, Len: 4})
		}},
		{name: "write1@8", usesH1: true, mk: func(id uint32, s string) []byte {
			return mustPkt(&sshFxpWritePacket{ID: id, Handle: "1", Offset: 8, Length: 2, Data: []byte("xy")})
		}},
		{name: "stat", times: true, mk: func(id uint32, s string) []byte { return mustPkt(&sshFxpStatPacket{ID: id, Path: nm(s, "g")}) }},
		{name: "lstat-missing", mk: func(id uint32, s string) []byte { return mustPkt(&sshFxpLstatPacket{ID: id, Path: nm(s, "missing")}) }},
		{name: "readdir2", times: true, mk: func(id uint32, s string) []byte { return mustPkt(&sshFxpReaddirPacket{ID: id, Handle: "2"}) }},
		{name: "fstat1", usesH1: true, times: true, mk: func(id uint32, s string) []byte { return mustPkt(&sshFxpFstatPacket{ID: id, Handle: "1"}) }},
		{name: "realpath", mk: func(id uint32, s string) []byte { return mustPkt(&sshFxpRealpathPacket{ID: id, Path: "/a/../b"}) }},
		{name: "read9", mk: func(id uint32, s string) []byte {
			return mustPkt(&sshFxpReadPacket{ID: id, Handle: "9", Offset: 0, Len: 3})
		}},
		{name: "ext-unknown", mk: func(id uint32, s string) []byte {
			return framed(sshFxpExtended, bstr(be32(nil, id), "nope@example.com"))
		}},
		{name: "close1", usesH1: true, closesH1: true, mk: func(id uint32, s string) []byte { return mustPkt(&sshFxpClosePacket{ID: id, Handle: "1"}) }},
	}
}

// corpusRun executes one program against a fresh server and returns the response frames.
func corpusRun(server string, alloc bool, prog []corpSym) (*bSession, []frame, []byte, []byte, string) {
	var s *bSession
	root := ""
	if server == "rs" {
		h := newBHandler()
		h.files["/f"] = []byte(progInit)
		h.files["/g"] = []byte("gggg")
		var opts []RequestServerOption
		if alloc {
			opts = append(opts, WithRSAllocator())
		}
		s = bServeRS(h.handlers(), opts...)
	} else {
		root = scratchDir()
		os.WriteFile(filepath.Join(root, "f"), []byte(progInit), 0o644)
		os.WriteFile(filepath.Join(root, "g"), []byte("gggg"), 0o644)
		os.Mkdir(filepath.Join(root, "d"), 0o755)
		opts := []ServerOption{WithServerWorkingDirectory(root)}
		if alloc {
			opts = append(opts, WithAllocator())
		}
		s = bServeOS(opts...)
	}
	var reqTypes []byte
	var reqIDs []uint32
	ex := func(p []byte) {
		reqTypes = append(reqTypes, pktType(p))
		reqIDs = append(reqIDs, pktID(p))
		s.Exchange(p)
	}
	ex(mustPkt(&sshFxInitPacket{Version: 3}))
	if server == "rs" {
		ex(mustPkt(&sshFxpOpenPacket{ID: 1, Path: "/f", Pflags: sshFxfRead | sshFxfWrite}))
		ex(mustPkt(&sshFxpOpendirPacket{ID: 2, Path: "/"}))
	} else {
		ex(mustPkt(&sshFxpOpenPacket{ID: 1, Path: "f", Pflags: sshFxfRead | sshFxfWrite}))
		ex(mustPkt(&sshFxpOpendirPacket{ID: 2, Path: "d"}))
	}
	var burst []byte
	for i, sym := range prog {
		p := sym.mk(uint32(10+i), server)
		reqTypes = append(reqTypes, pktType(p))
		reqIDs = append(reqIDs, pktID(p))
		burst = append(burst, p...)
	}
	s.c2s.Write(burst)
	// collect exactly len(prog) responses with the connection open, then hang up
	var frames []frame
	for len(frames) < len(prog) {
		f, err := readFrame(s.s2c)
		if err != nil {
			break
		}
		frames = append(frames, f)
	}
	s.Stop(nil)
	if root != "" {
		os.RemoveAll(root)
	}
	return s, frames, reqTypes[3:], nil, fmt.Sprint(reqIDs[3:])
}

// bHandler is a thread-safe byte-slice handler for free-running request-server sessions.
type bHandler struct {
	vh    *vhandler
	files map[string][]byte
}

func newBHandler() *bHandler { return &bHandler{files: map[string][]byte{}} }

func (h *bHandler) handlers() Handlers {
	m := InMemHandler()
	fs := m.FileGet.(*root)
	for n, c := range h.files {
		f := &memFile{name: n, modtime: vinfo{}.ModTime(), content: append([]byte(nil), c...)}
		fs.files[n] = f
	}
	fs.rootFile.modtime = vinfo{}.ModTime()
	return m
}

func corpusPrograms(depth int, f func([]corpSym)) {
	alpha := corpusAlphabet()
	prog := make([]corpSym, 0, depth)
	var rec func()
	rec = func() {
		if len(prog) > 0 {
			f(append([]corpSym(nil), prog...))
		}
		if len(prog) == depth {
			return
		}
		for _, a := range alpha {
			prog = append(prog, a)
			rec()
			prog = prog[:len(prog)-1]
		}
	}
	rec()
}

func progName(p []corpSym) string {
	var s []string
	for _, x := range p {
		s = append(s, x.name)
	}
	return strings.Join(s, " ")
}

// deterministic reports whether the program's responses are schedule independent.
func deterministic(p []corpSym, server string) bool {
	closed := false
	for _, x := range p {
		if x.closesH1 {
			if closed {
				return true && false // a second close of the same handle after a first is sequential and deterministic, but keep it simple
			}
			closed = true
			continue
		}
		if closed && x.usesH1 {
			return false // a request naming the handle behind its close races with the close
		}
		if server == "os" && x.times {
			return false // carries mtime/atime of files created at run time
		}
	}
	// a close behind reads/writes is ordered by the dispatcher; reads and writes touch disjoint bytes
	return true
}

func init() {
	reg.Part("C02/programs", func(c *reg.Ctx) *reg.Result {
		res := reg.NewResult(c.Part)
		depth := c.ArgInt("depth", 3)
		var i int64
		for _, server := range []string{"rs", "os"} {
			for _, alloc := range []bool{false, true} {
				corpusPrograms(depth, func(p []corpSym) {
					i++
					if !c.Mine(i) || !res.Exhaustive {
						return
					}
					if c.Expired() {
						res.Exhaustive = false
						return
					}
					_, frames, reqTypes, _, ids := corpusRun(server, alloc, p)
					key := fmt.Sprintf("%s alloc=%v [%s]", server, alloc, progName(p))
					res.Case(key)
					res.Sample(key)
					var st []string
					for _, f := range frames {
						st = append(st, f.String())
					}
					res.Transitions += int64(len(p))
					bad := ""
					if len(frames) != len(p) {
						bad = fmt.Sprintf("%d requests, %d responses", len(p), len(frames))
					}
					for k, f := range frames {
						if bad != "" {
							break
						}
						if f.id != uint32(10+k) {
							bad = fmt.Sprintf("response %d carries id %d, want %d (request ids %s): %v", k, f.id, 10+k, ids, st)
						} else if !legalResponse(reqTypes[k], f.typ) {
							bad = fmt.Sprintf("response %d to %s has illegal type %s", k, fxp(reqTypes[k]), fxp(f.typ))
						}
					}
					if bad != "" {
						res.Violate("C02", "c02-programs:"+server, key+": "+bad, map[string]any{"server": server, "alloc": alloc, "program": progName(p)}, nil)
					}
				})
			}
		}
		res.States = res.Evaluations
		res.Bound = fmt.Sprintf("all programs up to depth %d over %d symbols x 2 servers x allocator off/on", depth, len(corpusAlphabet()))
		return res
	})
	reg.Part("C18/programs", func(c *reg.Ctx) *reg.Result {
		res := reg.NewResult(c.Part)
		depth := c.ArgInt("depth", 3)
		var i int64
		for _, server := range []string{"rs", "os"} {
			corpusPrograms(depth, func(p []corpSym) {
				if !deterministic(p, server) {
					return
				}
				i++
				if !c.Mine(i) || !res.Exhaustive {
					return
				}
				if c.Expired() {
					res.Exhaustive = false
					return
				}
				_, f0, _, _, _ := corpusRun(server, false, p)
				s1, f1, _, _, _ := corpusRun(server, true, p)
				key := fmt.Sprintf("%s [%s]", server, progName(p))
				res.Case(key)
				res.Sample(key)
				res.Transitions += int64(2 * len(p))
				b0, b1 := responseBytes(f0), responseBytes(f1)
				bad := ""
				if len(b0) != len(b1) {
					bad = fmt.Sprintf("%d responses without the allocator, %d with it", len(b0), len(b1))
				}
				for k := range b0 {
					if bad == "" && !bytes.Equal(b0[k], b1[k]) {
						bad = fmt.Sprintf("response %d differs: without allocator %x (%s), with allocator %x (%s)", k, b0[k], f0[k], b1[k], f1[k])
					}
				}
				var a *allocator
				if s1.Srv != nil {
					a = s1.Srv.pktMgr.alloc
				} else {
					a = s1.RS.pktMgr.alloc
				}
				if bad == "" && (a.countUsedPages() != 0 || a.countAvailablePages() != 0) {
					bad = fmt.Sprintf("after Serve returned the allocator still has %d used / %d available pages", a.countUsedPages(), a.countAvailablePages())
				}
				if bad != "" {
					res.Violate("C18", "c18-programs:"+server, key+": "+bad, map[string]any{"server": server, "program": progName(p)}, nil)
				}
			})
		}
		res.States = res.Evaluations
		res.Bound = fmt.Sprintf("all schedule-independent programs up to depth %d over %d symbols x 2 servers, with vs without allocator", depth, len(corpusAlphabet()))
		return res
	})
	c02ExtraJobs = func(tier string) []reg.Job {
		d, b := "3", 100
		if tier == "thorough" {
			d, b = "4", 900
		}
		return []reg.Job{{Part: "C02/programs", Build: "plain", Args: map[string]string{"depth": d}, Shards: 16, BudgetS: b, Procs: 1, Label: "free-running: all programs to depth " + d}}
	}
	c18ExtraJobs = func(tier string) []reg.Job {
		d, b := "3", 100
		if tier == "thorough" {
			d, b = "4", 900
		}
		return []reg.Job{{Part: "C18/programs", Build: "plain", Args: map[string]string{"depth": d}, Shards: 16, BudgetS: b, Procs: 1, Label: "free-running: program corpus with vs without allocator, depth " + d}}
	}
}
