//go:build verif

package sftp

// C12, the shared position: goroutines that share one File call the offset-moving methods (Write, Read,
// Seek) at the same time. Each of them is one atomic step on an os.File; so the results, the final position
// and the final content must be those of SOME interleaving of the callers' programs run against a plain
// (content, position) model. Every schedule with at most d deviations, against the permuting peer.

import (
	"fmt"
	"io"
	"strings"

	"verif/explore"
	"verif/reg"
	"verif/vsched"
)

type posOp struct {
	kind string // "W", "R", "S"
	data string // W
	n    int    // R: length; S: offset (relative to the current position)
}

func (o posOp) String() string {
	switch o.kind {
	case "W":
		return fmt.Sprintf("Write(%q)", o.data)
	case "R":
		return fmt.Sprintf("Read(%d)", o.n)
	}
	return fmt.Sprintf("Seek(%d, current)", o.n)
}

type posModel struct {
	content []byte
	pos     int
}

func (m *posModel) apply(o posOp) string {
	switch o.kind {
	case "W":
		for len(m.content) < m.pos+len(o.data) {
			m.content = append(m.content, 0)
		}
		copy(m.content[m.pos:], o.data)
		m.pos += len(o.data)
		return fmt.Sprintf("n=%d", len(o.data))
	case "R":
		end := min(m.pos+o.n, len(m.content))
		d := ""
		if m.pos < end {
			d = string(m.content[m.pos:end])
		}
		m.pos += len(d)
		return fmt.Sprintf("n=%d %q", len(d), d)
	}
	m.pos += o.n
	return fmt.Sprintf("pos=%d", m.pos)
}

// posSerial: the outcomes ("results | final position | final content") of every interleaving of the programs.
func posSerial(init string, progs [][]posOp) map[string]bool {
	out := map[string]bool{}
	idx := make([]int, len(progs))
	res := make([][]string, len(progs))
	var rec func(m posModel)
	rec = func(m posModel) {
		done := true
		for g := range progs {
			if idx[g] < len(progs[g]) {
				done = false
				m2 := posModel{content: append([]byte(nil), m.content...), pos: m.pos}
				r := m2.apply(progs[g][idx[g]])
				idx[g]++
				res[g] = append(res[g], r)
				rec(m2)
				res[g] = res[g][:len(res[g])-1]
				idx[g]--
			}
		}
		if done {
			out[posOutcome(res, m.pos, string(m.content))] = true
		}
	}
	rec(posModel{content: []byte(init)})
	return out
}

func posOutcome(res [][]string, pos int, content string) string {
	var s []string
	for g, r := range res {
		s = append(s, fmt.Sprintf("g%d[%s]", g, strings.Join(r, "; ")))
	}
	return fmt.Sprintf("%s | position %d | content %q", strings.Join(s, " "), pos, content)
}

func posScenario(c0 string, progs [][]posOp) explore.Scenario {
	const init = "abcdefgh"
	legal := posSerial(init, progs)
	return func() (func(), func(*vsched.Exec) explore.Verdict) {
		var env *cliEnv
		var pf *pfile
		res := make([][]string, len(progs))
		var bad []string
		var finalPos int64
		var posErr, closeErr, finalErr error
		body := func() {
			env = newCliEnv(func(e *cliEnv) {
				e.peer.Permute = true
				pf = &pfile{data: []byte(init)}
				e.peer.files["/f"] = pf
				e.peer.handles["h1"] = pf
				e.peer.hpath["h1"] = "/f"
			}, MaxPacketUnchecked(2), MaxConcurrentRequestsPerFile(2))
			if env.err != nil {
				return
			}
			f := &File{c: env.c, path: "/f", handle: "h1"}
			var g vgroup
			for gi := range progs {
				gi := gi
				g.Go(fmt.Sprintf("caller%d", gi), func() {
					for _, o := range progs[gi] {
						switch o.kind {
						case "W":
							n, err := f.Write([]byte(o.data))
							if err != nil {
								bad = append(bad, fmt.Sprintf("%s: %v", o, err))
							}
							res[gi] = append(res[gi], fmt.Sprintf("n=%d", n))
						case "R":
							b := make([]byte, o.n)
							n, err := f.Read(b)
							if err != nil && err != io.EOF {
								bad = append(bad, fmt.Sprintf("%s: %v", o, err))
							}
							res[gi] = append(res[gi], fmt.Sprintf("n=%d %q", n, b[:n]))
						case "S":
							p, err := f.Seek(int64(o.n), io.SeekCurrent)
							if err != nil {
								bad = append(bad, fmt.Sprintf("%s: %v", o, err))
							}
							res[gi] = append(res[gi], fmt.Sprintf("pos=%d", p))
						}
					}
				})
			}
			g.Wait()
			finalPos, posErr = f.Seek(0, io.SeekCurrent)
			closeErr = f.Close()
			finalErr = env.c.Close()
		}
		judge := func(e *vsched.Exec) explore.Verdict {
			v := explore.Verdict{}
			if e.Deadlock {
				v.Outcome = "DEADLOCK"
				return v
			}
			if env.err != nil {
				v.Bad, v.Key = "NewClientPipe: "+env.err.Error(), "c12-newclient"
				return v
			}
			got := posOutcome(res, int(finalPos), string(pf.data))
			v.Outcome = got
			v.Sample = map[string]any{"programs": fmt.Sprint(progs), "outcome": got}
			fail := func(k, f string, a ...any) explore.Verdict {
				v.Bad = fmt.Sprintf("one File shared by goroutines running %v: ", progs) + fmt.Sprintf(f, a...) + "\n  wire: " + env.peer.wireString()
				v.Key = strings.ToLower(c0) + "-pos-" + k
				return v
			}
			if len(env.peer.Bad) > 0 {
				return fail("peer", "peer observed protocol violation: %v", env.peer.Bad)
			}
			if len(bad) > 0 || posErr != nil || closeErr != nil || finalErr != nil {
				return fail("error", "calls failed on a fault-free connection: %v; Seek %v, Close %v, Client.Close %v", bad, posErr, closeErr, finalErr)
			}
			if !legal[got] {
				var l []string
				for k := range legal {
					l = append(l, k)
				}
				return fail("not-serial", "observed\n    %s\n  which no interleaving of the calls on a file with one position produces; the interleavings give\n    %s", got, strings.Join(l, "\n    "))
			}
			return v
		}
		return body, judge
	}
}

func posPrograms() [][][]posOp {
	W := func(d string) posOp { return posOp{kind: "W", data: d} }
	R := func(n int) posOp { return posOp{kind: "R", n: n} }
	S := func(n int) posOp { return posOp{kind: "S", n: n} }
	return [][][]posOp{
		{{W("ABCD")}, {W("EF")}},
		{{R(4)}, {R(2)}},
		{{R(2)}, {W("XY")}},
		{{W("AB"), R(2)}, {S(1)}},
		{{W("AB")}, {R(2)}, {S(2)}},
		// a Read reaching two whole chunks past the end of the file (several chunks report an end of file, in any order), then a Write at the position it left
		{{S(5), R(8), W("Z")}, {S(0)}},
	}
}

func init() {
	reg.Part("C12/sharedpos", sharedPosPart)
	reg.Part("C01/sharedpos", sharedPosPart) // C01's clause: what is written through a File is, at the intended offsets, what the served file then contains
}

func init() {
	const r = "; shared position: goroutines sharing one File call Write/Read/Seek at the same time against the permuting peer, all schedules with <= d deviations; oracle: results, final position and final content are those of some interleaving of the calls on a (content, position) model"
	c12Prop.Rule += r
	c01Prop.Rule += r
}

func sharedPosPart(c *reg.Ctx) *reg.Result {
	{
		total := reg.NewResult(c.Part)
		minDone := 1 << 30
		for i, progs := range posPrograms() {
			if c.Expired() {
				total.Exhaustive = false
				break
			}
			r := explore.Run(explore.Config{Prop: c.Property, Strategy: "db", Bound: c.ArgInt("bound", 2), Ctx: c, Label: c.Part}, posScenario(c.Property, progs))
			total.Evaluations += r.Evaluations
			total.States += r.States
			total.Transitions += r.Transitions
			total.Distinct += r.Distinct
			for k, v := range r.Outcomes {
				total.Outcomes[fmt.Sprintf("s%d:%s", i, k)] += v
			}
			for _, sm := range r.Samples {
				total.Sample(sm)
			}
			for _, v := range r.Violations {
				total.Violate(c.Property, v.Key, v.Msg, map[string]any{"programs": fmt.Sprint(progs), "schedule": v.Replay}, v.Trace)
			}
			if !r.Exhaustive {
				total.Exhaustive = false
			}
			if r.EngineError != "" {
				total.EngineError = r.EngineError
				break
			}
			if d, ok := r.Notes["db_completed"].(int); ok && d < minDone {
				minDone = d
			}
		}
		if minDone == 1<<30 {
			minDone = -1
		}
		total.Notes["db_completed"] = minDone
		total.Notes["db_target"] = c.ArgInt("bound", 2)
		return total
	}
}

// ---------------------------------------------------------------------------------------------
// C01, two transfers at once through ONE Client (two Files, two goroutines): what each call moves is what its own
// source / file holds, whatever the other call does at the same time. Every schedule with <= d deviations.

type twoSpec struct {
	a, b string // "ReadFrom" (sequential upload), "ReadFromC" (concurrent upload), "WriteTo", "Write"
}

func twoScenario(s twoSpec) explore.Scenario {
	return func() (func(), func(*vsched.Exec) explore.Verdict) {
		var env *cliEnv
		files := map[string]*pfile{}
		res := make([]string, 2)
		var bad []string
		var finalErr error
		srcs := []string{"AAAAAA", "bbbbbb"}
		body := func() {
			env = newCliEnv(func(e *cliEnv) {
				e.peer.Permute = true
				for i, h := range []string{"h1", "h2"} {
					f := &pfile{}
					if s.a == "WriteTo" && i == 0 || s.b == "WriteTo" && i == 1 {
						f.data = []byte(srcs[i])
					}
					files[h] = f
					e.peer.files["/"+h] = f
					e.peer.handles[h] = f
					e.peer.hpath[h] = "/" + h
				}
			}, MaxPacketUnchecked(2), MaxConcurrentRequestsPerFile(2), UseConcurrentWrites(s.a == "ReadFromC" || s.b == "ReadFromC"))
			if env.err != nil {
				return
			}
			var g vgroup
			for i, kind := range []string{s.a, s.b} {
				i, kind := i, kind
				f := &File{c: env.c, path: fmt.Sprintf("/h%d", i+1), handle: fmt.Sprintf("h%d", i+1)}
				g.Go(fmt.Sprintf("caller%d", i), func() {
					switch kind {
					case "ReadFrom", "ReadFromC":
						var src io.Reader = strings.NewReader(srcs[i])
						if kind == "ReadFrom" {
							src = io.MultiReader(src) // hides Len/Size: the sequential path
						}
						n, err := f.ReadFrom(src)
						res[i] = fmt.Sprintf("%s n=%d", kind, n)
						if err != nil {
							bad = append(bad, fmt.Sprintf("%s on file %d: %v", kind, i+1, err))
						}
					case "Write":
						n, err := f.Write([]byte(srcs[i]))
						res[i] = fmt.Sprintf("Write n=%d", n)
						if err != nil {
							bad = append(bad, fmt.Sprintf("Write on file %d: %v", i+1, err))
						}
					case "WriteTo":
						var out strings.Builder
						n, err := f.WriteTo(&out)
						res[i] = fmt.Sprintf("WriteTo n=%d got=%q", n, out.String())
						if err != nil {
							bad = append(bad, fmt.Sprintf("WriteTo on file %d: %v", i+1, err))
						}
					}
				})
			}
			g.Wait()
			finalErr = env.c.Close()
		}
		judge := func(e *vsched.Exec) explore.Verdict {
			v := explore.Verdict{}
			if e.Deadlock {
				v.Outcome = "DEADLOCK"
				return v
			}
			if env.err != nil {
				v.Bad, v.Key = "NewClientPipe: "+env.err.Error(), "c01-two-newclient"
				return v
			}
			v.Outcome = fmt.Sprintf("%v | %q %q", res, files["h1"].data, files["h2"].data)
			v.Sample = map[string]any{"calls": fmt.Sprint(s), "outcome": v.Outcome}
			fail := func(k, f string, a ...any) explore.Verdict {
				v.Bad = fmt.Sprintf("%s on file 1 || %s on file 2 through one Client: ", s.a, s.b) + fmt.Sprintf(f, a...) + "\n  wire: " + env.peer.wireString()
				v.Key = "c01-two-" + k
				return v
			}
			if len(env.peer.Bad) > 0 {
				return fail("peer", "peer observed protocol violation: %v", env.peer.Bad)
			}
			if len(bad) > 0 || finalErr != nil {
				return fail("error", "calls failed on a fault-free connection: %v; Client.Close %v", bad, finalErr)
			}
			for i, kind := range []string{s.a, s.b} {
				h := fmt.Sprintf("h%d", i+1)
				want := fmt.Sprintf("%s n=%d", kind, len(srcs[i]))
				if kind == "WriteTo" {
					want = fmt.Sprintf("WriteTo n=%d got=%q", len(srcs[i]), srcs[i])
				}
				if res[i] != want {
					return fail("result", "call %d returned %q, want %q", i+1, res[i], want)
				}
				if string(files[h].data) != srcs[i] {
					return fail("content", "file %d holds %q, its call transferred %q", i+1, files[h].data, srcs[i])
				}
			}
			return v
		}
		return body, judge
	}
}

func init() {
	reg.Part("C01/twofiles", func(c *reg.Ctx) *reg.Result {
		total := reg.NewResult(c.Part)
		minDone := 1 << 30
		for i, s := range []twoSpec{{"ReadFrom", "ReadFrom"}, {"ReadFromC", "ReadFromC"}, {"Write", "ReadFrom"}, {"WriteTo", "WriteTo"}, {"WriteTo", "ReadFrom"}} {
			if c.Expired() {
				total.Exhaustive = false
				break
			}
			r := explore.Run(explore.Config{Prop: c.Property, Strategy: "db", Bound: c.ArgInt("bound", 2), Ctx: c, Label: c.Part}, twoScenario(s))
			total.Evaluations += r.Evaluations
			total.States += r.States
			total.Transitions += r.Transitions
			total.Distinct += r.Distinct
			for k, v := range r.Outcomes {
				total.Outcomes[fmt.Sprintf("s%d:%s", i, k)] += v
			}
			for _, sm := range r.Samples {
				total.Sample(sm)
			}
			for _, v := range r.Violations {
				total.Violate(c.Property, v.Key, v.Msg, map[string]any{"calls": fmt.Sprint(s), "schedule": v.Replay}, v.Trace)
			}
			if !r.Exhaustive {
				total.Exhaustive = false
			}
			if r.EngineError != "" {
				total.EngineError = r.EngineError
				break
			}
			if d, ok := r.Notes["db_completed"].(int); ok && d < minDone {
				minDone = d
			}
		}
		if minDone == 1<<30 {
			minDone = -1
		}
		total.Notes["db_completed"] = minDone
		total.Notes["db_target"] = c.ArgInt("bound", 2)
		return total
	})
}
