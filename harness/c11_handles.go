//go:build verif

package sftp

// C11: handles are unique, die on close, and all resources are released exactly once.
// Sessions = all sequences over a small request alphabet, executed lock-step against the real
// servers under the scheduler (one deterministic schedule: hang = deadlock, leak = thread table),
// the connection ending after the last request of every sequence (every prefix is itself a
// sequence) and, in the byte-cut variants, inside the following packet. Hang-up while requests
// are still in the workers is explored with deviation-bounded schedules.

import (
	"context"
	"errors"
	"fmt"
	"io"
	"os"
	"path/filepath"
	"strings"

	"verif/explore"
	"verif/reg"
	"verif/vsched"
)

// vopen is one object handed out by an open/opendir handler call.
type vopen struct {
	h        *c11Handler
	kind     string // "r", "w", "rw", "dir", "stat"
	name     string
	seq      int
	Closes   int
	TErrs    int
	ctx      context.Context
	Calls    int
	failList bool // ListAt reports a non-EOF error
}

func (o *vopen) ReadAt(b []byte, off int64) (int, error) {
	vsched.Env("open.read", o, false, nil)
	o.Calls++
	o.h.calls++
	if o.h.closeEntered > 0 {
		o.h.callsAfterCloseEntered++
	}
	if o.Closes > 0 {
		o.h.bad("ReadAt on object #%d (%s) after its Close", o.seq, o.name)
	}
	d := o.h.data[o.name]
	if off >= int64(len(d)) {
		return 0, io.EOF
	}
	n := copy(b, d[off:])
	if n < len(b) {
		return n, io.EOF
	}
	return n, nil
}

func (o *vopen) WriteAt(b []byte, off int64) (int, error) {
	vsched.Env("open.write", o, false, nil)
	o.Calls++
	o.h.calls++
	if o.h.closeEntered > 0 {
		o.h.callsAfterCloseEntered++
	}
	if o.Closes > 0 {
		o.h.bad("WriteAt on object #%d (%s) after its Close", o.seq, o.name)
	}
	d := o.h.data[o.name]
	for int64(len(d)) < off+int64(len(b)) {
		d = append(d, 0)
	}
	copy(d[off:], b)
	o.h.data[o.name] = d
	return len(b), nil
}

func (o *vopen) ListAt(out []os.FileInfo, off int64) (int, error) {
	vsched.Env("open.listat", o, false, nil)
	o.Calls++
	o.h.calls++
	if o.Closes > 0 {
		o.h.bad("ListAt on object #%d (%s) after its Close", o.seq, o.name)
	}
	if o.failList {
		return 0, errors.New("listing failed")
	}
	infos := []os.FileInfo{vinfo{name: "f", size: 3}, vinfo{name: "g", size: 3}}
	if o.kind == "stat" {
		infos = infos[:1]
	}
	if off >= int64(len(infos)) {
		return 0, io.EOF
	}
	n := copy(out, infos[off:])
	if n < len(out) {
		return n, io.EOF
	}
	return n, nil
}

func (o *vopen) Close() error {
	vsched.Env("open.close", o, false, nil)
	if o.h.SlowClose {
		o.h.closeEntered++
		vsched.Env("open.close-exit", o, false, nil)
	}
	o.Closes++
	if o.h.CloseErr {
		return errors.New("close failed (final flush)")
	}
	return nil
}

func (o *vopen) TransferError(err error) {
	vsched.Env("open.terr", o, false, nil)
	o.TErrs++
}

type c11Handler struct {
	CloseErr               bool // every object's Close reports an error (the handle must die all the same)
	SlowClose              bool // Close has separate enter and exit points (a slow flush)
	closeEntered           int
	callsAfterCloseEntered int
	data                   map[string][]byte
	objs                   []*vopen
	calls                  int // handler object calls (for "adds nothing to the call log")
	cmds                   int
	Bad                    []string
}

func (h *c11Handler) bad(f string, a ...any) { h.Bad = append(h.Bad, fmt.Sprintf(f, a...)) }

func (h *c11Handler) newObj(kind string, r *Request) *vopen {
	o := &vopen{h: h, kind: kind, name: r.Filepath, seq: len(h.objs), ctx: r.Context()}
	h.objs = append(h.objs, o)
	return o
}

func (h *c11Handler) Fileread(r *Request) (io.ReaderAt, error) {
	vsched.Env("h.fileread", h, false, nil)
	if strings.HasPrefix(r.Filepath, "/deny") {
		return nil, os.ErrPermission
	}
	return h.newObj("r", r), nil
}
func (h *c11Handler) Filewrite(r *Request) (io.WriterAt, error) {
	vsched.Env("h.filewrite", h, false, nil)
	if strings.HasPrefix(r.Filepath, "/deny") {
		return nil, os.ErrPermission
	}
	return h.newObj("w", r), nil
}
func (h *c11Handler) OpenFile(r *Request) (WriterAtReaderAt, error) {
	vsched.Env("h.openfile", h, false, nil)
	if strings.HasPrefix(r.Filepath, "/deny") {
		return nil, os.ErrPermission
	}
	return h.newObj("rw", r), nil
}
func (h *c11Handler) Filecmd(r *Request) error {
	vsched.Env("h.filecmd", h, false, nil)
	h.cmds++
	return nil
}
func (h *c11Handler) Filelist(r *Request) (ListerAt, error) {
	vsched.Env("h.filelist", h, false, nil)
	if strings.HasPrefix(r.Filepath, "/deny") {
		return nil, os.ErrPermission
	}
	if r.Method == "List" {
		return h.newObj("dir", r), nil
	}
	o := h.newObj("stat", r)
	o.failList = strings.HasPrefix(r.Filepath, "/faillist")
	return o, nil
}

// c11Sym is one symbol of the session alphabet.
type c11Sym struct {
	kind string // open openw openrw openfail opendir opendirfail close closebogus read write readdir fstat stat
	h    int    // 1-based index into the handles issued so far (0 = none)
}

func (s c11Sym) String() string {
	if s.h > 0 {
		return fmt.Sprintf("%s%d", s.kind, s.h)
	}
	return s.kind
}

func c11Alphabet(maxH int, full bool) []c11Sym {
	a := []c11Sym{{"open", 0}, {"openrw", 0}, {"openfail", 0}, {"opendir", 0}, {"opendirfail", 0}, {"closebogus", 0}, {"stat", 0}, {"statfail", 0}}
	if full {
		a = append(a, c11Sym{"openw", 0})
	}
	for h := 1; h <= maxH; h++ {
		a = append(a, c11Sym{"close", h}, c11Sym{"read", h}, c11Sym{"write", h}, c11Sym{"readdir", h})
		if h == 1 {
			a = append(a, c11Sym{"alias", h}, c11Sym{"fstat", h}, c11Sym{"fsetstat", h})
		} else if full {
			a = append(a, c11Sym{"fstat", h}, c11Sym{"fsetstat", h})
		}
	}
	return a
}

type c11Session struct {
	server   string
	alloc    bool
	closeErr bool
	srvClose bool // the session is ended by the application calling RequestServer.Close(), not by the peer
	syms     []c11Sym
	cut      int // >=0: after the lock-step part, write only that many bytes of one more OPEN packet, then hang up
}

func (s c11Session) String() string {
	var p []string
	for _, x := range s.syms {
		p = append(p, x.String())
	}
	end := ""
	if s.srvClose {
		end = " ended-by-RequestServer.Close"
	}
	return fmt.Sprintf("%s alloc=%v closeerr=%v [%s] cut=%d%s", s.server, s.alloc, s.closeErr, strings.Join(p, " "), s.cut, end)
}

func fdCount() int {
	es, err := os.ReadDir("/proc/self/fd")
	if err != nil {
		return -1
	}
	return len(es)
}

func c11Scenario(s c11Session) explore.Scenario {
	return func() (func(), func(*vsched.Exec) explore.Verdict) {
		var h *c11Handler
		var root string
		var issued []string       // handle strings in issue order
		open := map[string]bool{} // model: handles currently open
		objOf := map[string]int{} // rs: handle -> index into h.objs
		var bad []string
		var trace []string
		fd0 := -1
		var served bool
		body := func() {
			in, out := NewVPipe("c2s"), NewVPipe("s2c")
			conn := &vduplex{in: in, out: out}
			var serve func() error
			var rsrv *RequestServer
			nm := func(n string) string { return "/" + n }
			if s.server == "rs" {
				h = &c11Handler{data: map[string][]byte{"/f": []byte("abc"), "/g": []byte("xyz")}, CloseErr: s.closeErr}
				var opts []RequestServerOption
				if s.alloc {
					opts = append(opts, WithRSAllocator())
				}
				rsrv = NewRequestServer(conn, Handlers{h, h, h, h}, opts...)
				serve = rsrv.Serve
			} else {
				root = scratchDir()
				os.WriteFile(filepath.Join(root, "f"), []byte("abc"), 0o644)
				os.Mkdir(filepath.Join(root, "d"), 0o755)
				fd0 = fdCount()
				gcOff()
				opts := []ServerOption{WithServerWorkingDirectory(root)}
				if s.alloc {
					opts = append(opts, WithAllocator())
				}
				sv, err := NewServer(conn, opts...)
				if err != nil {
					panic(err)
				}
				serve = sv.Serve
				nm = func(n string) string { return n }
			}
			vsched.GoNamed("serve", "harness", func() {
				serve()
				out.CloseWrite()
				vsched.Env("served", conn, false, nil)
				served = true
			})
			exch := func(p []byte) (frame, bool) {
				in.Write(p)
				f, err := readFrame(out)
				if err != nil {
					bad = append(bad, "no response: "+err.Error())
					return f, false
				}
				return f, true
			}
			if _, ok := exch(mustPkt(&sshFxInitPacket{Version: 3})); !ok {
				return
			}
			hstr := func(i int) string {
				if i >= 1 && i <= len(issued) {
					return issued[i-1]
				}
				return "99"
			}
			id := uint32(0)
			for _, sym := range s.syms {
				id++
				callsBefore, snapBefore := 0, ""
				if h != nil {
					callsBefore = h.calls
				} else {
					snapBefore = snapshotTree(root, false)
				}
				objsBefore := 0
				if h != nil {
					objsBefore = len(h.objs)
				}
				var p []byte
				hd := hstr(sym.h)
				if sym.kind == "alias" {
					// other spellings of an issued handle string were never issued: every request naming one must fail and
					// touch nothing; the handle itself is unaffected (the rest of the session keeps using it)
					for _, al := range []string{"0" + hd, "+" + hd, "00" + hd, hd + " ", " " + hd, hd + "\x00", "0x" + hd, hd + ".0"} {
						for k, mk := range []func(uint32) []byte{
							func(i uint32) []byte { return mustPkt(&sshFxpReadPacket{ID: i, Handle: al, Offset: 0, Len: 2}) },
							func(i uint32) []byte { return mustPkt(&sshFxpFstatPacket{ID: i, Handle: al}) },
							func(i uint32) []byte { return mustPkt(&sshFxpReaddirPacket{ID: i, Handle: al}) },
							func(i uint32) []byte { return mustPkt(&sshFxpClosePacket{ID: i, Handle: al}) },
						} {
							id++
							f, ok := exch(mk(id))
							if !ok {
								return
							}
							if code, isStatus := f.statusCode(); !isStatus || code == sshFxOk || f.id != id {
								bad = append(bad, fmt.Sprintf("request %d (read/fstat/readdir/close) on %q, a spelling of handle %q that was never issued, answered %s", k, al, hd, f))
							}
						}
					}
					if h != nil && (h.calls != callsBefore || len(h.objs) != objsBefore) {
						bad = append(bad, fmt.Sprintf("requests on never-issued spellings of handle %q reached the handlers (%d calls)", hd, h.calls-callsBefore))
					}
					if h == nil && snapshotTree(root, false) != snapBefore {
						bad = append(bad, fmt.Sprintf("requests on never-issued spellings of handle %q changed the served tree", hd))
					}
					trace = append(trace, sym.String()+"->refused")
					continue
				}
				switch sym.kind {
				case "open":
					p = mustPkt(&sshFxpOpenPacket{ID: id, Path: nm("f"), Pflags: sshFxfRead})
				case "openw":
					p = mustPkt(&sshFxpOpenPacket{ID: id, Path: nm("f"), Pflags: sshFxfWrite})
				case "openrw":
					p = mustPkt(&sshFxpOpenPacket{ID: id, Path: nm("f"), Pflags: sshFxfRead | sshFxfWrite})
				case "openfail":
					if s.server == "rs" {
						p = mustPkt(&sshFxpOpenPacket{ID: id, Path: "/deny/x", Pflags: sshFxfRead})
					} else {
						p = mustPkt(&sshFxpOpenPacket{ID: id, Path: "missing", Pflags: sshFxfRead})
					}
				case "opendir":
					if s.server == "rs" {
						p = mustPkt(&sshFxpOpendirPacket{ID: id, Path: "/"})
					} else {
						p = mustPkt(&sshFxpOpendirPacket{ID: id, Path: "d"})
					}
				case "opendirfail":
					if s.server == "rs" {
						p = mustPkt(&sshFxpOpendirPacket{ID: id, Path: "/deny/d"})
					} else {
						p = mustPkt(&sshFxpOpendirPacket{ID: id, Path: "f"})
					}
				case "close":
					p = mustPkt(&sshFxpClosePacket{ID: id, Handle: hd})
				case "closebogus":
					p = mustPkt(&sshFxpClosePacket{ID: id, Handle: "zz"})
					hd = "zz"
				case "read":
					p = mustPkt(&sshFxpReadPacket{ID: id, Handle: hd, Offset: 0, Len: 2})
				case "write":
					p = mustPkt(&sshFxpWritePacket{ID: id, Handle: hd, Offset: 0, Length: 2, Data: []byte("QQ")})
				case "readdir":
					p = mustPkt(&sshFxpReaddirPacket{ID: id, Handle: hd})
				case "fstat":
					p = mustPkt(&sshFxpFstatPacket{ID: id, Handle: hd})
				case "fsetstat": // attributes set through the handle (permissions only: no effect on the data)
					p = mustPkt(&sshFxpFsetstatPacket{ID: id, Handle: hd, Flags: sshFileXferAttrPermissions, Attrs: []byte{0, 0, 0x81, 0xa4}})
				case "stat":
					p = mustPkt(&sshFxpStatPacket{ID: id, Path: nm("f")})
				case "statfail": // the lister obtained for the lookup fails in ListAt (os server: missing path)
					p = mustPkt(&sshFxpLstatPacket{ID: id, Path: nm("faillist")})
				}
				f, ok := exch(p)
				if !ok {
					return
				}
				trace = append(trace, sym.String()+"->"+f.String())
				if f.id != id {
					bad = append(bad, fmt.Sprintf("%s: response id %d, want %d", sym, f.id, id))
				}
				code, isStatus := f.statusCode()
				switch sym.kind {
				case "open", "openw", "openrw", "opendir":
					if f.typ != sshFxpHandle {
						bad = append(bad, fmt.Sprintf("%s answered %s", sym, f))
						break
					}
					hs := string(f.body[8:])
					for _, old := range issued {
						if old == hs {
							bad = append(bad, fmt.Sprintf("handle %q issued twice in one session", hs))
						}
					}
					issued = append(issued, hs)
					open[hs] = true
					if h != nil {
						objOf[hs] = len(h.objs) - 1
					}
				case "openfail", "opendirfail":
					if !isStatus || code == sshFxOk {
						bad = append(bad, fmt.Sprintf("%s answered %s", sym, f))
					}
				case "close", "closebogus":
					if open[hd] {
						if !isStatus || (code != sshFxOk && !s.closeErr) {
							bad = append(bad, fmt.Sprintf("close of open handle %q answered %s", hd, f))
						}
						delete(open, hd)
						if h != nil {
							if o := h.objs[objOf[hd]]; o.ctx.Err() == nil {
								bad = append(bad, fmt.Sprintf("context of object #%d not cancelled although the CLOSE response for its handle is out", o.seq))
							}
						}
					} else if !isStatus || code == sshFxOk {
						bad = append(bad, fmt.Sprintf("close of handle %q, which is not open, answered %s", hd, f))
					}
				case "read", "write", "readdir", "fstat", "fsetstat":
					if !open[hd] {
						if !isStatus || code == sshFxOk {
							bad = append(bad, fmt.Sprintf("%s on handle %q, which is closed or was never issued, answered %s", sym.kind, hd, f))
						}
						if h != nil && (h.calls != callsBefore || len(h.objs) != objsBefore) {
							bad = append(bad, fmt.Sprintf("%s on stale handle %q reached the handlers (%d calls, %d new objects)", sym.kind, hd, h.calls-callsBefore, len(h.objs)-objsBefore))
						}
						if h == nil && snapshotTree(root, false) != snapBefore {
							bad = append(bad, fmt.Sprintf("%s on stale handle %q changed the served tree", sym.kind, hd))
						}
						// the requests that carry no payload and ask for nothing name a dead handle just the same
						var empty []byte
						switch sym.kind {
						case "write":
							empty = mustPkt(&sshFxpWritePacket{ID: id + 500, Handle: hd, Offset: 0, Length: 0, Data: []byte{}})
						case "read":
							empty = mustPkt(&sshFxpReadPacket{ID: id + 500, Handle: hd, Offset: 0, Len: 0})
						case "fsetstat":
							empty = mustPkt(&sshFxpFsetstatPacket{ID: id + 500, Handle: hd, Flags: 0, Attrs: []byte{}})
						}
						if empty != nil {
							f2, ok := exch(empty)
							if !ok {
								return
							}
							trace = append(trace, "empty "+sym.String()+"->"+f2.String())
							if c2, st := f2.statusCode(); f2.id != id+500 || !st || c2 == sshFxOk {
								bad = append(bad, fmt.Sprintf("%s of nothing on handle %q, which is closed or was never issued, answered %s", sym.kind, hd, f2))
							}
						}
					}
				}
				// contexts of still-open handles must not be cancelled yet
				if h != nil {
					for hs := range open {
						if o := h.objs[objOf[hs]]; o.ctx.Err() != nil {
							bad = append(bad, fmt.Sprintf("context of object #%d cancelled while its handle %q is still open", o.seq, hs))
						}
					}
				}
			}
			if s.cut >= 0 {
				p := mustPkt(&sshFxpOpenPacket{ID: 999, Path: nm("f"), Pflags: sshFxfRead})
				if s.cut < len(p) {
					in.Write(p[:s.cut])
				}
			}
			switch s.cut {
			case -2: // a complete frame: CLOSE #998 announcing a 10-byte handle and carrying none of it
				in.Write([]byte{0, 0, 0, 9, sshFxpClose, 0, 0, 3, 0xe6, 0, 0, 0, 10})
			case -3: // a complete frame of a packet type the protocol does not define
				in.Write([]byte{0, 0, 0, 5, 200, 0, 0, 3, 0xe7})
			}
			if s.srvClose && rsrv != nil {
				rsrv.Close() // a graceful stop by the application while handles may still be open
			}
			in.CloseWrite()
			for {
				if _, err := readFrame(out); err != nil {
					break
				}
			}
			vsched.Env("await-served", conn, true, func() bool { return served })
		}
		judge := func(e *vsched.Exec) explore.Verdict {
			v := explore.Verdict{Outcome: strings.Join(trace, " ")}
			v.Sample = map[string]any{"session": s.String(), "trace": trace}
			fail := func(key, f string, a ...any) explore.Verdict {
				v.Bad = s.String() + ": " + fmt.Sprintf(f, a...) + "\n  " + strings.Join(trace, " ")
				v.Key = key
				return v
			}
			defer func() {
				if root != "" {
					os.RemoveAll(root)
				}
			}()
			if e.Deadlock {
				return v
			}
			if len(bad) > 0 {
				k := bad[0]
				if i := strings.Index(k, " "); i > 0 {
					k = k[:i]
				}
				return fail("c11-session:"+s.server+":"+classify(bad[0]), "%s", strings.Join(bad, "; "))
			}
			if h != nil {
				if len(h.Bad) > 0 {
					return fail("c11-use-after-close", "%s", strings.Join(h.Bad, "; "))
				}
				stillOpen := map[int]bool{}
				for hs := range open {
					stillOpen[objOf[hs]] = true
				}
				for _, o := range h.objs {
					if o.Closes != 1 {
						return fail(fmt.Sprintf("c11-closes:%s:%d", o.kind, o.Closes), "object #%d (%s %s) was closed %d times by the time Serve returned, want exactly 1", o.seq, o.kind, o.name, o.Closes)
					}
					want := 0
					if stillOpen[o.seq] && o.kind != "dir" && o.kind != "stat" {
						want = 1
					}
					if o.TErrs != want {
						return fail(fmt.Sprintf("c11-terr:%s:%d", o.kind, o.TErrs), "object #%d (%s %s, handle still open at the end: %v) got %d transfer-error notifications, want %d", o.seq, o.kind, o.name, stillOpen[o.seq], o.TErrs, want)
					}
					if o.kind != "stat" && o.ctx.Err() == nil {
						return fail("c11-ctx-alive", "context of object #%d (%s) not cancelled after the session ended", o.seq, o.kind)
					}
				}
			} else if fd0 >= 0 {
				left := fdsUnder(root)
				gcOn()
				if len(left) > 0 {
					return fail("c11-fd-leak", "files of the served tree still open after Serve returned: %v", left)
				}
			}
			return v
		}
		return body, judge
	}
}

func classify(msg string) string {
	switch {
	case strings.Contains(msg, "issued twice"):
		return "handle-reuse"
	case strings.Contains(msg, "never-issued spellings") || strings.Contains(msg, "that was never issued, answered"):
		return "handle-alias-served"
	case strings.Contains(msg, "closed or was never issued"):
		return "stale-handle-ok"
	case strings.Contains(msg, "reached the handlers"):
		return "stale-handle-reaches-handler"
	case strings.Contains(msg, "changed the served tree"):
		return "stale-handle-changes-tree"
	case strings.Contains(msg, "not cancelled"):
		return "ctx-not-cancelled"
	case strings.Contains(msg, "cancelled while"):
		return "ctx-cancelled-early"
	case strings.Contains(msg, "not open, answered"):
		return "close-stale-ok"
	}
	return "other"
}

// sessions enumerates all sequences of exactly the given depth.
func c11Sequences(alpha []c11Sym, depth int, f func([]c11Sym)) {
	seq := make([]c11Sym, depth)
	var rec func(i, issued int)
	rec = func(i, issued int) {
		if i == depth {
			f(append([]c11Sym(nil), seq...))
			return
		}
		for _, a := range alpha {
			// a request may name handle k only if k <= issued+1 (one never-issued index is enough)
			if a.h > issued+1 {
				continue
			}
			seq[i] = a
			ni := issued
			if a.kind == "open" || a.kind == "openw" || a.kind == "openrw" || a.kind == "opendir" {
				ni++
			}
			rec(i+1, ni)
		}
	}
	rec(0, 0)
}

func init() {
	reg.Part("C11/sessions", func(c *reg.Ctx) *reg.Result {
		total := reg.NewResult(c.Part)
		server := c.Arg("server", "rs")
		depth := c.ArgInt("depth", 3)
		alpha := c11Alphabet(c.ArgInt("handles", 2), c.Arg("full", "0") == "1")
		cuts := []int{-1}
		if c.Arg("cuts", "0") == "1" {
			cuts = []int{-1, 1, 4, 5, 9, 13, 20, -2, -3} // -2 / -3: the session ends on a whole frame that does not decode (CLOSE with a short body / an undefined packet type)
		}
		var i int64
		sub := *c
		sub.NShards, sub.Shard = 1, 0
		for d := 1; d <= depth && total.Exhaustive; d++ {
			c11Sequences(alpha, d, func(seq []c11Sym) {
				for _, cut := range cuts {
					i++
					if !c.Mine(i) || !total.Exhaustive {
						continue
					}
					if c.Expired() {
						total.Exhaustive = false
						total.Bound = fmt.Sprintf("deadline hit inside depth %d", d)
						return
					}
					s := c11Session{server: server, alloc: c.Arg("alloc", "0") == "1", syms: seq, cut: cut, closeErr: c.Arg("closeerr", "0") == "1", srvClose: c.Arg("srvclose", "0") == "1"}
					r := explore.Run(explore.Config{Prop: "C11", Strategy: "db", Bound: 0, Ctx: &sub}, c11Scenario(s))
					total.Evaluations += r.Evaluations
					total.States += r.States
					total.Transitions += r.Transitions
					total.Distinct += r.Distinct
					for k, v := range r.Outcomes {
						if len(total.Outcomes) < 20000 {
							total.Outcomes[k] += v
						}
					}
					for _, sm := range r.Samples {
						total.Sample(sm)
					}
					for _, v := range r.Violations {
						total.Violate("C11", v.Key, v.Msg, map[string]any{"session": s.String()}, v.Trace)
					}
					if r.EngineError != "" {
						total.EngineError = r.EngineError
						total.Exhaustive = false
					}
				}
			})
		}
		if total.Bound == "" {
			total.Bound = fmt.Sprintf("all sessions up to depth %d over %d symbols", depth, len(alpha))
		}
		total.Notes["alphabet"] = fmt.Sprint(alpha)
		total.Notes["depth"] = depth
		return total
	})
	reg.Part("C11/hangup", func(c *reg.Ctx) *reg.Result {
		return runHangups(c)
	})
	reg.Prop(&reg.Property{
		ID:    "C11",
		Level: "model_checking",
		Rule: "all request sequences up to depth k over {open ok/failing, opendir ok/failing, close h_i, close bogus, read/write/readdir/fstat on h_i (open, closed or never issued)} with <= 2-3 handles, lock-step against both real servers under the scheduler (one schedule each; hang = deadlock), " +
			"the connection ending after every request and inside a following packet; plus hang-up while pipelined requests are still in the workers under all schedules with <= d deviations; distinct = distinct sessions / schedules",
		Assumptions: []string{"lock-step sessions are schedule independent (one request in flight)", "depth, handle and deviation bounds as reported"},
		Jobs: func(tier string) []reg.Job {
			j := func(label, build, server string, depth, handles int, full, cuts, alloc bool, budget int) reg.Job {
				a := map[string]string{"server": server, "depth": fmt.Sprint(depth), "handles": fmt.Sprint(handles)}
				if full {
					a["full"] = "1"
				}
				if cuts {
					a["cuts"] = "1"
				}
				if alloc {
					a["alloc"] = "1"
				}
				return reg.Job{Part: "C11/sessions", Build: build, Args: a, Shards: 16, BudgetS: budget, Label: label}
			}
			hj := func(label, build, server string, bound, budget int) reg.Job {
				return reg.Job{Part: "C11/hangup", Build: build, Args: map[string]string{"server": server, "bound": fmt.Sprint(bound)}, Shards: 16, BudgetS: budget, Label: label}
			}
			rsOnly := func(j reg.Job) bool { return j.Args["server"] != "os" }
			if tier == "thorough" {
				return withPolicies(tier, []reg.Job{
					j("rs sessions depth 5, 2 handles, full alphabet", "instr-w2", "rs", 5, 2, true, false, false, 900),
					j("rs sessions depth 4, 3 handles, byte cuts", "instr-w2", "rs", 4, 3, false, true, true, 900),
					func() reg.Job {
						x := j("rs sessions depth 4, handler Close returns an error", "instr-w2", "rs", 4, 2, true, false, false, 600)
						x.Args["closeerr"] = "1"
						return x
					}(),
					func() reg.Job {
						x := j("rs sessions depth 4, ended by RequestServer.Close()", "instr-w2", "rs", 4, 2, true, false, false, 600)
						x.Args["srvclose"] = "1"
						return x
					}(),
					j("os sessions depth 4, 2 handles, byte cuts", "instr-w2", "os", 4, 2, true, true, false, 900),
					hj("rs hang-up with requests in flight W=2 db4", "instr-w2", "rs", 4, 600),
					hj("rs hang-up with requests in flight W=8 db3", "instr", "rs", 3, 600),
					{Part: "C11/midclose", Build: "instr", Args: map[string]string{"bound": "4"}, Shards: 16, BudgetS: 600, Label: "rs: request sent while the handler's Close is running, W=8 db4"},
					hj("os hang-up with requests in flight W=2 db3", "instr-w2", "os", 3, 600),
				}, rsOnly)
			}
			return withPolicies(tier, []reg.Job{
				j("rs sessions depth 4, 2 handles", "instr-w2", "rs", 4, 2, false, false, false, 100),
				j("rs sessions depth 3, byte cuts, alloc", "instr-w2", "rs", 3, 2, false, true, true, 100),
				func() reg.Job {
					x := j("rs sessions depth 3, handler Close returns an error", "instr-w2", "rs", 3, 2, false, false, false, 100)
					x.Args["closeerr"] = "1"
					return x
				}(),
				func() reg.Job {
					x := j("rs sessions depth 3, ended by RequestServer.Close()", "instr-w2", "rs", 3, 2, false, false, false, 100)
					x.Args["srvclose"] = "1"
					return x
				}(),
				j("os sessions depth 3, 2 handles, byte cuts", "instr-w2", "os", 3, 2, false, true, false, 100),
				hj("rs hang-up with requests in flight W=2 db3", "instr-w2", "rs", 3, 100),
				{Part: "C11/midclose", Build: "instr-w2", Args: map[string]string{"bound": "4"}, Shards: 16, BudgetS: 100, Label: "rs: request sent while the handler's Close is running, db4"},
				hj("os hang-up with requests in flight W=2 db2", "instr-w2", "os", 2, 100),
			}, rsOnly)
		},
	})
}

// runHangups: open handles lock-step, pipeline requests, hang up at once.
func runHangups(c *reg.Ctx) *reg.Result {
	total := reg.NewResult(c.Part)
	server := c.Arg("server", "rs")
	bursts := [][]c11Sym{
		{{"read", 1}, {"write", 2}, {"close", 1}},
		{{"write", 2}, {"read", 1}, {"readdir", 3}},
		// (a read pipelined BEHIND the close of the same handle races with that close by design of the
		// worker pools; the property does not say who wins, so no burst contains that pattern)
		{{"close", 2}, {"read", 1}, {"open", 0}},
	}
	minDone := 1 << 30
	for bi, b := range bursts {
		if c.Expired() {
			total.Exhaustive = false
			break
		}
		r := explore.Run(explore.Config{Prop: "C11", Strategy: "db", Bound: c.ArgInt("bound", 2), Ctx: c, Label: c.Part}, c11HangupScenario(server, b))
		total.Evaluations += r.Evaluations
		total.States += r.States
		total.Transitions += r.Transitions
		total.Distinct += r.Distinct
		for k, v := range r.Outcomes {
			total.Outcomes[fmt.Sprintf("b%d:%s", bi, k)] += v
		}
		for _, sm := range r.Samples {
			total.Sample(sm)
		}
		for _, v := range r.Violations {
			total.Violate("C11", v.Key, v.Msg, map[string]any{"burst": fmt.Sprint(b), "schedule": v.Replay}, v.Trace)
		}
		if !r.Exhaustive {
			total.Exhaustive = false
		}
		if r.EngineError != "" {
			total.EngineError = r.EngineError
			break
		}
		if d, ok := r.Notes["db_completed"].(int); ok && d < minDone {
			minDone = d
		}
	}
	if minDone == 1<<30 {
		minDone = -1
	}
	total.Notes["db_completed"] = minDone
	total.Notes["db_target"] = c.ArgInt("bound", 2)
	return total
}

func c11HangupScenario(server string, burst []c11Sym) explore.Scenario {
	return func() (func(), func(*vsched.Exec) explore.Verdict) {
		var h *c11Handler
		var root string
		var served bool
		var nresp int
		body := func() {
			in, out := NewVPipe("c2s"), NewVPipe("s2c")
			conn := &vduplex{in: in, out: out}
			var serve func() error
			nm := func(n string) string { return "/" + n }
			dir := "/"
			if server == "rs" {
				h = &c11Handler{data: map[string][]byte{"/f": []byte("abc")}}
				serve = NewRequestServer(conn, Handlers{h, h, h, h}).Serve
			} else {
				root = scratchDir()
				os.WriteFile(filepath.Join(root, "f"), []byte("abc"), 0o644)
				os.Mkdir(filepath.Join(root, "d"), 0o755)
				gcOff()
				sv, err := NewServer(conn, WithServerWorkingDirectory(root))
				if err != nil {
					panic(err)
				}
				serve = sv.Serve
				nm = func(n string) string { return n }
				dir = "d"
			}
			vsched.GoNamed("serve", "harness", func() {
				serve()
				out.CloseWrite()
				vsched.Env("served", conn, false, nil)
				served = true
			})
			exch := func(p []byte) {
				in.Write(p)
				readFrame(out)
			}
			exch(mustPkt(&sshFxInitPacket{Version: 3}))
			exch(mustPkt(&sshFxpOpenPacket{ID: 1, Path: nm("f"), Pflags: sshFxfRead | sshFxfWrite})) // "1"
			exch(mustPkt(&sshFxpOpenPacket{ID: 2, Path: nm("f"), Pflags: sshFxfRead | sshFxfWrite})) // "2"
			exch(mustPkt(&sshFxpOpendirPacket{ID: 3, Path: dir}))                                    // "3"
			var all []byte
			for i, sym := range burst {
				id := uint32(10 + i)
				hd := fmt.Sprint(sym.h)
				switch sym.kind {
				case "read":
					all = append(all, mustPkt(&sshFxpReadPacket{ID: id, Handle: hd, Len: 2})...)
				case "write":
					all = append(all, mustPkt(&sshFxpWritePacket{ID: id, Handle: hd, Length: 2, Data: []byte("QQ")})...)
				case "close":
					all = append(all, mustPkt(&sshFxpClosePacket{ID: id, Handle: hd})...)
				case "readdir":
					all = append(all, mustPkt(&sshFxpReaddirPacket{ID: id, Handle: hd})...)
				case "open":
					all = append(all, mustPkt(&sshFxpOpenPacket{ID: id, Path: nm("f"), Pflags: sshFxfRead})...)
				}
			}
			in.Write(all)
			in.CloseWrite() // hang up without reading any response
			for {
				if _, err := readFrame(out); err != nil {
					break
				}
				nresp++
			}
			vsched.Env("await-served", conn, true, func() bool { return served })
		}
		judge := func(e *vsched.Exec) explore.Verdict {
			v := explore.Verdict{Outcome: fmt.Sprintf("responses=%d", nresp)}
			defer func() {
				if root != "" {
					os.RemoveAll(root)
				}
			}()
			if e.Deadlock {
				return v
			}
			if h != nil {
				var st []string
				for _, o := range h.objs {
					st = append(st, fmt.Sprintf("#%d:%s c%d t%d", o.seq, o.kind, o.Closes, o.TErrs))
				}
				v.Outcome += " " + strings.Join(st, ",")
				v.Sample = map[string]any{"burst": fmt.Sprint(burst), "objects": st}
				if len(h.Bad) > 0 {
					v.Bad, v.Key = strings.Join(h.Bad, "; "), "c11-hangup-use-after-close"
					return v
				}
				for _, o := range h.objs {
					if o.Closes != 1 {
						v.Bad = fmt.Sprintf("hang-up with %v in flight: object #%d (%s) closed %d times, want exactly 1 [%s]", burst, o.seq, o.kind, o.Closes, strings.Join(st, ","))
						v.Key = fmt.Sprintf("c11-hangup-closes:%s:%d", o.kind, o.Closes)
						return v
					}
					if o.TErrs > 1 {
						v.Bad = fmt.Sprintf("object #%d got %d transfer-error notifications", o.seq, o.TErrs)
						v.Key = "c11-hangup-terr"
						return v
					}
					if o.ctx.Err() == nil {
						v.Bad = fmt.Sprintf("context of object #%d not cancelled after the session ended", o.seq)
						v.Key = "c11-hangup-ctx"
						return v
					}
				}
			} else if left := fdsUnder(root); len(left) > 0 {
				v.Bad = fmt.Sprintf("hang-up with %v in flight: files of the served tree still open after Serve returned: %v", burst, left)
				v.Key = "c11-hangup-fd-leak"
			}
			gcOn()
			return v
		}
		return body, judge
	}
}

// c11MidCloseScenario: the driver sends CLOSE h, waits until the handler object's Close has been
// ENTERED (a slow Close: flushing), and only then sends a WRITE (or READ) naming h. The handle's
// close is under way, so the request must fail and must not reach the object.
func c11MidCloseScenario(kind string) explore.Scenario {
	return func() (func(), func(*vsched.Exec) explore.Verdict) {
		h := &c11Handler{data: map[string][]byte{"/f": []byte("abc")}, SlowClose: true}
		var late frame
		var gotLate bool
		var served bool
		body := func() {
			in, out := NewVPipe("c2s"), NewVPipe("s2c")
			conn := &vduplex{in: in, out: out}
			rs := NewRequestServer(conn, Handlers{h, h, h, h})
			vsched.GoNamed("serve", "harness", func() {
				rs.Serve()
				out.CloseWrite()
				vsched.Env("served", conn, false, nil)
				served = true
			})
			exch := func(p []byte) frame {
				in.Write(p)
				f, _ := readFrame(out)
				return f
			}
			exch(mustPkt(&sshFxInitPacket{Version: 3}))
			exch(mustPkt(&sshFxpOpenPacket{ID: 1, Path: "/f", Pflags: sshFxfRead | sshFxfWrite}))
			in.Write(mustPkt(&sshFxpClosePacket{ID: 2, Handle: "1"}))
			vsched.Env("await-close-entered", h, true, func() bool { return h.closeEntered > 0 })
			if kind == "write" {
				in.Write(mustPkt(&sshFxpWritePacket{ID: 3, Handle: "1", Offset: 0, Length: 2, Data: []byte("QQ")}))
			} else {
				in.Write(mustPkt(&sshFxpReadPacket{ID: 3, Handle: "1", Offset: 0, Len: 2}))
			}
			for i := 0; i < 2; i++ {
				f, err := readFrame(out)
				if err != nil {
					break
				}
				if f.id == 3 {
					late, gotLate = f, true
				}
			}
			in.CloseWrite()
			for {
				if _, err := readFrame(out); err != nil {
					break
				}
			}
			vsched.Env("await-served", conn, true, func() bool { return served })
		}
		judge := func(e *vsched.Exec) explore.Verdict {
			v := explore.Verdict{Outcome: fmt.Sprintf("late=%v calls-after-close=%d", late, h.callsAfterCloseEntered)}
			v.Sample = map[string]any{"kind": kind, "late_reply": late.String()}
			if e.Deadlock {
				return v
			}
			if !gotLate {
				v.Bad, v.Key = "no reply to the "+kind+" sent while the handle was being closed", "c11-midclose-noreply"
				return v
			}
			if c, ok := late.statusCode(); !ok || c == sshFxOk {
				v.Bad = fmt.Sprintf("%s sent after the handler's Close had been entered was answered %s (the handle is being closed: it must fail)", kind, late)
				v.Key = "c11-midclose-served:" + kind
				return v
			}
			if h.callsAfterCloseEntered > 0 {
				v.Bad = fmt.Sprintf("%s sent after the handler's Close had been entered reached the object (%d calls)", kind, h.callsAfterCloseEntered)
				v.Key = "c11-midclose-touched:" + kind
			}
			return v
		}
		return body, judge
	}
}

func init() {
	reg.Part("C11/midclose", func(c *reg.Ctx) *reg.Result {
		total := reg.NewResult(c.Part)
		minDone := 1 << 30
		for i, kind := range []string{"write", "read"} {
			r := explore.Run(explore.Config{Prop: "C11", Strategy: "db", Bound: c.ArgInt("bound", 2), Ctx: c, Label: c.Part}, c11MidCloseScenario(kind))
			total.Evaluations += r.Evaluations
			total.States += r.States
			total.Transitions += r.Transitions
			total.Distinct += r.Distinct
			for k, v := range r.Outcomes {
				total.Outcomes[fmt.Sprintf("s%d:%s", i, k)] += v
			}
			for _, sm := range r.Samples {
				total.Sample(sm)
			}
			for _, v := range r.Violations {
				total.Violate("C11", v.Key, v.Msg, map[string]any{"kind": kind, "schedule": v.Replay}, v.Trace)
			}
			if !r.Exhaustive {
				total.Exhaustive = false
			}
			if r.EngineError != "" {
				total.EngineError = r.EngineError
			}
			if d, ok := r.Notes["db_completed"].(int); ok && d < minDone {
				minDone = d
			}
		}
		if minDone == 1<<30 {
			minDone = -1
		}
		total.Notes["db_completed"] = minDone
		total.Notes["db_target"] = c.ArgInt("bound", 2)
		return total
	})
}
