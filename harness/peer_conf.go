//go:build verif

package sftp

// Conformance of the reference peer (the scripted server used by every scheduled client harness)
// with the implementation: all request sequences up to a depth over a small alphabet are replayed
// lock-step against the peer and against the real RequestServer over an equivalent handler, and the
// responses are compared after normalisation (handle names, status text, attribute flags). This
// keeps the model demonstrably bound to the code; a disagreement is reported in the evidence (it is
// not a violation of a client property).

import (
	"encoding/binary"
	"fmt"
	"strings"

	"verif/explore"
	"verif/reg"
	"verif/vsched"
)

type confSym struct {
	name string
	mk   func(id uint32, h func(int) string) []byte
}

func confAlphabet() []confSym {
	rd := func(hi, off, n int) confSym {
		return confSym{fmt.Sprintf("read%d@%d/%d", hi, off, n), func(id uint32, h func(int) string) []byte {
			return mustPkt(&sshFxpReadPacket{ID: id, Handle: h(hi), Offset: uint64(off), Len: uint32(n)})
		}}
	}
	return []confSym{
		{"open-rw", func(id uint32, h func(int) string) []byte {
			return mustPkt(&sshFxpOpenPacket{ID: id, Path: "/f", Pflags: sshFxfRead | sshFxfWrite | sshFxfCreat})
		}},
		{"open-missing", func(id uint32, h func(int) string) []byte {
			return mustPkt(&sshFxpOpenPacket{ID: id, Path: "/nope", Pflags: sshFxfRead})
		}},
		{"open-new-w", func(id uint32, h func(int) string) []byte {
			return mustPkt(&sshFxpOpenPacket{ID: id, Path: "/new", Pflags: sshFxfWrite | sshFxfCreat})
		}},
		rd(1, 0, 2), rd(1, 6, 4), rd(1, 8, 2), rd(9, 0, 2),
		{"write1@2", func(id uint32, h func(int) string) []byte {
			return mustPkt(&sshFxpWritePacket{ID: id, Handle: h(1), Offset: 2, Length: 2, Data: []byte("XY")})
		}},
		{"fstat1", func(id uint32, h func(int) string) []byte { return mustPkt(&sshFxpFstatPacket{ID: id, Handle: h(1)}) }},
		{"close1", func(id uint32, h func(int) string) []byte { return mustPkt(&sshFxpClosePacket{ID: id, Handle: h(1)}) }},
		{"close9", func(id uint32, h func(int) string) []byte { return mustPkt(&sshFxpClosePacket{ID: id, Handle: h(9)}) }},
	}
}

// normalise renders a response frame in a form that both sides must agree on.
func confNormalise(f frame, handles *[]string) string {
	switch f.typ {
	case sshFxpHandle:
		*handles = append(*handles, string(f.body[8:]))
		return fmt.Sprintf("HANDLE#%d(h%d)", f.id, len(*handles))
	case sshFxpStatus:
		c, _ := f.statusCode()
		return fmt.Sprintf("STATUS#%d(%s)", f.id, fx(c))
	case sshFxpData:
		return fmt.Sprintf("DATA#%d(%q)", f.id, f.body[8:])
	case sshFxpAttrs:
		b := f.body[4:]
		fl := binary.BigEndian.Uint32(b)
		size := uint64(0)
		if fl&sshFileXferAttrSize != 0 {
			size = binary.BigEndian.Uint64(b[4:])
		}
		return fmt.Sprintf("ATTRS#%d(size=%d)", f.id, size)
	}
	return f.String()
}

// confRun plays seq against the peer (real=false) or the real RequestServer (real=true).
func confRun(seq []confSym, real bool) (out []string, dead bool) {
	sc := func() (func(), func(*vsched.Exec) explore.Verdict) {
		body := func() {
			in, o := NewVPipe("c2s"), NewVPipe("s2c")
			if real {
				h := newVHandler(false)
				h.file("/f", true).data = []byte("abcdefgh")
				rs := NewRequestServer(&vduplex{in: in, out: o}, h.handlers())
				vsched.GoNamed("serve", "harness", func() { rs.Serve(); o.CloseWrite() })
			} else {
				p := newVPeer(in, o)
				p.files["/f"] = &pfile{data: []byte("abcdefgh")}
				p.start()
			}
			var handles []string
			h := func(i int) string {
				if i >= 1 && i <= len(handles) {
					return handles[i-1]
				}
				return "zz"
			}
			in.Write(mustPkt(&sshFxInitPacket{Version: 3}))
			if _, err := readFrame(o); err != nil {
				return
			}
			for i, s := range seq {
				in.Write(s.mk(uint32(i+1), h))
				f, err := readFrame(o)
				if err != nil {
					out = append(out, "NO-RESPONSE")
					break
				}
				out = append(out, confNormalise(f, &handles))
			}
			in.CloseWrite()
			for {
				if _, err := readFrame(o); err != nil {
					break
				}
			}
		}
		return body, func(e *vsched.Exec) explore.Verdict {
			dead = e.Deadlock || e.Panic != nil
			return explore.Verdict{Outcome: "conf"}
		}
	}
	explore.Run(explore.Config{Prop: "conf", Strategy: "db", Bound: 0, AllowBlock: true}, sc)
	return
}

func init() {
	reg.Part("peer/conformance", func(c *reg.Ctx) *reg.Result {
		res := reg.NewResult(c.Part)
		depth := c.ArgInt("depth", 3)
		alpha := confAlphabet()
		seq := make([]confSym, 0, depth)
		var i int64
		var disagreements []string
		var rec func()
		rec = func() {
			if len(seq) > 0 {
				i++
				if c.Mine(i) && res.Exhaustive {
					if c.Expired() {
						res.Exhaustive = false
						return
					}
					a, d1 := confRun(seq, false)
					b, d2 := confRun(seq, true)
					var names []string
					for _, s := range seq {
						names = append(names, s.name)
					}
					key := strings.Join(names, " ")
					res.Case(key)
					res.Sample(map[string]any{"sequence": key, "responses": a})
					res.Validated++
					if d1 || d2 || strings.Join(a, "|") != strings.Join(b, "|") {
						if len(disagreements) < 5 {
							disagreements = append(disagreements, fmt.Sprintf("[%s] peer: %v  real RequestServer: %v", key, a, b))
						}
					}
				}
			}
			if len(seq) == depth {
				return
			}
			for _, a := range alpha {
				seq = append(seq, a)
				rec()
				seq = seq[:len(seq)-1]
			}
		}
		rec()
		res.Notes["peer_conformance_sequences"] = res.Evaluations
		res.Notes["peer_conformance_disagreements"] = disagreements
		if len(disagreements) > 0 {
			fmt.Printf("WARNING: the reference peer and the real RequestServer disagree on %d sequence(s): %s\n", len(disagreements), disagreements[0])
		}
		res.Bound = fmt.Sprintf("all request sequences up to depth %d over %d symbols, peer vs real RequestServer", depth, len(alpha))
		return res
	})
}

// confJob is attached to C03: it validates the peer used by C01-A, C03, C04, C12-A, C13.
func confJob(tier string) reg.Job {
	d := "3"
	if tier == "thorough" {
		d = "4"
	}
	return reg.Job{Part: "peer/conformance", Build: "instr-w2", Args: map[string]string{"depth": d}, Shards: 16, BudgetS: 100, Optional: true,
		Label: "reference peer vs real RequestServer (model bound to the code), depth " + d}
}
