//go:build verif

package sftp

// C06: per packet kind, how a logical packet is handed to each codec and read back from it.

import (
	"bytes"
	"encoding"
	"encoding/binary"
	"errors"
	"fmt"
	"sync"

	sshfx "github.com/pkg/sftp/internal/encoding/ssh/filexfer"
	"github.com/pkg/sftp/internal/encoding/ssh/filexfer/openssh"
)

type c06kind struct {
	name string
	typ  byte
	// wire codec (packet.go)
	wire    func(lp *c06lp) encoding.BinaryMarshaler
	wireDec func(frame []byte) (*c06lp, encoding.BinaryMarshaler, error) // nil: the wire codec has no decoder for this packet
	// filexfer codec
	fx    func(lp *c06lp) ([]byte, error)
	fxDec func(frame []byte) (*c06lp, []byte, error) // decoded fields and the re-encoding of the decoded value
}

var c06registerOnce sync.Once

// c06registerExtensions makes the filexfer codec decode the OpenSSH extended requests into their typed
// packets (the package offers this registration; nothing in non-test code calls it).  Process-wide,
// only done inside workers that run C06/C08 parts.
func c06registerExtensions() {
	c06registerOnce.Do(func() {
		openssh.RegisterExtensionStatVFS()
		openssh.RegisterExtensionFStatVFS()
		openssh.RegisterExtensionPOSIXRename()
		openssh.RegisterExtensionHardlink()
		openssh.RegisterExtensionFSync()
	})
}

var errC06Type = errors.New("decoded into an unexpected packet type")

func c06wireMake(frame []byte) (requestPacket, error) {
	return makePacket(rxPacket{pktType: fxp(frame[4]), pktBytes: frame[5:]})
}

func c06marsh(p any) encoding.BinaryMarshaler {
	m, _ := p.(encoding.BinaryMarshaler)
	return m
}

func c06fxCompose(p sshfx.PacketMarshaller, id uint32) ([]byte, error) {
	return sshfx.ComposePacket(p.MarshalPacket(id, nil))
}

// c06fxReq decodes a request frame with the filexfer codec and re-encodes it.
func c06fxReq(frame []byte) (*sshfx.RequestPacket, []byte, error) {
	var rp sshfx.RequestPacket
	if err := rp.UnmarshalBinary(frame[4:]); err != nil {
		return nil, nil, err
	}
	re, err := rp.MarshalBinary()
	if err != nil {
		return &rp, re, err
	}
	// a server loop decodes a stream of requests into ONE RequestPacket value: whatever request was decoded into
	// it before (one sample frame of every other kind met so far), this frame must decode to the same packet
	kind := string(frame[4:5])
	if len(frame) > 13 && frame[4] == sshFxpExtended {
		n := int(binary.BigEndian.Uint32(frame[9:]))
		if n >= 0 && 13+n <= len(frame) {
			kind += string(frame[13 : 13+n])
		}
	}
	for pk, primer := range c06primers {
		if pk == kind {
			continue
		}
		c06reusedReq = sshfx.RequestPacket{}
		if err := c06reusedReq.UnmarshalBinary(primer[4:]); err != nil {
			continue
		}
		if err := c06reusedReq.UnmarshalBinary(frame[4:]); err != nil {
			return &rp, re, fmt.Errorf("decoding into a RequestPacket that held a %q request before: %w", pk, err)
		}
		re2, err := c06reusedReq.MarshalBinary()
		if err != nil || !bytes.Equal(re2, re) {
			return &rp, re, fmt.Errorf("decoding into a RequestPacket that held a %q request before gives another packet: re-encoded %x, from a fresh value %x (%v)", pk, re2, re, err)
		}
	}
	if _, ok := c06primers[kind]; !ok && len(c06primers) < 64 {
		c06primers[kind] = append([]byte(nil), frame...)
	}
	return &rp, re, err
}

var (
	c06reusedReq sshfx.RequestPacket
	c06primers   = map[string][]byte{}
)

// c06fxResp decodes a response frame: RawPacket, then the typed body.
func c06fxResp(frame []byte, typ sshfx.PacketType, body sshfx.Packet) (uint32, []byte, error) {
	var raw sshfx.RawPacket
	if err := raw.UnmarshalBinary(frame[4:]); err != nil {
		return 0, nil, err
	}
	if raw.PacketType != typ {
		return 0, nil, fmt.Errorf("RawPacket type %v, want %v", raw.PacketType, typ)
	}
	if err := body.UnmarshalPacketBody(&raw.Data); err != nil {
		return 0, nil, err
	}
	re, err := c06fxCompose(body, raw.RequestID)
	return raw.RequestID, re, err
}

// ---- kinds with "id + strings" shape -----------------------------------------------------------

type c06strSpec struct {
	name   string
	typ    byte
	n      int // number of strings
	mk     func(id uint32, s []string) encoding.BinaryMarshaler
	get    func(p requestPacket) (uint32, []string, bool) // nil: not decodable by the wire codec
	fxmk   func(s []string) sshfx.PacketMarshaller
	fxget  func(p sshfx.Packet) ([]string, bool)
	prefix string // extended request name ("" for plain requests)
}

func c06strKind(sp c06strSpec) c06kind {
	build := func(id uint32, ss []string) *c06lp {
		lp := &c06lp{kind: sp.name, typ: sp.typ, id: id}
		if sp.prefix != "" {
			lp.f = append(lp.f, c06s(sp.prefix))
		}
		for _, s := range ss {
			lp.f = append(lp.f, c06s(s))
		}
		return lp
	}
	args := func(lp *c06lp) []string {
		var ss []string
		for i := range lp.f {
			ss = append(ss, lp.f[i].s)
		}
		if sp.prefix != "" {
			ss = ss[1:]
		}
		return ss
	}
	k := c06kind{name: sp.name, typ: sp.typ}
	k.wire = func(lp *c06lp) encoding.BinaryMarshaler { return sp.mk(lp.id, args(lp)) }
	if sp.get != nil {
		k.wireDec = func(frame []byte) (*c06lp, encoding.BinaryMarshaler, error) {
			p, err := c06wireMake(frame)
			if err != nil {
				return nil, nil, err
			}
			id, ss, ok := sp.get(p)
			if !ok {
				return nil, nil, fmt.Errorf("%w: %T", errC06Type, p)
			}
			return build(id, ss), c06marsh(p), nil
		}
	}
	k.fx = func(lp *c06lp) ([]byte, error) { return c06fxCompose(sp.fxmk(args(lp)), lp.id) }
	k.fxDec = func(frame []byte) (*c06lp, []byte, error) {
		rp, re, err := c06fxReq(frame)
		if err != nil {
			return nil, nil, err
		}
		ss, ok := sp.fxget(rp.Request)
		if !ok {
			return nil, nil, fmt.Errorf("%w: %T", errC06Type, rp.Request)
		}
		return build(rp.RequestID, ss), re, nil
	}
	return k
}

// the extended requests decode, in the wire codec, to sshFxpExtendedPacket{SpecificPacket}
func c06wireExt(p requestPacket) (*sshFxpExtendedPacket, bool) {
	e, ok := p.(*sshFxpExtendedPacket)
	return e, ok && e.SpecificPacket != nil
}

func c06fxExt(p sshfx.Packet, name string) (sshfx.ExtendedData, bool) {
	e, ok := p.(*sshfx.ExtendedPacket)
	if !ok || e.ExtendedRequest != name {
		return nil, false
	}
	return e.Data, true
}

func c06stringKinds() []c06kind {
	one := func(name string, typ byte, mk func(id uint32, s string) encoding.BinaryMarshaler, get func(p requestPacket) (uint32, string, bool),
		fxmk func(s string) sshfx.PacketMarshaller, fxget func(p sshfx.Packet) (string, bool)) c06kind {
		return c06strKind(c06strSpec{name: name, typ: typ, n: 1,
			mk: func(id uint32, s []string) encoding.BinaryMarshaler { return mk(id, s[0]) },
			get: func(p requestPacket) (uint32, []string, bool) {
				id, s, ok := get(p)
				return id, []string{s}, ok
			},
			fxmk: func(s []string) sshfx.PacketMarshaller { return fxmk(s[0]) },
			fxget: func(p sshfx.Packet) ([]string, bool) {
				s, ok := fxget(p)
				return []string{s}, ok
			}})
	}
	ks := []c06kind{
		one("CLOSE", 4, func(id uint32, s string) encoding.BinaryMarshaler { return &sshFxpClosePacket{ID: id, Handle: s} },
			func(p requestPacket) (uint32, string, bool) {
				q, ok := p.(*sshFxpClosePacket)
				if !ok {
					return 0, "", false
				}
				return q.ID, q.Handle, true
			},
			func(s string) sshfx.PacketMarshaller { return &sshfx.ClosePacket{Handle: s} },
			func(p sshfx.Packet) (string, bool) {
				q, ok := p.(*sshfx.ClosePacket)
				if !ok {
					return "", false
				}
				return q.Handle, true
			}),
		one("LSTAT", 7, func(id uint32, s string) encoding.BinaryMarshaler { return &sshFxpLstatPacket{ID: id, Path: s} },
			func(p requestPacket) (uint32, string, bool) {
				q, ok := p.(*sshFxpLstatPacket)
				if !ok {
					return 0, "", false
				}
				return q.ID, q.Path, true
			},
			func(s string) sshfx.PacketMarshaller { return &sshfx.LStatPacket{Path: s} },
			func(p sshfx.Packet) (string, bool) {
				q, ok := p.(*sshfx.LStatPacket)
				if !ok {
					return "", false
				}
				return q.Path, true
			}),
		one("FSTAT", 8, func(id uint32, s string) encoding.BinaryMarshaler { return &sshFxpFstatPacket{ID: id, Handle: s} },
			func(p requestPacket) (uint32, string, bool) {
				q, ok := p.(*sshFxpFstatPacket)
				if !ok {
					return 0, "", false
				}
				return q.ID, q.Handle, true
			},
			func(s string) sshfx.PacketMarshaller { return &sshfx.FStatPacket{Handle: s} },
			func(p sshfx.Packet) (string, bool) {
				q, ok := p.(*sshfx.FStatPacket)
				if !ok {
					return "", false
				}
				return q.Handle, true
			}),
		one("OPENDIR", 11, func(id uint32, s string) encoding.BinaryMarshaler { return &sshFxpOpendirPacket{ID: id, Path: s} },
			func(p requestPacket) (uint32, string, bool) {
				q, ok := p.(*sshFxpOpendirPacket)
				if !ok {
					return 0, "", false
				}
				return q.ID, q.Path, true
			},
			func(s string) sshfx.PacketMarshaller { return &sshfx.OpenDirPacket{Path: s} },
			func(p sshfx.Packet) (string, bool) {
				q, ok := p.(*sshfx.OpenDirPacket)
				if !ok {
					return "", false
				}
				return q.Path, true
			}),
		one("READDIR", 12, func(id uint32, s string) encoding.BinaryMarshaler { return &sshFxpReaddirPacket{ID: id, Handle: s} },
			func(p requestPacket) (uint32, string, bool) {
				q, ok := p.(*sshFxpReaddirPacket)
				if !ok {
					return 0, "", false
				}
				return q.ID, q.Handle, true
			},
			func(s string) sshfx.PacketMarshaller { return &sshfx.ReadDirPacket{Handle: s} },
			func(p sshfx.Packet) (string, bool) {
				q, ok := p.(*sshfx.ReadDirPacket)
				if !ok {
					return "", false
				}
				return q.Handle, true
			}),
		one("REMOVE", 13, func(id uint32, s string) encoding.BinaryMarshaler { return &sshFxpRemovePacket{ID: id, Filename: s} },
			func(p requestPacket) (uint32, string, bool) {
				q, ok := p.(*sshFxpRemovePacket)
				if !ok {
					return 0, "", false
				}
				return q.ID, q.Filename, true
			},
			func(s string) sshfx.PacketMarshaller { return &sshfx.RemovePacket{Path: s} },
			func(p sshfx.Packet) (string, bool) {
				q, ok := p.(*sshfx.RemovePacket)
				if !ok {
					return "", false
				}
				return q.Path, true
			}),
		one("RMDIR", 15, func(id uint32, s string) encoding.BinaryMarshaler { return &sshFxpRmdirPacket{ID: id, Path: s} },
			func(p requestPacket) (uint32, string, bool) {
				q, ok := p.(*sshFxpRmdirPacket)
				if !ok {
					return 0, "", false
				}
				return q.ID, q.Path, true
			},
			func(s string) sshfx.PacketMarshaller { return &sshfx.RmdirPacket{Path: s} },
			func(p sshfx.Packet) (string, bool) {
				q, ok := p.(*sshfx.RmdirPacket)
				if !ok {
					return "", false
				}
				return q.Path, true
			}),
		one("REALPATH", 16, func(id uint32, s string) encoding.BinaryMarshaler { return &sshFxpRealpathPacket{ID: id, Path: s} },
			func(p requestPacket) (uint32, string, bool) {
				q, ok := p.(*sshFxpRealpathPacket)
				if !ok {
					return 0, "", false
				}
				return q.ID, q.Path, true
			},
			func(s string) sshfx.PacketMarshaller { return &sshfx.RealPathPacket{Path: s} },
			func(p sshfx.Packet) (string, bool) {
				q, ok := p.(*sshfx.RealPathPacket)
				if !ok {
					return "", false
				}
				return q.Path, true
			}),
		one("STAT", 17, func(id uint32, s string) encoding.BinaryMarshaler { return &sshFxpStatPacket{ID: id, Path: s} },
			func(p requestPacket) (uint32, string, bool) {
				q, ok := p.(*sshFxpStatPacket)
				if !ok {
					return 0, "", false
				}
				return q.ID, q.Path, true
			},
			func(s string) sshfx.PacketMarshaller { return &sshfx.StatPacket{Path: s} },
			func(p sshfx.Packet) (string, bool) {
				q, ok := p.(*sshfx.StatPacket)
				if !ok {
					return "", false
				}
				return q.Path, true
			}),
		one("READLINK", 19, func(id uint32, s string) encoding.BinaryMarshaler { return &sshFxpReadlinkPacket{ID: id, Path: s} },
			func(p requestPacket) (uint32, string, bool) {
				q, ok := p.(*sshFxpReadlinkPacket)
				if !ok {
					return 0, "", false
				}
				return q.ID, q.Path, true
			},
			func(s string) sshfx.PacketMarshaller { return &sshfx.ReadLinkPacket{Path: s} },
			func(p sshfx.Packet) (string, bool) {
				q, ok := p.(*sshfx.ReadLinkPacket)
				if !ok {
					return "", false
				}
				return q.Path, true
			}),
		// OpenSSH PROTOCOL 3.4 (statvfs@openssh.com): string "statvfs@openssh.com", string path
		c06strKind(c06strSpec{name: "EXT-statvfs", typ: 200, n: 1, prefix: "statvfs@openssh.com",
			mk: func(id uint32, s []string) encoding.BinaryMarshaler { return &sshFxpStatvfsPacket{ID: id, Path: s[0]} },
			get: func(p requestPacket) (uint32, []string, bool) {
				e, ok := c06wireExt(p)
				if !ok {
					return 0, nil, false
				}
				q, ok := e.SpecificPacket.(*sshFxpExtendedPacketStatVFS)
				if !ok || e.ExtendedRequest != "statvfs@openssh.com" || q.ExtendedRequest != e.ExtendedRequest || q.ID != e.ID {
					return 0, nil, false
				}
				return q.ID, []string{q.Path}, true
			},
			fxmk: func(s []string) sshfx.PacketMarshaller { return &openssh.StatVFSExtendedPacket{Path: s[0]} },
			fxget: func(p sshfx.Packet) ([]string, bool) {
				d, ok := c06fxExt(p, "statvfs@openssh.com")
				q, ok2 := d.(*openssh.StatVFSExtendedPacket)
				if !ok || !ok2 {
					return nil, false
				}
				return []string{q.Path}, true
			}}),
		// OpenSSH PROTOCOL 3.6 (fsync@openssh.com): string "fsync@openssh.com", string handle.  The wire
		// codec only sends it (client side); it is decoded with the filexfer codec.
		c06strKind(c06strSpec{name: "EXT-fsync", typ: 200, n: 1, prefix: "fsync@openssh.com",
			mk:   func(id uint32, s []string) encoding.BinaryMarshaler { return &sshFxpFsyncPacket{ID: id, Handle: s[0]} },
			fxmk: func(s []string) sshfx.PacketMarshaller { return &openssh.FSyncExtendedPacket{Handle: s[0]} },
			fxget: func(p sshfx.Packet) ([]string, bool) {
				d, ok := c06fxExt(p, "fsync@openssh.com")
				q, ok2 := d.(*openssh.FSyncExtendedPacket)
				if !ok || !ok2 {
					return nil, false
				}
				return []string{q.Handle}, true
			}}),
		// draft-02 6.5: string oldpath, string newpath
		c06strKind(c06strSpec{name: "RENAME", typ: 18, n: 2,
			mk: func(id uint32, s []string) encoding.BinaryMarshaler {
				return &sshFxpRenamePacket{ID: id, Oldpath: s[0], Newpath: s[1]}
			},
			get: func(p requestPacket) (uint32, []string, bool) {
				q, ok := p.(*sshFxpRenamePacket)
				if !ok {
					return 0, nil, false
				}
				return q.ID, []string{q.Oldpath, q.Newpath}, true
			},
			fxmk: func(s []string) sshfx.PacketMarshaller { return &sshfx.RenamePacket{OldPath: s[0], NewPath: s[1]} },
			fxget: func(p sshfx.Packet) ([]string, bool) {
				q, ok := p.(*sshfx.RenamePacket)
				if !ok {
					return nil, false
				}
				return []string{q.OldPath, q.NewPath}, true
			}}),
		// OpenSSH PROTOCOL 4.1: SSH_FXP_SYMLINK is sent as string targetpath, string linkpath
		c06strKind(c06strSpec{name: "SYMLINK", typ: 20, n: 2,
			mk: func(id uint32, s []string) encoding.BinaryMarshaler {
				return &sshFxpSymlinkPacket{ID: id, Targetpath: s[0], Linkpath: s[1]}
			},
			get: func(p requestPacket) (uint32, []string, bool) {
				q, ok := p.(*sshFxpSymlinkPacket)
				if !ok {
					return 0, nil, false
				}
				return q.ID, []string{q.Targetpath, q.Linkpath}, true
			},
			fxmk: func(s []string) sshfx.PacketMarshaller { return &sshfx.SymlinkPacket{TargetPath: s[0], LinkPath: s[1]} },
			fxget: func(p sshfx.Packet) ([]string, bool) {
				q, ok := p.(*sshfx.SymlinkPacket)
				if !ok {
					return nil, false
				}
				return []string{q.TargetPath, q.LinkPath}, true
			}}),
		// OpenSSH PROTOCOL 3.3: string "posix-rename@openssh.com", string oldpath, string newpath
		c06strKind(c06strSpec{name: "EXT-posix-rename", typ: 200, n: 2, prefix: "posix-rename@openssh.com",
			mk: func(id uint32, s []string) encoding.BinaryMarshaler {
				return &sshFxpPosixRenamePacket{ID: id, Oldpath: s[0], Newpath: s[1]}
			},
			get: func(p requestPacket) (uint32, []string, bool) {
				e, ok := c06wireExt(p)
				if !ok {
					return 0, nil, false
				}
				q, ok := e.SpecificPacket.(*sshFxpExtendedPacketPosixRename)
				if !ok || e.ExtendedRequest != "posix-rename@openssh.com" || q.ExtendedRequest != e.ExtendedRequest || q.ID != e.ID {
					return 0, nil, false
				}
				return q.ID, []string{q.Oldpath, q.Newpath}, true
			},
			fxmk: func(s []string) sshfx.PacketMarshaller {
				return &openssh.POSIXRenameExtendedPacket{OldPath: s[0], NewPath: s[1]}
			},
			fxget: func(p sshfx.Packet) ([]string, bool) {
				d, ok := c06fxExt(p, "posix-rename@openssh.com")
				q, ok2 := d.(*openssh.POSIXRenameExtendedPacket)
				if !ok || !ok2 {
					return nil, false
				}
				return []string{q.OldPath, q.NewPath}, true
			}}),
		// OpenSSH PROTOCOL 3.5: string "hardlink@openssh.com", string oldpath, string newpath
		c06strKind(c06strSpec{name: "EXT-hardlink", typ: 200, n: 2, prefix: "hardlink@openssh.com",
			mk: func(id uint32, s []string) encoding.BinaryMarshaler {
				return &sshFxpHardlinkPacket{ID: id, Oldpath: s[0], Newpath: s[1]}
			},
			get: func(p requestPacket) (uint32, []string, bool) {
				e, ok := c06wireExt(p)
				if !ok {
					return 0, nil, false
				}
				q, ok := e.SpecificPacket.(*sshFxpExtendedPacketHardlink)
				if !ok || e.ExtendedRequest != "hardlink@openssh.com" || q.ExtendedRequest != e.ExtendedRequest || q.ID != e.ID {
					return 0, nil, false
				}
				return q.ID, []string{q.Oldpath, q.Newpath}, true
			},
			fxmk: func(s []string) sshfx.PacketMarshaller {
				return &openssh.HardlinkExtendedPacket{OldPath: s[0], NewPath: s[1]}
			},
			fxget: func(p sshfx.Packet) ([]string, bool) {
				d, ok := c06fxExt(p, "hardlink@openssh.com")
				q, ok2 := d.(*openssh.HardlinkExtendedPacket)
				if !ok || !ok2 {
					return nil, false
				}
				return []string{q.OldPath, q.NewPath}, true
			}}),
	}
	return ks
}

var _ = bytes.Equal
var _ = binary.BigEndian
