//go:build verif

package sftp

// C06: The wire encoding is lossless and the two codecs agree (DESIGN.md §3 C06).
// Engine B: exhaustive product of small per-field domains, per packet kind.

import (
	"bytes"
	"encoding"
	"encoding/binary"
	"encoding/hex"
	"encoding/json"
	"fmt"
	"os"
	"strings"

	"verif/reg"
)

// ---- per-field domains ---------------------------------------------------------------------------

var c06ids = []uint32{0, 1, 0x01020304, 0xffffffff}
var c06offs = []uint64{0, 1, 1<<32 - 1, 1 << 32, 1 << 63, 1<<64 - 1}

func c06strs(thorough bool) []string {
	s := []string{"", "a", "/p/q", "\xff\xfe", "a\x00b", strings.Repeat("x", 255), strings.Repeat("y", 256)}
	if thorough {
		s = append(s, strings.Repeat("z", 65535), strings.Repeat("w", 65536), "é世\U0001f600")
	}
	return s
}

func c06payload(n int) string {
	b := make([]byte, n)
	for i := range b {
		b[i] = byte(i*7 + 3)
	}
	return string(b)
}

func c06payloads(thorough bool) []string {
	var r []string
	ls := []int{0, 1, 2, 255, 256, 32768}
	if thorough {
		ls = append(ls, 65535, 65536, 262144-64)
	}
	for _, n := range ls {
		r = append(r, c06payload(n))
	}
	return r
}

func c06pairLists() [][][2]string {
	return [][][2]string{nil, {{"a", "1"}}, {{"statvfs@openssh.com", "2"}, {"", ""}}, {{"\xff", strings.Repeat("v", 256)}, {"x", ""}, {"", "y"}}}
}

// all 32 subsets of the five attribute flags × two value sets × extended counts {0,1,2}
func c06attrSets() []c06attrs {
	vals := []c06attrs{
		{size: 0x0102030405060708, uid: 0x11121314, gid: 0x21222324, perm: 0x31323334, atime: 0x41424344, mtime: 0x51525354},
		{size: 1<<64 - 1, uid: 0, gid: 1<<32 - 1, perm: 0o100644, atime: 0, mtime: 1<<32 - 1},
	}
	exts := [][][2]string{nil, {{"t", "d"}}, {{"type@x", "\x00\xff"}, {"", ""}}}
	var r []c06attrs
	for sub := 0; sub < 32; sub++ {
		flags := uint32(sub & 0xf)
		if sub&16 != 0 {
			flags |= 0x80000000
		}
		for _, v := range vals {
			a := v
			a.flags = flags
			if flags&0x80000000 == 0 {
				r = append(r, a)
				continue
			}
			for _, x := range exts {
				b := a
				b.ext = x
				r = append(r, b)
			}
		}
	}
	return r
}

// name entries: names × long names × the ways the servers hand attributes to the wire codec
func c06nameEntries(thorough bool) []c06name {
	names := []string{"a", "", "\xff\xfe"}
	longs := []string{"-rw-r--r--    1 u g 5 Jan  1 00:00 a", ""}
	type form struct {
		f     byte
		size  int64
		mode  os.FileMode
		mtime int64
		ext   [][2]string
	}
	forms := []form{{f: 'E'}, {'F', 0, 0o644, 0, nil}, {'U', 1, os.ModeDir | 0o755, 1000000000, nil},
		{'X', 1<<63 - 1, os.ModeSymlink | 0o777, 1<<32 - 1, [][2]string{{"t", "d"}}}, {'Y', 5, 0o600, 1, [][2]string{{"t1", "d1"}, {"", ""}}},
		{'U', 3, os.ModeDevice | os.ModeCharDevice | 0o666, 5, nil}}
	if thorough {
		forms = append(forms, form{'F', 0, os.ModeDevice | 0o660, 9, nil}, form{'U', 0, os.ModeNamedPipe | os.ModeSetuid | 0o600, 9, nil}, form{'S', 0, os.ModeSocket | os.ModeSticky | 0o777, 9, nil})
		forms = append(forms, form{'S', 7, 0o640, 2, nil}, form{'X', 3, 0o644, 3, nil})
	}
	var r []c06name
	for _, n := range names {
		for _, l := range longs {
			for _, f := range forms {
				e := c06name{name: n, long: l, form: f.f}
				if f.f != 'E' {
					_, e.attrs = c06fileInfo(f.f, n, f.size, f.mode, f.mtime, 0x11121314, 0x21222324, f.ext)
				}
				r = append(r, e)
			}
		}
	}
	return r
}

// ---- enumeration of the logical packets of one kind ---------------------------------------------

func c06enumerate(kind string, typ byte, thorough bool, yield func(lp *c06lp)) {
	strs := c06strs(thorough)
	mk := func(id uint32, f ...c06field) {
		yield(&c06lp{kind: kind, typ: typ, id: id, f: f})
	}
	switch kind {
	case "INIT", "VERSION":
		for _, v := range []uint32{3, 0, 1, 0x01020304, 0xffffffff} {
			for _, e := range c06pairLists() {
				yield(&c06lp{kind: kind, typ: typ, noID: true, f: []c06field{c06u(v), c06e(e)}})
			}
		}
	case "CLOSE", "LSTAT", "FSTAT", "OPENDIR", "READDIR", "REMOVE", "RMDIR", "REALPATH", "STAT", "READLINK", "HANDLE":
		for _, id := range c06ids {
			for _, s := range strs {
				mk(id, c06s(s))
			}
		}
	case "EXT-statvfs", "EXT-fsync":
		for _, id := range c06ids {
			for _, s := range strs {
				mk(id, c06s(strings.TrimPrefix(kind, "EXT-")+"@openssh.com"), c06s(s))
			}
		}
	case "RENAME", "SYMLINK":
		for _, id := range c06ids {
			for _, a := range strs {
				for _, b := range strs {
					mk(id, c06s(a), c06s(b))
				}
			}
		}
	case "EXT-posix-rename", "EXT-hardlink":
		for _, id := range c06ids {
			for _, a := range strs {
				for _, b := range strs {
					mk(id, c06s(strings.TrimPrefix(kind, "EXT-")+"@openssh.com"), c06s(a), c06s(b))
				}
			}
		}
	case "OPEN":
		for _, id := range c06ids {
			for _, s := range strs {
				for _, pf := range []uint32{0, 1, 0x1a, 0x3f, 0xffffffff} {
					for _, a := range c06attrSets() {
						mk(id, c06s(s), c06u(pf), c06a(a))
					}
				}
			}
		}
	case "SETSTAT", "FSETSTAT":
		for _, id := range c06ids {
			for _, s := range strs {
				for _, a := range c06attrSets() {
					mk(id, c06s(s), c06a(a))
				}
			}
		}
	case "MKDIR":
		for _, id := range c06ids {
			for _, s := range strs {
				mk(id, c06s(s), c06a(c06attrs{}))
			}
		}
	case "READ":
		for _, id := range c06ids {
			for _, s := range strs {
				for _, o := range c06offs {
					for _, l := range []uint32{0, 1, 32768, 0x01020304, 0xffffffff} {
						mk(id, c06s(s), c06q(o), c06u(l))
					}
				}
			}
		}
	case "WRITE":
		for _, id := range c06ids {
			for _, s := range strs {
				for _, o := range c06offs {
					for _, d := range c06payloads(thorough) {
						mk(id, c06s(s), c06q(o), c06d(d))
					}
				}
			}
		}
	case "DATA":
		for _, id := range c06ids {
			for _, d := range c06payloads(thorough) {
				mk(id, c06d(d))
			}
		}
	case "STATUS":
		for _, id := range c06ids {
			for _, code := range []uint32{0, 1, 2, 8, 0x01020304, 0xffffffff} {
				for _, m := range strs {
					for _, l := range []string{"", "en", "\xff"} {
						mk(id, c06u(code), c06s(m), c06s(l))
					}
				}
			}
		}
	case "ATTRS":
		for _, id := range c06ids {
			for _, form := range []byte{'F', 'S', 'U', 'X', 'Y'} {
				for _, size := range []int64{0, 1, 0x0102030405060708, 1<<63 - 1} {
					for _, mode := range []os.FileMode{0o644, os.ModeDir | 0o755, os.ModeSymlink | 0o777, 0,
						// every file type package os knows, and the three special bits
						os.ModeNamedPipe | 0o600, os.ModeSocket | 0o755, os.ModeDevice | os.ModeCharDevice | 0o666, os.ModeDevice | 0o660,
						os.ModeSetuid | 0o755, os.ModeSetgid | os.ModeDir | 0o775, os.ModeSticky | os.ModeDir | 0o777} {
						for _, mt := range []int64{0, 1000000000, 1<<32 - 1} {
							for _, x := range [][][2]string{nil, {{"t", "d"}}, {{"type@x", "\x00\xff"}, {"", ""}}} {
								if x != nil && form != 'X' && form != 'Y' {
									continue
								}
								_, a := c06fileInfo(form, "n", size, mode, mt, 0x11121314, 0x21222324, x)
								yield(&c06lp{kind: kind, typ: typ, id: id, form: form, f: []c06field{c06a(a)}})
							}
						}
					}
				}
			}
		}
	case "NAME":
		ents := c06nameEntries(thorough)
		ids := []uint32{1, 0xffffffff}
		maxN := 3
		if thorough {
			ids = c06ids
		}
		var rec func(id uint32, cur []c06name, n int)
		rec = func(id uint32, cur []c06name, n int) {
			if len(cur) == n {
				mk(id, c06n(append([]c06name(nil), cur...)))
				return
			}
			for _, e := range ents {
				rec(id, append(cur, e), n)
			}
		}
		for _, id := range ids {
			for n := 0; n <= maxN; n++ {
				rec(id, nil, n)
			}
		}
	case "EXTREPLY-statvfs":
		// 11 fields: every field takes every boundary value while the others hold distinct markers
		// (a swap of two fields changes the bytes), plus the all-boundary rows.
		bounds := []uint64{0, 1, 1<<32 - 1, 1 << 32, 1 << 63, 1<<64 - 1}
		for _, id := range c06ids {
			row := func(get func(i int) uint64) {
				var f []c06field
				for i := 0; i < 11; i++ {
					f = append(f, c06q(get(i)))
				}
				mk(id, f...)
			}
			for _, b := range bounds {
				row(func(int) uint64 { return b })
			}
			for pos := 0; pos < 11; pos++ {
				for _, b := range bounds {
					row(func(i int) uint64 {
						if i == pos {
							return b
						}
						return 0x1000000000000000*uint64(i+1) + 0x0102030405060700 + uint64(i)
					})
				}
			}
		}
	default:
		panic("c06enumerate: unknown kind " + kind)
	}
}

func c06allKinds() []c06kind {
	return append(c06otherKinds(), c06stringKinds()...)
}

// ---- the check of one case ----------------------------------------------------------------------

func c06diff(a, b []byte) string {
	n := len(a)
	if len(b) < n {
		n = len(b)
	}
	i := 0
	for i < n && a[i] == b[i] {
		i++
	}
	cut := func(x []byte) string {
		lo, hi := i-4, i+12
		if lo < 0 {
			lo = 0
		}
		if hi > len(x) {
			hi = len(x)
		}
		if lo > hi {
			lo = hi
		}
		return hex.EncodeToString(x[lo:hi])
	}
	return fmt.Sprintf("lengths %d/%d, first difference at offset %d: ..%s / ..%s", len(a), len(b), i, cut(a), cut(b))
}

func c06hexShort(b []byte) string {
	if len(b) > 300 {
		return hex.EncodeToString(b[:300]) + fmt.Sprintf("...(%d bytes)", len(b))
	}
	return hex.EncodeToString(b)
}

func c06send(m encoding.BinaryMarshaler) ([]byte, error) {
	var buf bytes.Buffer
	err := sendPacket(&buf, m)
	return buf.Bytes(), err
}

type c06problem struct{ check, msg string }

// c06checkCase runs the four comparisons of DESIGN.md §3 C06 on one logical packet.
func c06checkCase(k *c06kind, lp *c06lp) (probs []c06problem) {
	step := "start"
	defer func() {
		if r := recover(); r != nil {
			probs = append(probs, c06problem{"panic", fmt.Sprintf("panic during %s: %v", step, r)})
		}
	}()
	bad := func(check, f string, a ...any) { probs = append(probs, c06problem{check, fmt.Sprintf(f, a...)}) }
	ref := c06RefEncode(lp).b
	want := lp.canon()

	// (1) sendPacket: length prefix == bytes that follow
	step = "sendPacket (wire codec)"
	w, err := c06send(k.wire(lp))
	if err != nil {
		bad("encode-wire", "sendPacket: %v", err)
		return
	}
	if len(w) < 5 || int64(binary.BigEndian.Uint32(w)) != int64(len(w)-4) {
		bad("length-wire", "length prefix %d but %d bytes follow it", binary.BigEndian.Uint32(w), len(w)-4)
	}
	// (2) layout = reference encoder
	if !bytes.Equal(w, ref) {
		bad("layout-wire", "wire codec bytes differ from the draft layout (wire/reference): %s", c06diff(w, ref))
	}
	// the MarshalBinary path (used where a packet is not sent through marshalPacket) must agree after the length word
	step = "MarshalBinary (wire codec)"
	if mb, err := k.wire(lp).MarshalBinary(); err != nil {
		bad("encode-wire", "MarshalBinary: %v", err)
	} else if len(mb) < 4 || !bytes.Equal(mb[4:], w[4:]) {
		bad("marshalbinary-wire", "MarshalBinary and sendPacket disagree: %s", c06diff(mb, w))
	}
	// (3) decode + re-encode with the wire codec
	if k.wireDec != nil {
		step = "decoding with the wire codec"
		got, re, err := k.wireDec(w)
		if err != nil {
			bad("roundtrip-wire", "wire codec cannot decode its own encoding: %v", err)
		} else {
			if g := got.canon(); g != want {
				bad("roundtrip-wire", "wire codec decodes its own bytes to other fields:\n got  %.300s\n want %.300s", g, want)
			}
			if re != nil {
				step = "re-encoding with the wire codec"
				w2, err := c06send(re)
				if err != nil || !bytes.Equal(w2, w) {
					bad("reencode-wire", "decode+re-encode is not the identity (%v): %s", err, c06diff(w2, w))
				}
			}
		}
	}
	// (4) filexfer codec: same bytes, decodes the wire codec's bytes to the same fields, and vice versa
	step = "encoding with the filexfer codec"
	f, err := k.fx(lp)
	if err != nil {
		bad("encode-fx", "filexfer encode: %v", err)
		return
	}
	if len(f) < 5 || int64(binary.BigEndian.Uint32(f)) != int64(len(f)-4) {
		bad("length-fx", "filexfer length prefix %d but %d bytes follow it", binary.BigEndian.Uint32(f), len(f)-4)
	}
	if !bytes.Equal(f, ref) {
		bad("layout-fx", "filexfer codec bytes differ from the draft layout (filexfer/reference): %s", c06diff(f, ref))
	}
	if !bytes.Equal(f, w) {
		bad("codecs-differ", "the two codecs encode the same logical packet differently (wire/filexfer): %s", c06diff(w, f))
	}
	step = "decoding the wire codec's bytes with the filexfer codec"
	got, re, err := k.fxDec(w)
	if err != nil {
		bad("fx-decodes-wire", "filexfer codec rejects the wire codec's bytes: %v", err)
	} else {
		if g := got.canon(); g != want {
			bad("fx-decodes-wire", "filexfer codec decodes the wire codec's bytes to other fields:\n got  %.300s\n want %.300s", g, want)
		}
		if !bytes.Equal(re, w) {
			bad("reencode-fx", "filexfer decode+re-encode is not the identity: %s", c06diff(re, w))
		}
	}
	if !bytes.Equal(f, w) {
		step = "decoding the filexfer codec's bytes with the filexfer codec"
		if got, _, err := k.fxDec(f); err != nil {
			bad("roundtrip-fx", "filexfer codec cannot decode its own encoding: %v", err)
		} else if g := got.canon(); g != want {
			bad("roundtrip-fx", "filexfer codec decodes its own bytes to other fields:\n got  %.300s\n want %.300s", g, want)
		}
		if k.wireDec != nil && len(f) >= 5 {
			step = "decoding the filexfer codec's bytes with the wire codec"
			if got, _, err := k.wireDec(f); err != nil {
				bad("wire-decodes-fx", "wire codec rejects the filexfer codec's bytes: %v", err)
			} else if g := got.canon(); g != want {
				bad("wire-decodes-fx", "wire codec decodes the filexfer codec's bytes to other fields:\n got  %.300s\n want %.300s", g, want)
			}
		}
	}
	return probs
}

func c06lenBucket(n int) string {
	switch {
	case n < 16:
		return "<16"
	case n < 64:
		return "<64"
	case n < 512:
		return "<512"
	case n < 40000:
		return "<40000"
	}
	return ">=40000"
}

func init() {
	reg.Part("C06/codec", func(c *reg.Ctx) *reg.Result {
		res := reg.NewResult(c.Part)
		c06registerExtensions()
		thorough := !c.Quick()
		only := c.Arg("kind", "")
		if c.Replay != nil { // replay of a recorded violation: re-run the whole (small) product of that kind
			var rp struct {
				Kind string `json:"kind"`
			}
			if json.Unmarshal(c.Replay, &rp) == nil {
				only = rp.Kind
			}
		}
		var i int64
		perKind := map[string]int64{}
		for _, k := range c06allKinds() {
			k := k
			if only != "" && only != k.name {
				continue
			}
			stop := false
			c06enumerate(k.name, k.typ, thorough, func(lp *c06lp) {
				i++
				perKind[k.name]++
				if stop || !c.Mine(i) {
					return
				}
				if i%512 == 0 && c.Expired() {
					stop = true
					res.Exhaustive = false
					res.Bound = fmt.Sprintf("deadline reached inside kind %s", k.name)
					return
				}
				res.Evaluations++
				res.Distinct++
				if res.Evaluations%997 == 1 {
					res.Sample(lp.describe())
				}
				probs := c06checkCase(&k, lp)
				ref := c06RefEncode(lp).b
				if len(probs) == 0 {
					res.Outcome(k.name + " ok len" + c06lenBucket(len(ref)))
				}
				for _, p := range probs {
					res.Outcome(k.name + " " + p.check)
					res.Violate("C06", "c06-"+p.check+":"+k.name, fmt.Sprintf("%s: %s\ncase: %s\nreference encoding: %s", k.name, p.msg, lp.describe(), c06hexShort(ref)),
						map[string]any{"kind": k.name, "case": lp.describe(), "canon": lp.canon(), "reference_hex": c06hexShort(ref)}, nil)
				}
			})
			if stop {
				break
			}
		}
		res.Notes["cases_per_kind"] = perKind
		if res.Bound == "" {
			res.Bound = "full product of the per-field domains for every packet kind"
		}
		return res
	})
	reg.Prop(&reg.Property{
		ID: "C06", Level: "model_checking",
		Rule: "one case = one logical packet from the full product of per-field domains of its kind (ids, 64-bit offsets, strings incl. empty/NUL/non-UTF-8/255/256 bytes, payload lengths, all 32 attribute-flag subsets × extended counts 0..2 × two value sets, name lists of 0..3 entries, extension-pair lists); all cases of a kind are distinct by construction; each is encoded by both codecs and a reference encoder and decoded by both codecs",
		Assumptions: []string{
			"the reference encoder (harness/c06_model.go, written from draft-ietf-secsh-filexfer-02 and OpenSSH PROTOCOL, sharing no code with the package) is the layout oracle",
			"a logical WRITE/DATA packet has Length == len(Data); a logical MKDIR carries empty attributes (the wire codec's struct has only the ignored flags word)",
			"NAME/ATTRS responses are given to the wire codec the way the servers do: os.FileInfo flavours (plain, with Uid/Gid, with *syscall.Stat_t, with extended data) or the empty attribute block; so their attribute-flag sets are the ones those produce",
			"responses, VERSION and the statvfs reply have no UnmarshalBinary in the wire codec: they are decoded the way client.go does (unmarshalStatus, unmarshalAttrs, unmarshalString, binary.Read)",
			"the OpenSSH extended packet types are registered with the filexfer codec inside the worker",
		},
		Jobs: func(tier string) []reg.Job {
			return []reg.Job{{Part: "C06/codec", Build: "plain", Shards: 8, BudgetS: 300, Procs: 1, Label: "codec product (" + tier + ")"}}
		},
	})
}
