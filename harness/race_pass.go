//go:build verif

package sftp

// Free-running pass under the race detector (DESIGN.md §2.7): supporting evidence for the
// soundness condition of the scheduled checks ("scheduling points at synchronisation operations
// suffice"). It samples schedules, so it decides nothing by itself; a race report is turned into a
// violation by the driver.

import (
	"fmt"
	"os"
	"path/filepath"
	"sync"
	"time"

	"verif/reg"
)

func racePass(c *reg.Ctx) *reg.Result {
	res := reg.NewResult(c.Part)
	iters := c.ArgInt("iters", 60)
	for _, server := range []string{"os", "rs"} {
		for _, alloc := range []bool{false, true} {
			for it := 0; it < iters; it++ {
				if c.Expired() {
					res.Exhaustive = false
					return res
				}
				if !c.Mine(int64(it)) {
					continue
				}
				// the pass is free-running: there is no deadlock oracle here, so an iteration that does not
				// finish (possible on broken code) ends the pass as inconclusive instead of hanging the check
				done := make(chan string, 1)
				go func() { done <- raceIteration(server, alloc) }()
				select {
				case msg := <-done:
					if msg != "" {
						res.Violate(c.Property, "race-pass-setup", msg, nil, nil)
						return res
					}
				case <-time.After(60 * time.Second):
					res.Exhaustive = false
					res.Notes["hung_iteration"] = fmt.Sprintf("%s alloc=%v #%d did not finish within 60 s (inconclusive; the scheduled parts decide hangs)", server, alloc, it)
					return res
				}
				res.Case(fmt.Sprintf("%s alloc=%v #%d", server, alloc, it))
			}
		}
	}
	res.Sample("4 goroutines share one Client and one File (multi-chunk ReadAt/WriteAt, Stat, ReadDir, RealPath) against both servers, allocator off/on, under -race")
	res.Bound = "sampling pass under the race detector (supporting evidence only)"
	return res
}

func raceIteration(server string, alloc bool) string {
	var s *bSession
	root := ""
	path := "/f"
	if server == "os" {
		root = scratchDir()
		os.WriteFile(filepath.Join(root, "f"), []byte("abcdefghijklmnopqrstuvwxyz"), 0o644)
		opts := []ServerOption{WithServerWorkingDirectory(root)}
		if alloc {
			opts = append(opts, WithAllocator())
		}
		s = bServeOS(opts...)
		path = "f"
	} else {
		h := InMemHandler()
		var opts []RequestServerOption
		if alloc {
			opts = append(opts, WithRSAllocator())
		}
		s = bServeRS(h, opts...)
	}
	cl, err := s.Client(MaxPacketUnchecked(3), MaxConcurrentRequestsPerFile(3), UseConcurrentWrites(true))
	if err != nil {
		return "NewClientPipe: " + err.Error()
	}
	f, err := cl.OpenFile(path, os.O_RDWR|os.O_CREATE)
	if err != nil {
		return "OpenFile: " + err.Error()
	}
	if server == "rs" {
		f.WriteAt([]byte("abcdefghijklmnopqrstuvwxyz"), 0)
	}
	var wg sync.WaitGroup
	for g := 0; g < 4; g++ {
		g := g
		wg.Add(1)
		go func() {
			defer wg.Done()
			buf := make([]byte, 10)
			switch g {
			case 0:
				f.ReadAt(buf, 2) // multi-chunk concurrent read
				cl.Stat(path)
			case 1:
				f.WriteAt([]byte("0123456789"), 12) // multi-chunk concurrent write
				cl.Lstat(path)
			case 2:
				f.Stat()
				f.ReadAt(buf[:3], 0)
				cl.ReadDir(".")
			case 3:
				cl.RealPath("x/../y")
				f.WriteAt([]byte("zz"), 24)
			}
		}()
	}
	wg.Wait()
	f.Close()
	s.Stop(cl)
	if root != "" {
		os.RemoveAll(root)
	}
	return ""
}

func init() {
	reg.Part("race/mix", racePass)
}

// raceJob is appended to the properties whose exhaustive claim relies on synchronisation points.
func raceJob(tier string) reg.Job {
	it := "48"
	if tier == "thorough" {
		it = "800"
	}
	return reg.Job{Part: "race/mix", Build: "plain-race", Args: map[string]string{"iters": it}, Shards: 8, BudgetS: 100, Procs: 2, Optional: true,
		Label: "free-running pass under the race detector (supporting evidence, not deciding)"}
}
