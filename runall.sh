#!/bin/sh
# runs every property's check at the given tier (default quick); prints one line per property
cd "$(dirname "$0")"
tier="${1:-quick}"
for i in 01 02 03 04 05 06 07 08 09 10 11 12 13 14 15 16 17 18 19 20; do
  s=$(date +%s)
  out=$(./check C$i $tier 2>&1); rc=$?
  e=$(date +%s)
  echo "C$i rc=$rc $((e-s))s $(echo "$out" | grep "^C$i $tier" | cut -c1-200)"
  echo "$out" | grep "^VIOLATION\|^KNOWN\|ENGINE" | cut -c1-200
done
