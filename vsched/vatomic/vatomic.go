// Package vatomic mirrors the parts of sync/atomic that package sftp uses.
package vatomic

import (
	"sync/atomic"

	"verif/vsched"
)

func AddUint32(addr *uint32, delta uint32) uint32 {
	vsched.AtomicPoint(addr, false)
	return atomic.AddUint32(addr, delta)
}
func LoadUint32(addr *uint32) uint32 { vsched.AtomicPoint(addr, true); return atomic.LoadUint32(addr) }
func StoreUint32(addr *uint32, v uint32) {
	vsched.AtomicPoint(addr, false)
	atomic.StoreUint32(addr, v)
}
func CompareAndSwapUint32(addr *uint32, o, n uint32) bool {
	vsched.AtomicPoint(addr, false)
	return atomic.CompareAndSwapUint32(addr, o, n)
}
func AddUint64(addr *uint64, delta uint64) uint64 {
	vsched.AtomicPoint(addr, false)
	return atomic.AddUint64(addr, delta)
}
func LoadUint64(addr *uint64) uint64 { vsched.AtomicPoint(addr, true); return atomic.LoadUint64(addr) }
func AddInt32(addr *int32, delta int32) int32 {
	vsched.AtomicPoint(addr, false)
	return atomic.AddInt32(addr, delta)
}
func LoadInt32(addr *int32) int32 { vsched.AtomicPoint(addr, true); return atomic.LoadInt32(addr) }
func AddInt64(addr *int64, delta int64) int64 {
	vsched.AtomicPoint(addr, false)
	return atomic.AddInt64(addr, delta)
}
func LoadInt64(addr *int64) int64 { vsched.AtomicPoint(addr, true); return atomic.LoadInt64(addr) }
