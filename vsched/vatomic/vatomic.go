// Package vatomic mirrors sync/atomic for the instrumented build: every operation is a scheduling
// point on the address (or object) it touches, then the real atomic operation is performed.
package vatomic

import (
	"sync/atomic"
	"unsafe"

	"verif/vsched"
)

func AddInt32(addr *int32, delta int32) int32 {
	vsched.AtomicPoint(addr, false)
	return atomic.AddInt32(addr, delta)
}
func LoadInt32(addr *int32) int32     { vsched.AtomicPoint(addr, true); return atomic.LoadInt32(addr) }
func StoreInt32(addr *int32, v int32) { vsched.AtomicPoint(addr, false); atomic.StoreInt32(addr, v) }
func SwapInt32(addr *int32, v int32) int32 {
	vsched.AtomicPoint(addr, false)
	return atomic.SwapInt32(addr, v)
}
func CompareAndSwapInt32(addr *int32, o, n int32) bool {
	vsched.AtomicPoint(addr, false)
	return atomic.CompareAndSwapInt32(addr, o, n)
}

// Int32 mirrors atomic.Int32.
type Int32 struct{ v atomic.Int32 }

func (x *Int32) Load() int32        { vsched.AtomicPoint(x, true); return x.v.Load() }
func (x *Int32) Store(v int32)      { vsched.AtomicPoint(x, false); x.v.Store(v) }
func (x *Int32) Swap(v int32) int32 { vsched.AtomicPoint(x, false); return x.v.Swap(v) }
func (x *Int32) Add(d int32) int32  { vsched.AtomicPoint(x, false); return x.v.Add(d) }
func (x *Int32) CompareAndSwap(o, n int32) bool {
	vsched.AtomicPoint(x, false)
	return x.v.CompareAndSwap(o, n)
}

func AddInt64(addr *int64, delta int64) int64 {
	vsched.AtomicPoint(addr, false)
	return atomic.AddInt64(addr, delta)
}
func LoadInt64(addr *int64) int64     { vsched.AtomicPoint(addr, true); return atomic.LoadInt64(addr) }
func StoreInt64(addr *int64, v int64) { vsched.AtomicPoint(addr, false); atomic.StoreInt64(addr, v) }
func SwapInt64(addr *int64, v int64) int64 {
	vsched.AtomicPoint(addr, false)
	return atomic.SwapInt64(addr, v)
}
func CompareAndSwapInt64(addr *int64, o, n int64) bool {
	vsched.AtomicPoint(addr, false)
	return atomic.CompareAndSwapInt64(addr, o, n)
}

// Int64 mirrors atomic.Int64.
type Int64 struct{ v atomic.Int64 }

func (x *Int64) Load() int64        { vsched.AtomicPoint(x, true); return x.v.Load() }
func (x *Int64) Store(v int64)      { vsched.AtomicPoint(x, false); x.v.Store(v) }
func (x *Int64) Swap(v int64) int64 { vsched.AtomicPoint(x, false); return x.v.Swap(v) }
func (x *Int64) Add(d int64) int64  { vsched.AtomicPoint(x, false); return x.v.Add(d) }
func (x *Int64) CompareAndSwap(o, n int64) bool {
	vsched.AtomicPoint(x, false)
	return x.v.CompareAndSwap(o, n)
}

func AddUint32(addr *uint32, delta uint32) uint32 {
	vsched.AtomicPoint(addr, false)
	return atomic.AddUint32(addr, delta)
}
func LoadUint32(addr *uint32) uint32 { vsched.AtomicPoint(addr, true); return atomic.LoadUint32(addr) }
func StoreUint32(addr *uint32, v uint32) {
	vsched.AtomicPoint(addr, false)
	atomic.StoreUint32(addr, v)
}
func SwapUint32(addr *uint32, v uint32) uint32 {
	vsched.AtomicPoint(addr, false)
	return atomic.SwapUint32(addr, v)
}
func CompareAndSwapUint32(addr *uint32, o, n uint32) bool {
	vsched.AtomicPoint(addr, false)
	return atomic.CompareAndSwapUint32(addr, o, n)
}

// Uint32 mirrors atomic.Uint32.
type Uint32 struct{ v atomic.Uint32 }

func (x *Uint32) Load() uint32         { vsched.AtomicPoint(x, true); return x.v.Load() }
func (x *Uint32) Store(v uint32)       { vsched.AtomicPoint(x, false); x.v.Store(v) }
func (x *Uint32) Swap(v uint32) uint32 { vsched.AtomicPoint(x, false); return x.v.Swap(v) }
func (x *Uint32) Add(d uint32) uint32  { vsched.AtomicPoint(x, false); return x.v.Add(d) }
func (x *Uint32) CompareAndSwap(o, n uint32) bool {
	vsched.AtomicPoint(x, false)
	return x.v.CompareAndSwap(o, n)
}

func AddUint64(addr *uint64, delta uint64) uint64 {
	vsched.AtomicPoint(addr, false)
	return atomic.AddUint64(addr, delta)
}
func LoadUint64(addr *uint64) uint64 { vsched.AtomicPoint(addr, true); return atomic.LoadUint64(addr) }
func StoreUint64(addr *uint64, v uint64) {
	vsched.AtomicPoint(addr, false)
	atomic.StoreUint64(addr, v)
}
func SwapUint64(addr *uint64, v uint64) uint64 {
	vsched.AtomicPoint(addr, false)
	return atomic.SwapUint64(addr, v)
}
func CompareAndSwapUint64(addr *uint64, o, n uint64) bool {
	vsched.AtomicPoint(addr, false)
	return atomic.CompareAndSwapUint64(addr, o, n)
}

// Uint64 mirrors atomic.Uint64.
type Uint64 struct{ v atomic.Uint64 }

func (x *Uint64) Load() uint64         { vsched.AtomicPoint(x, true); return x.v.Load() }
func (x *Uint64) Store(v uint64)       { vsched.AtomicPoint(x, false); x.v.Store(v) }
func (x *Uint64) Swap(v uint64) uint64 { vsched.AtomicPoint(x, false); return x.v.Swap(v) }
func (x *Uint64) Add(d uint64) uint64  { vsched.AtomicPoint(x, false); return x.v.Add(d) }
func (x *Uint64) CompareAndSwap(o, n uint64) bool {
	vsched.AtomicPoint(x, false)
	return x.v.CompareAndSwap(o, n)
}

func AddUintptr(addr *uintptr, delta uintptr) uintptr {
	vsched.AtomicPoint(addr, false)
	return atomic.AddUintptr(addr, delta)
}
func LoadUintptr(addr *uintptr) uintptr {
	vsched.AtomicPoint(addr, true)
	return atomic.LoadUintptr(addr)
}
func StoreUintptr(addr *uintptr, v uintptr) {
	vsched.AtomicPoint(addr, false)
	atomic.StoreUintptr(addr, v)
}
func SwapUintptr(addr *uintptr, v uintptr) uintptr {
	vsched.AtomicPoint(addr, false)
	return atomic.SwapUintptr(addr, v)
}
func CompareAndSwapUintptr(addr *uintptr, o, n uintptr) bool {
	vsched.AtomicPoint(addr, false)
	return atomic.CompareAndSwapUintptr(addr, o, n)
}

func LoadPointer(addr *unsafe.Pointer) unsafe.Pointer {
	vsched.AtomicPoint(addr, true)
	return atomic.LoadPointer(addr)
}
func StorePointer(addr *unsafe.Pointer, v unsafe.Pointer) {
	vsched.AtomicPoint(addr, false)
	atomic.StorePointer(addr, v)
}
func SwapPointer(addr *unsafe.Pointer, v unsafe.Pointer) unsafe.Pointer {
	vsched.AtomicPoint(addr, false)
	return atomic.SwapPointer(addr, v)
}
func CompareAndSwapPointer(addr *unsafe.Pointer, o, n unsafe.Pointer) bool {
	vsched.AtomicPoint(addr, false)
	return atomic.CompareAndSwapPointer(addr, o, n)
}

// Bool mirrors atomic.Bool.
type Bool struct{ v atomic.Bool }

func (x *Bool) Load() bool       { vsched.AtomicPoint(x, true); return x.v.Load() }
func (x *Bool) Store(v bool)     { vsched.AtomicPoint(x, false); x.v.Store(v) }
func (x *Bool) Swap(v bool) bool { vsched.AtomicPoint(x, false); return x.v.Swap(v) }
func (x *Bool) CompareAndSwap(o, n bool) bool {
	vsched.AtomicPoint(x, false)
	return x.v.CompareAndSwap(o, n)
}

// Value mirrors atomic.Value.
type Value struct{ v atomic.Value }

func (x *Value) Load() any      { vsched.AtomicPoint(x, true); return x.v.Load() }
func (x *Value) Store(v any)    { vsched.AtomicPoint(x, false); x.v.Store(v) }
func (x *Value) Swap(v any) any { vsched.AtomicPoint(x, false); return x.v.Swap(v) }
func (x *Value) CompareAndSwap(o, n any) bool {
	vsched.AtomicPoint(x, false)
	return x.v.CompareAndSwap(o, n)
}

// Pointer mirrors atomic.Pointer[T].
type Pointer[T any] struct{ v atomic.Pointer[T] }

func (x *Pointer[T]) Load() *T     { vsched.AtomicPoint(x, true); return x.v.Load() }
func (x *Pointer[T]) Store(v *T)   { vsched.AtomicPoint(x, false); x.v.Store(v) }
func (x *Pointer[T]) Swap(v *T) *T { vsched.AtomicPoint(x, false); return x.v.Swap(v) }
func (x *Pointer[T]) CompareAndSwap(o, n *T) bool {
	vsched.AtomicPoint(x, false)
	return x.v.CompareAndSwap(o, n)
}
