package vsched

// Happens-before fingerprints.
//
// Every executed step is an event. Its fingerprint is a hash of: the thread, the kind and source
// position of the operation, the data choice made inside the step (select case, Choose value,
// rendezvous partner), the fingerprint of the previous event of the same thread, and, for every
// object the operation touches, the fingerprint of the last write-like event on that object and
// (for write-like operations) the commutative sum of the read-like events since then. The
// dependence relation is the one of Independent(): two operations are dependent iff they touch a
// common object and are not both read-like; a select touches all its channels.
//
// An event fingerprint therefore identifies the event together with its whole causal past, and
// the vector of the threads' latest fingerprints identifies the partial order executed so far, up
// to hash collision (2 x 64 bits). Two prefixes with the same vector are linearisations of the
// same partial order of the same events, hence lead to the same state of every thread and every
// shared object - under the same assumption that sleep-set reduction makes: threads communicate
// through visible operations only.
type h128 struct{ a, b uint64 }

func mix64(h, v uint64) uint64 {
	h ^= v + 0x9e3779b97f4a7c15 + (h << 6) + (h >> 2)
	h ^= h >> 30
	h *= 0xbf58476d1ce4e5b9
	h ^= h >> 27
	h *= 0x94d049bb133111eb
	h ^= h >> 31
	return h
}

func (h h128) add(v uint64) h128 {
	return h128{mix64(h.a, v), mix64(h.b^0x5851f42d4c957f2d, v*0x2545f4914f6cdd1d+1)}
}
func (h h128) addH(o h128) h128 { return h.add(o.a).add(o.b) }
func (h h128) plus(o h128) h128 { return h128{h.a + o.a, h.b + o.b} }

func strHash(s string) uint64 {
	var h uint64 = 14695981039346656037
	for i := 0; i < len(s); i++ {
		h ^= uint64(s[i])
		h *= 1099511628211
	}
	return h
}

type hbState struct {
	th     []h128
	w      map[any]h128
	r      map[any]h128
	resume []bool
	posH   map[string]uint64
}

func newHB() *hbState {
	return &hbState{w: map[any]h128{}, r: map[any]h128{}, posH: map[string]uint64{}}
}

func (s *hbState) pos(p string) uint64 {
	if v, ok := s.posH[p]; ok {
		return v
	}
	v := strHash(p)
	s.posH[p] = v
	return v
}

func (s *hbState) spawn(parent, t *thread) {
	h := h128{1, 2}
	if parent != nil && parent.id < len(s.th) {
		h = s.th[parent.id]
	}
	h = h.add(uint64(t.id)).add(s.pos(t.name))
	for len(s.th) <= t.id {
		s.th = append(s.th, h128{})
	}
	s.th[t.id] = h
}

// before records which threads are already marked resume (none, normally) so that after() can
// tell which partners this step completed.
func (s *hbState) before(e *Exec) {
	s.resume = s.resume[:0]
	for _, t := range e.threads {
		s.resume = append(s.resume, t.resume)
	}
}

func (s *hbState) after(e *Exec, t *thread, op *Op) {
	h := s.th[t.id].add(uint64(t.id)).add(uint64(op.Kind)).add(s.pos(op.Pos))
	switch op.Kind {
	case KSelect, KChoose:
		h = h.add(uint64(int64(t.selIdx)))
	}
	if op.Idle {
		// runs only at quiescence: ordered after everything that happened, and before everything that follows
		for i := range s.th {
			h = h.addH(s.th[i])
		}
		for i := range s.th {
			if i != t.id {
				s.th[i] = s.th[i].addH(h)
			}
		}
		s.th[t.id] = h
		return
	}
	readLike := op.ReadLike || op.Kind == KRLock
	objs := objsOf(op)
	for _, o := range objs {
		h = h.addH(s.w[o])
		if !readLike {
			h = h.addH(s.r[o])
		}
	}
	// partners completed by this step (rendezvous)
	for i, p := range e.threads {
		if p.resume && (i >= len(s.resume) || !s.resume[i]) {
			h = h.add(uint64(p.id)).addH(s.th[p.id])
		}
	}
	s.th[t.id] = h
	for _, o := range objs {
		if readLike {
			s.r[o] = s.r[o].plus(h)
		} else {
			s.w[o] = h
			delete(s.r, o)
		}
	}
	for i, p := range e.threads {
		if p.resume && (i >= len(s.resume) || !s.resume[i]) {
			s.th[p.id] = s.th[p.id].addH(h).add(uint64(int64(p.selIdx)))
		}
	}
}

// HBKey returns the fingerprint of the partial order executed so far (extra distinguishes
// scheduler-policy state that is not part of it, e.g. the thread the default schedule would
// continue with). Valid only with TrackHB.
func (e *Exec) HBKey(extra int) [2]uint64 {
	h := h128{uint64(len(e.hb.th)), uint64(extra) + 77}
	for i := range e.hb.th {
		h = h.addH(e.hb.th[i])
	}
	return [2]uint64{h.a, h.b}
}
