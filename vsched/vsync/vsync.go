// Package vsync mirrors the parts of package sync that package sftp uses; the instrumenter
// rewrites `import "sync"` to this package.
package vsync

import (
	"sync"

	"verif/vsched"
)

type Locker = sync.Locker

type Mutex struct {
	st   vsched.MutexState
	real sync.Mutex
}

func (m *Mutex) Lock() {
	if !vsched.Active() {
		m.real.Lock()
		return
	}
	vsched.SyncPoint(vsched.KLock, &m.st, 0, "Mutex.Lock")
}
func (m *Mutex) Unlock() {
	if !vsched.Active() {
		m.real.Unlock()
		return
	}
	vsched.SyncPoint(vsched.KUnlock, &m.st, 0, "Mutex.Unlock")
}

type RWMutex struct {
	st   vsched.MutexState
	real sync.RWMutex
}

func (m *RWMutex) Lock() {
	if !vsched.Active() {
		m.real.Lock()
		return
	}
	// Go's RWMutex prefers writers: a pending Lock blocks new readers. Two phases model that.
	m.st.RW = true
	vsched.SyncPoint(vsched.KLockAnn, &m.st, 0, "RWMutex.Lock(announce)")
	vsched.SyncPoint(vsched.KLock, &m.st, 0, "RWMutex.Lock")
}
func (m *RWMutex) Unlock() {
	if !vsched.Active() {
		m.real.Unlock()
		return
	}
	vsched.SyncPoint(vsched.KUnlock, &m.st, 0, "RWMutex.Unlock")
}
func (m *RWMutex) RLock() {
	if !vsched.Active() {
		m.real.RLock()
		return
	}
	vsched.SyncPoint(vsched.KRLock, &m.st, 0, "RWMutex.RLock")
}
func (m *RWMutex) RUnlock() {
	if !vsched.Active() {
		m.real.RUnlock()
		return
	}
	vsched.SyncPoint(vsched.KRUnlock, &m.st, 0, "RWMutex.RUnlock")
}

type WaitGroup struct {
	st   vsched.WgState
	real sync.WaitGroup
}

func (w *WaitGroup) Add(n int) {
	if !vsched.Active() {
		w.real.Add(n)
		return
	}
	vsched.SyncPoint(vsched.KWgAdd, &w.st, n, "WaitGroup.Add")
}
func (w *WaitGroup) Done() { w.Add(-1) }
func (w *WaitGroup) Wait() {
	if !vsched.Active() {
		w.real.Wait()
		return
	}
	vsched.SyncPoint(vsched.KWgWait, &w.st, 0, "WaitGroup.Wait")
}
func (w *WaitGroup) Go(f func()) {
	w.Add(1)
	vsched.Go("WaitGroup.Go", func() { defer w.Done(); f() })
}

// Once holds its mutex while f runs, exactly like sync.Once.
type Once struct {
	m    Mutex
	done bool
}

func (o *Once) Do(f func()) {
	o.m.Lock()
	defer o.m.Unlock()
	if !o.done {
		defer func() { o.done = true }()
		f()
	}
}
