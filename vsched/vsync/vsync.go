// Package vsync mirrors the parts of package sync that package sftp uses; the instrumenter
// rewrites `import "sync"` to this package.
package vsync

import (
	"sync"

	"verif/vsched"
)

type Locker = sync.Locker

type Mutex struct {
	st   vsched.MutexState
	real sync.Mutex
}

func (m *Mutex) Lock() {
	if !vsched.Active() {
		m.real.Lock()
		return
	}
	vsched.SyncPoint(vsched.KLock, &m.st, 0, "Mutex.Lock")
}
func (m *Mutex) Unlock() {
	if !vsched.Active() {
		m.real.Unlock()
		return
	}
	vsched.SyncPoint(vsched.KUnlock, &m.st, 0, "Mutex.Unlock")
}

type RWMutex struct {
	st   vsched.MutexState
	real sync.RWMutex
}

func (m *RWMutex) Lock() {
	if !vsched.Active() {
		m.real.Lock()
		return
	}
	// Go's RWMutex prefers writers: a pending Lock blocks new readers. Two phases model that.
	m.st.RW = true
	vsched.SyncPoint(vsched.KLockAnn, &m.st, 0, "RWMutex.Lock(announce)")
	vsched.SyncPoint(vsched.KLock, &m.st, 0, "RWMutex.Lock")
}
func (m *RWMutex) Unlock() {
	if !vsched.Active() {
		m.real.Unlock()
		return
	}
	vsched.SyncPoint(vsched.KUnlock, &m.st, 0, "RWMutex.Unlock")
}
func (m *RWMutex) RLock() {
	if !vsched.Active() {
		m.real.RLock()
		return
	}
	vsched.SyncPoint(vsched.KRLock, &m.st, 0, "RWMutex.RLock")
}
func (m *RWMutex) RUnlock() {
	if !vsched.Active() {
		m.real.RUnlock()
		return
	}
	vsched.SyncPoint(vsched.KRUnlock, &m.st, 0, "RWMutex.RUnlock")
}

type WaitGroup struct {
	st   vsched.WgState
	real sync.WaitGroup
}

func (w *WaitGroup) Add(n int) {
	if !vsched.Active() {
		w.real.Add(n)
		return
	}
	vsched.SyncPoint(vsched.KWgAdd, &w.st, n, "WaitGroup.Add")
}
func (w *WaitGroup) Done() { w.Add(-1) }
func (w *WaitGroup) Wait() {
	if !vsched.Active() {
		w.real.Wait()
		return
	}
	vsched.SyncPoint(vsched.KWgWait, &w.st, 0, "WaitGroup.Wait")
}
func (w *WaitGroup) Go(f func()) {
	w.Add(1)
	vsched.Go("WaitGroup.Go", func() { defer w.Done(); f() })
}

// Once holds its mutex while f runs, exactly like sync.Once.
type Once struct {
	m    Mutex
	done bool
}

func (o *Once) Do(f func()) {
	o.m.Lock()
	defer o.m.Unlock()
	if !o.done {
		defer func() { o.done = true }()
		f()
	}
}

func (m *Mutex) TryLock() bool {
	if !vsched.Active() {
		return m.real.TryLock()
	}
	vsched.SyncPoint(vsched.KAtomic, &m.st, 0, "Mutex.TryLock")
	if m.st.W {
		return false
	}
	m.st.W = true
	return true
}

func (m *RWMutex) TryLock() bool {
	if !vsched.Active() {
		return m.real.TryLock()
	}
	vsched.SyncPoint(vsched.KAtomic, &m.st, 0, "RWMutex.TryLock")
	if m.st.W || m.st.Ann || m.st.R > 0 {
		return false
	}
	m.st.RW, m.st.W = true, true
	return true
}

func (m *RWMutex) TryRLock() bool {
	if !vsched.Active() {
		return m.real.TryRLock()
	}
	vsched.SyncPoint(vsched.KAtomic, &m.st, 0, "RWMutex.TryRLock")
	if m.st.W || m.st.Ann {
		return false
	}
	m.st.R++
	return true
}

type rlocker RWMutex

func (r *rlocker) Lock()   { (*RWMutex)(r).RLock() }
func (r *rlocker) Unlock() { (*RWMutex)(r).RUnlock() }

// RLocker mirrors (*sync.RWMutex).RLocker.
func (m *RWMutex) RLocker() Locker { return (*rlocker)(m) }

// Cond mirrors sync.Cond; under the scheduler waiting and signalling are scheduling points.
type Cond struct {
	L       Locker
	real    *sync.Cond
	waiters []*condWaiter
}

type condWaiter struct{ signalled bool }

func NewCond(l Locker) *Cond { return &Cond{L: l, real: sync.NewCond(l)} }

func (c *Cond) Wait() {
	if !vsched.Active() {
		c.real.Wait()
		return
	}
	w := &condWaiter{}
	c.waiters = append(c.waiters, w)
	c.L.Unlock()
	vsched.Env("Cond.Wait", c, false, func() bool { return w.signalled })
	c.L.Lock()
}

func (c *Cond) Signal() {
	if !vsched.Active() {
		c.real.Signal()
		return
	}
	vsched.Env("Cond.Signal", c, false, nil)
	if len(c.waiters) > 0 {
		c.waiters[0].signalled = true
		c.waiters = c.waiters[1:]
	}
}

func (c *Cond) Broadcast() {
	if !vsched.Active() {
		c.real.Broadcast()
		return
	}
	vsched.Env("Cond.Broadcast", c, false, nil)
	for _, w := range c.waiters {
		w.signalled = true
	}
	c.waiters = nil
}

// Pool mirrors sync.Pool; under the scheduler it is a deterministic LIFO free list.
type Pool struct {
	New   func() any
	real  sync.Pool
	items []any
}

func (p *Pool) Get() any {
	if !vsched.Active() {
		if v := p.real.Get(); v != nil {
			return v
		}
		if p.New != nil {
			return p.New()
		}
		return nil
	}
	vsched.Env("Pool.Get", p, false, nil)
	if n := len(p.items); n > 0 {
		v := p.items[n-1]
		p.items = p.items[:n-1]
		return v
	}
	if p.New != nil {
		return p.New()
	}
	return nil
}

func (p *Pool) Put(v any) {
	if !vsched.Active() {
		p.real.Put(v)
		return
	}
	vsched.Env("Pool.Put", p, false, nil)
	p.items = append(p.items, v)
}

// Map mirrors sync.Map (every operation is a scheduling point on the map).
type Map struct{ real sync.Map }

func (m *Map) pt(readLike bool)                 { vsched.Env("Map", m, readLike, nil) }
func (m *Map) Load(k any) (any, bool)           { m.pt(true); return m.real.Load(k) }
func (m *Map) Store(k, v any)                   { m.pt(false); m.real.Store(k, v) }
func (m *Map) LoadOrStore(k, v any) (any, bool) { m.pt(false); return m.real.LoadOrStore(k, v) }
func (m *Map) LoadAndDelete(k any) (any, bool)  { m.pt(false); return m.real.LoadAndDelete(k) }
func (m *Map) Delete(k any)                     { m.pt(false); m.real.Delete(k) }
func (m *Map) Swap(k, v any) (any, bool)        { m.pt(false); return m.real.Swap(k, v) }
func (m *Map) CompareAndSwap(k, o, n any) bool  { m.pt(false); return m.real.CompareAndSwap(k, o, n) }
func (m *Map) CompareAndDelete(k, o any) bool   { m.pt(false); return m.real.CompareAndDelete(k, o) }
func (m *Map) Range(f func(k, v any) bool)      { m.pt(true); m.real.Range(f) }
func (m *Map) Clear()                           { m.pt(false); m.real.Clear() }

// OnceFunc, OnceValue and OnceValues mirror the sync helpers.
func OnceFunc(f func()) func() {
	var o Once
	return func() { o.Do(f) }
}

func OnceValue[T any](f func() T) func() T {
	var o Once
	var v T
	return func() T { o.Do(func() { v = f() }); return v }
}

func OnceValues[T1, T2 any](f func() (T1, T2)) func() (T1, T2) {
	var o Once
	var a T1
	var b T2
	return func() (T1, T2) { o.Do(func() { a, b = f() }); return a, b }
}
