// Package vsched is the cooperative scheduler runtime that instrumented copies
// of package sftp run under (DESIGN.md §2.2).
//
// With no execution active (ex == nil) every shim performs the real operation
// ("passthrough"); the repository's own tests pass in that mode.  With an
// execution active exactly one registered thread runs at a time and every
// visible operation is a scheduling point decided by a Chooser.
package vsched

import (
	"cmp"
	"fmt"
	"reflect"
	"runtime"
	"slices"
	"sort"
	"strings"
	"time"
)

type Kind uint8

const (
	KSend Kind = iota
	KRecv
	KClose
	KSelect
	KLock    // Mutex.Lock, or second phase of RWMutex.Lock
	KLockAnn // first phase of RWMutex.Lock: announce the writer (blocks new readers)
	KUnlock
	KRLock
	KRUnlock
	KWgAdd
	KWgWait
	KSpawn
	KStart
	KEnv
	KChoose
	KAtomic
)

var kindName = [...]string{"send", "recv", "close", "select", "lock", "lock-announce", "unlock", "rlock", "runlock",
	"wg.add", "wg.wait", "go", "start", "env", "choose", "atomic"}

func (k Kind) String() string { return kindName[k] }

// Case is one communication clause of a select.
type Case struct {
	st   *chanState
	send bool
	val  any
	rv   reflect.Value // passthrough only
	rval reflect.Value
}

// Sel is the outcome of a select.
type Sel struct {
	Idx int // -1: default
	val any
	ok  bool
}

// Op is a pending visible operation.
type Op struct {
	Kind     Kind
	Obj      any
	Cases    []Case
	HasDef   bool
	Pos      string
	Enabled  func() bool
	ReadLike bool
	Idle     bool // enabled only when no other thread is enabled (quiescence)
	N        int
	val      any
	delta    int
}

type chanState struct {
	cap     int
	buf     []any
	closed  bool
	foreign bool
	ref     reflect.Value
}

type thread struct {
	id      int
	name    string
	wake    chan struct{}
	pending *Op
	done    bool
	resume  bool // op was completed by a partner; run to next point before the next decision
	val     any
	ok      bool
	selIdx  int
	fn      func()
	daemon  bool

	// bounded unfairness of select: Go chooses among ready cases at random, so a loop whose select always has
	// the same two cases ready leaves with probability 1; a default choice that takes the first ready case for
	// ever would make such a loop an infinite execution that cannot happen. After selFairAfter consecutive
	// executions of the select at the same position with several ready cases that all defaulted to the same
	// case, the order of the ready cases is rotated by one for the next execution.
	selFair map[string]*selStreak
}

type selStreak struct{ first, n int }

const selFairAfter = 8

// Chooser drives one execution.
type Chooser interface {
	// PickThread is called before every step with the enabled thread ids in canonical order (the
	// thread that made the previous step first if it is still enabled, then ascending ids; never
	// empty) and returns an index into that list, or -1 to abandon the execution (sleep-set blocked).
	PickThread(e *Exec, enabled []int) int
	// PickData chooses among n>1 alternatives (select case, partner, Choose).
	PickData(e *Exec, n int) int
}

// Exec is one controlled execution.
type Exec struct {
	threads  []*thread
	chans    map[uintptr]*chanState
	native   map[uintptr]bool
	back     chan *thread
	cur      *thread
	aborting bool
	ch       Chooser

	Steps     int
	MaxSteps  int
	Deadlock  bool
	Horizon   bool // step horizon exceeded
	DeadDump  string
	Blocked   bool
	Panic     any
	PanicTr   string
	Trace     []string
	KeepTrace bool
	Leaked    []string // non-daemon threads blocked for ever at the end
	MainDone  bool     // thread 0 had returned when the execution ended
	HookFail  string   // StepHook reported an invariant violation

	watch *time.Timer

	// happens-before fingerprints (explore strategies "hb" and "dbc"); nil unless TrackHB
	hb *hbState

	// Last is the id of the thread that made the previous step (-1 before the first)
	Last int
}

var ex *Exec // nil => passthrough

// Flavour names the build ("plain", "instr", "instr-w2", ...); set with -ldflags -X.
var Flavour = "unset"

type abortT struct{}

// Active reports whether a controlled execution is in progress.
func Active() bool { return ex != nil }

// Current returns the active execution (nil in passthrough).
func Current() *Exec { return ex }

// StepNo returns the number of scheduling steps made so far (a logical clock).
func StepNo() int {
	if ex == nil {
		return 0
	}
	return ex.Steps
}

func (e *Exec) Pending(tid int) *Op { return e.threads[tid].pending }
func (e *Exec) NumThreads() int     { return len(e.threads) }
func (e *Exec) ThreadName(tid int) string {
	return e.threads[tid].name
}

// StepWatchdog is the wall-clock limit for a single step; exceeding it is an engine error.
var StepWatchdog = 60 * time.Second

// TrackHB makes executions maintain happens-before fingerprints (see hb.go).
var TrackHB bool

// Run executes body as thread 0 under chooser c.
func Run(body func(), c Chooser, keepTrace bool, maxSteps int) *Exec {
	e := &Exec{chans: map[uintptr]*chanState{}, native: map[uintptr]bool{}, back: make(chan *thread), ch: c, KeepTrace: keepTrace, MaxSteps: maxSteps}
	if TrackHB {
		e.hb = newHB()
	}
	ex = e
	t0 := e.newThread("main", body)
	e.start(t0, false)
	e.waitBack() // t0 reached first point or exited
	e.loop()
	e.MainDone = t0.done
	// abort leftovers
	e.aborting = true
	for _, t := range e.threads {
		if !t.done {
			t.wake <- struct{}{}
			e.waitBack()
		}
	}
	ex = nil
	return e
}

func (e *Exec) waitBack() {
	select {
	case <-e.back:
		return
	default:
	}
	tm := time.NewTimer(StepWatchdog)
	select {
	case <-e.back:
		tm.Stop()
	case <-tm.C:
		buf := make([]byte, 1<<20)
		n := runtime.Stack(buf, true)
		fmt.Printf("ENGINE-ERROR: step blocked outside the scheduler for %v\n%s\n%s\n", StepWatchdog, e.Dump(), buf[:n])
		panic("vsched: watchdog")
	}
}

func (e *Exec) newThread(name string, fn func()) *thread {
	t := &thread{id: len(e.threads), name: name, wake: make(chan struct{}), fn: fn}
	e.threads = append(e.threads, t)
	if e.hb != nil {
		e.hb.spawn(e.cur, t)
	}
	return t
}

func (e *Exec) start(t *thread, parked bool) {
	go func() {
		defer func() {
			if r := recover(); r != nil {
				if _, ok := r.(abortT); !ok && e.Panic == nil {
					e.Panic = fmt.Sprintf("thread %d (%s): %v", t.id, t.name, r)
					buf := make([]byte, 16<<10)
					e.PanicTr = string(buf[:runtime.Stack(buf, false)])
				}
			}
			t.done = true
			t.pending = nil
			e.back <- t
		}()
		if parked {
			<-t.wake
			if e.aborting {
				panic(abortT{})
			}
		}
		e.cur = t
		t.fn()
	}()
}

func (e *Exec) enabledOp(t *thread) bool {
	op := t.pending
	switch op.Kind {
	case KSend:
		return e.sendReady(op.Obj.(*chanState), t)
	case KRecv:
		st := op.Obj.(*chanState)
		if st == nil {
			return false
		}
		e.pollForeign(st)
		return len(st.buf) > 0 || st.closed // plain recv on an empty open channel is passive
	case KSelect:
		if op.HasDef {
			return true
		}
		for _, c := range op.Cases {
			if e.caseReady(c, t) {
				return true
			}
		}
		return false
	case KLock:
		m := op.Obj.(*MutexState)
		if m.RW {
			return m.R == 0 // announced already, wait for the readers to leave
		}
		return !m.W
	case KLockAnn:
		m := op.Obj.(*MutexState)
		return !m.W && !m.Ann
	case KRLock:
		m := op.Obj.(*MutexState)
		return !m.W && !m.Ann
	case KWgWait:
		return op.Obj.(*WgState).N == 0
	case KEnv:
		return op.Enabled == nil || op.Enabled()
	}
	return true
}

func (e *Exec) pollForeign(st *chanState) {
	if !st.foreign || st.closed || st.ref.Type().ChanDir()&reflect.RecvDir == 0 {
		return
	}
	i, _, ok := reflect.Select([]reflect.SelectCase{{Dir: reflect.SelectRecv, Chan: st.ref}, {Dir: reflect.SelectDefault}})
	if i == 0 && !ok {
		st.closed = true
	}
}

// a thread parked at a plain recv or at a select with a recv case on st
func (e *Exec) pendingRecvs(st *chanState, not *thread) []*thread {
	var r []*thread
	for _, o := range e.threads {
		if o == not || o.done || o.pending == nil || o.resume {
			continue
		}
		p := o.pending
		if p.Kind == KRecv && p.Obj.(*chanState) == st {
			r = append(r, o)
		} else if p.Kind == KSelect {
			for _, c := range p.Cases {
				if !c.send && c.st == st {
					r = append(r, o)
					break
				}
			}
		}
	}
	return r
}

func (e *Exec) pendingSends(st *chanState, not *thread) []*thread {
	var r []*thread
	for _, o := range e.threads {
		if o == not || o.done || o.pending == nil || o.resume {
			continue
		}
		p := o.pending
		if p.Kind == KSend && p.Obj.(*chanState) == st {
			r = append(r, o)
		} else if p.Kind == KSelect {
			for _, c := range p.Cases {
				if c.send && c.st == st {
					r = append(r, o)
					break
				}
			}
		}
	}
	return r
}

func (e *Exec) sendReady(st *chanState, t *thread) bool {
	if st == nil {
		return false
	}
	if st.closed || len(st.buf) < st.cap {
		return true
	}
	return st.cap == 0 && len(e.pendingRecvs(st, t)) > 0
}

func (e *Exec) caseReady(c Case, t *thread) bool {
	if c.st == nil {
		return false
	}
	if c.send {
		return e.sendReady(c.st, t)
	}
	e.pollForeign(c.st)
	if len(c.st.buf) > 0 || c.st.closed {
		return true
	}
	return c.st.cap == 0 && len(e.pendingSends(c.st, t)) > 0
}

func (e *Exec) loop() {
	cur := -1
	e.Last = -1
	for {
		flushed := false
		for _, t := range e.threads {
			if t.resume && !t.done {
				t.resume = false
				e.runUntilPoint(t)
				flushed = true
				if e.Panic != nil {
					return
				}
			}
		}
		if flushed {
			continue
		}
		var en []int
		live := 0
		for _, t := range e.threads {
			if t.done {
				continue
			}
			live++
			if !t.pending.Idle && e.enabledOp(t) {
				en = append(en, t.id)
			}
		}
		if len(en) == 0 {
			// quiescence: threads waiting for it may go now
			for _, t := range e.threads {
				if !t.done && t.pending.Idle {
					en = append(en, t.id)
				}
			}
		}
		if live == 0 {
			return
		}
		if len(en) == 0 {
			// nothing can move. If only daemon threads are left this is a normal end.
			for _, t := range e.threads {
				if !t.done && !t.daemon {
					e.Deadlock = true
				}
			}
			if e.Deadlock {
				e.DeadDump = e.Dump()
				e.Leaked = e.liveThreads()
			}
			return
		}
		if e.MaxSteps > 0 && e.Steps >= e.MaxSteps {
			e.Horizon = true
			e.DeadDump = e.Dump()
			return
		}
		sort.Ints(en)
		if cur >= 0 {
			for i, id := range en {
				if id == cur {
					copy(en[1:i+1], en[0:i])
					en[0] = cur
					break
				}
			}
		}
		k := e.ch.PickThread(e, en)
		if k < 0 {
			e.Blocked = true
			return
		}
		t := e.threads[en[k]]
		var hbOp *Op
		if e.hb != nil {
			hbOp = t.pending
			e.hb.before(e)
		}
		e.apply(t)
		if e.hb != nil {
			e.hb.after(e, t, hbOp)
		}
		e.Steps++
		cur = t.id
		e.Last = cur
		if e.Panic != nil {
			return
		}
		e.runUntilPoint(t)
		if e.Panic != nil {
			return
		}
		if StepHook != nil {
			if msg := StepHook(); msg != "" {
				e.HookFail = msg
				return
			}
		}
	}
}

func (e *Exec) runUntilPoint(t *thread) {
	t.pending = nil
	e.cur = t
	t.wake <- struct{}{}
	e.waitBack()
}

func (e *Exec) tr(t *thread, s string) {
	if e.KeepTrace {
		e.Trace = append(e.Trace, fmt.Sprintf("%4d T%d(%s) %s %s", e.Steps, t.id, t.name, s, t.pending.Pos))
	}
}

func (e *Exec) fail(t *thread, msg string) {
	if e.Panic == nil {
		e.Panic = fmt.Sprintf("thread %d (%s) at %s: %s", t.id, t.name, t.pending.Pos, msg)
	}
}

// apply performs the effect of t's pending op atomically.
func (e *Exec) apply(t *thread) {
	op := t.pending
	e.tr(t, kindName[op.Kind])
	switch op.Kind {
	case KSend:
		e.doSend(t, op.Obj.(*chanState), op.val)
	case KRecv:
		e.doRecv(t, op.Obj.(*chanState))
	case KClose:
		st := op.Obj.(*chanState)
		if st == nil {
			e.fail(t, "close of nil channel")
			return
		}
		if st.closed {
			e.fail(t, "close of closed channel")
			return
		}
		st.closed = true
	case KSelect:
		var ready []int
		for i, c := range op.Cases {
			if e.caseReady(c, t) {
				ready = append(ready, i)
			}
		}
		if len(ready) == 0 {
			t.selIdx = -1
			return
		}
		k := 0
		if len(ready) > 1 {
			if t.selFair == nil {
				t.selFair = map[string]*selStreak{}
			}
			st := t.selFair[op.Pos]
			if st == nil {
				st = &selStreak{first: -1}
				t.selFair[op.Pos] = st
			}
			if st.first == ready[0] {
				st.n++
			} else {
				st.first, st.n = ready[0], 1
			}
			if st.n > selFairAfter {
				ready = append(ready[1:len(ready):len(ready)], ready[0])
				st.first, st.n = ready[0], 1
			}
			k = e.ch.PickData(e, len(ready))
		}
		t.selIdx = ready[k]
		c := op.Cases[t.selIdx]
		if c.send {
			e.doSend(t, c.st, c.val)
		} else {
			e.doRecv(t, c.st)
		}
	case KLock:
		m := op.Obj.(*MutexState)
		m.W = true
		m.Ann = false
	case KLockAnn:
		op.Obj.(*MutexState).Ann = true
	case KUnlock:
		m := op.Obj.(*MutexState)
		if !m.W {
			e.fail(t, "unlock of unlocked mutex")
		}
		m.W = false
	case KRLock:
		op.Obj.(*MutexState).R++
	case KRUnlock:
		m := op.Obj.(*MutexState)
		if m.R <= 0 {
			e.fail(t, "RUnlock of unlocked RWMutex")
		}
		m.R--
	case KWgAdd:
		w := op.Obj.(*WgState)
		w.N += op.delta
		if w.N < 0 {
			e.fail(t, "negative WaitGroup counter")
		}
	case KChoose:
		t.selIdx = e.ch.PickData(e, op.N)
	}
}

func (e *Exec) doSend(t *thread, st *chanState, v any) {
	if st.closed {
		e.fail(t, "send on closed channel")
		return
	}
	if st.cap == 0 {
		rs := e.pendingRecvs(st, t)
		k := 0
		if len(rs) > 1 {
			k = e.ch.PickData(e, len(rs))
		}
		r := rs[k]
		if r.pending.Kind == KSelect {
			for i, c := range r.pending.Cases {
				if !c.send && c.st == st {
					r.selIdx = i
					break
				}
			}
		}
		r.val, r.ok = v, true
		r.resume = true
		return
	}
	st.buf = append(st.buf, v)
}

func (e *Exec) doRecv(t *thread, st *chanState) {
	if len(st.buf) > 0 {
		t.val, t.ok = st.buf[0], true
		st.buf[0] = nil
		st.buf = st.buf[1:]
		return
	}
	if st.closed {
		t.val, t.ok = nil, false
		return
	}
	// unbuffered channel with a parked sender (reachable from a select only)
	ss := e.pendingSends(st, t)
	k := 0
	if len(ss) > 1 {
		k = e.ch.PickData(e, len(ss))
	}
	s := ss[k]
	if s.pending.Kind == KSend {
		t.val, t.ok = s.pending.val, true
	} else {
		for i, c := range s.pending.Cases {
			if c.send && c.st == st {
				s.selIdx = i
				t.val, t.ok = c.val, true
				break
			}
		}
	}
	s.resume = true
}

// ---- thread side ----

func point(op *Op) *thread {
	e := ex
	if e.aborting {
		panic(abortT{})
	}
	t := e.cur
	t.pending = op
	e.back <- t
	<-t.wake
	if e.aborting {
		panic(abortT{})
	}
	e.cur = t
	return t
}

func state(ch any) *chanState {
	v := reflect.ValueOf(ch)
	if !v.IsValid() || v.IsNil() {
		return nil
	}
	k := v.Pointer()
	st := ex.chans[k]
	if st == nil {
		st = &chanState{cap: v.Cap(), ref: v, foreign: !ex.native[k]}
		ex.chans[k] = st
	}
	return st
}

// MakeChan replaces make(C, n) for channel types C; it registers the channel as one whose whole
// life is modelled (any other channel, e.g. ctx.Done(), is polled for closure by foreign code).
func MakeChan[C any](n int) C {
	ct := reflect.TypeFor[C]()
	var rv reflect.Value
	if ct.ChanDir() == reflect.BothDir {
		rv = reflect.MakeChan(ct, n)
	} else {
		rv = reflect.MakeChan(reflect.ChanOf(reflect.BothDir, ct.Elem()), n).Convert(ct)
	}
	if ex != nil {
		ex.native[rv.Pointer()] = true
	}
	return rv.Interface().(C)
}

// Go replaces the go statement.
func Go(pos string, fn func()) { GoNamed(pos, pos, fn) }

// GoNamed starts a named thread; harness threads use it.
func GoNamed(name, pos string, fn func()) {
	if ex == nil {
		go fn()
		return
	}
	e := ex
	me := e.cur
	t := e.newThread(name, fn)
	e.start(t, true)
	t.pending = &Op{Kind: KStart, Pos: pos}
	e.cur = me
}

// Daemon marks the calling thread as one that may legitimately stay blocked for ever
// (its being blocked is neither a deadlock nor a leak).
func Daemon() {
	if ex != nil {
		ex.cur.daemon = true
	}
}

func SendTo[T any](pos string, ch chan<- T) func(T) {
	return func(v T) {
		if ex == nil {
			ch <- v
			return
		}
		point(&Op{Kind: KSend, Obj: state(ch), Pos: pos, val: v})
	}
}

func conv[T any](v any) T {
	var z T
	if v != nil {
		z = v.(T)
	}
	return z
}

func Recv[T any](pos string, ch <-chan T) T {
	if ex == nil {
		return <-ch
	}
	t := point(&Op{Kind: KRecv, Obj: state(ch), Pos: pos})
	v := t.val
	t.val = nil
	return conv[T](v)
}

func Recv2[T any](pos string, ch <-chan T) (T, bool) {
	if ex == nil {
		v, ok := <-ch
		return v, ok
	}
	t := point(&Op{Kind: KRecv, Obj: state(ch), Pos: pos})
	v := t.val
	t.val = nil
	return conv[T](v), t.ok
}

func Close[T any](pos string, ch chan<- T) {
	if ex == nil {
		close(ch)
		return
	}
	point(&Op{Kind: KClose, Obj: state(ch), Pos: pos})
}

// Len replaces len(ch).
func Len(ch any) int {
	if ex == nil {
		return reflect.ValueOf(ch).Len()
	}
	st := state(ch)
	if st == nil {
		return 0
	}
	return len(st.buf)
}

func RecvCase[T any](ch <-chan T) Case {
	if ex == nil {
		return Case{rv: reflect.ValueOf(ch)}
	}
	return Case{st: state(ch)}
}

func SendCase[T any](ch chan<- T) func(T) Case {
	return func(v T) Case {
		if ex == nil {
			rv := reflect.ValueOf(&v).Elem()
			return Case{rv: reflect.ValueOf(ch), send: true, rval: rv}
		}
		return Case{st: state(ch), send: true, val: v}
	}
}

// Select replaces a select statement; the chosen communication has been performed on return.
func Select(pos string, hasDef bool, cases ...Case) Sel {
	if ex == nil {
		rc := make([]reflect.SelectCase, 0, len(cases)+1)
		for _, c := range cases {
			switch {
			case !c.rv.IsValid() || c.rv.IsNil():
				// nil channel: never ready
				rc = append(rc, reflect.SelectCase{Dir: reflect.SelectRecv})
			case c.send:
				rc = append(rc, reflect.SelectCase{Dir: reflect.SelectSend, Chan: c.rv, Send: c.rval})
			default:
				rc = append(rc, reflect.SelectCase{Dir: reflect.SelectRecv, Chan: c.rv})
			}
		}
		if hasDef {
			rc = append(rc, reflect.SelectCase{Dir: reflect.SelectDefault})
		}
		i, v, ok := reflect.Select(rc)
		if hasDef && i == len(cases) {
			return Sel{Idx: -1}
		}
		s := Sel{Idx: i, ok: ok}
		if v.IsValid() {
			s.val = v.Interface()
		}
		return s
	}
	t := point(&Op{Kind: KSelect, Cases: cases, HasDef: hasDef, Pos: pos})
	s := Sel{Idx: t.selIdx, val: t.val, ok: t.ok}
	t.val = nil
	return s
}

func SelVal[T any](ch <-chan T, s Sel) T          { return conv[T](s.val) }
func SelVal2[T any](ch <-chan T, s Sel) (T, bool) { return conv[T](s.val), s.ok }
func Block()                                      { BlockAt("select{}") }
func BlockAt(pos string) {
	if ex == nil {
		select {}
	}
	point(&Op{Kind: KEnv, Pos: pos, Enabled: func() bool { return false }})
}

// Choose is an explorer-owned nondeterministic choice among n alternatives, made on object obj.
func Choose(pos string, obj any, n int) int {
	if n <= 1 || ex == nil {
		return 0
	}
	t := point(&Op{Kind: KChoose, N: n, Pos: pos, Obj: obj})
	return t.selIdx
}

// StepHook, when set, is evaluated after every scheduling step (white-box state invariants); a
// non-empty result ends the execution.
var StepHook func() string

// AwaitQuiescence blocks the calling harness thread until no other thread can move.
func AwaitQuiescence(pos string) {
	if ex == nil {
		return
	}
	point(&Op{Kind: KEnv, Pos: pos, Idle: true})
}

// Env is a (possibly blocking) environment operation on obj.
func Env(pos string, obj any, readLike bool, enabled func() bool) {
	if ex == nil {
		return
	}
	point(&Op{Kind: KEnv, Obj: obj, Pos: pos, Enabled: enabled, ReadLike: readLike})
}

// ---- sync states (used by vsync) ----

type MutexState struct {
	RW  bool
	W   bool
	Ann bool
	R   int
}
type WgState struct{ N int }

func SyncPoint(kind Kind, obj any, delta int, pos string) int {
	if ex == nil {
		return 0
	}
	t := point(&Op{Kind: kind, Obj: obj, delta: delta, Pos: pos})
	return t.selIdx
}

func AtomicPoint(obj any, readLike bool) {
	if ex == nil {
		return
	}
	point(&Op{Kind: KAtomic, Obj: obj, ReadLike: readLike, Pos: "atomic"})
}

// ---- independence (for sleep sets) ----

func objsOf(op *Op) []any {
	if op.Kind == KSelect {
		r := make([]any, 0, len(op.Cases))
		for _, c := range op.Cases {
			if c.st != nil {
				r = append(r, c.st)
			}
		}
		return r
	}
	if op.Obj == nil {
		return nil
	}
	if st, ok := op.Obj.(*chanState); ok && st == nil {
		return nil
	}
	return []any{op.Obj}
}

// Independent reports whether two pending ops of different threads commute and cannot enable or
// disable one another.
func Independent(a, b *Op) bool {
	if a == nil || b == nil {
		return false
	}
	if a.Idle || b.Idle {
		// enabled only at quiescence: any step of another thread may disable it
		return false
	}
	if a.Kind == KSpawn || b.Kind == KSpawn || a.Kind == KStart || b.Kind == KStart {
		// spawning only adds a thread; starting touches nothing
		return true
	}
	ra := a.ReadLike || a.Kind == KRLock
	rb := b.ReadLike || b.Kind == KRLock
	// RLock/RLock commute; RUnlock does not commute with a pending writer acquire, keep it dependent.
	for _, x := range objsOf(a) {
		for _, y := range objsOf(b) {
			if x == y && !(ra && rb) {
				return false
			}
		}
	}
	return true
}

// OpString describes a pending op for traces and signatures.
func OpString(op *Op) string {
	if op == nil {
		return "-"
	}
	return kindName[op.Kind] + "@" + op.Pos
}

func (e *Exec) Dump() string {
	var sb strings.Builder
	for _, t := range e.threads {
		if t.done {
			continue
		}
		op := t.pending
		if op == nil {
			fmt.Fprintf(&sb, "T%d(%s) running?\n", t.id, t.name)
			continue
		}
		extra := ""
		switch o := op.Obj.(type) {
		case *chanState:
			if o != nil {
				extra = fmt.Sprintf(" chan(cap=%d len=%d closed=%v)", o.cap, len(o.buf), o.closed)
			} else {
				extra = " nil-chan"
			}
		case *WgState:
			extra = fmt.Sprintf(" wg(n=%d)", o.N)
		case *MutexState:
			extra = fmt.Sprintf(" mu(w=%v ann=%v r=%d)", o.W, o.Ann, o.R)
		}
		d := ""
		if t.daemon {
			d = " [daemon]"
		}
		fmt.Fprintf(&sb, "T%d(%s)%s blocked at %s %s%s\n", t.id, t.name, d, kindName[op.Kind], op.Pos, extra)
	}
	return sb.String()
}

// LiveThreads lists the threads that were blocked for ever when the execution ended (name and
// pending op), excluding daemons.
func (e *Exec) LiveThreads() []string { return e.Leaked }

func (e *Exec) liveThreads() []string {
	var r []string
	for _, t := range e.threads {
		if !t.done && !t.daemon {
			r = append(r, fmt.Sprintf("T%d(%s) at %s", t.id, t.name, OpString(t.pending)))
		}
	}
	return r
}

// SortedKeys returns the keys of m in ascending order (map iteration order is owned by the harness).
func SortedKeys[M ~map[K]V, K cmp.Ordered, V any](m M) []K {
	ks := make([]K, 0, len(m))
	for k := range m {
		ks = append(ks, k)
	}
	slices.Sort(ks)
	return ks
}
