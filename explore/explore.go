// Package explore is the stateless depth-first explorer over the choices of vsched executions
// (DESIGN.md §2.3): iterative deviation bounding db(d) and unbounded search with sleep sets (por).
package explore

import (
	"encoding/json"
	"fmt"
	"os"
	"sort"
	"hash/fnv"
	"strings"
	"time"

	"verif/reg"
	"verif/vsched"
)

// Verdict is the harness's judgement of one complete execution.
type Verdict struct {
	Outcome string // fingerprint of everything the oracle looked at
	Bad     string // "" = property held
	Key     string // identity of the violation (defaults to Bad)
	Sample  any
}

// Scenario creates fresh objects for one execution: the body run as thread 0 and the judge
// called after the execution ended (normally, by deadlock, by panic or at the step horizon).
type Scenario func() (body func(), judge func(e *vsched.Exec) Verdict)

type Config struct {
	Prop       string
	Strategy   string // "db" or "por"
	Bound      int    // db: maximum number of deviations (levels 0..Bound are completed in turn)
	MaxSteps   int    // per-execution step horizon (default 20000)
	Ctx        *reg.Ctx
	MaxExec    int64 // 0 = unlimited
	AllowBlock bool  // threads still blocked at the end are not a violation by themselves (judge decides)
	// Policy selects the deterministic default scheduler that deviations are counted from (db, dbc):
	// 0 keep running the current thread, else the lowest id (the default); 1 keep running the current
	// thread, else the highest id, data choices default to the last alternative; 2 always the lowest
	// enabled id; 3 always the highest enabled id (newest thread first), data choices last; 4 round robin
	// (the enabled thread following the current one in id order).
	Policy int
	Label      string
}

type node struct {
	data    bool
	n       int
	chosen  int
	enabled []int
	ops     []*vsched.Op // por only: pending op per enabled thread
	sleep0  []int        // por only: sleep set on arrival (thread node) / at the choice (data node)
	only    []int        // hbpor, revisited state: the threads whose transitions are still to be explored from here (nil = all that are awake)
	sig     uint32
}

type runner struct {
	x         *Explorer
	cache     bool // hb / dbc: prune at states whose happens-before fingerprint was seen before
	budget    int  // dbc: deviation bound of the current level
	pruned    bool
	por       bool
	prefix    []int
	sigs      []uint32
	initSleep []int
	nodes     []node
	sleep     []int
	diverged  string
	devs      int
}

func sigOf(data bool, n int, en []int, e *vsched.Exec) uint32 {
	h := fnv.New32a()
	var b [4]byte
	w := func(v int) { b[0], b[1], b[2], b[3] = byte(v), byte(v>>8), byte(v>>16), byte(v>>24); h.Write(b[:]) }
	if data {
		w(-1)
		w(n)
		return h.Sum32()
	}
	for _, t := range en {
		w(t)
		op := e.Pending(t)
		w(int(op.Kind))
		h.Write([]byte(op.Pos))
	}
	return h.Sum32()
}

func contains(s []int, v int) bool {
	for _, x := range s {
		if x == v {
			return true
		}
	}
	return false
}

func (r *runner) filterSleep(e *vsched.Exec, t int) {
	if len(r.sleep) == 0 {
		return
	}
	op := e.Pending(t)
	ns := r.sleep[:0:0]
	for _, z := range r.sleep {
		if z != t && vsched.Independent(e.Pending(z), op) {
			ns = append(ns, z)
		}
	}
	r.sleep = ns
}

// order applies the default-scheduler policy: it returns the enabled threads in the order in which the
// policy prefers them (index 0 = the default choice) and the position of each in the list vsched passed.
func (r *runner) order(e *vsched.Exec, en []int) ([]int, []int) {
	pol := r.x.cfg.Policy
	if pol == 0 || len(en) < 2 {
		return en, nil
	}
	n := len(en)
	idx := make([]int, n)
	for i := range idx {
		idx[i] = i
	}
	asc := make([]int, n) // positions in ascending id order
	copy(asc, idx)
	sort.Slice(asc, func(a, b int) bool { return en[asc[a]] < en[asc[b]] })
	cur := e.Last
	var ord []int
	switch pol {
	case 1:
		if en[0] == cur {
			ord = append(ord, 0)
		}
		for i := n - 1; i >= 0; i-- {
			if !(en[asc[i]] == cur && en[0] == cur) {
				ord = append(ord, asc[i])
			}
		}
	case 2:
		ord = asc
	case 3:
		for i := n - 1; i >= 0; i-- {
			ord = append(ord, asc[i])
		}
	default: // 4: round robin
		for _, p := range asc {
			if en[p] > cur {
				ord = append(ord, p)
			}
		}
		for _, p := range asc {
			if en[p] <= cur {
				ord = append(ord, p)
			}
		}
	}
	pen := make([]int, n)
	for i, p := range ord {
		pen[i] = en[p]
	}
	return pen, ord
}

func (r *runner) PickThread(e *vsched.Exec, en0 []int) int {
	en, back := r.order(e, en0)
	k := r.pickThread(e, en)
	if k >= 0 && back != nil {
		return back[k]
	}
	return k
}

func (r *runner) dataDefaultLast() bool { return r.x.cfg.Policy == 1 || r.x.cfg.Policy == 3 }

func (r *runner) PickData(e *vsched.Exec, n int) int {
	k := r.pickData(e, n)
	if r.dataDefaultLast() {
		return n - 1 - k
	}
	return k
}

func (r *runner) pickThread(e *vsched.Exec, en []int) int {
	if len(en) == 1 {
		if r.por && len(r.nodes) >= len(r.prefix) {
			if contains(r.sleep, en[0]) {
				return -1
			}
			r.filterSleep(e, en[0])
		}
		return 0
	}
	idx := len(r.nodes)
	sg := sigOf(false, len(en), en, e)
	nd := node{n: len(en), enabled: append([]int(nil), en...), sig: sg}
	if idx < len(r.prefix) {
		if r.sigs != nil && r.sigs[idx] != sg {
			r.diverged = fmt.Sprintf("decision %d: thread node differs on replay (enabled %v)", idx, en)
			return -1
		}
		k := r.prefix[idx]
		if k >= len(en) {
			r.diverged = fmt.Sprintf("decision %d: forced choice %d out of range %d", idx, k, len(en))
			return -1
		}
		nd.chosen = k
		if k != 0 {
			r.devs++
		}
		if r.por {
			nd.ops = make([]*vsched.Op, len(en))
			for i, t := range en {
				nd.ops[i] = e.Pending(t)
			}
		}
		r.nodes = append(r.nodes, nd)
		if idx == len(r.prefix)-1 && r.por {
			r.sleep = append([]int(nil), r.initSleep...)
		}
		return k
	}
	if r.cache {
		// the subtree below this node is a function of (partial order executed so far, thread the
		// default schedule continues with, deviations left); explore it once
		extra := 0
		if r.x.cfg.Strategy == "dbc" {
			switch r.x.cfg.Policy {
			case 0, 1:
				extra = en[0] + 1 // the future defaults depend on the current thread only through who comes first now
			case 4:
				extra = e.Last + 2
			}
		}
		left := 0
		if r.x.cfg.Strategy == "dbc" {
			left = r.budget - r.devs
		}
		if r.x.seen(e.HBKey(extra), left) {
			r.pruned = true
			return -1
		}
	}
	k := 0
	if r.por {
		nd.sleep0 = append([]int(nil), r.sleep...)
		nd.ops = make([]*vsched.Op, len(en))
		for i, t := range en {
			nd.ops[i] = e.Pending(t)
		}
		if r.x.cfg.Strategy == "hbpor" {
			// sleep sets combined with state caching (Godefroid): a state reached again with a sleep set that
			// contains the one it was explored with needs nothing more; otherwise only the transitions that
			// were asleep then and are awake now are explored, and the stored set shrinks to the intersection.
			var m uint64
			for _, z := range r.sleep {
				m |= 1 << uint(z)
			}
			if e.NumThreads() > 64 {
				r.diverged = "hbpor: more than 64 threads"
				return -1
			}
			key := e.HBKey(0)
			if old, ok := r.x.sleepCache[key]; ok {
				if old&^m == 0 {
					r.pruned = true
					return -1
				}
				r.x.sleepCache[key] = old & m
				todo := old &^ m
				for _, t := range en {
					if todo&(1<<uint(t)) != 0 {
						nd.only = append(nd.only, t)
					}
				}
				if len(nd.only) == 0 {
					// the transitions still owed are not enabled here: cannot happen (a sleeping transition stays enabled)
					r.diverged = "hbpor: owed transitions not enabled"
					return -1
				}
				r.x.Revisits++
			} else if len(r.x.sleepCache) < MaxCache {
				r.x.sleepCache[key] = m
			} else {
				r.x.cacheFull = true
			}
		}
		k = -1
		for i, t := range en {
			if nd.only != nil {
				if contains(nd.only, t) {
					k = i
					break
				}
				continue
			}
			if !contains(r.sleep, t) {
				k = i
				break
			}
		}
		if k < 0 {
			return -1
		}
		r.filterSleep(e, en[k])
	}
	nd.chosen = k
	r.nodes = append(r.nodes, nd)
	return k
}

func (r *runner) pickData(e *vsched.Exec, n int) int {
	idx := len(r.nodes)
	sg := sigOf(true, n, nil, e)
	nd := node{data: true, n: n, sig: sg}
	if idx < len(r.prefix) {
		if r.sigs != nil && r.sigs[idx] != sg {
			r.diverged = fmt.Sprintf("decision %d: data node differs on replay (n=%d)", idx, n)
			nd.chosen = 0
			r.nodes = append(r.nodes, nd)
			return 0
		}
		k := r.prefix[idx]
		if k >= n {
			r.diverged = fmt.Sprintf("decision %d: forced data choice %d out of range %d", idx, k, n)
			k = 0
		}
		nd.chosen = k
		if k != 0 {
			r.devs++
		}
		r.nodes = append(r.nodes, nd)
		if idx == len(r.prefix)-1 && r.por {
			r.sleep = append([]int(nil), r.initSleep...)
		}
		return k
	}
	if r.por {
		nd.sleep0 = append([]int(nil), r.sleep...)
	}
	r.nodes = append(r.nodes, nd)
	return 0
}

// Explorer holds the state of one exploration.
type Explorer struct {
	cfg   Config
	sc    Scenario
	Res   *reg.Result
	stop  bool
	start time.Time

	curBound int
	dataNodes, dataAlts, thrNodes, thrAlts int64

	splitCounter int64
	ownCounter   int64
	Blocked      int64
	Pruned       int64
	visited      map[[2]uint64]int16 // hb fingerprint -> largest deviation budget it was explored with
	sleepCache   map[[2]uint64]uint64 // hbpor: hb fingerprint -> sleep set (thread mask) the state was explored with
	Revisits     int64
	cacheFull    bool
	MaxDepth     int
	MaxStepsSeen int
	levelExecs   []int64
}

// ReplayRecord is what a violation's replay file holds for schedule violations.
type ReplayRecord struct {
	Part     string            `json:"part"`
	Args     map[string]string `json:"args,omitempty"`
	Strategy string            `json:"strategy"`
	Choices  []int             `json:"choices"`
}

func (x *Explorer) expired() bool {
	if x.stop {
		return true
	}
	if x.cfg.Ctx != nil && x.cfg.Ctx.Expired() {
		x.stop = true
	}
	if x.cfg.MaxExec > 0 && x.Res.Evaluations >= x.cfg.MaxExec {
		x.stop = true
	}
	return x.stop
}

type execOut struct {
	r  *runner
	e  *vsched.Exec
	v  Verdict
	ok bool // complete execution (not sleep-blocked, not diverged)
}

// MaxCache bounds the number of fingerprints kept per process (beyond it states are simply
// re-explored, which costs time but not soundness).
var MaxCache = 12_000_000

// seen reports whether the state was already explored with at least this deviation budget, and
// records it otherwise.
func (x *Explorer) seen(k [2]uint64, budget int) bool {
	if budget > 30000 {
		budget = 30000
	}
	if b, ok := x.visited[k]; ok && int(b) >= budget {
		return true
	}
	if len(x.visited) < MaxCache {
		x.visited[k] = int16(budget)
	} else {
		x.cacheFull = true
	}
	return false
}

func (x *Explorer) cached() bool { return x.cfg.Strategy == "hb" || x.cfg.Strategy == "dbc" }

func (x *Explorer) runOnce(prefix []int, sigs []uint32, initSleep []int, trace bool) execOut {
	r := &runner{x: x, por: x.cfg.Strategy == "por" || x.cfg.Strategy == "hbpor", prefix: prefix, sigs: sigs, initSleep: initSleep}
	if x.cached() && !trace {
		r.cache = true
		r.budget = x.curBound
	}
	if r.por && len(prefix) == 0 {
		r.sleep = nil
	}
	body, judge := x.sc()
	maxSteps := x.cfg.MaxSteps
	if maxSteps == 0 {
		maxSteps = 20000
	}
	e := vsched.Run(body, r, trace, maxSteps)
	out := execOut{r: r, e: e}
	if r.diverged != "" {
		return out
	}
	if e.Blocked {
		return out
	}
	out.ok = true
	switch {
	case e.Panic != nil:
		first := fmt.Sprint(e.Panic)
		out.v = Verdict{Outcome: "PANIC", Bad: "panic: " + first + "\n" + e.PanicTr, Key: "panic:" + panicKey(first, e.PanicTr)}
	case e.HookFail != "":
		out.v = Verdict{Outcome: "INVARIANT", Bad: "state invariant violated after step " + fmt.Sprint(e.Steps) + ": " + e.HookFail, Key: "invariant:" + e.HookFail}
	case e.Horizon:
		out.v = Verdict{Outcome: "HORIZON", Bad: fmt.Sprintf("no termination within %d steps (livelock?)\n%s", maxSteps, e.DeadDump), Key: "horizon"}
	default:
		out.v = judge(e)
		if out.v.Bad == "" && e.Deadlock && !x.cfg.AllowBlock {
			out.v.Bad = "threads blocked for ever:\n" + e.DeadDump
			out.v.Key = "deadlock:" + deadKey(e)
			if out.v.Outcome == "" {
				out.v.Outcome = "DEADLOCK"
			}
		}
	}
	if out.v.Bad != "" && out.v.Key == "" {
		out.v.Key = out.v.Bad
	}
	return out
}

// panicKey: message plus the first frame inside package sftp.
func panicKey(msg, tr string) string {
	lines := strings.Split(tr, "\n")
	for i, l := range lines {
		if strings.HasPrefix(l, "github.com/pkg/sftp.") && i+1 < len(lines) {
			loc := strings.TrimSpace(lines[i+1])
			if j := strings.Index(loc, " "); j > 0 {
				loc = loc[:j]
			}
			if k := strings.LastIndex(loc, "/"); k >= 0 {
				loc = loc[k+1:]
			}
			if strings.HasPrefix(loc, "zz_verif_") {
				continue
			}
			if j := strings.Index(msg, ": "); j > 0 {
				msg = msg[j+2:]
			}
			return loc + ":" + msg
		}
	}
	return msg
}

func deadKey(e *vsched.Exec) string {
	var ps []string
	for _, s := range e.LiveThreads() {
		if i := strings.Index(s, " at "); i > 0 {
			ps = append(ps, s[i+4:])
		}
	}
	return strings.Join(ps, ",")
}

func choicesOf(nodes []node) []int {
	c := make([]int, len(nodes))
	for i, n := range nodes {
		c[i] = n.chosen
	}
	return c
}

func sigsOf(nodes []node) []uint32 {
	c := make([]uint32, len(nodes))
	for i, n := range nodes {
		c[i] = n.sig
	}
	return c
}

// account judges an owned, complete execution and records it.
func (x *Explorer) account(o execOut) {
	res := x.Res
	res.Evaluations++
	res.Transitions += int64(o.e.Steps)
	res.States += int64(len(o.r.nodes))
	if len(o.r.nodes) > x.MaxDepth {
		x.MaxDepth = len(o.r.nodes)
	}
	if o.e.Steps > x.MaxStepsSeen {
		x.MaxStepsSeen = o.e.Steps
	}
	res.Outcome(o.v.Outcome)
	if o.v.Sample != nil {
		res.Sample(o.v.Sample)
	}
	if o.v.Bad == "" {
		return
	}
	for _, v := range res.Violations {
		if v.Key == o.v.Key {
			return
		}
	}
	// confirm by replaying the full choice list five times
	ch := choicesOf(o.r.nodes)
	sg := sigsOf(o.r.nodes)
	var trace []string
	for i := 0; i < 5; i++ {
		again := x.runOnce(ch, sg, nil, true)
		if again.r.diverged != "" || !again.ok || again.v.Key != o.v.Key {
			res.EngineError = fmt.Sprintf("violation %q did not replay deterministically (replay %d: diverged=%q ok=%v key=%q)", o.v.Key, i, again.r.diverged, again.ok, again.v.Key)
			x.stop = true
			return
		}
		trace = again.e.Trace
	}
	if len(trace) > 400 {
		trace = append(trace[:200:200], append([]string{"..."}, trace[len(trace)-199:]...)...)
	}
	part, args := "", map[string]string(nil)
	if x.cfg.Ctx != nil {
		part, args = x.cfg.Ctx.Part, x.cfg.Ctx.Args
	}
	res.Violate(x.cfg.Prop, o.v.Key, o.v.Bad, ReplayRecord{Part: part, Args: args, Strategy: x.cfg.Strategy, Choices: ch}, trace)
	if len(res.Violations) >= 20 {
		x.stop = true
	}
}

func (x *Explorer) mineSplit() bool {
	c := x.splitCounter
	x.splitCounter++
	return x.cfg.Ctx == nil || x.cfg.Ctx.Mine(c)
}

func (x *Explorer) mineOwn() bool {
	c := x.ownCounter
	x.ownCounter++
	return x.cfg.Ctx == nil || x.cfg.Ctx.Mine(c)
}

// explore runs the execution identified by prefix and then all its descendants.
// depth is the recursion depth; mine says that this subtree belongs to this shard entirely.
func (x *Explorer) explore(prefix []int, sigs []uint32, initSleep []int, depth, bound, split int, mine bool) {
	if x.expired() {
		return
	}
	o := x.runOnce(prefix, sigs, initSleep, false)
	if o.r.diverged != "" {
		x.Res.EngineError = "nondeterminism while replaying a prefix: " + o.r.diverged
		x.stop = true
		return
	}
	owned := mine
	if !mine && depth < split {
		owned = x.mineOwn()
	}
	if !o.ok {
		if owned {
			if o.r.pruned {
				x.Pruned++
			} else {
				x.Blocked++
			}
		}
	} else if owned {
		if x.cfg.Strategy == "por" || x.cfg.Strategy == "hbpor" || x.cfg.Strategy == "hb" || depth == bound || (x.cfg.Strategy == "dbc" && depth > 0) {
			// db: executions with fewer deviations than the current level were accounted at their own level
			x.account(o)
			for len(x.levelExecs) <= depth {
				x.levelExecs = append(x.levelExecs, 0)
			}
			x.levelExecs[depth]++
		}
	}
	nodes := o.r.nodes
	if x.cached() {
		for i := len(prefix); i < len(nodes); i++ {
			if nodes[i].data {
				x.dataNodes++
				x.dataAlts += int64(nodes[i].n - 1)
			} else {
				x.thrNodes++
				x.thrAlts += int64(nodes[i].n - 1)
			}
		}
	}
	ch := choicesOf(nodes)
	sg := sigsOf(nodes)
	por := x.cfg.Strategy == "por" || x.cfg.Strategy == "hbpor"
	if !por && depth >= bound {
		return
	}

	for i := len(prefix); i < len(nodes); i++ {
		nd := nodes[i]
		if por && !nd.data {
			done := []int{nd.enabled[nd.chosen]}
			for k := 0; k < nd.n; k++ {
				t := nd.enabled[k]
				if k == nd.chosen || contains(nd.sleep0, t) || (nd.only != nil && !contains(nd.only, t)) {
					continue
				}
				// sleep set for the child: (sleep0 ∪ earlier siblings) independent of t's op
				var is []int
				add := func(z int) {
					if z == t || contains(is, z) {
						return
					}
					var zop *vsched.Op
					for j, u := range nd.enabled {
						if u == z {
							zop = nd.ops[j]
						}
					}
					if zop == nil {
						// sleeping thread that is not enabled here: keep it asleep only if we know its op
						return
					}
					if vsched.Independent(zop, nd.ops[k]) {
						is = append(is, z)
					}
				}
				for _, z := range nd.sleep0 {
					add(z)
				}
				for _, z := range done {
					add(z)
				}
				done = append(done, t)
				x.child(ch, sg, i, k, is, depth, bound, split, mine)
				if x.stop {
					return
				}
			}
			continue
		}
		for k := 0; k < nd.n; k++ {
			if k == nd.chosen {
				continue
			}
			var is []int
			if por {
				is = nd.sleep0
			}
			x.child(ch, sg, i, k, is, depth, bound, split, mine)
			if x.stop {
				return
			}
		}
	}
}

func (x *Explorer) child(ch []int, sg []uint32, i, k int, initSleep []int, depth, bound, split int, mine bool) {
	cm := mine
	if !mine && depth+1 == split {
		cm = x.mineSplit()
		if !cm {
			return
		}
	}
	p := make([]int, i+1)
	copy(p, ch[:i])
	p[i] = k
	x.explore(p, sg[:i+1], initSleep, depth+1, bound, split, cm)
}

// Run explores the scenario and fills a reg.Result.
func Run(cfg Config, sc Scenario) *reg.Result {
	name := cfg.Label
	if name == "" && cfg.Ctx != nil {
		name = cfg.Ctx.Part
	}
	if ov := os.Getenv("VERIF_STRATEGY_DB"); ov != "" && cfg.Strategy == "db" && cfg.Bound > 0 {
		cfg.Strategy = ov // experiments / cross-validation of the cached strategy against plain db
	}
	if cfg.Ctx != nil && cfg.Bound > 0 {
		// job arguments understood by every scheduled part
		cfg.Policy = cfg.Ctx.ArgInt("policy", cfg.Policy)
		if cfg.Strategy == "db" && cfg.Ctx.Arg("cache", "") == "1" && os.Getenv("VERIF_NOCACHE") == "" {
			cfg.Strategy = "dbc"
		}
	}
	x := &Explorer{cfg: cfg, sc: sc, Res: reg.NewResult(name), start: time.Now()}
	res := x.Res
	if cfg.Ctx != nil && cfg.Ctx.Replay != nil {
		var rec ReplayRecord
		if err := json.Unmarshal(cfg.Ctx.Replay, &rec); err != nil {
			res.EngineError = "bad replay record: " + err.Error()
			return res
		}
		v, tr, div := Replay(cfg, sc, rec.Choices)
		for _, l := range tr {
			fmt.Println(l)
		}
		if div != "" {
			res.EngineError = "replay diverged: " + div
			return res
		}
		fmt.Printf("outcome: %s\n", v.Outcome)
		if v.Bad != "" {
			fmt.Printf("VIOLATION reproduced: %s\n", v.Bad)
			res.Violate(cfg.Prop, v.Key, v.Bad, rec, nil)
		} else {
			fmt.Println("no violation on this schedule")
		}
		res.Evaluations = 1
		return res
	}
	nsh := 1
	if cfg.Ctx != nil && cfg.Ctx.NShards > 1 {
		nsh = cfg.Ctx.NShards
	}
	completed := -1
	vsched.TrackHB = x.cached() || cfg.Strategy == "hbpor"
	defer func() { vsched.TrackHB = false }()
	if cfg.Strategy == "hb" {
		x.visited = map[[2]uint64]int16{}
		x.curBound = 30000
		split := 2
		if nsh == 1 {
			split = 0
		}
		x.explore(nil, nil, nil, 0, 1<<30, split, nsh == 1)
		if !x.stop {
			res.Bound = "hb: all interleavings of the harness, explored once per happens-before state"
		} else {
			res.Exhaustive = false
			res.Bound = "hb: not completed within the budget"
		}
		res.Notes["hb_states"] = len(x.visited)
		res.Notes["hb_pruned"] = x.Pruned
		res.Notes["hb_cache_full"] = x.cacheFull
		res.Notes["hb_nodes"] = fmt.Sprintf("thread nodes %d (alts %d), data nodes %d (alts %d)", x.thrNodes, x.thrAlts, x.dataNodes, x.dataAlts)
	} else if cfg.Strategy == "por" || cfg.Strategy == "hbpor" {
		if cfg.Strategy == "hbpor" {
			x.sleepCache = map[[2]uint64]uint64{}
		}
		split := 2
		if nsh == 1 {
			split = 0
		}
		x.explore(nil, nil, nil, 0, 1<<30, split, nsh == 1)
		if cfg.Strategy == "hbpor" {
			res.Notes["hb_states"] = len(x.sleepCache)
			res.Notes["hb_pruned"] = x.Pruned
			res.Notes["hb_revisits"] = x.Revisits
			res.Notes["hb_cache_full"] = x.cacheFull
		}
		if !x.stop && cfg.Strategy == "hbpor" {
			res.Bound = "hbpor: all interleavings of the harness up to commuting independent operations (sleep sets), each happens-before state expanded once"
		} else if !x.stop {
			res.Bound = "por: all Mazurkiewicz traces of the harness"
		} else {
			res.Exhaustive = false
			res.Bound = "por: not completed within the budget"
		}
	} else {
		for d := 0; d <= cfg.Bound && !x.stop; d++ {
			x.splitCounter, x.ownCounter = 0, 0
			if cfg.Strategy == "dbc" {
				if d < cfg.Bound && d > 0 {
					continue // with the cache one pass at the target bound covers every level; level 0 is the default schedule alone
				}
				x.visited = map[[2]uint64]int16{}
				x.curBound = d
			}
			split := 2
			if d < 2 {
				split = d
			}
			if nsh == 1 {
				split = 0
			}
			if split == 0 && nsh > 1 {
				// a single execution: shard 0 owns it
				if cfg.Ctx.Shard == 0 {
					x.explore(nil, nil, nil, 0, d, 0, true)
				}
			} else {
				x.explore(nil, nil, nil, 0, d, split, nsh == 1)
			}
			if !x.stop {
				completed = d
			}
		}
		if completed < cfg.Bound {
			res.Exhaustive = false
		}
		res.Bound = fmt.Sprintf("db(%d) completed (all executions with at most %d deviations from the default schedule); target db(%d)", completed, completed, cfg.Bound)
		res.Notes["db_completed"] = completed
		res.Notes["db_target"] = cfg.Bound
		res.Notes["policy"] = cfg.Policy
		if cfg.Strategy == "dbc" {
			res.Notes["hb_states"] = len(x.visited)
			res.Notes["hb_pruned"] = x.Pruned
			res.Notes["hb_cache_full"] = x.cacheFull
		}
	}
	res.Notes["strategy"] = cfg.Strategy
	res.Notes["sleep_blocked"] = x.Blocked
	res.Notes["max_decisions"] = x.MaxDepth
	res.Notes["max_steps"] = x.MaxStepsSeen
	res.Notes["execs_per_level"] = x.levelExecs
	res.WallS = time.Since(x.start).Seconds()
	// the DFS never accounts the same choice sequence twice, so every accounted execution is a distinct schedule
	res.Distinct = res.Evaluations
	return res
}

// Replay re-executes one recorded choice list with tracing and returns the verdict and trace.
func Replay(cfg Config, sc Scenario, choices []int) (Verdict, []string, string) {
	x := &Explorer{cfg: cfg, sc: sc, Res: reg.NewResult("replay")}
	o := x.runOnce(choices, nil, nil, true)
	if o.r.diverged != "" {
		return Verdict{}, o.e.Trace, o.r.diverged
	}
	return o.v, o.e.Trace, ""
}
