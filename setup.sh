#!/bin/sh
# Offline setup after a fresh restore: build the driver and instrumenter, warm the Go build cache for
# the worker flavours, run the passthrough self-test of the instrumenter and the self-test of the
# explorer's state cache (cached search vs plain deviation bounding on five small jobs).
cd "$(dirname "$0")" || exit 2
unset GOTOOLCHAIN GOSUMDB
export GOFLAGS=-mod=mod GOPROXY=off
mkdir -p bin evidence replays
{ go build -o bin/vcheck ./cmd/vcheck && go build -o bin/vinstr ./instr; } || exit 2
./bin/vcheck passthrough || exit 2
./bin/vcheck warm || exit 2
out=$(./bin/vcheck C14 --tier quick --only "rs W=2 two handles" --cross 2>&1); rc=$?
echo "$out" | grep "cross-check\|MISMATCH\|VIOLATION\|ENGINE"
[ $rc -eq 0 ] || exit 2
