#!/bin/sh
# Offline setup after a fresh restore: build the driver and instrumenter, warm the Go build cache for
# the worker flavours and run the passthrough self-test of the instrumenter.
cd "$(dirname "$0")" || exit 2
unset GOTOOLCHAIN GOSUMDB
export GOFLAGS=-mod=mod GOPROXY=off
mkdir -p bin evidence replays
{ go build -o bin/vcheck ./cmd/vcheck && go build -o bin/vinstr ./instr; } || exit 2
./bin/vcheck passthrough || exit 2
./bin/vcheck warm || exit 2
