#!/usr/bin/env python3
"""Regenerates /verif/MANIFEST.json from the table below (kept valid at all times)."""
import json, subprocess

CLAIMED = {
 # id: (category, text, note, technique, design_ref)
 "C14": ("model_checking",
         "Every schedule of the real servers (instrumented mechanically, run under a cooperative scheduler that owns every channel/lock/WaitGroup operation) on pipelined 'open; write*k; read*j; close' sessions is enumerated up to a stated number of deviations from the default schedule: db(2) at the real W=8 and db(3) at W=2 in the quick tier, one level deeper in the thorough tier. Oracle: all pipelined reads/writes succeed, final content equals the reference, the handler object's Close is entered with no read/write in flight and none is entered afterwards.",
         "Deviation bound and worker-count bound as stated in the evidence; handler calls atomic between their enter/exit points; Go memory-model effects are outside the scheduler (race pass).",
         "stateless model checking of the implementation: exhaustive deviation-bounded schedule enumeration (controlled scheduler + DFS)", "DESIGN.md §3 C14"),
}
NOT_YET = "check not built yet (work in progress in this session); see DESIGN.md §3 for the planned exhaustive check"
props = [json.loads(l) for l in open('/verif/properties.jsonl')]
checks, na = [], []
for p in props:
    i = p["id"]
    if i in CLAIMED:
        cat, text, note, tech, ref = CLAIMED[i]
        checks.append({
            "property_id": i,
            "quick_cmd": f"./check {i} quick",
            "thorough_cmd": f"./check {i} thorough",
            "evidence_file": f"/verif/evidence/{i}.json",
            "replay_cmd_template": "./check replay {path}",
            "engine": "vcheck",
            "level_claimed": {"category": cat, "text": text, "design_ref": ref},
            "level_note": note,
            "technique": tech,
        })
    else:
        na.append({"property_id": i, "reason": NOT_YET})
m = {
 "version": 1,
 "setup_cmd": "./setup.sh",
 "hooks": {
   "guard": "verif",
   "enable": "no hook is committed to /repo: at check time vinstr rewrites /repo's working tree into a scratch directory and the worker is built with `go build -tags verif -overlay <scratch>/overlay.json` (harness files of /verif/harness carry //go:build verif)",
   "baseline_off_cmd": "cd /repo && GOFLAGS=-mod=mod GOPROXY=off go test -vet=off -count=1 ./...",
   "source_commits": [],
   "add_only": True,
 },
 "engines": [
   {"name": "vcheck", "path": "/verif/cmd/vcheck", "serves_properties": sorted(CLAIMED),
    "kind_free_text": "driver: instruments /repo (instr/), builds workers with -overlay, shards jobs over 16 processes, aggregates, applies known_findings.json, writes evidence"},
   {"name": "vsched+explore", "path": "/verif/vsched", "serves_properties": sorted(CLAIMED),
    "kind_free_text": "cooperative scheduler runtime and stateless DFS explorer (deviation bounding, sleep-set POR) over the real code"},
 ],
 "checks": checks,
 "not_applicable": na,
 "notes": "All checks rebuild from /repo's working tree at run time. Exit 2 = engine error (never a verdict).",
}
json.dump(m, open('/verif/MANIFEST.json','w'), indent=1)
print("claimed:", sorted(CLAIMED), "not claimed:", len(na))
