#!/usr/bin/env python3
"""Regenerates /verif/MANIFEST.json from the table below (kept valid at all times)."""
import json, subprocess

import glob, os
HERE = os.path.dirname(os.path.abspath(__file__))
# one file per claimed property: manifest.d/Cxx.json = {"category","text","note","technique","design_ref"}
CLAIMED = {}
for f in sorted(glob.glob(os.path.join(HERE, 'manifest.d', 'C*.json'))):
    d = json.load(open(f))
    CLAIMED[os.path.basename(f)[:-5]] = (d["category"], d["text"], d["note"], d["technique"], d["design_ref"])
NOT_YET = "check not built yet (work in progress in this session); see DESIGN.md §3 for the planned exhaustive check"
props = [json.loads(l) for l in open(os.path.join(HERE,'properties.jsonl'))]
checks, na = [], []
for p in props:
    i = p["id"]
    if i in CLAIMED:
        cat, text, note, tech, ref = CLAIMED[i]
        checks.append({
            "property_id": i,
            "quick_cmd": f"./check {i} quick",
            "thorough_cmd": f"./check {i} thorough",
            "evidence_file": f"/verif/evidence/{i}.json",
            "replay_cmd_template": "./check replay {path}",
            "engine": "vcheck",
            "level_claimed": {"category": cat, "text": text, "design_ref": ref},
            "level_note": note,
            "technique": tech,
        })
    else:
        na.append({"property_id": i, "reason": NOT_YET})
m = {
 "version": 1,
 "setup_cmd": "./setup.sh",
 "hooks": {
   "guard": "verif",
   "enable": "no hook is committed to /repo: at check time vinstr rewrites /repo's working tree into a scratch directory and the worker is built with `go build -tags verif -overlay <scratch>/overlay.json` (harness files of /verif/harness carry //go:build verif)",
   "baseline_off_cmd": "cd /repo && GOFLAGS=-mod=mod GOPROXY=off go test -vet=off -count=1 ./...",
   "source_commits": [],
   "add_only": True,
 },
 "engines": [
   {"name": "vcheck", "path": "/verif/cmd/vcheck", "serves_properties": sorted(CLAIMED),
    "kind_free_text": "driver: instruments /repo (instr/), builds workers with -overlay, shards jobs over 16 processes, aggregates, applies known_findings.json, writes evidence"},
   {"name": "vsched+explore", "path": "/verif/vsched", "serves_properties": sorted(CLAIMED),
    "kind_free_text": "cooperative scheduler runtime and stateless DFS explorer (deviation bounding, sleep-set POR) over the real code"},
 ],
 "checks": checks,
 "not_applicable": na,
 "notes": "All checks rebuild from /repo's working tree at run time. Exit 2 = engine error (never a verdict).",
}
json.dump(m, open(os.path.join(HERE,'MANIFEST.json'),'w'), indent=1)
print("claimed:", sorted(CLAIMED), "not claimed:", len(na))
