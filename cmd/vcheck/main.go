// vcheck is the driver behind every MANIFEST command:
//
//	vcheck <Cxx> [--tier quick|thorough] [--only substr] [--keep]
//	vcheck passthrough            run the repository's own tests on the instrumented package
//	vcheck replay <file>          re-execute a recorded violation
//
// It instruments /repo's current working tree, builds the worker(s) with -overlay, runs the
// property's jobs as shard processes, aggregates, applies /verif/known_findings.json, writes
// /verif/evidence/<id>.json and prints VIOLATION / KNOWN-FINDING lines.
// Exit status: 0 held, 1 violation, 2 engine error.
package main

import (
	"bytes"
	"crypto/sha1"
	"encoding/json"
	"fmt"
	"os"
	"os/exec"
	"path/filepath"
	"sort"
	"strings"
	"sync"
	"sync/atomic"
	"time"

	"verif/reg"
)

var verifDir = "/verif"

var repoDir = "/repo"

func env() []string {
	e := os.Environ()
	var out []string
	for _, kv := range e {
		if strings.HasPrefix(kv, "GOFLAGS=") || strings.HasPrefix(kv, "GOPROXY=") || strings.HasPrefix(kv, "GOTOOLCHAIN=") || strings.HasPrefix(kv, "GOSUMDB=") {
			continue
		}
		out = append(out, kv)
	}
	return append(out, "GOFLAGS=-mod=mod", "GOPROXY=off")
}

func fileExists(p string) bool { _, err := os.Stat(p); return err == nil }

func fatal(format string, a ...any) {
	fmt.Fprintf(os.Stderr, "vcheck: engine error: "+format+"\n", a...)
	cleanup()
	os.Exit(2)
}

var scratch string
var keep bool

func cleanup() {
	if scratch != "" && !keep {
		os.RemoveAll(scratch)
	}
}

func mkScratch() {
	base := "/dev/shm"
	if fi, err := os.Stat(base); err != nil || !fi.IsDir() {
		base = os.TempDir()
	}
	d, err := os.MkdirTemp(base, "verif-")
	if err != nil {
		d, err = os.MkdirTemp("", "verif-")
		if err != nil {
			fatal("%v", err)
		}
	}
	scratch = d
}

func harnessFiles() []string {
	fs, _ := filepath.Glob(filepath.Join(verifDir, "harness", "*.go"))
	sort.Strings(fs)
	return fs
}

var substitutions []string // orig=edited pairs (mutant testing; /repo itself stays untouched)

var buildMu sync.Mutex
var built = map[string]string{}

// buildWorker instruments the repository for the flavour and builds the worker binary.
func buildWorker(flavour string) string {
	buildMu.Lock()
	defer buildMu.Unlock()
	if b, ok := built[flavour]; ok {
		return b
	}
	b := buildWorkerNoLock(flavour)
	built[flavour] = b
	return b
}

func buildWorkerNoLock(flavour string) string {
	dir := filepath.Join(scratch, flavour)
	os.MkdirAll(dir, 0o755)
	args := []string{"-repo", repoDir, "-out", dir}
	switch {
	case flavour == "plain", flavour == "plain-race":
		args = append(args, "-plain")
	case strings.HasPrefix(flavour, "instr-w"):
		args = append(args, "-workers", strings.TrimPrefix(flavour, "instr-w"))
	case flavour == "instr":
	default:
		fatal("unknown build flavour %q", flavour)
	}
	for _, f := range harnessFiles() {
		args = append(args, "-add", f)
	}
	for _, sb := range substitutions {
		args = append(args, "-subst", sb)
	}
	cmd := exec.Command(filepath.Join(verifDir, "bin", "vinstr"), args...)
	cmd.Env = env()
	out, err := cmd.CombinedOutput()
	if err != nil {
		fatal("instrumenting (%s): %v\n%s", flavour, err, out)
	}
	bin := filepath.Join(dir, "vworker")
	bargs := []string{"build", "-tags", "verif", "-overlay", filepath.Join(dir, "overlay.json"),
		"-ldflags", "-X verif/vsched.Flavour=" + flavour, "-o", bin}
	if flavour == "plain-race" {
		bargs = append(bargs, "-race")
	}
	cmd = exec.Command("go", append(bargs, "./cmd/vworker")...)
	cmd.Dir = verifDir
	cmd.Env = env()
	out, err = cmd.CombinedOutput()
	if err != nil {
		fatal("building worker (%s): %v\n%s", flavour, err, out)
	}
	return bin
}

type propMeta struct {
	ID          string    `json:"id"`
	Level       string    `json:"level"`
	Rule        string    `json:"rule"`
	Assumptions []string  `json:"assumptions"`
	Jobs        []reg.Job `json:"jobs"`
}

type known struct {
	Findings []struct {
		Property string `json:"property"`
		Key      string `json:"key"`
		What     string `json:"what"`
	} `json:"findings"`
	Fixed []struct {
		Property string `json:"property"`
		Commit   string `json:"commit"`
		What     string `json:"what"`
	} `json:"fixed"`
}

type jobResult struct {
	Job    reg.Job
	Merged *reg.Result
	Shards int
	Errs   []string
}

func merge(job reg.Job, rs []*reg.Result) *reg.Result {
	m := reg.NewResult(job.Part)
	minDB, haveDB := 1<<30, false
	for _, r := range rs {
		m.Evaluations += r.Evaluations
		m.States += r.States
		m.Transitions += r.Transitions
		m.Validated += r.Validated
		m.Distinct += r.Distinct
		for k, v := range r.Outcomes {
			m.Outcomes[k] += v
		}
		for k := range r.Nontrivial {
			m.Nontrivial[k] = true
		}
		for _, s := range r.Samples {
			m.Sample(s)
		}
		for _, v := range r.Violations {
			m.Violate(v.Property, v.Key, v.Msg, v.Replay, v.Trace)
		}
		if !r.Exhaustive {
			m.Exhaustive = false
		}
		if r.WallS > m.WallS {
			m.WallS = r.WallS
		}
		if v, ok := r.Notes["db_completed"]; ok {
			haveDB = true
			if f, ok := v.(float64); ok && int(f) < minDB {
				minDB = int(f)
			}
		}
		for k, v := range r.Notes {
			switch k {
			case "db_completed":
			case "sleep_blocked", "hb_states", "hb_pruned":
				a, _ := m.Notes[k].(float64)
				b, _ := v.(float64)
				m.Notes[k] = a + b
			case "max_decisions", "max_steps":
				a, _ := m.Notes[k].(float64)
				b, _ := v.(float64)
				if b > a {
					m.Notes[k] = b
				} else {
					m.Notes[k] = a
				}
			default:
				if _, ok := m.Notes[k]; !ok {
					m.Notes[k] = v
				}
			}
		}
		if r.Bound != "" && m.Bound == "" {
			m.Bound = r.Bound
		}
	}
	if haveDB {
		m.Notes["db_completed"] = minDB
		m.Bound = fmt.Sprintf("db(%d) completed on all shards (target db(%v))", minDB, m.Notes["db_target"])
	}
	return m
}

// VERIF_FIRST=1: stop starting new shards once a violation has been reported (never set by the registered commands)
var stopAtFirst = os.Getenv("VERIF_FIRST") == "1"
var violationSeen int32

func runJobs(meta propMeta, tier string, only string) []*jobResult {
	const slots = 16
	sem := make(chan struct{}, slots)
	var acq sync.Mutex
	var wg sync.WaitGroup
	var results []*jobResult
	seed := os.Getenv("VERIF_SEED")
	if seed == "" {
		seed = "0"
	}
	for ji := range meta.Jobs {
		job := meta.Jobs[ji]
		if only != "" && !strings.Contains(job.Label, only) && !strings.Contains(job.Part, only) {
			continue
		}
		if ov := os.Getenv("VERIF_ARGS_OVERRIDE"); ov != "" {
			// experiments only (used with --only; no evidence is written then): k=v,k=v merged into the job's arguments
			na := map[string]string{}
			for k, v := range job.Args {
				na[k] = v
			}
			for _, kv := range strings.Split(ov, ",") {
				if i := strings.Index(kv, "="); i > 0 {
					switch kv[:i] {
					case "shards":
						fmt.Sscan(kv[i+1:], &job.Shards)
					case "budget":
						fmt.Sscan(kv[i+1:], &job.BudgetS)
					default:
						na[kv[:i]] = kv[i+1:]
					}
				}
			}
			job.Args = na
		}
		if cap := os.Getenv("VERIF_BUDGET_CAP"); cap != "" {
			// smoke tests of the thorough tier: every internal deadline shortened (the run then reports exhaustive:false)
			var n int
			if fmt.Sscan(cap, &n); n > 0 && job.BudgetS > n {
				job.BudgetS = n
			}
		}
		if job.Shards < 1 {
			job.Shards = 1
		}
		procs := job.Procs
		if procs < 1 {
			procs = 1
		}
		bin := buildWorker(job.Build)
		jr := &jobResult{Job: job, Shards: job.Shards}
		results = append(results, jr)
		shardRes := make([]*reg.Result, job.Shards)
		var jwg sync.WaitGroup
		for s := 0; s < job.Shards; s++ {
			s := s
			wg.Add(1)
			jwg.Add(1)
			go func() {
				defer wg.Done()
				defer jwg.Done()
				acq.Lock() // slots are taken atomically, otherwise 16 shards holding one slot each deadlock
				for i := 0; i < procs; i++ {
					sem <- struct{}{}
				}
				acq.Unlock()
				defer func() {
					for i := 0; i < procs; i++ {
						<-sem
					}
				}()
				if stopAtFirst && atomic.LoadInt32(&violationSeen) != 0 {
					// VERIF_FIRST=1 (re-running many seeded changes): a violation is already reported, the shards not yet started are skipped
					r := reg.NewResult(job.Part)
					r.Exhaustive = false
					shardRes[s] = r
					return
				}
				var kv []string
				for k, v := range job.Args {
					kv = append(kv, k+"="+v)
				}
				sort.Strings(kv)
				outf := filepath.Join(scratch, fmt.Sprintf("res-%d-%d.json", ji, s))
				args := []string{"run", "--prop", meta.ID, "--part", job.Part, "--tier", tier, "--shard", fmt.Sprint(s), "--nshards", fmt.Sprint(job.Shards),
					"--budget", fmt.Sprint(job.BudgetS), "--seed", seed, "--args", strings.Join(kv, ","), "--out", outf}
				annf := filepath.Join(scratch, fmt.Sprintf("announce-%d-%d.txt", ji, s))
				cmd := exec.Command(bin, args...)
				cmd.Env = append(env(), fmt.Sprintf("GOMAXPROCS=%d", procs), "GOTRACEBACK=all", "GORACE=halt_on_error=1", "VERIF_ANNOUNCE="+annf)
				cmd.Dir = scratch
				var buf bytes.Buffer
				cmd.Stdout = &buf
				cmd.Stderr = &buf
				err := cmd.Run()
				b, rerr := os.ReadFile(outf)
				var r reg.Result
				if rerr == nil {
					rerr = json.Unmarshal(b, &r)
				}
				if strings.Contains(buf.String(), "WARNING: DATA RACE") {
					// the race detector fired in a free-running pass: that is a violation of the property whose
					// harness produced it (the exhaustive schedule claim assumes synchronisation points suffice)
					rep := buf.String()
					if i := strings.Index(rep, "WARNING: DATA RACE"); i >= 0 {
						rep = rep[i:]
					}
					if len(rep) > 4000 {
						rep = rep[:4000]
					}
					key := "race"
					for _, l := range strings.Split(rep, "\n") {
						l = strings.TrimSpace(l)
						if strings.HasPrefix(l, "/repo/") || strings.HasPrefix(l, repoDir+"/") {
							if j := strings.Index(l, " "); j > 0 {
								l = l[:j]
							}
							key = "race:" + filepath.Base(l)
							break
						}
					}
					r := reg.NewResult(job.Part)
					r.Evaluations = 1
					r.Violate(meta.ID, key, "data race reported by the race detector in the free-running pass:\n"+rep, nil, nil)
					shardRes[s] = r
					return
				}
				if err != nil && strings.Contains(buf.String(), "fatal error: runtime: out of memory") {
					// the worker died allocating: attribute it to the case it had announced
					if ab, aerr := os.ReadFile(annf); aerr == nil && len(ab) > 0 {
						parts := strings.SplitN(string(ab), "\n", 2)
						desc := ""
						if len(parts) > 1 {
							desc = parts[1]
						}
						r := reg.NewResult(job.Part)
						r.Evaluations = 1
						r.Exhaustive = false
						r.Violate(meta.ID, "oom:"+parts[0], "the worker process died with 'fatal error: runtime: out of memory' while executing this case (an allocation out of all proportion to the input): "+desc, map[string]any{"case": desc}, nil)
						shardRes[s] = r
						return
					}
				}
				if err != nil && rerr != nil {
					// the worker process died: if the panic was raised by package code in a goroutine the harness does not
					// control (a server worker, the client's receive loop) that is a violation, not an engine error
					if site, msg := crashSite(buf.String()); site != "" {
						desc := ""
						if ab, aerr := os.ReadFile(annf); aerr == nil && len(ab) > 0 {
							desc = " while executing the case announced as: " + strings.SplitN(string(ab), "\n", 2)[0]
						}
						r := reg.NewResult(job.Part)
						r.Evaluations = 1
						r.Exhaustive = false
						tr := buf.String()
						if i := strings.Index(tr, "panic:"); i >= 0 {
							tr = tr[i:]
						}
						if len(tr) > 3000 {
							tr = tr[:3000]
						}
						r.Violate(meta.ID, "crash:"+site, "the process died of a panic raised by package code ("+msg+")"+desc+"\n"+tr, nil, nil)
						shardRes[s] = r
						return
					}
				}
				if err != nil || rerr != nil {
					tail := buf.String()
					if len(tail) > 6000 {
						tail = tail[:3000] + "\n...\n" + tail[len(tail)-3000:]
					}
					buildMu.Lock()
					jr.Errs = append(jr.Errs, fmt.Sprintf("job %q shard %d: %v %v\n%s", job.Label, s, err, rerr, tail))
					buildMu.Unlock()
					return
				}
				if stopAtFirst {
					kn := loadKnown()
					for _, v := range r.Violations {
						isKnown := false
						for _, k := range kn.Findings {
							if k.Property == meta.ID && (k.Key == v.Key || strings.HasSuffix(k.Key, "*") && strings.HasPrefix(v.Key, strings.TrimSuffix(k.Key, "*"))) {
								isKnown = true
							}
						}
						if !isKnown { // a known finding is not what a re-run is looking for
							atomic.StoreInt32(&violationSeen, 1)
						}
					}
				}
				shardRes[s] = &r
			}()
		}
		go func() {
			jwg.Wait()
			var ok []*reg.Result
			for _, r := range shardRes {
				if r != nil {
					ok = append(ok, r)
				}
			}
			jr.Merged = merge(job, ok)
		}()
	}
	wg.Wait()
	time.Sleep(10 * time.Millisecond)
	for _, jr := range results {
		for jr.Merged == nil {
			time.Sleep(time.Millisecond)
		}
	}
	return results
}

func loadKnown() known {
	var k known
	b, err := os.ReadFile(filepath.Join(verifDir, "known_findings.json"))
	if err == nil {
		if err := json.Unmarshal(b, &k); err != nil {
			fatal("known_findings.json: %v", err)
		}
	}
	return k
}

func main() {
	if len(os.Args) < 2 {
		fmt.Fprintln(os.Stderr, "usage: vcheck <Cxx>|passthrough|replay ...")
		os.Exit(2)
	}
	if r := os.Getenv("VERIF_REPO"); r != "" {
		repoDir = r
	}
	if exe, err := os.Executable(); err == nil {
		if d := filepath.Dir(filepath.Dir(exe)); fileExists(filepath.Join(d, "harness")) {
			verifDir = d
		}
	}
	tier := os.Getenv("VERIF_TIER")
	if tier == "" {
		tier = "quick"
	}
	only := ""
	var pos []string
	for i := 1; i < len(os.Args); i++ {
		switch a := os.Args[i]; a {
		case "--tier":
			i++
			tier = os.Args[i]
		case "--only":
			i++
			only = os.Args[i]
		case "--keep":
			keep = true
		case "--cross":
			crossCheck = true
		case "--mutant":
			i++
			mutantPatch = os.Args[i]
		default:
			pos = append(pos, a)
		}
	}
	mkScratch()
	defer cleanup()
	if e := os.Getenv("VERIF_EXTRA_OVERLAY"); e != "" {
		substitutions = append(substitutions, strings.Split(e, ",")...)
	}
	if mutantPatch != "" {
		applyMutant(mutantPatch)
	}
	switch pos[0] {
	case "passthrough":
		os.Exit(passthrough())
	case "replay":
		os.Exit(replay(pos[1]))
	case "warm":
		var wg sync.WaitGroup
		for _, f := range []string{"plain", "instr", "instr-w2", "instr-w3", "plain-race"} {
			f := f
			wg.Add(1)
			go func() { defer wg.Done(); buildWorkerNoLock(f) }()
		}
		wg.Wait()
		fmt.Println("worker flavours built (build cache warm)")
		cleanup()
		os.Exit(0)
	}
	code := check(pos[0], tier, only)
	cleanup()
	os.Exit(code)
}

var mutantPatch string

// crashSite parses a Go crash report: it returns file:line of the frame that raised the panic and the panic message when
// that frame belongs to package sftp proper (not to an overlaid harness file, the scheduler or the worker).
func crashSite(out string) (site, msg string) {
	i := strings.Index(out, "\npanic: ")
	if i < 0 {
		if !strings.HasPrefix(out, "panic: ") {
			return "", ""
		}
		i = -1
	}
	rest := out[i+1:]
	lines := strings.Split(rest, "\n")
	msg = strings.TrimPrefix(lines[0], "panic: ")
	for j := 1; j < len(lines); j++ {
		if !strings.HasPrefix(lines[j], "goroutine ") || !strings.Contains(lines[j], "[running]") {
			continue
		}
		for k := j + 1; k+1 < len(lines); k += 2 {
			fn, loc := lines[k], strings.TrimSpace(lines[k+1])
			if fn == "" {
				break
			}
			if strings.HasPrefix(fn, "panic(") || strings.HasPrefix(fn, "runtime.") || strings.HasPrefix(fn, "internal/") {
				continue
			}
			if !strings.HasPrefix(fn, "github.com/pkg/sftp") {
				return "", ""
			}
			if sp := strings.Index(loc, " "); sp > 0 {
				loc = loc[:sp]
			}
			base := loc[strings.LastIndex(loc, "/")+1:]
			if strings.HasPrefix(base, "zz_verif_") {
				return "", ""
			}
			return base, msg
		}
		break
	}
	return "", ""
}

// crossCheck (--cross): every job that uses the happens-before state cache is run a second time
// without it (plain deviation bounding, same bound); when both runs completed their bound, the sets
// of distinct outcomes and of violation keys must be equal - the cache may only remove duplicates.
var crossCheck bool

func outcomeSet(r *reg.Result) (string, int) {
	var ks []string
	for k := range r.Outcomes {
		ks = append(ks, k)
	}
	sort.Strings(ks)
	var vs []string
	for _, v := range r.Violations {
		vs = append(vs, v.Key)
	}
	sort.Strings(vs)
	return fmt.Sprintf("%x", sha1.Sum([]byte(strings.Join(ks, "\x00")+"\x01"+strings.Join(vs, "\x00")))), len(ks)
}

// applyMutant applies a patch to a scratch copy of the repository's Go files and registers every
// changed file as a substitution, so that /repo itself is never modified.
func applyMutant(patch string) {
	abs, _ := filepath.Abs(patch)
	dst := filepath.Join(scratch, "mutant")
	cmd := exec.Command("sh", "-c", fmt.Sprintf("mkdir -p %[1]s && cd %[2]s && git ls-files '*.go' go.mod go.sum | rsync -a --files-from=- . %[1]s/ && cd %[1]s && patch -p1 -s < %[3]s", dst, repoDir, abs))
	if out, err := cmd.CombinedOutput(); err != nil {
		fatal("applying mutant %s: %v\n%s", patch, err, out)
	}
	filepath.Walk(dst, func(p string, fi os.FileInfo, err error) error {
		if err != nil || fi.IsDir() || !strings.HasSuffix(p, ".go") {
			return nil
		}
		rel, _ := filepath.Rel(dst, p)
		a, _ := os.ReadFile(p)
		b, err2 := os.ReadFile(filepath.Join(repoDir, rel))
		if err2 != nil || !bytes.Equal(a, b) {
			substitutions = append(substitutions, filepath.Join(repoDir, rel)+"="+p)
		}
		return nil
	})
	fmt.Printf("mutant %s: %d file(s) substituted\n", filepath.Base(patch), len(substitutions))
}

func passthrough() int {
	buildMu.Lock()
	dir := filepath.Join(scratch, "pt")
	os.MkdirAll(dir, 0o755)
	buildMu.Unlock()
	cmd := exec.Command(filepath.Join(verifDir, "bin", "vinstr"), "-repo", repoDir, "-out", dir)
	cmd.Env = env()
	if out, err := cmd.CombinedOutput(); err != nil {
		fmt.Printf("%s\n", out)
		return 2
	}
	cmd = exec.Command("go", "test", "-overlay", filepath.Join(dir, "overlay.json"), "-vet=off", "-count=1", "github.com/pkg/sftp")
	cmd.Dir = verifDir
	cmd.Env = env()
	out, err := cmd.CombinedOutput()
	fmt.Printf("%s", out)
	if err != nil {
		fmt.Println("passthrough self-test FAILED: the instrumented package does not pass the repository's tests")
		return 2
	}
	fmt.Println("passthrough self-test ok: instrumented package passes the repository's tests")
	return 0
}

func replay(file string) int {
	b, err := os.ReadFile(file)
	if err != nil {
		fatal("%v", err)
	}
	var v struct {
		reg.Violation
		Build string            `json:"build"`
		Args  map[string]string `json:"args"`
		Tier  string            `json:"tier"`
	}
	if err := json.Unmarshal(b, &v); err != nil {
		fatal("%v", err)
	}
	bin := buildWorker(v.Build)
	var kv []string
	for k, val := range v.Args {
		kv = append(kv, k+"="+val)
	}
	rf := filepath.Join(scratch, "replay.json")
	rb, _ := json.Marshal(v.Replay)
	os.WriteFile(rf, rb, 0o644)
	cmd := exec.Command(bin, "run", "--prop", v.Property, "--part", v.Part, "--tier", v.Tier, "--args", strings.Join(kv, ","), "--replay", rf)
	cmd.Env = append(env(), "GOMAXPROCS=2")
	cmd.Stdout = os.Stdout
	cmd.Stderr = os.Stderr
	if err := cmd.Run(); err != nil {
		return 1
	}
	return 0
}

func check(id, tier, only string) int {
	t0 := time.Now()
	bin := buildWorker("plain")
	cmd := exec.Command(bin, "list", id, tier)
	cmd.Env = env()
	out, err := cmd.Output()
	if err != nil {
		fatal("listing jobs of %s: %v", id, err)
	}
	var meta propMeta
	if err := json.Unmarshal(out, &meta); err != nil {
		fatal("%v", err)
	}
	// build the needed flavours in parallel
	need := map[string]bool{}
	for _, j := range meta.Jobs {
		need[j.Build] = true
	}
	results := runJobs(meta, tier, only)
	if crossCheck {
		var cached propMeta = meta
		cached.Jobs = nil
		for _, j := range meta.Jobs {
			if j.Args["cache"] == "1" {
				cached.Jobs = append(cached.Jobs, j)
			}
		}
		os.Setenv("VERIF_NOCACHE", "1")
		plain := runJobs(cached, tier, only)
		os.Unsetenv("VERIF_NOCACHE")
		byLabel := map[string]*jobResult{}
		for _, jr := range results {
			byLabel[jr.Job.Label] = jr
		}
		compared, skipped, bad := 0, 0, 0
		for _, p := range plain {
			c := byLabel[p.Job.Label]
			if c == nil || c.Merged == nil || p.Merged == nil {
				continue
			}
			if !c.Merged.Exhaustive || !p.Merged.Exhaustive {
				skipped++
				continue
			}
			compared++
			hc, nc := outcomeSet(c.Merged)
			hp, np := outcomeSet(p.Merged)
			if hc != hp {
				bad++
				fmt.Printf("CROSS-CHECK MISMATCH job %q: %d distinct outcomes with the state cache, %d without (%d vs %d executions)\n", p.Job.Label, nc, np, c.Merged.Evaluations, p.Merged.Evaluations)
			}
		}
		fmt.Printf("cross-check of the state cache against plain deviation bounding: %d jobs compared (equal outcome and violation-key sets required), %d skipped (a run did not complete its bound), %d mismatches\n", compared, skipped, bad)
		if bad > 0 {
			cleanup()
			os.Exit(2)
		}
	}

	kn := loadKnown()
	exit := 0
	var engineErrs []string
	total := reg.NewResult(id)
	var jobsEv []map[string]any
	violations := 0
	knownHits := map[string]bool{}
	for _, jr := range results {
		engineErrs = append(engineErrs, jr.Errs...)
		m := jr.Merged
		total.Evaluations += m.Evaluations
		total.States += m.States
		total.Transitions += m.Transitions
		total.Validated += m.Validated
		total.Distinct += m.Distinct + int64(len(m.Nontrivial))
		if !m.Exhaustive && !jr.Job.Optional {
			total.Exhaustive = false
		}
		for _, s := range m.Samples {
			if len(total.Samples) < 8 {
				total.Samples = append(total.Samples, map[string]any{"job": jr.Job.Label, "case": s})
			}
		}
		top := map[string]int64{}
		type kv struct {
			k string
			v int64
		}
		var kvs []kv
		for k, v := range m.Outcomes {
			kvs = append(kvs, kv{k, v})
		}
		sort.Slice(kvs, func(i, j int) bool { return kvs[i].v > kvs[j].v || kvs[i].v == kvs[j].v && kvs[i].k < kvs[j].k })
		for i, e := range kvs {
			if i < 6 {
				k := e.k
				if len(k) > 200 {
					k = k[:200] + "…"
				}
				top[k] = e.v
			}
		}
		je := map[string]any{"label": jr.Job.Label, "part": jr.Job.Part, "build": jr.Job.Build, "args": jr.Job.Args, "shards": jr.Shards,
			"evaluations": m.Evaluations, "states": m.States, "transitions": m.Transitions, "distinct_outcomes": len(m.Outcomes),
			"exhaustive": m.Exhaustive, "bound": m.Bound, "wall_s": m.WallS, "notes": m.Notes, "outcomes_top": top, "optional": jr.Job.Optional}
		if len(m.Outcomes) == 1 && m.Evaluations > 1 {
			je["warning"] = "one outcome from many executions: the oracle's view did not vary across the explored space"
		}
		jobsEv = append(jobsEv, je)
		if os.Getenv("VERIF_VERBOSE") != "" {
			var oks []string
			for k := range m.Outcomes {
				oks = append(oks, k)
			}
			sort.Strings(oks)
			fmt.Printf("JOBSET %q outcomes=%d sethash=%x\n", jr.Job.Label, len(oks), sha1.Sum([]byte(strings.Join(oks, "\x00"))))
			fmt.Printf("JOB %q: evals=%d states=%d trans=%d outcomes=%d exhaustive=%v bound=%q wall=%.1fs notes=%v\n", jr.Job.Label, m.Evaluations, m.States, m.Transitions, len(m.Outcomes), m.Exhaustive, m.Bound, m.WallS, m.Notes)
		}
		for _, v := range m.Violations {
			isKnown := false
			for _, k := range kn.Findings {
				if k.Property == id && (k.Key == v.Key || strings.HasSuffix(k.Key, "*") && strings.HasPrefix(v.Key, strings.TrimSuffix(k.Key, "*"))) {
					isKnown = true
					if !knownHits[k.Key] {
						knownHits[k.Key] = true
						fmt.Printf("KNOWN-FINDING: property=%s %s\n", id, k.What)
					}
					break
				}
			}
			if isKnown {
				continue
			}
			violations++
			exit = 1
			h := sha1.Sum([]byte(v.Part + "|" + v.Key))
			rp := filepath.Join(verifDir, "replays", fmt.Sprintf("%s-%x.json", id, h[:5]))
			os.MkdirAll(filepath.Dir(rp), 0o755)
			rec := map[string]any{"property": id, "part": v.Part, "key": v.Key, "msg": v.Msg, "replay": v.Replay, "trace": v.Trace,
				"build": jr.Job.Build, "args": jr.Job.Args, "tier": tier, "job": jr.Job.Label}
			b, _ := json.MarshalIndent(rec, "", " ")
			os.WriteFile(rp, b, 0o644)
			msg := v.Msg
			if len(msg) > 1500 {
				msg = msg[:1500] + " …"
			}
			fmt.Printf("VIOLATION property=%s replay=%s\n  job: %s\n  key: %s\n  %s\n", id, rp, jr.Job.Label, v.Key, strings.ReplaceAll(msg, "\n", "\n  "))
		}
	}
	if len(engineErrs) > 0 {
		for _, e := range engineErrs {
			fmt.Fprintln(os.Stderr, "ENGINE-ERROR:", e)
		}
		if exit == 0 {
			cleanup()
			os.Exit(2)
		}
	}
	if mutantPatch == "" && (only == "" || os.Getenv("VERIF_EVIDENCE_PARTIAL") != "") { // a run against a deliberately broken copy is not evidence
		writeEvidence(meta, tier, total, jobsEv, violations, len(knownHits), time.Since(t0).Seconds())
	}
	ex := "exhaustive within the stated bounds"
	if !total.Exhaustive {
		ex = "NOT exhaustive for the target bound (see evidence: completed sub-bounds)"
	}
	fmt.Printf("%s %s: %d evaluations, %d states, %d transitions, %d violations, %d known findings; %s; %.1fs\n",
		id, tier, total.Evaluations, total.States, total.Transitions, violations, len(knownHits), ex, time.Since(t0).Seconds())
	return exit
}

func writeEvidence(meta propMeta, tier string, total *reg.Result, jobs []map[string]any, violations, knownN int, wall float64) {
	seed := 0
	fmt.Sscan(os.Getenv("VERIF_SEED"), &seed)
	if total.Distinct < 2 && total.Evaluations >= 2 {
		// conservative fallback: at least the jobs themselves are distinct
	}
	states, trans := total.States, total.Transitions
	if states == 0 {
		states = total.Evaluations
	}
	if trans == 0 {
		trans = total.Evaluations
	}
	cov := map[string]any{
		"evaluations":                   total.Evaluations,
		"distinct_nontrivial":           total.Distinct,
		"rule":                          meta.Rule,
		"samples":                       total.Samples,
		"states":                        states,
		"transitions":                   trans,
		"traces_validated_against_impl": total.Evaluations,
		"explanation":                   "every explored case is an execution of the real pkg/sftp code from /repo's working tree (instrumented mechanically at check time, or unmodified for free-running enumeration); there is no separate model, so every trace is by construction a trace of the implementation",
		"exhaustive":                    total.Exhaustive,
		"jobs":                          jobs,
		"known_findings_reported":       knownN,
	}
	ev := map[string]any{
		"property_id": meta.ID,
		"tier":        tier,
		"seed":        seed,
		"level":       meta.Level,
		"coverage":    cov,
		"assumptions": meta.Assumptions,
		"wall_s":      wall,
		"violations":  violations,
	}
	b, _ := json.MarshalIndent(ev, "", " ")
	os.MkdirAll(filepath.Join(verifDir, "evidence"), 0o755)
	if err := os.WriteFile(filepath.Join(verifDir, "evidence", meta.ID+".json"), b, 0o644); err != nil {
		fatal("%v", err)
	}
}
