// vworker is the per-shard worker: it is built together with the (instrumented or plain) copy of
// package sftp plus the overlaid harness files, and runs one registered part.
package main

import (
	"encoding/json"
	"flag"
	"fmt"
	"os"
	"runtime/debug"
	"strings"
	"time"

	sftp "github.com/pkg/sftp"
	"verif/reg"
)

// pkgPanicSite returns file:line of the frame that raised the panic when that frame belongs to
// package sftp proper (not to an overlaid harness file), else "".
func pkgPanicSite(stack string) string {
	lines := strings.Split(stack, "\n")
	for i := 0; i+1 < len(lines); i++ {
		if !strings.HasPrefix(lines[i], "panic(") {
			continue
		}
		// frames of the runtime (bounds-check helpers) may sit between panic() and the raising frame
		for j := i + 2; j+1 < len(lines); j += 2 {
			fn, loc := lines[j], strings.TrimSpace(lines[j+1])
			if strings.HasPrefix(fn, "runtime.") || strings.HasPrefix(fn, "internal/") {
				continue
			}
			if !strings.HasPrefix(fn, "github.com/pkg/sftp") {
				return ""
			}
			if k := strings.Index(loc, " "); k > 0 {
				loc = loc[:k]
			}
			base := loc[strings.LastIndex(loc, "/")+1:]
			if strings.HasPrefix(base, "zz_verif_") {
				return ""
			}
			return base
		}
	}
	return ""
}

func main() {
	if len(os.Args) < 2 {
		fmt.Fprintln(os.Stderr, "usage: vworker list|run ...")
		os.Exit(2)
	}
	switch os.Args[1] {
	case "list":
		p := reg.LookupProp(os.Args[2])
		if p == nil {
			fmt.Fprintf(os.Stderr, "unknown property %s (have %v)\n", os.Args[2], reg.Props())
			os.Exit(2)
		}
		out := map[string]any{"id": p.ID, "level": p.Level, "rule": p.Rule, "assumptions": p.Assumptions, "jobs": p.Jobs(os.Args[3])}
		json.NewEncoder(os.Stdout).Encode(out)
	case "props":
		json.NewEncoder(os.Stdout).Encode(reg.Props())
	case "run":
		run(os.Args[2:])
	default:
		os.Exit(2)
	}
}

func run(args []string) {
	fs := flag.NewFlagSet("run", flag.ExitOnError)
	prop := fs.String("prop", "", "")
	part := fs.String("part", "", "")
	tier := fs.String("tier", "quick", "")
	shard := fs.Int("shard", 0, "")
	nshards := fs.Int("nshards", 1, "")
	budget := fs.Int("budget", 0, "")
	seed := fs.Int64("seed", 0, "")
	argstr := fs.String("args", "", "k=v,k=v")
	out := fs.String("out", "", "")
	replay := fs.String("replay", "", "file with a replay record")
	fs.Parse(args)
	f := reg.LookupPart(*part)
	if f == nil {
		fmt.Fprintf(os.Stderr, "unknown part %s\n", *part)
		os.Exit(2)
	}
	ctx := &reg.Ctx{Property: *prop, Part: *part, Tier: *tier, Seed: *seed, Shard: *shard, NShards: *nshards, Args: map[string]string{}}
	if *budget > 0 {
		ctx.Deadline = time.Now().Add(time.Duration(*budget) * time.Second)
	}
	for _, kv := range strings.Split(*argstr, ",") {
		if i := strings.Index(kv, "="); i > 0 {
			ctx.Args[kv[:i]] = kv[i+1:]
		}
	}
	if *replay != "" {
		b, err := os.ReadFile(*replay)
		if err != nil {
			fmt.Fprintln(os.Stderr, err)
			os.Exit(2)
		}
		ctx.Replay = b
	}
	t0 := time.Now()
	var res *reg.Result
	func() {
		defer func() {
			if r := recover(); r != nil {
				res = reg.NewResult(*part)
				st := string(debug.Stack())
				if loc := pkgPanicSite(st); loc != "" {
					// the panic was raised by the package's own code (first frame below the panic is a file of /repo,
					// not of the harness): called with a value of its input domain it must not panic, whatever the property
					res.Evaluations = 1
					res.Exhaustive = false
					res.Violate(*prop, "panic:"+loc, fmt.Sprintf("package code panics: %v\n%s", r, st), nil, nil)
					return
				}
				res.EngineError = fmt.Sprintf("worker panic: %v\n%s", r, st)
			}
		}()
		res = f(ctx)
	}()
	sftp.CleanupScratch()
	if res.WallS == 0 {
		res.WallS = time.Since(t0).Seconds()
	}
	js, _ := json.Marshal(res)
	if *replay != "" {
		if len(res.Violations) > 0 {
			os.Exit(1)
		}
		os.Exit(0)
	}
	if *out != "" {
		if err := os.WriteFile(*out, js, 0o644); err != nil {
			fmt.Fprintln(os.Stderr, err)
			os.Exit(2)
		}
	} else {
		os.Stdout.Write(js)
	}
	if res.EngineError != "" {
		fmt.Fprintln(os.Stderr, "ENGINE-ERROR:", res.EngineError)
		os.Exit(2)
	}
}
