#!/usr/bin/env python3
"""applyreseed.py <reseed log>...: brings seeded/<id>/meta.json up to date with what reseed.sh observed
(lines 'seed <name> <prop> exit=<rc> ...'): a property that reported the change (exit 1) is listed in detected_by,
one that did not (exit 0) is removed from it; the raw observation is kept under 'reseed'."""
import json, os, re, sys, time
obs = {}
for f in sys.argv[1:]:
    for l in open(f, errors='replace'):
        m = re.match(r'seed (\S+) (C\d\d) exit=(\d)(.*)', l)
        if m:
            obs.setdefault(m.group(1), {})[m.group(2)] = (int(m.group(3)), m.group(4).strip()[:200])
n = 0
for name, res in sorted(obs.items()):
    p = os.path.join(os.path.dirname(os.path.abspath(__file__)), 'seeded', name, 'meta.json')
    if not os.path.exists(p):
        continue
    j = json.load(open(p))
    det = list(j.get('detected_by') or [])
    for prop, (rc, keys) in res.items():
        if rc == 1 and prop not in det:
            det.append(prop)
        if rc == 0 and prop in det:
            det.remove(prop)
    j['detected_by'] = det
    j['reseed'] = {prop: {'exit': rc, 'keys': keys} for prop, (rc, keys) in res.items()}
    json.dump(j, open(p, 'w'), indent=1)
    n += 1
print(n, 'seeds updated;', sum(1 for r in obs.values() if not any(rc == 1 for rc, _ in r.values())), 'not reported by any property tried')
for name, res in sorted(obs.items()):
    if not any(rc == 1 for rc, _ in res.values()):
        print('  NOT REPORTED:', name, {k: v[0] for k, v in res.items()})
