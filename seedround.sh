#!/bin/sh
# seedround.sh <root> : reads lines "<Cxx> <n-in-root> <name> [other props...]" from stdin; runs seedcheck for each
root="$1"
cd /verif
while read id n name others; do
  [ -z "$id" ] && continue
  d="$root/$id/SEED/$n"
  [ -f "$d/patch.diff" ] || { echo "$id-$name: no patch"; continue; }
  echo "=== $id-$name $(date +%H:%M:%S)"
  python3 seedcheck.py "$d" "$id" $others --name=$name > /tmp/seedcheck-$id-$name.json 2>&1
  python3 -c "
import json,sys
try:
  t=open('/tmp/seedcheck-$id-$name.json').read(); j=json.loads(t[t.index('{'):])
  print('$id-$name', 'valid' if j['valid'] else 'INVALID', 'detected_by', j['detected_by'], {k:(v['exit'],v['wall_s'],v['keys'][:2]) for k,v in j['checks'].items()})
except Exception as e: print('$id-$name', 'ERROR', e)
"
done
