#!/usr/bin/env python3
"""Validates a seeded change delivered by a sub-agent and runs our checks against it.

  seedcheck.py /tmp/seed/C07/SEED/1 C07 [other property ids to try ...]

Steps (all in a scratch git worktree of /repo, removed afterwards):
  1. the patch applies to /repo HEAD and the package builds
  2. the repository's own test suite still passes with the patch
  3. the demonstration fails with the patch and passes without it
  4. ./check <id> quick --mutant patch (overlay, /repo untouched) reports VIOLATION (exit 1)
Writes /verif/seeded/<id>-<n>/{patch.diff, demo files, meta.json} when steps 1-3 hold.
"""
import json, os, shutil, subprocess, sys, glob, re, time

ENV = dict(os.environ, GOFLAGS="-mod=mod", GOPROXY="off")
for k in ("GOTOOLCHAIN", "GOSUMDB"):
    ENV.pop(k, None)


def run(cmd, cwd=None, timeout=1200):
    p = subprocess.run(cmd, cwd=cwd, env=ENV, shell=isinstance(cmd, str), capture_output=True, text=True, timeout=timeout)
    return p.returncode, (p.stdout + p.stderr)


def main():
    seed, prop = sys.argv[1].rstrip("/"), sys.argv[2]
    others = [a for a in sys.argv[3:] if not a.startswith("--")]
    n = os.path.basename(seed)
    for a in sys.argv[3:]:
        if a.startswith("--name="):
            n = a[len("--name="):]
    patch = os.path.join(seed, "patch.diff")
    meta = {"property": prop, "seed": n, "source": seed}
    wt = f"/tmp/seedwt-{prop}-{n}-{os.getpid()}"
    run(["git", "-C", "/repo", "worktree", "add", "--detach", "-q", wt, "HEAD"])
    try:
        rc, out = run(["git", "apply", "--check", patch], cwd=wt)
        if rc != 0:
            rc, out = run(f"patch -p1 --dry-run < {patch}", cwd=wt)
        meta["applies"] = rc == 0
        if rc != 0:
            meta["apply_error"] = out[-800:]
            print(json.dumps(meta, indent=1)); return 1
        # demo files
        demos = [f for f in glob.glob(os.path.join(seed, "*")) if not f.endswith(("patch.diff", "notes.md", ".diff", ".md", ".log", ".txt"))]
        meta["demo_files"] = [os.path.basename(d) for d in demos]

        external = False
        for d in demos:
            if d.endswith("_test.go"):
                pm = re.search(r"^package\s+(\w+)", open(d).read(), re.M)
                if pm and pm.group(1) not in ("sftp", "sftp_test"):
                    external = True

        def place():
            placed = []
            if external:
                sub = os.path.join(wt, "zz_seed_demo")
                os.makedirs(sub, exist_ok=True)
                for d in demos:
                    if os.path.isfile(d):
                        shutil.copy(d, os.path.join(sub, os.path.basename(d)))
                return [sub]
            for d in demos:
                dst = os.path.join(wt, os.path.basename(d))
                if os.path.isdir(d):
                    shutil.copytree(d, dst)
                else:
                    shutil.copy(d, dst)
                placed.append(dst)
            return placed

        def demo_cmd():
            tests, tags = [], []
            for d in demos:
                if d.endswith("_test.go"):
                    src = open(d).read()
                    tests += re.findall(r"^func (Test\w+)\(", src, re.M)
                    m = re.search(r"^//go:build\s+(.*)$", src, re.M)
                    if m:
                        for w in re.findall(r"[A-Za-z_][A-Za-z0-9_]*", m.group(1)):
                            if w not in ("linux", "unix", "darwin", "windows", "freebsd", "amd64", "arm64", "cgo", "race"):
                                tags.append(w)
            if tests:
                cmd = ["go", "test", "-vet=off", "-count=1", "-timeout", "180s"]
                if tags:
                    cmd += ["-tags", ",".join(sorted(set(tags)))]
                return cmd + ["-run", "^(" + "|".join(tests) + ")$", "./zz_seed_demo/" if external else "."], tests
            for d in demos:
                if os.path.isdir(d):
                    return ["go", "run", "./" + os.path.basename(d)], []
            return None, []

        cmd, tests = demo_cmd()
        meta["demo_cmd"] = " ".join(cmd) if cmd else None
        # without the patch: demo passes
        placed = place()
        rc0, out0 = run(cmd, cwd=wt) if cmd else (1, "no demo")
        meta["demo_passes_without_change"] = rc0 == 0
        # with the patch
        rc, out = run(["git", "apply", patch], cwd=wt)
        if rc != 0:
            run(f"patch -p1 < {patch}", cwd=wt)
        rc, out = run(["go", "build", "./..."], cwd=wt)
        meta["builds"] = rc == 0
        rc1, out1 = run(cmd, cwd=wt) if cmd else (0, "")
        meta["demo_fails_with_change"] = rc1 != 0
        meta["demo_output_with_change"] = out1[-600:]
        # repository's own tests with the patch (demo removed)
        for p in placed:
            if os.path.isdir(p):
                shutil.rmtree(p)
            else:
                os.remove(p)
        rc, out = run(["go", "test", "-vet=off", "-count=1", "./..."], cwd=wt)
        meta["repo_tests_pass_with_change"] = rc == 0
        if rc != 0:
            meta["repo_tests_output"] = out[-800:]
    finally:
        run(["git", "-C", "/repo", "worktree", "remove", "--force", wt])
    meta["valid"] = bool(meta.get("builds") and meta.get("repo_tests_pass_with_change") and meta.get("demo_fails_with_change") and meta.get("demo_passes_without_change"))
    # our checks
    results = {}
    for p in [prop] + others:
        t0 = time.time()
        rc, out = run(["./check", p, "quick", "--mutant", patch], cwd="/verif", timeout=3000)
        keys = re.findall(r"^\s+key: (.*)$", out, re.M)
        results[p] = {"exit": rc, "violations": len(re.findall(r"^VIOLATION", out, re.M)), "keys": keys[:6], "wall_s": round(time.time() - t0, 1)}
        if rc == 2:
            results[p]["engine_error"] = out[-600:]
    meta["checks"] = results
    meta["detected_by"] = [p for p, r in results.items() if r["exit"] == 1]
    meta["ran"] = time.strftime("%Y-%m-%d %H:%M:%S")
    if meta["valid"]:
        dst = f"/verif/seeded/{prop}-{n}"
        os.makedirs(dst, exist_ok=True)
        shutil.copy(patch, os.path.join(dst, "patch.diff"))
        for d in demos:
            if os.path.isdir(d):
                shutil.copytree(d, os.path.join(dst, os.path.basename(d)), dirs_exist_ok=True)
            else:
                # keep demo sources from being compiled as part of /verif
                shutil.copy(d, os.path.join(dst, os.path.basename(d) + ".txt"))
        if os.path.exists(os.path.join(seed, "notes.md")):
            shutil.copy(os.path.join(seed, "notes.md"), os.path.join(dst, "notes.md"))
        json.dump(meta, open(os.path.join(dst, "meta.json"), "w"), indent=1)
    print(json.dumps({k: meta[k] for k in ("property", "seed", "valid", "detected_by", "checks")}, indent=1))
    return 0


if __name__ == "__main__":
    sys.exit(main())
