// vinstr: type-directed source instrumenter for package sftp (DESIGN.md §2.1).
//
//	vinstr -repo /repo -out <scratch> [-workers N] [-plain] [-add file.go ...]
//
// Writes rewritten copies of the non-test files of the package in -repo into <scratch>/src and
// an overlay file <scratch>/overlay.json that maps the original paths onto them; the files given
// with -add are added to the package as zz_verif_<name>.  With -plain nothing is rewritten (only
// the added files are overlaid).  Exit status 2 = "cannot instrument".
package main

import (
	"encoding/json"
	"flag"
	"fmt"
	"go/ast"
	"go/build"
	"go/format"
	"go/importer"
	"go/parser"
	"go/token"
	"go/types"
	"os"
	"path/filepath"
	"sort"
	"strconv"
	"strings"

	"golang.org/x/tools/go/ast/astutil"
)

const shim = "verif/vsched"

var (
	fset    = token.NewFileSet()
	info    *types.Info
	tmpN    int
	count   = map[string]int{}
	workers int
)

func die(format string, a ...any) {
	fmt.Fprintf(os.Stderr, "vinstr: cannot instrument: "+format+"\n", a...)
	os.Exit(2)
}

func id(n string) *ast.Ident { return ast.NewIdent(n) }
func sel(fn string) ast.Expr { return &ast.SelectorExpr{X: id("vsched"), Sel: id(fn)} }
func call(fn string, args ...ast.Expr) *ast.CallExpr {
	return &ast.CallExpr{Fun: sel(fn), Args: args}
}
func tmp(p string) *ast.Ident { tmpN++; return id(fmt.Sprintf("_vs%s%d", p, tmpN)) }
func define(lhs *ast.Ident, rhs ast.Expr) ast.Stmt {
	return &ast.AssignStmt{Lhs: []ast.Expr{lhs}, Tok: token.DEFINE, Rhs: []ast.Expr{rhs}}
}
func strlit(s string) ast.Expr { return &ast.BasicLit{Kind: token.STRING, Value: strconv.Quote(s)} }
func pos(n ast.Node) ast.Expr {
	p := fset.Position(n.Pos())
	return strlit(fmt.Sprintf("%s:%d", filepath.Base(p.Filename), p.Line))
}

func typeOf(e ast.Expr) types.Type {
	tv, ok := info.Types[e]
	if !ok {
		return nil
	}
	return tv.Type
}

func isChan(e ast.Expr) bool {
	t := typeOf(e)
	if t == nil {
		return false
	}
	_, ok := t.Underlying().(*types.Chan)
	return ok
}

func isChanType(e ast.Expr) bool {
	tv, ok := info.Types[e]
	if !ok || !tv.IsType() {
		return false
	}
	_, ok = tv.Type.Underlying().(*types.Chan)
	return ok
}

func isBuiltin(e ast.Expr, name string) bool {
	i, ok := e.(*ast.Ident)
	if !ok || i.Name != name {
		return false
	}
	_, ok = info.Uses[i].(*types.Builtin)
	return ok
}

func unparen(e ast.Expr) ast.Expr {
	for {
		p, ok := e.(*ast.ParenExpr)
		if !ok {
			return e
		}
		e = p.X
	}
}

func isRecv(e ast.Expr) (*ast.UnaryExpr, bool) {
	u, ok := unparen(e).(*ast.UnaryExpr)
	return u, ok && u.Op == token.ARROW
}

// rewriteSelect turns a select into { temps; [label:] switch _s := vsched.Select(...); _s.Idx {...} }.
func rewriteSelect(s *ast.SelectStmt, label *ast.Ident) ast.Stmt {
	count["select"]++
	if len(s.Body.List) == 0 {
		return &ast.ExprStmt{X: call("BlockAt", pos(s))}
	}
	var pre []ast.Stmt
	var cases []ast.Expr
	var clauses []ast.Stmt
	hasDefault := false
	res := tmp("s")
	idx := 0
	for _, c := range s.Body.List {
		cc := c.(*ast.CommClause)
		if cc.Comm == nil {
			hasDefault = true
			clauses = append(clauses, &ast.CaseClause{Body: cc.Body})
			continue
		}
		var body []ast.Stmt
		switch comm := cc.Comm.(type) {
		case *ast.SendStmt:
			ch, v := tmp("c"), tmp("v")
			pre = append(pre, define(ch, comm.Chan), define(v, comm.Value))
			cases = append(cases, &ast.CallExpr{Fun: call("SendCase", ch), Args: []ast.Expr{v}})
		case *ast.ExprStmt:
			u, ok := isRecv(comm.X)
			if !ok {
				die("%s: select clause is not a receive", fset.Position(comm.Pos()))
			}
			ch := tmp("c")
			pre = append(pre, define(ch, u.X))
			cases = append(cases, call("RecvCase", ch))
		case *ast.AssignStmt:
			if len(comm.Rhs) != 1 {
				die("%s: unexpected select assignment", fset.Position(comm.Pos()))
			}
			u, ok := isRecv(comm.Rhs[0])
			if !ok {
				die("%s: select clause is not a receive", fset.Position(comm.Pos()))
			}
			ch := tmp("c")
			pre = append(pre, define(ch, u.X))
			cases = append(cases, call("RecvCase", ch))
			fn := "SelVal"
			if len(comm.Lhs) == 2 {
				fn = "SelVal2"
			}
			body = append(body, &ast.AssignStmt{Lhs: comm.Lhs, Tok: comm.Tok, Rhs: []ast.Expr{call(fn, ch, res)}})
		default:
			die("%s: unexpected select clause %T", fset.Position(cc.Pos()), comm)
		}
		body = append(body, cc.Body...)
		clauses = append(clauses, &ast.CaseClause{
			List: []ast.Expr{&ast.BasicLit{Kind: token.INT, Value: strconv.Itoa(idx)}},
			Body: body,
		})
		idx++
	}
	if !hasDefault {
		clauses = append(clauses, &ast.CaseClause{Body: []ast.Stmt{&ast.ExprStmt{X: &ast.CallExpr{Fun: id("panic"), Args: []ast.Expr{strlit("vsched: unreachable select arm")}}}}})
	}
	hd := "false"
	if hasDefault {
		hd = "true"
	}
	args := append([]ast.Expr{pos(s), id(hd)}, cases...)
	var sw ast.Stmt = &ast.SwitchStmt{
		Init: define(res, call("Select", args...)),
		Tag:  &ast.SelectorExpr{X: res, Sel: id("Idx")},
		Body: &ast.BlockStmt{List: clauses},
	}
	if label != nil {
		sw = &ast.LabeledStmt{Label: label, Stmt: sw}
	}
	return &ast.BlockStmt{List: append(pre, sw)}
}

func rewriteGo(g *ast.GoStmt) ast.Stmt {
	count["go"]++
	c := g.Call
	if fl, ok := c.Fun.(*ast.FuncLit); ok && len(c.Args) == 0 {
		return &ast.ExprStmt{X: call("Go", pos(g), fl)}
	}
	// general form: the function value and the arguments are evaluated now
	var pre []ast.Stmt
	f := tmp("f")
	pre = append(pre, define(f, c.Fun))
	var args []ast.Expr
	for _, a := range c.Args {
		t := tmp("a")
		pre = append(pre, define(t, a))
		args = append(args, t)
	}
	inner := &ast.CallExpr{Fun: f, Args: args, Ellipsis: c.Ellipsis}
	fl := &ast.FuncLit{Type: &ast.FuncType{Params: &ast.FieldList{}}, Body: &ast.BlockStmt{List: []ast.Stmt{&ast.ExprStmt{X: inner}}}}
	pre = append(pre, &ast.ExprStmt{X: call("Go", pos(g), fl)})
	return &ast.BlockStmt{List: pre}
}

func notStmt(x ast.Expr, then ast.Stmt) ast.Stmt {
	return &ast.IfStmt{Cond: &ast.UnaryExpr{Op: token.NOT, X: x}, Body: &ast.BlockStmt{List: []ast.Stmt{then}}}
}

func rewriteRangeChan(r *ast.RangeStmt) ast.Stmt {
	count["rangechan"]++
	ok := tmp("ok")
	brk := &ast.BranchStmt{Tok: token.BREAK}
	if r.Key == nil {
		recv := &ast.AssignStmt{Lhs: []ast.Expr{id("_"), ok}, Tok: token.DEFINE, Rhs: []ast.Expr{call("Recv2", pos(r), r.X)}}
		body := append([]ast.Stmt{recv, notStmt(ok, brk)}, r.Body.List...)
		return &ast.ForStmt{Body: &ast.BlockStmt{List: body}}
	}
	if r.Tok == token.ASSIGN {
		decl := &ast.DeclStmt{Decl: &ast.GenDecl{Tok: token.VAR, Specs: []ast.Spec{&ast.ValueSpec{Names: []*ast.Ident{ok}, Type: id("bool")}}}}
		recv := &ast.AssignStmt{Lhs: []ast.Expr{r.Key, ok}, Tok: token.ASSIGN, Rhs: []ast.Expr{call("Recv2", pos(r), r.X)}}
		body := append([]ast.Stmt{recv, notStmt(ok, brk)}, r.Body.List...)
		return &ast.BlockStmt{List: []ast.Stmt{decl, &ast.ForStmt{Body: &ast.BlockStmt{List: body}}}}
	}
	recv := &ast.AssignStmt{Lhs: []ast.Expr{r.Key, ok}, Tok: token.DEFINE, Rhs: []ast.Expr{call("Recv2", pos(r), r.X)}}
	body := append([]ast.Stmt{recv, notStmt(ok, brk)}, r.Body.List...)
	return &ast.ForStmt{Body: &ast.BlockStmt{List: body}}
}

func orderedKey(t types.Type) bool {
	m, ok := t.Underlying().(*types.Map)
	if !ok {
		return false
	}
	b, ok := m.Key().Underlying().(*types.Basic)
	return ok && b.Info()&(types.IsInteger|types.IsString|types.IsFloat) != 0
}

func isBlank(e ast.Expr) bool {
	i, ok := e.(*ast.Ident)
	return ok && i.Name == "_"
}

// rewriteRangeMap iterates a map in sorted key order (hash iteration order is owned, §2.6).
func rewriteRangeMap(r *ast.RangeStmt) ast.Stmt {
	if r.Tok != token.DEFINE {
		return nil
	}
	count["rangemap"]++
	m := tmp("m")
	var key ast.Expr = tmp("k")
	if r.Key != nil && !isBlank(r.Key) {
		key = r.Key
	}
	var body []ast.Stmt
	ok := tmp("ok")
	var val ast.Expr = id("_")
	if r.Value != nil && !isBlank(r.Value) {
		val = r.Value
	}
	body = append(body, &ast.AssignStmt{Lhs: []ast.Expr{val, ok}, Tok: token.DEFINE, Rhs: []ast.Expr{&ast.IndexExpr{X: m, Index: key}}})
	body = append(body, notStmt(ok, &ast.BranchStmt{Tok: token.CONTINUE}))
	body = append(body, r.Body.List...)
	loop := &ast.RangeStmt{Key: id("_"), Value: key, Tok: token.DEFINE, X: call("SortedKeys", m), Body: &ast.BlockStmt{List: body}}
	return &ast.BlockStmt{List: []ast.Stmt{define(m, r.X), loop}}
}

func rewriteFile(f *ast.File) {
	astutil.Apply(f, nil, func(c *astutil.Cursor) bool {
		switch n := c.Node().(type) {
		case *ast.SelectStmt:
			if ls, ok := c.Parent().(*ast.LabeledStmt); ok {
				_ = ls // handled at the LabeledStmt
				return true
			}
			c.Replace(rewriteSelect(n, nil))
		case *ast.LabeledStmt:
			switch st := n.Stmt.(type) {
			case *ast.SelectStmt:
				c.Replace(rewriteSelect(st, n.Label))
			case *ast.BlockStmt:
				// a labelled range statement that was rewritten into a block: move the label onto the loop
				if len(st.List) == 2 {
					if _, ok := st.List[1].(*ast.ForStmt); ok {
						st.List[1] = &ast.LabeledStmt{Label: n.Label, Stmt: st.List[1]}
						c.Replace(st)
					} else if _, ok := st.List[1].(*ast.RangeStmt); ok {
						st.List[1] = &ast.LabeledStmt{Label: n.Label, Stmt: st.List[1]}
						c.Replace(st)
					}
				}
			}
		case *ast.SendStmt:
			if cc, ok := c.Parent().(*ast.CommClause); ok && cc.Comm == ast.Stmt(n) {
				return true // the communication of a select clause, handled there
			}
			count["send"]++
			c.Replace(&ast.ExprStmt{X: &ast.CallExpr{Fun: call("SendTo", pos(n), n.Chan), Args: []ast.Expr{n.Value}}})
		case *ast.UnaryExpr:
			if n.Op != token.ARROW {
				return true
			}
			if inComm(c) {
				return true
			}
			count["recv"]++
			fn := "Recv"
			if as, ok := c.Parent().(*ast.AssignStmt); ok && len(as.Lhs) == 2 && len(as.Rhs) == 1 {
				fn = "Recv2"
			}
			if vs, ok := c.Parent().(*ast.ValueSpec); ok && len(vs.Names) == 2 && len(vs.Values) == 1 {
				fn = "Recv2"
			}
			c.Replace(call(fn, pos(n), n.X))
		case *ast.CallExpr:
			switch {
			case isBuiltin(n.Fun, "close"):
				count["close"]++
				c.Replace(call("Close", pos(n), n.Args[0]))
			case isBuiltin(n.Fun, "len") && isChan(n.Args[0]):
				count["len"]++
				c.Replace(call("Len", n.Args[0]))
			case isBuiltin(n.Fun, "make") && isChanType(n.Args[0]):
				count["make"]++
				var size ast.Expr = &ast.BasicLit{Kind: token.INT, Value: "0"}
				if len(n.Args) > 1 {
					size = n.Args[1]
				}
				c.Replace(&ast.CallExpr{Fun: &ast.IndexExpr{X: sel("MakeChan"), Index: n.Args[0]}, Args: []ast.Expr{size}})
			}
		case *ast.GoStmt:
			c.Replace(rewriteGo(n))
		case *ast.RangeStmt:
			if isChan(n.X) {
				c.Replace(rewriteRangeChan(n))
			} else if t := typeOf(n.X); t != nil && orderedKey(t) {
				if r := rewriteRangeMap(n); r != nil {
					c.Replace(r)
				} else {
					die("%s: range over a map with assignment form", fset.Position(n.Pos()))
				}
			} else if t != nil {
				if _, ok := t.Underlying().(*types.Map); ok {
					die("%s: range over a map whose keys cannot be sorted", fset.Position(n.Pos()))
				}
			}
		case *ast.ValueSpec:
			if workers > 0 && len(n.Names) == 1 && n.Names[0].Name == "SftpServerWorkerCount" && len(n.Values) == 1 {
				n.Values[0] = &ast.BasicLit{Kind: token.INT, Value: strconv.Itoa(workers)}
				count["workers"]++
			}
		}
		return true
	})
}

// inComm reports whether the receive expression under the cursor is the communication of a select
// clause (those are rewritten by rewriteSelect).
func inComm(c *astutil.Cursor) bool {
	switch p := c.Parent().(type) {
	case *ast.ExprStmt:
		return commStmts[p]
	case *ast.AssignStmt:
		return commStmts[p]
	case *ast.ParenExpr:
		return commParens[p]
	}
	return false
}

var subst = map[string]string{}

var (
	commStmts  = map[ast.Stmt]bool{}
	commParens = map[*ast.ParenExpr]bool{}
)

func markComms(f *ast.File) {
	ast.Inspect(f, func(n ast.Node) bool {
		cc, ok := n.(*ast.CommClause)
		if !ok || cc.Comm == nil {
			return true
		}
		commStmts[cc.Comm] = true
		var e ast.Expr
		switch s := cc.Comm.(type) {
		case *ast.ExprStmt:
			e = s.X
		case *ast.AssignStmt:
			if len(s.Rhs) == 1 {
				e = s.Rhs[0]
			}
		}
		for e != nil {
			p, ok := e.(*ast.ParenExpr)
			if !ok {
				break
			}
			commParens[p] = true
			e = p.X
		}
		return true
	})
}

// leftover counts constructs that must not survive instrumentation.
func leftover(f *ast.File) (n int, where string) {
	ast.Inspect(f, func(x ast.Node) bool {
		bad := false
		switch v := x.(type) {
		case *ast.SendStmt, *ast.SelectStmt, *ast.GoStmt:
			bad = true
		case *ast.UnaryExpr:
			bad = v.Op == token.ARROW
		}
		if bad {
			n++
			if where == "" {
				where = fset.Position(x.Pos()).String()
			}
		}
		return true
	})
	return
}

type multi []string

func (m *multi) String() string     { return strings.Join(*m, ",") }
func (m *multi) Set(s string) error { *m = append(*m, s); return nil }

func main() {
	repo := flag.String("repo", "/repo", "")
	out := flag.String("out", "", "")
	plain := flag.Bool("plain", false, "")
	flag.IntVar(&workers, "workers", 0, "")
	var adds, substs multi
	flag.Var(&adds, "add", "")
	flag.Var(&substs, "subst", "orig.go=edited.go: use the edited file's content in place of the original (mutant testing)")
	flag.Parse()
	if *out == "" {
		die("no -out")
	}
	src := filepath.Join(*out, "src")
	if err := os.MkdirAll(src, 0o755); err != nil {
		die("%v", err)
	}
	overlay := map[string]string{}
	for _, sb := range substs {
		if i := strings.Index(sb, "="); i > 0 {
			subst[sb[:i]] = sb[i+1:]
			overlay[sb[:i]] = sb[i+1:]
		}
	}
	if !*plain {
		instrument(*repo, src, overlay)
	}
	for _, extra := range adds {
		abs, _ := filepath.Abs(extra)
		overlay[filepath.Join(*repo, "zz_verif_"+filepath.Base(extra))] = abs
	}
	js, _ := json.MarshalIndent(map[string]any{"Replace": overlay}, "", " ")
	if err := os.WriteFile(filepath.Join(*out, "overlay.json"), js, 0o644); err != nil {
		die("%v", err)
	}
	var ks []string
	for k, v := range count {
		ks = append(ks, fmt.Sprintf("%s=%d", k, v))
	}
	sort.Strings(ks)
	fmt.Printf("vinstr: %s files=%d\n", strings.Join(ks, " "), len(overlay))
}

func instrument(repo, src string, overlay map[string]string) {
	ctx := build.Default
	bp, err := ctx.ImportDir(repo, 0)
	if err != nil {
		die("%v", err)
	}
	var files []*ast.File
	var names []string
	for _, fn := range bp.GoFiles {
		var srcBytes any
		if sp, ok := subst[filepath.Join(repo, fn)]; ok {
			b, err := os.ReadFile(sp)
			if err != nil {
				die("%v", err)
			}
			srcBytes = b
		}
		af, err := parser.ParseFile(fset, filepath.Join(repo, fn), srcBytes, parser.ParseComments)
		if err != nil {
			die("%v", err)
		}
		files = append(files, af)
		names = append(names, fn)
	}
	info = &types.Info{Types: map[ast.Expr]types.TypeAndValue{}, Uses: map[*ast.Ident]types.Object{}, Defs: map[*ast.Ident]types.Object{}}
	wd, _ := os.Getwd()
	os.Chdir(repo)
	conf := types.Config{Importer: importer.ForCompiler(fset, "source", nil)}
	if _, err := conf.Check(bp.ImportPath, fset, files, info); err != nil {
		die("type check: %v", err)
	}
	os.Chdir(wd)
	for i, f := range files {
		changed := false
		for _, im := range f.Imports {
			p, _ := strconv.Unquote(im.Path.Value)
			switch p {
			case "sync":
				im.Path.Value = strconv.Quote(shim + "/vsync")
				im.Name = id("sync")
				changed = true
			case "sync/atomic":
				im.Path.Value = strconv.Quote(shim + "/vatomic")
				im.Name = id("atomic")
				changed = true
			}
		}
		before := fmt.Sprint(count, tmpN)
		markComms(f)
		rewriteFile(f)
		if fmt.Sprint(count, tmpN) != before {
			astutil.AddImport(fset, f, shim)
			changed = true
		}
		if n, where := leftover(f); n > 0 {
			die("%d channel/go/select constructs left unrewritten, first at %s", n, where)
		}
		if !changed {
			continue // an unrewritten substituted file stays mapped to its substitute
		}
		dst := filepath.Join(src, names[i])
		w, err := os.Create(dst)
		if err != nil {
			die("%v", err)
		}
		if err := format.Node(w, fset, f); err != nil {
			die("%s: %v", names[i], err)
		}
		w.Close()
		overlay[filepath.Join(repo, names[i])] = dst
	}
}
